//! Call inlining support: the table of functions defined in the crate, and hygienic substitution of
//! parameters by argument expressions.  Everything here fails closed: whenever a call cannot be resolved to
//! exactly one in-crate definition, or the substitution could change the meaning of an identifier, the caller
//! gets `Err(reason)` and renders the call as an `Unknown` statement.

use crate::translate::{compact, UseMap};
use std::collections::{BTreeMap, BTreeSet};
use syn::visit::Visit;
use syn::visit_mut::VisitMut;
use syn::{Expr, Pat};

#[derive(Clone, Debug, PartialEq)]
pub enum Owner {
    /// `fn f(..)` at module level
    Free,
    /// `impl<..> Ty<..> { fn f(..) }`: canonical type-constructor id of `Ty`, its type arguments as written
    Inherent(String, Vec<String>),
    /// `impl<..> Tr for Ty<..> { fn f(..) }`
    TraitImpl(String, String, Vec<String>),
}

#[derive(Clone)]
pub struct FnDef {
    pub name: String,
    pub file: String,
    pub owner: Owner,
    pub attrs: Vec<syn::Attribute>,
    pub sig: syn::Signature,
    pub block: syn::Block,
    /// generic type parameters of the enclosing impl block (empty for free functions)
    pub impl_generics: Vec<String>,
}

#[derive(Default)]
pub struct FnTable {
    pub fns: Vec<FnDef>,
    pub uses: BTreeMap<String, UseMap>,
}

const MAX_DEPTH: usize = 4;

pub fn max_depth() -> usize {
    MAX_DEPTH
}

/// Attributes that do not change what a function does.
fn attr_harmless(a: &syn::Attribute) -> bool {
    let p = a.path();
    p.is_ident("inline") || p.is_ident("doc") || p.is_ident("allow") || p.is_ident("cold") || p.is_ident("must_use")
}

impl FnDef {
    pub fn from_item(f: &syn::ItemFn, file: &str) -> FnDef {
        FnDef {
            name: f.sig.ident.to_string(),
            file: file.to_string(),
            owner: Owner::Free,
            attrs: f.attrs.clone(),
            sig: f.sig.clone(),
            block: (*f.block).clone(),
            impl_generics: vec![],
        }
    }

    /// A definition whose body may be spliced in place of a call: a plain function returning `()`.
    pub fn inlinable(&self) -> Result<(), String> {
        if let Some(a) = self.attrs.iter().find(|a| !attr_harmless(a)) {
            return Err(format!("attribute #[{}] on fn {}", compact(&a.meta), self.name));
        }
        let s = &self.sig;
        if s.constness.is_some() || s.asyncness.is_some() || s.unsafety.is_some() || s.abi.is_some() || s.variadic.is_some() {
            return Err(format!("fn {} is const/async/unsafe/extern/variadic", self.name));
        }
        match &s.output {
            syn::ReturnType::Default => {}
            syn::ReturnType::Type(_, t) => match &**t {
                syn::Type::Tuple(tt) if tt.elems.is_empty() => {}
                o => return Err(format!("fn {} returns {}", self.name, compact(o))),
            },
        }
        Ok(())
    }

    pub fn type_params(&self) -> Vec<String> {
        self.sig.generics.type_params().map(|p| p.ident.to_string()).collect()
    }

    pub fn has_receiver(&self) -> bool {
        matches!(self.sig.inputs.first(), Some(syn::FnArg::Receiver(_)))
    }
}

impl FnTable {
    /// The free function a path call `name(..)` / `crate::m::name(..)` denotes, seen from `file`.
    pub fn resolve_free(&self, segs: &[String], file: &str) -> Result<&FnDef, String> {
        let name = segs.last().cloned().unwrap_or_default();
        let cands: Vec<&FnDef> = self.fns.iter().filter(|f| f.owner == Owner::Free && f.name == name).collect();
        if cands.is_empty() {
            return Err(format!("no function `{}` defined in the crate", name));
        }
        if cands.len() > 1 {
            return Err(format!("function name `{}` is defined {} times in the crate", name, cands.len()));
        }
        let d = cands[0];
        let in_crate_root = |r: &str| matches!(r, "crate" | "self" | "super");
        let ok = if segs.len() == 1 {
            let imported = self.uses.get(file).and_then(|u| u.get(&name));
            match imported {
                Some(full) => full.first().map(|r| in_crate_root(r)).unwrap_or(false),
                None => d.file == file,
            }
        } else {
            in_crate_root(&segs[0])
                || self
                    .uses
                    .get(file)
                    .and_then(|u| u.get(&segs[0]))
                    .and_then(|full| full.first())
                    .map(|r| in_crate_root(r))
                    .unwrap_or(false)
        };
        if ok {
            Ok(d)
        } else {
            Err(format!("`{}` is not visibly the crate's own function", segs.join("::")))
        }
    }

    /// The method / associated function `name` of the type constructor `tycon`: an inherent one if there is
    /// exactly one, else the only trait-impl one.
    pub fn resolve_assoc(&self, tycon: &str, name: &str) -> Result<&FnDef, String> {
        let inh: Vec<&FnDef> = self
            .fns
            .iter()
            .filter(|f| f.name == name && matches!(&f.owner, Owner::Inherent(t, _) if t == tycon))
            .collect();
        if inh.len() == 1 {
            return Ok(inh[0]);
        }
        if inh.len() > 1 {
            return Err(format!("{} inherent definitions of `{}` for {}", inh.len(), name, tycon));
        }
        let tr: Vec<&FnDef> = self
            .fns
            .iter()
            .filter(|f| f.name == name && matches!(&f.owner, Owner::TraitImpl(_, t, _) if t == tycon))
            .collect();
        match tr.len() {
            1 => Ok(tr[0]),
            0 => Err(format!("no method `{}` defined in the crate for {}", name, tycon)),
            n => Err(format!("{} trait-impl definitions of `{}` for {}", n, name, tycon)),
        }
    }
}

// ------------------------------------------------------------------------------------------------
// identifiers
// ------------------------------------------------------------------------------------------------

/// Every identifier bound by a pattern (let / for / match / closure parameter) or naming a nested item.
#[derive(Default)]
struct Binders {
    v: BTreeSet<String>,
}
impl<'ast> Visit<'ast> for Binders {
    fn visit_pat_ident(&mut self, p: &'ast syn::PatIdent) {
        self.v.insert(p.ident.to_string());
        syn::visit::visit_pat_ident(self, p);
    }
    fn visit_item_fn(&mut self, f: &'ast syn::ItemFn) {
        self.v.insert(f.sig.ident.to_string());
        syn::visit::visit_item_fn(self, f);
    }
}

pub fn binders_of_stmts(ss: &[syn::Stmt]) -> BTreeSet<String> {
    let mut x = Binders::default();
    for s in ss {
        x.visit_stmt(s);
    }
    x.v
}

/// Every identifier token of an expression.
pub fn idents_of_expr(e: &Expr) -> BTreeSet<String> {
    fn walk(ts: proc_macro2::TokenStream, out: &mut BTreeSet<String>) {
        for t in ts {
            match t {
                proc_macro2::TokenTree::Ident(i) => {
                    out.insert(i.to_string());
                }
                proc_macro2::TokenTree::Group(g) => walk(g.stream(), out),
                _ => {}
            }
        }
    }
    let mut out = BTreeSet::new();
    walk(quote::ToTokens::to_token_stream(e), &mut out);
    out
}

fn single_ident(e: &Expr) -> Option<String> {
    if let Expr::Path(p) = e {
        if p.qself.is_none() && p.attrs.is_empty() && p.path.leading_colon.is_none() && p.path.segments.len() == 1 && p.path.segments[0].arguments.is_none() {
            return Some(p.path.segments[0].ident.to_string());
        }
    }
    None
}

/// How often each variable occurs (as an expression) in some statements.
struct Uses<'m> {
    names: &'m BTreeSet<String>,
    count: BTreeMap<String, usize>,
    in_macro: bool,
}
impl<'m, 'ast> Visit<'ast> for Uses<'m> {
    fn visit_expr(&mut self, e: &'ast Expr) {
        if let Some(x) = single_ident(e) {
            if self.names.contains(&x) {
                *self.count.entry(x).or_insert(0) += 1;
            }
        }
        syn::visit::visit_expr(self, e);
    }
    fn visit_macro(&mut self, m: &'ast syn::Macro) {
        // a macro body is opaque: any mention of a substituted name in it cannot be rewritten
        let mut ids = BTreeSet::new();
        fn walk(ts: proc_macro2::TokenStream, out: &mut BTreeSet<String>) {
            for t in ts {
                match t {
                    proc_macro2::TokenTree::Ident(i) => {
                        out.insert(i.to_string());
                    }
                    proc_macro2::TokenTree::Group(g) => walk(g.stream(), out),
                    _ => {}
                }
            }
        }
        walk(m.tokens.clone(), &mut ids);
        if ids.iter().any(|i| self.names.contains(i)) {
            self.in_macro = true;
        }
    }
}

pub fn use_counts(ss: &[syn::Stmt], names: &BTreeSet<String>) -> Result<BTreeMap<String, usize>, String> {
    let mut u = Uses { names, count: BTreeMap::new(), in_macro: false };
    for s in ss {
        u.visit_stmt(s);
    }
    if u.in_macro {
        return Err("a substituted variable is mentioned inside a macro invocation".into());
    }
    Ok(u.count)
}

// ------------------------------------------------------------------------------------------------
// pure expressions and substitution
// ------------------------------------------------------------------------------------------------

#[derive(Clone, Copy, PartialEq, Debug)]
pub enum Purity {
    /// `x`, `self`, `self.f`, `&self.f`, `*x`, `&**self`: may be duplicated freely
    Place,
    /// a zero-argument method call on a place (`self.iter()`, `self.as_ref()`): evaluated once
    Once,
}

/// Is `e` an expression without side effects that the DSL could understand wherever it is moved to?
pub fn purity(e: &Expr) -> Option<Purity> {
    match e {
        Expr::Paren(p) if p.attrs.is_empty() => purity(&p.expr),
        Expr::Group(g) => purity(&g.expr),
        Expr::Path(p) if p.qself.is_none() && p.attrs.is_empty() && p.path.segments.len() == 1 && p.path.segments[0].arguments.is_none() => Some(Purity::Place),
        Expr::Field(f) if f.attrs.is_empty() => match purity(&f.base)? {
            Purity::Place => Some(Purity::Place),
            Purity::Once => None,
        },
        Expr::Reference(r) if r.attrs.is_empty() && r.mutability.is_none() => purity(&r.expr),
        Expr::Unary(u) if u.attrs.is_empty() && matches!(u.op, syn::UnOp::Deref(_)) => purity(&u.expr),
        // `Self::erase(x)`, `Gc::erase(x)`, `GcWeak::erase(x)`: the translator reads these as the identity on a pointer
        Expr::Call(c) if c.attrs.is_empty() && c.args.len() == 1 => match &*c.func {
            Expr::Path(p)
                if p.qself.is_none()
                    && p.path.segments.len() == 2
                    && p.path.segments[1].ident == "erase"
                    && p.path.segments.iter().all(|s| s.arguments.is_none())
                    && ["Self", "Gc", "GcWeak"].iter().any(|n| p.path.segments[0].ident == n) =>
            {
                purity(&c.args[0])
            }
            _ => None,
        },
        Expr::MethodCall(m) if m.attrs.is_empty() && m.args.is_empty() && m.turbofish.is_none() => match purity(&m.receiver)? {
            Purity::Place => Some(Purity::Once),
            Purity::Once => None,
        },
        _ => None,
    }
}

struct Subst<'m> {
    map: &'m BTreeMap<String, Expr>,
}
impl<'m> VisitMut for Subst<'m> {
    fn visit_expr_mut(&mut self, e: &mut Expr) {
        if let Some(x) = single_ident(e) {
            if let Some(to) = self.map.get(&x) {
                *e = match to {
                    Expr::Path(_) => to.clone(),
                    other => Expr::Paren(syn::ExprParen { attrs: vec![], paren_token: Default::default(), expr: Box::new(other.clone()) }),
                };
                return; // do not look inside the replacement
            }
        }
        syn::visit_mut::visit_expr_mut(self, e);
    }
    fn visit_macro_mut(&mut self, _m: &mut syn::Macro) {}
}

/// Simultaneous substitution of variables by expressions in `ss`.
/// Refuses (Err) when a binder of `ss` could capture a variable of a replacement or shadows a substituted name,
/// when a substituted name occurs inside a macro, or when an evaluate-once replacement would be duplicated.
pub fn substitute(ss: &[syn::Stmt], map: &BTreeMap<String, Expr>, pure: &BTreeMap<String, Purity>) -> Result<Vec<syn::Stmt>, String> {
    let binders = binders_of_stmts(ss);
    for (k, v) in map {
        if binders.contains(k) {
            return Err(format!("`{}` is rebound inside the code it is substituted into", k));
        }
        let ids = idents_of_expr(v);
        if let Some(c) = ids.iter().find(|i| binders.contains(*i)) {
            return Err(format!("binder `{}` would capture a variable of the replacement `{}`", c, compact(v)));
        }
    }
    let names: BTreeSet<String> = map.keys().cloned().collect();
    let counts = use_counts(ss, &names)?;
    for (k, p) in pure {
        if *p == Purity::Once && counts.get(k).copied().unwrap_or(0) > 1 {
            return Err(format!("`{}` stands for a call and is used {} times", k, counts[k]));
        }
    }
    let mut out: Vec<syn::Stmt> = ss.to_vec();
    let mut s = Subst { map };
    for st in out.iter_mut() {
        s.visit_stmt_mut(st);
    }
    Ok(out)
}

/// `x` or `mut x` (optionally with a type annotation): the bound name.
pub fn simple_binder(p: &Pat) -> Option<(String, bool)> {
    match p {
        Pat::Ident(i) if i.by_ref.is_none() && i.subpat.is_none() && i.attrs.is_empty() => Some((i.ident.to_string(), i.mutability.is_some())),
        Pat::Type(t) if t.attrs.is_empty() => simple_binder(&t.pat),
        Pat::Paren(p) => simple_binder(&p.pat),
        _ => None,
    }
}
