//! syn AST -> IR. Anything not recognised becomes an `Unknown` node (the Coq checkers fail closed).

use crate::inline::{self, FnDef, FnTable, Owner};
use crate::ir::*;
use quote::ToTokens;
use std::cell::RefCell;
use std::collections::BTreeMap;
use syn::{Block, Expr, Pat, Type};

/// Token string with insignificant whitespace removed (`A :: Item` -> `A::Item`).
pub fn compact<T: ToTokens>(t: &T) -> String {
    compact_str(&t.to_token_stream().to_string())
}

pub fn compact_str(s: &str) -> String {
    let cs: Vec<char> = s.chars().collect();
    let mut o = String::new();
    let isw = |c: char| c.is_alphanumeric() || c == '_';
    let mut i = 0;
    while i < cs.len() {
        if cs[i].is_whitespace() {
            let mut j = i;
            while j < cs.len() && cs[j].is_whitespace() {
                j += 1;
            }
            let prev = o.chars().last();
            let next = cs.get(j).copied();
            if let (Some(p), Some(n)) = (prev, next) {
                if isw(p) && isw(n) {
                    o.push(' ');
                }
            }
            i = j;
        } else {
            o.push(cs[i]);
            i += 1;
        }
    }
    o
}

pub struct Ctx<'a> {
    /// name of the `&mut impl Trace` parameter (`cc`), or `self` inside `Trace::trace`'s default
    pub tracer: String,
    /// does `self` denote the container being traced?
    pub self_is_container: bool,
    /// the functions defined in the crate (for inlining calls); `None`: no call is ever inlined
    pub fns: Option<&'a FnTable>,
    /// file whose names are in scope (resolution of free-function calls)
    pub file: String,
    /// canonical type constructor and type arguments (as written) of the impl being translated
    pub self_tycon: Option<String>,
    pub self_args: Vec<String>,
    /// names of the functions currently being inlined (recursion / depth guard)
    pub stack: RefCell<Vec<String>>,
    /// `fn` items declared in the enclosing blocks (innermost last)
    pub local_fns: RefCell<Vec<FnDef>>,
}

impl<'a> Ctx<'a> {
    pub fn plain(tracer: &str, self_is_container: bool) -> Ctx<'a> {
        Ctx {
            tracer: tracer.to_string(),
            self_is_container,
            fns: None,
            file: String::new(),
            self_tycon: None,
            self_args: vec![],
            stack: RefCell::new(vec![]),
            local_fns: RefCell::new(vec![]),
        }
    }
}

fn strip(e: &Expr) -> &Expr {
    match e {
        Expr::Paren(p) => strip(&p.expr),
        Expr::Group(g) => strip(&g.expr),
        _ => e,
    }
}

fn path_ident(e: &Expr) -> Option<String> {
    if let Expr::Path(p) = strip(e) {
        if p.qself.is_none() && p.path.segments.len() == 1 && p.path.segments[0].arguments.is_none() {
            return Some(p.path.segments[0].ident.to_string());
        }
    }
    None
}

fn is_self(e: &Expr) -> bool {
    path_ident(e).as_deref() == Some("self")
}

fn member_name(m: &syn::Member) -> String {
    match m {
        syn::Member::Named(i) => i.to_string(),
        syn::Member::Unnamed(i) => i.index.to_string(),
    }
}

/// `self`, `&self`, `*self`, `&*self`, `(self)`: the container itself.
fn is_self_like(e: &Expr) -> bool {
    match strip(e) {
        Expr::Reference(r) if r.mutability.is_none() => is_self_like(&r.expr),
        Expr::Unary(u) if matches!(u.op, syn::UnOp::Deref(_)) => is_self_like(&u.expr),
        e => is_self(e),
    }
}

/// Number of leading `*` and the innermost expression.
fn peel_derefs(e: &Expr) -> (usize, &Expr) {
    match strip(e) {
        Expr::Unary(u) if matches!(u.op, syn::UnOp::Deref(_)) => {
            let (n, i) = peel_derefs(&u.expr);
            (n + 1, i)
        }
        e => (0, e),
    }
}

fn bool_pat(p: &Pat) -> Option<bool> {
    match p {
        Pat::Lit(l) if l.attrs.is_empty() => match &l.lit {
            syn::Lit::Bool(b) => Some(b.value),
            _ => None,
        },
        Pat::Paren(p) => bool_pat(&p.pat),
        _ => None,
    }
}

fn ident_expr(name: &str) -> Expr {
    let id = syn::Ident::new(name, proc_macro2::Span::call_site());
    Expr::Path(syn::ExprPath { attrs: vec![], qself: None, path: syn::Path::from(id) })
}

/// `f`, `m::f`, `Self::f`, `f::<..>`: the path of a plain function call.
fn call_path(func: &Expr) -> Option<Vec<String>> {
    if let Expr::Path(p) = strip(func) {
        if p.qself.is_none() && p.attrs.is_empty() {
            let n = p.path.segments.len();
            if p.path.segments.iter().take(n.saturating_sub(1)).all(|s| s.arguments.is_none()) {
                return Some(p.path.segments.iter().map(|s| s.ident.to_string()).collect());
            }
        }
    }
    None
}

/// Negation normal form with constant folding of `!`; `&&` with a literal operand is folded as well.
pub fn nnf(b: BExpr) -> BExpr {
    fn neg(b: BExpr) -> BExpr {
        match b {
            BExpr::True => BExpr::False,
            BExpr::False => BExpr::True,
            BExpr::Not(x) => nnf(*x),
            BExpr::And(x, y) => BExpr::Or(Box::new(neg(*x)), Box::new(neg(*y))),
            BExpr::Or(x, y) => mk_and(neg(*x), neg(*y)),
            o => BExpr::Not(Box::new(o)),
        }
    }
    fn mk_and(x: BExpr, y: BExpr) -> BExpr {
        match (x, y) {
            (BExpr::True, o) | (o, BExpr::True) => o,
            (x, y) => BExpr::And(Box::new(x), Box::new(y)),
        }
    }
    match b {
        BExpr::Not(x) => neg(*x),
        BExpr::And(x, y) => mk_and(nnf(*x), nnf(*y)),
        BExpr::Or(x, y) => BExpr::Or(Box::new(nnf(*x)), Box::new(nnf(*y))),
        o => o,
    }
}

fn fix_generics_b(b: &BExpr, opaque: &[String], rename: &BTreeMap<String, String>) -> BExpr {
    match b {
        BExpr::Var(t) => {
            let root = t.split("::").next().unwrap_or("").to_string();
            if opaque.iter().any(|g| *g == root) {
                BExpr::Unknown(format!("{}::NEEDS_TRACE (a generic parameter of an inlined function)", t))
            } else if let Some(to) = rename.get(&root) {
                BExpr::Var(format!("{}{}", to, &t[root.len()..]))
            } else {
                b.clone()
            }
        }
        BExpr::Or(x, y) => BExpr::Or(Box::new(fix_generics_b(x, opaque, rename)), Box::new(fix_generics_b(y, opaque, rename))),
        BExpr::And(x, y) => BExpr::And(Box::new(fix_generics_b(x, opaque, rename)), Box::new(fix_generics_b(y, opaque, rename))),
        BExpr::Not(x) => BExpr::Not(Box::new(fix_generics_b(x, opaque, rename))),
        o => o.clone(),
    }
}

fn fix_generics(s: &Stmt, opaque: &[String], rename: &BTreeMap<String, String>) -> Stmt {
    let f = |x: &Stmt| Box::new(fix_generics(x, opaque, rename));
    match s {
        Stmt::Seq(a, b) => Stmt::Seq(f(a), f(b)),
        Stmt::ForEach(a, b, c) => Stmt::ForEach(a.clone(), b.clone(), f(c)),
        Stmt::MatchEnum(sc, arms) => Stmt::MatchEnum(sc.clone(), arms.iter().map(|(a, b, c)| (a.clone(), b.clone(), fix_generics(c, opaque, rename))).collect()),
        Stmt::IfConst(g, b) => Stmt::IfConst(fix_generics_b(g, opaque, rename), f(b)),
        Stmt::LetTuple(a, b) => Stmt::LetTuple(a.clone(), f(b)),
        o => o.clone(),
    }
}

impl<'a> Ctx<'a> {
    fn is_tracer(&self, e: &Expr) -> bool {
        // `cc`, `&mut *cc`, `&mut cc`
        match strip(e) {
            Expr::Reference(r) => self.is_tracer(&r.expr),
            Expr::Unary(u) if matches!(u.op, syn::UnOp::Deref(_)) => self.is_tracer(&u.expr),
            e => path_ident(e).as_deref() == Some(self.tracer.as_str()),
        }
    }

    pub fn place(&self, e: &Expr) -> Place {
        let unk = || Place::Unknown(compact(e));
        let e0 = strip(e);
        match e0 {
            Expr::Reference(r) => {
                if r.mutability.is_some() {
                    return unk();
                }
                let inner = strip(&r.expr);
                // &**self  /  &*self.borrow()
                let (n, core) = peel_derefs(inner);
                if self.self_is_container {
                    if n == 2 && is_self(core) {
                        return Place::Deref("DStarStar");
                    }
                    if n == 1 {
                        if let Expr::MethodCall(m) = core {
                            if is_self(&m.receiver) && m.args.is_empty() && m.turbofish.is_none() {
                                if m.method == "borrow" {
                                    return Place::Deref("DBorrow");
                                }
                            }
                        }
                    }
                    if n == 0 {
                        if let Expr::MethodCall(m) = core {
                            if is_self(&m.receiver) && m.args.is_empty() && m.method == "get" {
                                return Place::Deref("DGetCopy");
                            }
                        }
                    }
                }
                self.place(inner)
            }
            Expr::Unary(u) if matches!(u.op, syn::UnOp::Deref(_)) => {
                // *self, *x : a copy of / the referent of a plain variable
                let inner = strip(&u.expr);
                if is_self(inner) {
                    return if self.self_is_container { Place::SelfP } else { unk() };
                }
                if let Some(x) = path_ident(inner) {
                    if x != self.tracer {
                        return Place::Var(x);
                    }
                }
                unk()
            }
            Expr::Path(_) => match path_ident(e0) {
                Some(x) if x == "self" => {
                    if self.self_is_container { Place::SelfP } else { unk() }
                }
                Some(x) if x == self.tracer => unk(),
                Some(x) => Place::Var(x),
                None => unk(),
            },
            Expr::Field(f) => {
                if self.self_is_container && is_self(&f.base) {
                    Place::Field(member_name(&f.member))
                } else {
                    unk()
                }
            }
            Expr::MethodCall(m) => {
                if self.self_is_container && is_self(&m.receiver) && m.args.is_empty() && m.turbofish.is_none() {
                    match m.method.to_string().as_str() {
                        "get" => Place::Deref("DGetCopy"),
                        "as_ref" | "deref" => Place::Deref("DAsRef"),
                        _ => unk(),
                    }
                } else {
                    unk()
                }
            }
            Expr::Call(c) => {
                // Self::erase(*self), Gc::erase(*self), GcWeak::erase(x): identity on the pointer
                if let Expr::Path(p) = strip(&c.func) {
                    let segs: Vec<String> = p.path.segments.iter().map(|s| s.ident.to_string()).collect();
                    if p.qself.is_none()
                        && segs.len() == 2
                        && segs[1] == "erase"
                        && matches!(segs[0].as_str(), "Self" | "Gc" | "GcWeak")
                        && c.args.len() == 1
                    {
                        return self.place(&c.args[0]);
                    }
                }
                unk()
            }
            _ => unk(),
        }
    }

    fn iter_src(&self, e: &Expr) -> IterSrc {
        let unk = || IterSrc::Unknown(compact(e));
        if !self.self_is_container {
            return unk();
        }
        if is_self_like(e) {
            return IterSrc::SelfI;
        }
        match strip(e) {
            Expr::Reference(r) if r.mutability.is_none() => {
                if let Expr::Field(f) = strip(&r.expr) {
                    if is_self(&f.base) {
                        return IterSrc::Field(member_name(&f.member));
                    }
                }
                unk()
            }
            Expr::MethodCall(m) if m.args.is_empty() && m.turbofish.is_none() => {
                let name = m.method.to_string();
                if is_self_like(&m.receiver) {
                    if name == "into_iter" {
                        return IterSrc::SelfI;
                    }
                    return IterSrc::Method(name);
                }
                let recv = match strip(&m.receiver) {
                    Expr::Reference(r) if r.mutability.is_none() => strip(&r.expr),
                    x => x,
                };
                if let Expr::Field(f) = recv {
                    if is_self(&f.base) {
                        if name == "into_iter" {
                            return IterSrc::Field(member_name(&f.member));
                        }
                        return IterSrc::FieldMethod(member_name(&f.member), name);
                    }
                }
                unk()
            }
            _ => unk(),
        }
    }

    fn scrut(&self, e: &Expr) -> Scrut {
        let unk = || Scrut::Unknown(compact(e));
        if !self.self_is_container {
            return unk();
        }
        if is_self_like(e) {
            return Scrut::SelfS;
        }
        if let Expr::MethodCall(m) = strip(e) {
            if is_self_like(&m.receiver) && m.args.is_empty() && m.turbofish.is_none() {
                return Scrut::Method(m.method.to_string());
            }
        }
        unk()
    }

    /// A loop / let pattern: `t`, `(k, v)`, `&t`, `(A, B,)`. `None` if not understood.
    fn binders(&self, p: &Pat) -> Option<Vec<String>> {
        match p {
            Pat::Ident(i) if i.subpat.is_none() && i.by_ref.is_none() => Some(vec![i.ident.to_string()]),
            Pat::Wild(_) => Some(vec!["_".to_string()]),
            Pat::Reference(r) if r.mutability.is_none() => self.binders(&r.pat),
            Pat::Paren(p) => self.binders(&p.pat),
            Pat::Tuple(t) => {
                let mut v = Vec::new();
                for e in &t.elems {
                    let b = self.binders(e)?;
                    if b.len() != 1 {
                        return None;
                    }
                    v.push(b[0].clone());
                }
                Some(v)
            }
            _ => None,
        }
    }

    /// A match-arm / if-let pattern: `Some(t)`, `Ok(r)`, `None`, `Option::Some(t)`, `_`.
    fn variant_pat(&self, p: &Pat) -> Option<(String, Vec<String>)> {
        match p {
            Pat::TupleStruct(ts) if ts.qself.is_none() => {
                let v = ts.path.segments.last()?.ident.to_string();
                let mut bs = Vec::new();
                for e in &ts.elems {
                    let b = self.binders(e)?;
                    if b.len() != 1 {
                        return None;
                    }
                    bs.push(b[0].clone());
                }
                Some((v, bs))
            }
            Pat::Path(pp) if pp.qself.is_none() => Some((pp.path.segments.last()?.ident.to_string(), vec![])),
            Pat::Ident(i) if i.subpat.is_none() && i.by_ref.is_none() => {
                // a bare identifier in pattern position: a unit variant such as `None`
                let s = i.ident.to_string();
                if s.chars().next().map(|c| c.is_uppercase()).unwrap_or(false) {
                    Some((s, vec![]))
                } else {
                    None
                }
            }
            Pat::Wild(_) => Some(("_".to_string(), vec![])),
            Pat::Reference(r) if r.mutability.is_none() => self.variant_pat(&r.pat),
            Pat::Paren(p) => self.variant_pat(&p.pat),
            _ => None,
        }
    }

    /// A boolean constant expression, in negation normal form (`!(!a && !b)` is rendered as `a || b`; a
    /// negation that cannot be pushed to nothing stays and is rejected by the Coq checker).
    pub fn bexpr(&self, e: &Expr) -> BExpr {
        nnf(self.bexpr_raw(e))
    }

    fn bexpr_raw(&self, e: &Expr) -> BExpr {
        let unk = || BExpr::Unknown(compact(e));
        match strip(e) {
            Expr::Lit(l) => match &l.lit {
                syn::Lit::Bool(b) => {
                    if b.value { BExpr::True } else { BExpr::False }
                }
                _ => unk(),
            },
            Expr::Binary(b) => match b.op {
                // on `bool` constants `|` / `&` compute the same value as `||` / `&&` (no side effects to skip)
                syn::BinOp::Or(_) | syn::BinOp::BitOr(_) => BExpr::Or(Box::new(self.bexpr_raw(&b.left)), Box::new(self.bexpr_raw(&b.right))),
                syn::BinOp::And(_) | syn::BinOp::BitAnd(_) => BExpr::And(Box::new(self.bexpr_raw(&b.left)), Box::new(self.bexpr_raw(&b.right))),
                _ => unk(),
            },
            Expr::Unary(u) if matches!(u.op, syn::UnOp::Not(_)) => BExpr::Not(Box::new(self.bexpr_raw(&u.expr))),
            Expr::Block(b) if b.label.is_none() && b.attrs.is_empty() && b.block.stmts.len() == 1 => {
                if let syn::Stmt::Expr(e, None) = &b.block.stmts[0] {
                    self.bexpr_raw(e)
                } else {
                    unk()
                }
            }
            // `const { EXPR }`
            Expr::Const(c) if c.attrs.is_empty() && c.block.stmts.len() == 1 => {
                if let syn::Stmt::Expr(e, None) = &c.block.stmts[0] {
                    self.bexpr_raw(e)
                } else {
                    unk()
                }
            }
            Expr::Path(p) => {
                let segs = &p.path.segments;
                if segs.last().map(|s| s.ident == "NEEDS_TRACE").unwrap_or(false) {
                    if let Some(q) = &p.qself {
                        // <T as Collect<'gc>>::NEEDS_TRACE  /  <T>::NEEDS_TRACE
                        let trait_ok = segs.len() == 1
                            || (segs.len() == q.position + 1
                                && segs.iter().take(q.position).last().map(|s| s.ident == "Collect").unwrap_or(false));
                        if trait_ok {
                            let t = compact(&q.ty);
                            return if t == "Self" { BExpr::SelfNt } else { BExpr::Var(t) };
                        }
                        return unk();
                    }
                    if segs.len() >= 2 && segs.iter().all(|s| s.arguments.is_none()) {
                        let prefix: Vec<String> =
                            segs.iter().take(segs.len() - 1).map(|s| s.ident.to_string()).collect();
                        let t = prefix.join("::");
                        return if t == "Self" { BExpr::SelfNt } else { BExpr::Var(t) };
                    }
                }
                unk()
            }
            _ => unk(),
        }
    }

    fn seq(mut v: Vec<Stmt>) -> Stmt {
        v.retain(|s| *s != Stmt::Nop);
        let mut it = v.into_iter().rev();
        match it.next() {
            None => Stmt::Nop,
            Some(last) => it.fold(last, |acc, s| Stmt::Seq(Box::new(s), Box::new(acc))),
        }
    }

    /// The body of a function (`trace` itself, or a function inlined into it): a `return` leaves exactly
    /// this block.
    pub fn block(&self, b: &Block) -> Stmt {
        self.stmts(&b.stmts, true)
    }

    /// A block nested in a function body: `return` inside it is not understood.
    fn inner_block(&self, b: &Block) -> Stmt {
        self.stmts(&b.stmts, false)
    }

    fn stmts(&self, ss: &[syn::Stmt], top: bool) -> Stmt {
        // `fn` items declared in this block are callable from all of it; they are inlined at their call sites
        let n_locals = self.local_fns.borrow().len();
        for s in ss {
            if let syn::Stmt::Item(syn::Item::Fn(f)) = s {
                self.local_fns.borrow_mut().push(FnDef::from_item(f, &self.file));
            }
        }
        let r = self.stmts_in(ss, top);
        self.local_fns.borrow_mut().truncate(n_locals);
        r
    }

    fn stmts_in(&self, ss: &[syn::Stmt], top: bool) -> Stmt {
        let mut out = Vec::new();
        for (k, s) in ss.iter().enumerate() {
            match s {
                // `if !COND { return; } REST`  ==  `if COND { REST }`   (early-return guard, constant condition;
                // only at the top level of a function body, where `return` skips exactly REST)
                syn::Stmt::Expr(Expr::If(i), _)
                    if top && i.attrs.is_empty() && i.else_branch.is_none() && Self::is_bare_return(&i.then_branch) =>
                {
                    let neg = BExpr::Not(Box::new(self.bexpr_raw(&i.cond)));
                    out.push(Stmt::IfConst(nnf(neg), Box::new(self.stmts_in(&ss[k + 1..], top))));
                    return Ctx::seq(out);
                }
                syn::Stmt::Expr(e, _) => out.push(self.expr(e)),
                syn::Stmt::Item(syn::Item::Fn(_)) => {}
                syn::Stmt::Local(l) => {
                    // let mut it = SRC; while let Some(p) = it.next() { body }   ==  for p in SRC { body }
                    // (only when `it` is used nowhere else: the `while` must be the very next statement and
                    //  its body must not mention `it`)
                    if let Some(fe) = self.while_next(l, ss.get(k + 1)) {
                        out.push(fe);
                        out.push(self.stmts_in(&ss[k + 2..], top));
                        return Ctx::seq(out);
                    }
                    // let (A, B, ..) = self; <rest>
                    let ok = l.attrs.is_empty()
                        && l.init.as_ref().map(|i| i.diverge.is_none() && is_self_like(&i.expr)).unwrap_or(false)
                        && self.self_is_container;
                    let pats = match (&l.pat, ok) {
                        (Pat::Tuple(_), true) => self.binders(&l.pat),
                        _ => None,
                    };
                    match pats {
                        Some(p) => {
                            out.push(Stmt::LetTuple(p, Box::new(self.stmts_in(&ss[k + 1..], top))));
                            return Ctx::seq(out);
                        }
                        None => match self.let_subst(l, &ss[k + 1..]) {
                            // let x = PURE; REST   ==  REST[x := PURE]
                            Some(Ok(rest)) => {
                                out.push(self.stmts_in(&rest, top));
                                return Ctx::seq(out);
                            }
                            Some(Err(why)) => out.push(Stmt::Unknown(format!("{} ({})", compact(s), why))),
                            None => out.push(Stmt::Unknown(compact(s))),
                        },
                    }
                }
                syn::Stmt::Item(_) | syn::Stmt::Macro(_) => out.push(Stmt::Unknown(compact(s))),
            }
        }
        Ctx::seq(out)
    }

    fn is_bare_return(b: &Block) -> bool {
        b.stmts.len() == 1
            && match &b.stmts[0] {
                syn::Stmt::Expr(Expr::Return(r), _) => r.expr.is_none() && r.attrs.is_empty(),
                _ => false,
            }
    }

    fn while_next(&self, l: &syn::Local, next: Option<&syn::Stmt>) -> Option<Stmt> {
        if !l.attrs.is_empty() {
            return None;
        }
        let it = match &l.pat {
            Pat::Ident(pi) if pi.by_ref.is_none() && pi.subpat.is_none() => pi.ident.to_string(),
            _ => return None,
        };
        let init = l.init.as_ref()?;
        if init.diverge.is_some() {
            return None;
        }
        let w = match next? {
            syn::Stmt::Expr(Expr::While(w), _) if w.attrs.is_empty() && w.label.is_none() => w,
            _ => return None,
        };
        let lt = match strip(&w.cond) {
            Expr::Let(lt) => lt,
            _ => return None,
        };
        // pattern `Some(p)`
        let inner = match &*lt.pat {
            Pat::TupleStruct(ts) if ts.path.is_ident("Some") && ts.elems.len() == 1 => &ts.elems[0],
            _ => return None,
        };
        // scrutinee `it.next()`
        match strip(&lt.expr) {
            Expr::MethodCall(mc) if mc.method == "next" && mc.args.is_empty() && mc.turbofish.is_none() => match strip(&mc.receiver) {
                Expr::Path(p) if p.path.is_ident(&it) => {}
                _ => return None,
            },
            _ => return None,
        }
        // the iterator variable must not be touched by the body
        let body_txt = compact(&w.body);
        let isw = |c: char| c.is_alphanumeric() || c == '_';
        let mut from = 0;
        while let Some(pos) = body_txt[from..].find(&it) {
            let a = from + pos;
            let b = a + it.len();
            let before = body_txt[..a].chars().last().map(isw).unwrap_or(false);
            let after = body_txt[b..].chars().next().map(isw).unwrap_or(false);
            if !before && !after {
                return None;
            }
            from = b;
        }
        let pats = self.binders(inner)?;
        Some(Stmt::ForEach(self.iter_src(&init.expr), pats, Box::new(self.inner_block(&w.body))))
    }

    /// `let x = PURE;` (or an alias of the tracer) followed by REST: REST with `x` replaced.
    /// `None`: not such a `let`; `Some(Err(_))`: it is one, but the replacement is refused.
    fn let_subst(&self, l: &syn::Local, rest: &[syn::Stmt]) -> Option<Result<Vec<syn::Stmt>, String>> {
        if !l.attrs.is_empty() {
            return None;
        }
        let (name, is_mut) = inline::simple_binder(&l.pat)?;
        let init = l.init.as_ref()?;
        if init.diverge.is_some() || is_mut || name == self.tracer || name == "self" {
            return None;
        }
        let mut map = BTreeMap::new();
        let mut pure = BTreeMap::new();
        if self.is_tracer(&init.expr) {
            map.insert(name.clone(), ident_expr(&self.tracer));
        } else {
            let pu = inline::purity(&init.expr)?;
            if inline::idents_of_expr(&init.expr).contains(&self.tracer) {
                return None;
            }
            map.insert(name.clone(), (*init.expr).clone());
            pure.insert(name, pu);
        }
        Some(inline::substitute(rest, &map, &pure))
    }

    /// Which definition a path call denotes: a `fn` item of an enclosing block, an associated function of the
    /// impl's own type (`Self::f`, `Ty::f`), or a free function of the crate.
    fn call_target(&self, segs: &[String]) -> Result<(FnDef, bool), String> {
        if segs.len() == 1 {
            if let Some(d) = self.local_fns.borrow().iter().rev().find(|d| d.name == segs[0]) {
                return Ok((d.clone(), true));
            }
        }
        let table = self.fns.ok_or_else(|| "no function table in this context".to_string())?;
        if segs.len() == 2 {
            if let Some(tc) = &self.self_tycon {
                let short = tc.rsplit("::").next().unwrap_or("");
                if segs[0] == "Self" || (segs[0] == short && tc.starts_with("crate::")) {
                    return table.resolve_assoc(tc, &segs[1]).map(|d| (d.clone(), false));
                }
            }
        }
        table.resolve_free(segs, &self.file).map(|d| (d.clone(), false))
    }

    /// The body of `def` with its parameters replaced by the arguments of this call, translated in place.
    fn inline(&self, def: &FnDef, recv: Option<&Expr>, mut args: Vec<&Expr>, local: bool) -> Result<Stmt, String> {
        def.inlinable()?;
        {
            let st = self.stack.borrow();
            if st.iter().any(|n| *n == def.name) {
                return Err(format!("recursive call of `{}`", def.name));
            }
            if st.len() >= inline::max_depth() {
                return Err(format!("inlining depth {} exceeded at `{}`", inline::max_depth(), def.name));
            }
        }
        let mut params = def.sig.inputs.iter();
        if def.has_receiver() {
            let r: &Expr = match recv {
                Some(r) => r,
                None => {
                    if args.is_empty() {
                        return Err("missing receiver argument".into());
                    }
                    args.remove(0)
                }
            };
            if !(self.self_is_container && is_self_like(r)) {
                return Err(format!("receiver `{}` is not the container itself", compact(r)));
            }
            params.next();
        } else if recv.is_some() {
            return Err(format!("`{}` takes no receiver", def.name));
        }
        let params: Vec<&syn::FnArg> = params.collect();
        if params.len() != args.len() {
            return Err(format!("`{}` takes {} arguments, {} given", def.name, params.len(), args.len()));
        }
        let mut map = BTreeMap::new();
        let mut pure = BTreeMap::new();
        let mut tracers = 0;
        for (p, a) in params.iter().zip(args.iter()) {
            let name = match p {
                syn::FnArg::Typed(pt) if pt.attrs.is_empty() => match inline::simple_binder(&pt.pat) {
                    Some((n, _)) => n,
                    None => return Err(format!("parameter pattern `{}`", compact(&pt.pat))),
                },
                o => return Err(format!("parameter `{}`", compact(o))),
            };
            if self.is_tracer(a) {
                tracers += 1;
                map.insert(name, ident_expr(&self.tracer));
            } else {
                let pu = inline::purity(a).ok_or_else(|| format!("argument `{}` is not a plain place / zero-argument method call", compact(*a)))?;
                if inline::idents_of_expr(a).contains(&self.tracer) {
                    return Err(format!("argument `{}` mentions the tracer", compact(*a)));
                }
                map.insert(name.clone(), (*a).clone());
                pure.insert(name, pu);
            }
        }
        if tracers != 1 {
            return Err(format!("{} arguments are the tracer", tracers));
        }
        if !def.has_receiver() && inline::idents_of_expr(&Expr::Block(syn::ExprBlock { attrs: vec![], label: None, block: def.block.clone() })).contains("self") {
            return Err("`self` inside a function without receiver".into());
        }
        let body = inline::substitute(&def.block.stmts, &map, &pure)?;
        // impl-level generics of the helper's impl block are renamed positionally to the type arguments of the
        // impl being translated; generics of the function itself are not resolvable without type inference
        let mut rename: BTreeMap<String, String> = BTreeMap::new();
        let owner_args = match &def.owner {
            Owner::Free => None,
            Owner::Inherent(_, a) | Owner::TraitImpl(_, _, a) => Some(a),
        };
        if let Some(oa) = owner_args {
            if oa.len() != self.self_args.len() {
                return Err(format!("`{}` is defined for {} type arguments, the impl has {}", def.name, oa.len(), self.self_args.len()));
            }
            for (x, y) in oa.iter().zip(self.self_args.iter()) {
                if x == y && !def.impl_generics.iter().any(|g| g == x) {
                    continue;
                }
                if !def.impl_generics.iter().any(|g| g == x) {
                    return Err(format!("`{}` is defined for the type argument `{}`, not `{}`", def.name, x, y));
                }
                if let Some(prev) = rename.get(x) {
                    if prev != y {
                        return Err(format!("type parameter `{}` of the helper's impl stands for both `{}` and `{}`", x, prev, y));
                    }
                }
                rename.insert(x.clone(), y.clone());
            }
        }
        let mut stack = self.stack.borrow().clone();
        stack.push(def.name.clone());
        let sub = Ctx {
            tracer: self.tracer.clone(),
            self_is_container: self.self_is_container,
            fns: self.fns,
            file: def.file.clone(),
            self_tycon: self.self_tycon.clone(),
            self_args: self.self_args.clone(),
            stack: RefCell::new(stack),
            local_fns: RefCell::new(if local { self.local_fns.borrow().clone() } else { vec![] }),
        };
        let st = sub.stmts(&body, true);
        let mut opaque: Vec<String> = def.type_params();
        for g in &def.impl_generics {
            if !rename.contains_key(g) {
                opaque.push(g.clone());
            }
        }
        Ok(fix_generics(&st, &opaque, &rename))
    }

    fn is_trait_fn(func: &Expr, tr: &str, f: &str) -> bool {
        if let Expr::Path(p) = strip(func) {
            if p.qself.is_none() {
                let segs: Vec<String> = p.path.segments.iter().map(|s| s.ident.to_string()).collect();
                let n = segs.len();
                return n >= 2 && segs[n - 1] == f && segs[n - 2] == tr;
            }
        }
        false
    }

    pub fn expr(&self, e: &Expr) -> Stmt {
        let unk = || Stmt::Unknown(compact(e));
        match strip(e) {
            Expr::MethodCall(m) => {
                if !m.attrs.is_empty() || m.turbofish.is_some() {
                    return unk();
                }
                let name = m.method.to_string();
                if self.is_tracer(&m.receiver) && m.args.len() == 1 {
                    return match name.as_str() {
                        "trace" => Stmt::TraceVal(self.place(&m.args[0])),
                        "trace_gc" => Stmt::TraceGc(self.place(&m.args[0])),
                        "trace_gc_weak" => Stmt::TraceWeak(self.place(&m.args[0])),
                        _ => unk(),
                    };
                }
                if name == "trace" && m.args.len() == 1 && self.is_tracer(&m.args[0]) {
                    return Stmt::CollectTrace(self.place(&m.receiver));
                }
                // <iteration source>.for_each(|pat| body)  ==  for pat in <iteration source> { body }
                if name == "for_each" && m.args.len() == 1 {
                    if let Expr::Closure(c) = strip(&m.args[0]) {
                        let plain = c.attrs.is_empty()
                            && c.lifetimes.is_none()
                            && c.constness.is_none()
                            && c.movability.is_none()
                            && c.asyncness.is_none()
                            && c.inputs.len() == 1;
                        if plain {
                            let pat = match &c.inputs[0] {
                                Pat::Type(pt) => &*pt.pat,
                                p => p,
                            };
                            if let Some(pats) = self.binders(pat) {
                                return Stmt::ForEach(self.iter_src(&m.receiver), pats, Box::new(self.expr(&c.body)));
                            }
                        }
                    }
                }
                // self.helper(.., cc, ..): a method the crate itself defines for this very type constructor
                if self.self_is_container && is_self_like(&m.receiver) && m.args.iter().any(|a| self.is_tracer(a)) {
                    if let (Some(t), Some(tc)) = (self.fns, self.self_tycon.as_ref()) {
                        return match t.resolve_assoc(tc, &name) {
                            Ok(def) if def.has_receiver() => match self.inline(def, Some(&m.receiver), m.args.iter().collect(), false) {
                                Ok(s) => s,
                                Err(why) => Stmt::Unknown(format!("{} (not inlined: {})", compact(e), why)),
                            },
                            Ok(_) => Stmt::Unknown(format!("{} (not inlined: `{}` takes no receiver)", compact(e), name)),
                            Err(why) if why.starts_with("no ") => unk(),
                            Err(why) => Stmt::Unknown(format!("{} (not inlined: {})", compact(e), why)),
                        };
                    }
                }
                unk()
            }
            Expr::Call(c) => {
                if !c.attrs.is_empty() {
                    return unk();
                }
                if c.args.len() == 2 {
                    if self.is_tracer(&c.args[0]) {
                        if Ctx::is_trait_fn(&c.func, "Trace", "trace") {
                            return Stmt::TraceVal(self.place(&c.args[1]));
                        }
                        if Ctx::is_trait_fn(&c.func, "Trace", "trace_gc") {
                            return Stmt::TraceGc(self.place(&c.args[1]));
                        }
                        if Ctx::is_trait_fn(&c.func, "Trace", "trace_gc_weak") {
                            return Stmt::TraceWeak(self.place(&c.args[1]));
                        }
                    }
                    if self.is_tracer(&c.args[1]) && Ctx::is_trait_fn(&c.func, "Collect", "trace") {
                        return Stmt::CollectTrace(self.place(&c.args[0]));
                    }
                }
                // helper(.., cc, ..) / Self::helper(self, cc): a function defined in the crate, inlined
                if c.args.iter().any(|a| self.is_tracer(a)) {
                    if let Some(segs) = call_path(&c.func) {
                        return match self.call_target(&segs) {
                            Ok((def, local)) => match self.inline(&def, None, c.args.iter().collect(), local) {
                                Ok(s) => s,
                                Err(why) => Stmt::Unknown(format!("{} (not inlined: {})", compact(e), why)),
                            },
                            Err(why) if why.starts_with("no ") => unk(),
                            Err(why) => Stmt::Unknown(format!("{} (not inlined: {})", compact(e), why)),
                        };
                    }
                }
                unk()
            }
            Expr::ForLoop(f) => {
                if !f.attrs.is_empty() || f.label.is_some() {
                    return unk();
                }
                match self.binders(&f.pat) {
                    Some(pats) => Stmt::ForEach(self.iter_src(&f.expr), pats, Box::new(self.inner_block(&f.body))),
                    None => unk(),
                }
            }
            Expr::If(i) => {
                if !i.attrs.is_empty() {
                    return unk();
                }
                if let Expr::Let(l) = strip(&i.cond) {
                    let (v, pats) = match self.variant_pat(&l.pat) {
                        Some(x) => x,
                        None => return unk(),
                    };
                    let mut arms = vec![(v, pats, self.inner_block(&i.then_branch))];
                    if let Some((_, els)) = &i.else_branch {
                        // an empty `else {}` traces nothing, like no `else` at all
                        let els = self.expr(els);
                        if els != Stmt::Nop {
                            arms.push(("_".to_string(), vec![], els));
                        }
                    }
                    return Stmt::MatchEnum(self.scrut(&l.expr), arms);
                }
                let cond = self.bexpr(&i.cond);
                let then = Stmt::IfConst(cond, Box::new(self.inner_block(&i.then_branch)));
                match &i.else_branch {
                    None => then,
                    // if C { A } else { B }  ==  if C { A }; if !C { B }   (C is a constant)
                    Some((_, els)) => {
                        let neg = nnf(BExpr::Not(Box::new(self.bexpr_raw(&i.cond))));
                        let els = self.expr(els);
                        let a = if matches!(&then, Stmt::IfConst(c, b) if **b == Stmt::Nop && !c.has_unknown()) { Stmt::Nop } else { then };
                        let b = if els == Stmt::Nop { Stmt::Nop } else { Stmt::IfConst(neg, Box::new(els)) };
                        Ctx::seq(vec![a, b])
                    }
                }
            }
            Expr::Match(m) if m.attrs.is_empty() && m.arms.iter().any(|a| bool_pat(&a.pat).is_some()) => {
                // match CONST { true => A, false => B }  ==  if CONST { A }; if !CONST { B }
                // (arms in any order, `_` as the last arm for whatever value is left)
                let c = self.bexpr_raw(&m.expr);
                let (mut on_true, mut on_false): (Option<Stmt>, Option<Stmt>) = (None, None);
                for a in &m.arms {
                    if a.guard.is_some() || !a.attrs.is_empty() {
                        return unk();
                    }
                    let body = self.expr(&a.body);
                    match (bool_pat(&a.pat), matches!(&a.pat, Pat::Wild(_))) {
                        (Some(true), _) if on_true.is_none() => on_true = Some(body),
                        (Some(false), _) if on_false.is_none() => on_false = Some(body),
                        (None, true) => {
                            if on_true.is_none() {
                                on_true = Some(body.clone());
                            }
                            if on_false.is_none() {
                                on_false = Some(body);
                            }
                        }
                        _ => return unk(),
                    }
                }
                match (on_true, on_false) {
                    (Some(t), Some(f)) => Ctx::seq(vec![
                        Stmt::IfConst(nnf(c.clone()), Box::new(t)),
                        if f == Stmt::Nop { Stmt::Nop } else { Stmt::IfConst(nnf(BExpr::Not(Box::new(c))), Box::new(f)) },
                    ]),
                    _ => unk(),
                }
            }
            Expr::Match(m) => {
                if !m.attrs.is_empty() {
                    return unk();
                }
                let mut arms = Vec::new();
                for a in &m.arms {
                    if a.guard.is_some() || !a.attrs.is_empty() {
                        return unk();
                    }
                    match self.variant_pat(&a.pat) {
                        // `_ => {}`: the remaining variants trace nothing, which is what leaving them out means
                        Some((v, pats)) => {
                            let body = self.expr(&a.body);
                            if !(v == "_" && body == Stmt::Nop) {
                                arms.push((v, pats, body));
                            }
                        }
                        None => return unk(),
                    }
                }
                Stmt::MatchEnum(self.scrut(&m.expr), arms)
            }
            Expr::Block(b) if b.label.is_none() && b.attrs.is_empty() => self.inner_block(&b.block),
            Expr::Tuple(t) if t.elems.is_empty() => Stmt::Nop,
            _ => unk(),
        }
    }
}

// ---------------------------------------------------------------------------------------------
// Types
// ---------------------------------------------------------------------------------------------

pub type UseMap = BTreeMap<String, Vec<String>>;

pub fn collect_uses(items: &[syn::Item]) -> UseMap {
    fn walk(t: &syn::UseTree, prefix: &mut Vec<String>, out: &mut UseMap) {
        match t {
            syn::UseTree::Path(p) => {
                prefix.push(p.ident.to_string());
                walk(&p.tree, prefix, out);
                prefix.pop();
            }
            syn::UseTree::Name(n) => {
                let mut full = prefix.clone();
                if n.ident != "self" {
                    full.push(n.ident.to_string());
                }
                if let Some(last) = full.last().cloned() {
                    out.insert(last, full);
                }
            }
            syn::UseTree::Rename(r) => {
                let mut full = prefix.clone();
                if r.ident != "self" {
                    full.push(r.ident.to_string());
                }
                out.insert(r.rename.to_string(), full);
            }
            syn::UseTree::Group(g) => {
                for t in &g.items {
                    walk(t, prefix, out);
                }
            }
            syn::UseTree::Glob(_) => {}
        }
    }
    let mut out = UseMap::new();
    for it in items {
        if let syn::Item::Use(u) = it {
            walk(&u.tree, &mut Vec::new(), &mut out);
        }
    }
    out
}

const PRIMS: &[&str] = &[
    "bool", "char", "str", "u8", "u16", "u32", "u64", "u128", "usize", "i8", "i16", "i32", "i64", "i128",
    "isize", "f32", "f64",
];
const PRELUDE: &[&str] = &["Option", "Result", "Box", "Vec", "String"];

pub struct TyCon {
    pub tycon: String,
    pub id: String,
    pub args: Vec<String>,
}

pub fn canon_type(ty: &Type, uses: &UseMap) -> TyCon {
    match ty {
        Type::Paren(p) => canon_type(&p.elem, uses),
        Type::Group(g) => canon_type(&g.elem, uses),
        Type::Slice(s) => TyCon { tycon: "slice".into(), id: "slice".into(), args: vec![compact(&s.elem)] },
        Type::Array(a) => TyCon {
            tycon: "array".into(),
            id: "array".into(),
            args: vec![compact(&a.elem), compact(&a.len)],
        },
        Type::Reference(r) => {
            let lt = r.lifetime.as_ref().map(|l| l.ident.to_string()).unwrap_or_else(|| "_".into());
            let name = if r.mutability.is_some() {
                format!("refmut:'{}", lt)
            } else if lt == "static" {
                "ref_static".to_string()
            } else {
                format!("ref:'{}", lt)
            };
            TyCon { tycon: name.clone(), id: name, args: vec![compact(&r.elem)] }
        }
        Type::Tuple(t) => TyCon {
            tycon: "tuple".into(),
            id: format!("tuple/{}", t.elems.len()),
            args: t.elems.iter().map(|e| compact(e)).collect(),
        },
        Type::TraitObject(o) => {
            let name = o
                .bounds
                .iter()
                .find_map(|b| match b {
                    syn::TypeParamBound::Trait(t) => t.path.segments.last().map(|s| s.ident.to_string()),
                    _ => None,
                })
                .unwrap_or_else(|| "?".into());
            let n = format!("dyn:{}", name);
            TyCon { tycon: n.clone(), id: n, args: vec![] }
        }
        Type::Path(p) if p.qself.is_none() => {
            let segs: Vec<String> = p.path.segments.iter().map(|s| s.ident.to_string()).collect();
            let last = p.path.segments.last().unwrap();
            let mut args = Vec::new();
            if let syn::PathArguments::AngleBracketed(ab) = &last.arguments {
                for a in &ab.args {
                    match a {
                        syn::GenericArgument::Lifetime(_) => {}
                        other => args.push(compact(other)),
                    }
                }
            }
            let full: Vec<String> = if segs.len() == 1 {
                let n = &segs[0];
                if let Some(f) = uses.get(n) {
                    f.clone()
                } else if PRIMS.contains(&n.as_str()) {
                    vec![n.clone()]
                } else if PRELUDE.contains(&n.as_str()) {
                    vec!["std".into(), n.clone()]
                } else {
                    vec!["crate".into(), n.clone()]
                }
            } else if matches!(segs[0].as_str(), "crate" | "self" | "super") {
                vec!["crate".into(), segs.last().unwrap().clone()]
            } else if let Some(f) = uses.get(&segs[0]) {
                let mut v = f.clone();
                v.extend(segs[1..].iter().cloned());
                v
            } else {
                segs.clone()
            };
            let name = if full.len() == 1 {
                full[0].clone()
            } else {
                let root = match full[0].as_str() {
                    "std" | "core" | "alloc" => "std",
                    "crate" | "self" | "super" => "crate",
                    r => r,
                };
                format!("{}::{}", root, full.last().unwrap())
            };
            TyCon { tycon: name.clone(), id: name, args }
        }
        other => {
            let n = format!("unknown:{}", compact(other));
            TyCon { tycon: n.clone(), id: n, args: vec![] }
        }
    }
}

fn classify_bounds<'a>(
    bs: impl Iterator<Item = &'a syn::TypeParamBound>,
    collect: &mut bool,
    is_static: &mut bool,
    others: &mut Vec<String>,
) {
    for b in bs {
        match b {
            syn::TypeParamBound::Lifetime(l) if l.ident == "static" => *is_static = true,
            syn::TypeParamBound::Trait(t)
                if matches!(t.modifier, syn::TraitBoundModifier::None)
                    && t.lifetimes.is_none()
                    && t.path.segments.last().map(|s| s.ident == "Collect").unwrap_or(false) =>
            {
                *collect = true
            }
            o => others.push(compact(o)),
        }
    }
}

pub fn bounds_of(g: &syn::Generics) -> (Vec<Bound>, Vec<String>) {
    let mut out: Vec<Bound> = Vec::new();
    let mut consts = Vec::new();
    for p in &g.params {
        match p {
            syn::GenericParam::Type(t) => {
                let mut b = Bound {
                    ty: t.ident.to_string(),
                    is_param: true,
                    collect: false,
                    is_static: false,
                    others: vec![],
                };
                classify_bounds(t.bounds.iter(), &mut b.collect, &mut b.is_static, &mut b.others);
                out.push(b);
            }
            syn::GenericParam::Const(c) => consts.push(c.ident.to_string()),
            syn::GenericParam::Lifetime(_) => {}
        }
    }
    if let Some(w) = &g.where_clause {
        for pr in &w.predicates {
            if let syn::WherePredicate::Type(pt) = pr {
                let ty = compact(&pt.bounded_ty);
                let idx = match out.iter().position(|b| b.ty == ty) {
                    Some(i) => i,
                    None => {
                        out.push(Bound { ty: ty.clone(), is_param: false, collect: false, is_static: false, others: vec![] });
                        out.len() - 1
                    }
                };
                let mut c = out[idx].collect;
                let mut s = out[idx].is_static;
                let mut o = std::mem::take(&mut out[idx].others);
                if pt.lifetimes.is_some() {
                    o.push(format!("for-bound:{}", compact(pr)));
                } else {
                    classify_bounds(pt.bounds.iter(), &mut c, &mut s, &mut o);
                }
                out[idx].collect = c;
                out[idx].is_static = s;
                out[idx].others = o;
            }
        }
    }
    (out, consts)
}
