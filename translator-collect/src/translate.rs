//! syn AST -> IR. Anything not recognised becomes an `Unknown` node (the Coq checkers fail closed).

use crate::ir::*;
use quote::ToTokens;
use std::collections::BTreeMap;
use syn::{Block, Expr, Pat, Type};

/// Token string with insignificant whitespace removed (`A :: Item` -> `A::Item`).
pub fn compact<T: ToTokens>(t: &T) -> String {
    compact_str(&t.to_token_stream().to_string())
}

pub fn compact_str(s: &str) -> String {
    let cs: Vec<char> = s.chars().collect();
    let mut o = String::new();
    let isw = |c: char| c.is_alphanumeric() || c == '_';
    let mut i = 0;
    while i < cs.len() {
        if cs[i].is_whitespace() {
            let mut j = i;
            while j < cs.len() && cs[j].is_whitespace() {
                j += 1;
            }
            let prev = o.chars().last();
            let next = cs.get(j).copied();
            if let (Some(p), Some(n)) = (prev, next) {
                if isw(p) && isw(n) {
                    o.push(' ');
                }
            }
            i = j;
        } else {
            o.push(cs[i]);
            i += 1;
        }
    }
    o
}

pub struct Ctx {
    /// name of the `&mut impl Trace` parameter (`cc`), or `self` inside `Trace::trace`'s default
    pub tracer: String,
    /// does `self` denote the container being traced?
    pub self_is_container: bool,
}

fn strip(e: &Expr) -> &Expr {
    match e {
        Expr::Paren(p) => strip(&p.expr),
        Expr::Group(g) => strip(&g.expr),
        _ => e,
    }
}

fn path_ident(e: &Expr) -> Option<String> {
    if let Expr::Path(p) = strip(e) {
        if p.qself.is_none() && p.path.segments.len() == 1 && p.path.segments[0].arguments.is_none() {
            return Some(p.path.segments[0].ident.to_string());
        }
    }
    None
}

fn is_self(e: &Expr) -> bool {
    path_ident(e).as_deref() == Some("self")
}

fn member_name(m: &syn::Member) -> String {
    match m {
        syn::Member::Named(i) => i.to_string(),
        syn::Member::Unnamed(i) => i.index.to_string(),
    }
}

/// `self`, `&self`, `*self`, `&*self`, `(self)`: the container itself.
fn is_self_like(e: &Expr) -> bool {
    match strip(e) {
        Expr::Reference(r) if r.mutability.is_none() => is_self_like(&r.expr),
        Expr::Unary(u) if matches!(u.op, syn::UnOp::Deref(_)) => is_self_like(&u.expr),
        e => is_self(e),
    }
}

/// Number of leading `*` and the innermost expression.
fn peel_derefs(e: &Expr) -> (usize, &Expr) {
    match strip(e) {
        Expr::Unary(u) if matches!(u.op, syn::UnOp::Deref(_)) => {
            let (n, i) = peel_derefs(&u.expr);
            (n + 1, i)
        }
        e => (0, e),
    }
}

impl Ctx {
    fn is_tracer(&self, e: &Expr) -> bool {
        // `cc`, `&mut *cc`, `&mut cc`
        match strip(e) {
            Expr::Reference(r) => self.is_tracer(&r.expr),
            Expr::Unary(u) if matches!(u.op, syn::UnOp::Deref(_)) => self.is_tracer(&u.expr),
            e => path_ident(e).as_deref() == Some(self.tracer.as_str()),
        }
    }

    pub fn place(&self, e: &Expr) -> Place {
        let unk = || Place::Unknown(compact(e));
        let e0 = strip(e);
        match e0 {
            Expr::Reference(r) => {
                if r.mutability.is_some() {
                    return unk();
                }
                let inner = strip(&r.expr);
                // &**self  /  &*self.borrow()
                let (n, core) = peel_derefs(inner);
                if self.self_is_container {
                    if n == 2 && is_self(core) {
                        return Place::Deref("DStarStar");
                    }
                    if n == 1 {
                        if let Expr::MethodCall(m) = core {
                            if is_self(&m.receiver) && m.args.is_empty() && m.turbofish.is_none() {
                                if m.method == "borrow" {
                                    return Place::Deref("DBorrow");
                                }
                            }
                        }
                    }
                    if n == 0 {
                        if let Expr::MethodCall(m) = core {
                            if is_self(&m.receiver) && m.args.is_empty() && m.method == "get" {
                                return Place::Deref("DGetCopy");
                            }
                        }
                    }
                }
                self.place(inner)
            }
            Expr::Unary(u) if matches!(u.op, syn::UnOp::Deref(_)) => {
                // *self, *x : a copy of / the referent of a plain variable
                let inner = strip(&u.expr);
                if is_self(inner) {
                    return if self.self_is_container { Place::SelfP } else { unk() };
                }
                if let Some(x) = path_ident(inner) {
                    if x != self.tracer {
                        return Place::Var(x);
                    }
                }
                unk()
            }
            Expr::Path(_) => match path_ident(e0) {
                Some(x) if x == "self" => {
                    if self.self_is_container { Place::SelfP } else { unk() }
                }
                Some(x) if x == self.tracer => unk(),
                Some(x) => Place::Var(x),
                None => unk(),
            },
            Expr::Field(f) => {
                if self.self_is_container && is_self(&f.base) {
                    Place::Field(member_name(&f.member))
                } else {
                    unk()
                }
            }
            Expr::MethodCall(m) => {
                if self.self_is_container && is_self(&m.receiver) && m.args.is_empty() && m.turbofish.is_none() {
                    match m.method.to_string().as_str() {
                        "get" => Place::Deref("DGetCopy"),
                        "as_ref" | "deref" => Place::Deref("DAsRef"),
                        _ => unk(),
                    }
                } else {
                    unk()
                }
            }
            Expr::Call(c) => {
                // Self::erase(*self), Gc::erase(*self), GcWeak::erase(x): identity on the pointer
                if let Expr::Path(p) = strip(&c.func) {
                    let segs: Vec<String> = p.path.segments.iter().map(|s| s.ident.to_string()).collect();
                    if p.qself.is_none()
                        && segs.len() == 2
                        && segs[1] == "erase"
                        && matches!(segs[0].as_str(), "Self" | "Gc" | "GcWeak")
                        && c.args.len() == 1
                    {
                        return self.place(&c.args[0]);
                    }
                }
                unk()
            }
            _ => unk(),
        }
    }

    fn iter_src(&self, e: &Expr) -> IterSrc {
        let unk = || IterSrc::Unknown(compact(e));
        if !self.self_is_container {
            return unk();
        }
        if is_self_like(e) {
            return IterSrc::SelfI;
        }
        match strip(e) {
            Expr::Reference(r) if r.mutability.is_none() => {
                if let Expr::Field(f) = strip(&r.expr) {
                    if is_self(&f.base) {
                        return IterSrc::Field(member_name(&f.member));
                    }
                }
                unk()
            }
            Expr::MethodCall(m) if m.args.is_empty() && m.turbofish.is_none() => {
                let name = m.method.to_string();
                if is_self_like(&m.receiver) {
                    if name == "into_iter" {
                        return IterSrc::SelfI;
                    }
                    return IterSrc::Method(name);
                }
                let recv = match strip(&m.receiver) {
                    Expr::Reference(r) if r.mutability.is_none() => strip(&r.expr),
                    x => x,
                };
                if let Expr::Field(f) = recv {
                    if is_self(&f.base) {
                        if name == "into_iter" {
                            return IterSrc::Field(member_name(&f.member));
                        }
                        return IterSrc::FieldMethod(member_name(&f.member), name);
                    }
                }
                unk()
            }
            _ => unk(),
        }
    }

    fn scrut(&self, e: &Expr) -> Scrut {
        let unk = || Scrut::Unknown(compact(e));
        if !self.self_is_container {
            return unk();
        }
        if is_self_like(e) {
            return Scrut::SelfS;
        }
        if let Expr::MethodCall(m) = strip(e) {
            if is_self_like(&m.receiver) && m.args.is_empty() && m.turbofish.is_none() {
                return Scrut::Method(m.method.to_string());
            }
        }
        unk()
    }

    /// A loop / let pattern: `t`, `(k, v)`, `&t`, `(A, B,)`. `None` if not understood.
    fn binders(&self, p: &Pat) -> Option<Vec<String>> {
        match p {
            Pat::Ident(i) if i.subpat.is_none() && i.by_ref.is_none() => Some(vec![i.ident.to_string()]),
            Pat::Wild(_) => Some(vec!["_".to_string()]),
            Pat::Reference(r) if r.mutability.is_none() => self.binders(&r.pat),
            Pat::Paren(p) => self.binders(&p.pat),
            Pat::Tuple(t) => {
                let mut v = Vec::new();
                for e in &t.elems {
                    let b = self.binders(e)?;
                    if b.len() != 1 {
                        return None;
                    }
                    v.push(b[0].clone());
                }
                Some(v)
            }
            _ => None,
        }
    }

    /// A match-arm / if-let pattern: `Some(t)`, `Ok(r)`, `None`, `Option::Some(t)`, `_`.
    fn variant_pat(&self, p: &Pat) -> Option<(String, Vec<String>)> {
        match p {
            Pat::TupleStruct(ts) if ts.qself.is_none() => {
                let v = ts.path.segments.last()?.ident.to_string();
                let mut bs = Vec::new();
                for e in &ts.elems {
                    let b = self.binders(e)?;
                    if b.len() != 1 {
                        return None;
                    }
                    bs.push(b[0].clone());
                }
                Some((v, bs))
            }
            Pat::Path(pp) if pp.qself.is_none() => Some((pp.path.segments.last()?.ident.to_string(), vec![])),
            Pat::Ident(i) if i.subpat.is_none() && i.by_ref.is_none() => {
                // a bare identifier in pattern position: a unit variant such as `None`
                let s = i.ident.to_string();
                if s.chars().next().map(|c| c.is_uppercase()).unwrap_or(false) {
                    Some((s, vec![]))
                } else {
                    None
                }
            }
            Pat::Wild(_) => Some(("_".to_string(), vec![])),
            Pat::Reference(r) if r.mutability.is_none() => self.variant_pat(&r.pat),
            Pat::Paren(p) => self.variant_pat(&p.pat),
            _ => None,
        }
    }

    pub fn bexpr(&self, e: &Expr) -> BExpr {
        let unk = || BExpr::Unknown(compact(e));
        match strip(e) {
            Expr::Lit(l) => match &l.lit {
                syn::Lit::Bool(b) => {
                    if b.value { BExpr::True } else { BExpr::False }
                }
                _ => unk(),
            },
            Expr::Binary(b) => match b.op {
                syn::BinOp::Or(_) => BExpr::Or(Box::new(self.bexpr(&b.left)), Box::new(self.bexpr(&b.right))),
                syn::BinOp::And(_) => BExpr::And(Box::new(self.bexpr(&b.left)), Box::new(self.bexpr(&b.right))),
                _ => unk(),
            },
            Expr::Unary(u) if matches!(u.op, syn::UnOp::Not(_)) => BExpr::Not(Box::new(self.bexpr(&u.expr))),
            Expr::Block(b) if b.label.is_none() && b.attrs.is_empty() && b.block.stmts.len() == 1 => {
                if let syn::Stmt::Expr(e, None) = &b.block.stmts[0] {
                    self.bexpr(e)
                } else {
                    unk()
                }
            }
            Expr::Path(p) => {
                let segs = &p.path.segments;
                if segs.last().map(|s| s.ident == "NEEDS_TRACE").unwrap_or(false) {
                    if let Some(q) = &p.qself {
                        // <T as Collect<'gc>>::NEEDS_TRACE  /  <T>::NEEDS_TRACE
                        let trait_ok = segs.len() == 1
                            || (segs.len() == q.position + 1
                                && segs.iter().take(q.position).last().map(|s| s.ident == "Collect").unwrap_or(false));
                        if trait_ok {
                            let t = compact(&q.ty);
                            return if t == "Self" { BExpr::SelfNt } else { BExpr::Var(t) };
                        }
                        return unk();
                    }
                    if segs.len() >= 2 && segs.iter().all(|s| s.arguments.is_none()) {
                        let prefix: Vec<String> =
                            segs.iter().take(segs.len() - 1).map(|s| s.ident.to_string()).collect();
                        let t = prefix.join("::");
                        return if t == "Self" { BExpr::SelfNt } else { BExpr::Var(t) };
                    }
                }
                unk()
            }
            _ => unk(),
        }
    }

    fn seq(mut v: Vec<Stmt>) -> Stmt {
        v.retain(|s| *s != Stmt::Nop);
        let mut it = v.into_iter().rev();
        match it.next() {
            None => Stmt::Nop,
            Some(last) => it.fold(last, |acc, s| Stmt::Seq(Box::new(s), Box::new(acc))),
        }
    }

    pub fn block(&self, b: &Block) -> Stmt {
        self.stmts(&b.stmts)
    }

    fn stmts(&self, ss: &[syn::Stmt]) -> Stmt {
        let mut out = Vec::new();
        for (k, s) in ss.iter().enumerate() {
            match s {
                // `if !COND { return; } REST`  ==  `if COND { REST }`   (early-return guard, constant condition)
                syn::Stmt::Expr(Expr::If(i), _)
                    if i.attrs.is_empty() && i.else_branch.is_none() && Self::is_bare_return(&i.then_branch) && matches!(strip(&i.cond), Expr::Unary(u) if matches!(u.op, syn::UnOp::Not(_))) =>
                {
                    if let Expr::Unary(u) = strip(&i.cond) {
                        out.push(Stmt::IfConst(self.bexpr(&u.expr), Box::new(self.stmts(&ss[k + 1..]))));
                        return Ctx::seq(out);
                    }
                }
                syn::Stmt::Expr(e, _) => out.push(self.expr(e)),
                syn::Stmt::Local(l) => {
                    // let mut it = SRC; while let Some(p) = it.next() { body }   ==  for p in SRC { body }
                    // (only when `it` is used nowhere else: the `while` must be the very next statement and
                    //  its body must not mention `it`)
                    if let Some(fe) = self.while_next(l, ss.get(k + 1)) {
                        out.push(fe);
                        out.push(self.stmts(&ss[k + 2..]));
                        return Ctx::seq(out);
                    }
                    // let (A, B, ..) = self; <rest>
                    let ok = l.attrs.is_empty()
                        && l.init.as_ref().map(|i| i.diverge.is_none() && is_self_like(&i.expr)).unwrap_or(false)
                        && self.self_is_container;
                    let pats = match (&l.pat, ok) {
                        (Pat::Tuple(_), true) => self.binders(&l.pat),
                        _ => None,
                    };
                    match pats {
                        Some(p) => {
                            out.push(Stmt::LetTuple(p, Box::new(self.stmts(&ss[k + 1..]))));
                            return Ctx::seq(out);
                        }
                        None => out.push(Stmt::Unknown(compact(s))),
                    }
                }
                syn::Stmt::Item(_) | syn::Stmt::Macro(_) => out.push(Stmt::Unknown(compact(s))),
            }
        }
        Ctx::seq(out)
    }

    fn is_bare_return(b: &Block) -> bool {
        b.stmts.len() == 1
            && match &b.stmts[0] {
                syn::Stmt::Expr(Expr::Return(r), _) => r.expr.is_none() && r.attrs.is_empty(),
                _ => false,
            }
    }

    fn while_next(&self, l: &syn::Local, next: Option<&syn::Stmt>) -> Option<Stmt> {
        if !l.attrs.is_empty() {
            return None;
        }
        let it = match &l.pat {
            Pat::Ident(pi) if pi.by_ref.is_none() && pi.subpat.is_none() => pi.ident.to_string(),
            _ => return None,
        };
        let init = l.init.as_ref()?;
        if init.diverge.is_some() {
            return None;
        }
        let w = match next? {
            syn::Stmt::Expr(Expr::While(w), _) if w.attrs.is_empty() && w.label.is_none() => w,
            _ => return None,
        };
        let lt = match strip(&w.cond) {
            Expr::Let(lt) => lt,
            _ => return None,
        };
        // pattern `Some(p)`
        let inner = match &*lt.pat {
            Pat::TupleStruct(ts) if ts.path.is_ident("Some") && ts.elems.len() == 1 => &ts.elems[0],
            _ => return None,
        };
        // scrutinee `it.next()`
        match strip(&lt.expr) {
            Expr::MethodCall(mc) if mc.method == "next" && mc.args.is_empty() && mc.turbofish.is_none() => match strip(&mc.receiver) {
                Expr::Path(p) if p.path.is_ident(&it) => {}
                _ => return None,
            },
            _ => return None,
        }
        // the iterator variable must not be touched by the body
        let body_txt = compact(&w.body);
        let isw = |c: char| c.is_alphanumeric() || c == '_';
        let mut from = 0;
        while let Some(pos) = body_txt[from..].find(&it) {
            let a = from + pos;
            let b = a + it.len();
            let before = body_txt[..a].chars().last().map(isw).unwrap_or(false);
            let after = body_txt[b..].chars().next().map(isw).unwrap_or(false);
            if !before && !after {
                return None;
            }
            from = b;
        }
        let pats = self.binders(inner)?;
        Some(Stmt::ForEach(self.iter_src(&init.expr), pats, Box::new(self.block(&w.body))))
    }

    fn is_trait_fn(func: &Expr, tr: &str, f: &str) -> bool {
        if let Expr::Path(p) = strip(func) {
            if p.qself.is_none() {
                let segs: Vec<String> = p.path.segments.iter().map(|s| s.ident.to_string()).collect();
                let n = segs.len();
                return n >= 2 && segs[n - 1] == f && segs[n - 2] == tr;
            }
        }
        false
    }

    pub fn expr(&self, e: &Expr) -> Stmt {
        let unk = || Stmt::Unknown(compact(e));
        match strip(e) {
            Expr::MethodCall(m) => {
                if !m.attrs.is_empty() || m.turbofish.is_some() {
                    return unk();
                }
                let name = m.method.to_string();
                if self.is_tracer(&m.receiver) && m.args.len() == 1 {
                    return match name.as_str() {
                        "trace" => Stmt::TraceVal(self.place(&m.args[0])),
                        "trace_gc" => Stmt::TraceGc(self.place(&m.args[0])),
                        "trace_gc_weak" => Stmt::TraceWeak(self.place(&m.args[0])),
                        _ => unk(),
                    };
                }
                if name == "trace" && m.args.len() == 1 && self.is_tracer(&m.args[0]) {
                    return Stmt::CollectTrace(self.place(&m.receiver));
                }
                // <iteration source>.for_each(|pat| body)  ==  for pat in <iteration source> { body }
                if name == "for_each" && m.args.len() == 1 {
                    if let Expr::Closure(c) = strip(&m.args[0]) {
                        let plain = c.attrs.is_empty()
                            && c.lifetimes.is_none()
                            && c.constness.is_none()
                            && c.movability.is_none()
                            && c.asyncness.is_none()
                            && c.inputs.len() == 1;
                        if plain {
                            let pat = match &c.inputs[0] {
                                Pat::Type(pt) => &*pt.pat,
                                p => p,
                            };
                            if let Some(pats) = self.binders(pat) {
                                return Stmt::ForEach(self.iter_src(&m.receiver), pats, Box::new(self.expr(&c.body)));
                            }
                        }
                    }
                }
                unk()
            }
            Expr::Call(c) => {
                if !c.attrs.is_empty() {
                    return unk();
                }
                if c.args.len() == 2 {
                    if self.is_tracer(&c.args[0]) {
                        if Ctx::is_trait_fn(&c.func, "Trace", "trace") {
                            return Stmt::TraceVal(self.place(&c.args[1]));
                        }
                        if Ctx::is_trait_fn(&c.func, "Trace", "trace_gc") {
                            return Stmt::TraceGc(self.place(&c.args[1]));
                        }
                        if Ctx::is_trait_fn(&c.func, "Trace", "trace_gc_weak") {
                            return Stmt::TraceWeak(self.place(&c.args[1]));
                        }
                    }
                    if self.is_tracer(&c.args[1]) && Ctx::is_trait_fn(&c.func, "Collect", "trace") {
                        return Stmt::CollectTrace(self.place(&c.args[0]));
                    }
                }
                unk()
            }
            Expr::ForLoop(f) => {
                if !f.attrs.is_empty() || f.label.is_some() {
                    return unk();
                }
                match self.binders(&f.pat) {
                    Some(pats) => Stmt::ForEach(self.iter_src(&f.expr), pats, Box::new(self.block(&f.body))),
                    None => unk(),
                }
            }
            Expr::If(i) => {
                if !i.attrs.is_empty() {
                    return unk();
                }
                if let Expr::Let(l) = strip(&i.cond) {
                    let (v, pats) = match self.variant_pat(&l.pat) {
                        Some(x) => x,
                        None => return unk(),
                    };
                    let mut arms = vec![(v, pats, self.block(&i.then_branch))];
                    if let Some((_, els)) = &i.else_branch {
                        arms.push(("_".to_string(), vec![], self.expr(els)));
                    }
                    return Stmt::MatchEnum(self.scrut(&l.expr), arms);
                }
                if i.else_branch.is_some() {
                    return unk();
                }
                Stmt::IfConst(self.bexpr(&i.cond), Box::new(self.block(&i.then_branch)))
            }
            Expr::Match(m) => {
                if !m.attrs.is_empty() {
                    return unk();
                }
                let mut arms = Vec::new();
                for a in &m.arms {
                    if a.guard.is_some() || !a.attrs.is_empty() {
                        return unk();
                    }
                    match self.variant_pat(&a.pat) {
                        Some((v, pats)) => arms.push((v, pats, self.expr(&a.body))),
                        None => return unk(),
                    }
                }
                Stmt::MatchEnum(self.scrut(&m.expr), arms)
            }
            Expr::Block(b) if b.label.is_none() && b.attrs.is_empty() => self.block(&b.block),
            Expr::Tuple(t) if t.elems.is_empty() => Stmt::Nop,
            _ => unk(),
        }
    }
}

// ---------------------------------------------------------------------------------------------
// Types
// ---------------------------------------------------------------------------------------------

pub type UseMap = BTreeMap<String, Vec<String>>;

pub fn collect_uses(items: &[syn::Item]) -> UseMap {
    fn walk(t: &syn::UseTree, prefix: &mut Vec<String>, out: &mut UseMap) {
        match t {
            syn::UseTree::Path(p) => {
                prefix.push(p.ident.to_string());
                walk(&p.tree, prefix, out);
                prefix.pop();
            }
            syn::UseTree::Name(n) => {
                let mut full = prefix.clone();
                if n.ident != "self" {
                    full.push(n.ident.to_string());
                }
                if let Some(last) = full.last().cloned() {
                    out.insert(last, full);
                }
            }
            syn::UseTree::Rename(r) => {
                let mut full = prefix.clone();
                if r.ident != "self" {
                    full.push(r.ident.to_string());
                }
                out.insert(r.rename.to_string(), full);
            }
            syn::UseTree::Group(g) => {
                for t in &g.items {
                    walk(t, prefix, out);
                }
            }
            syn::UseTree::Glob(_) => {}
        }
    }
    let mut out = UseMap::new();
    for it in items {
        if let syn::Item::Use(u) = it {
            walk(&u.tree, &mut Vec::new(), &mut out);
        }
    }
    out
}

const PRIMS: &[&str] = &[
    "bool", "char", "str", "u8", "u16", "u32", "u64", "u128", "usize", "i8", "i16", "i32", "i64", "i128",
    "isize", "f32", "f64",
];
const PRELUDE: &[&str] = &["Option", "Result", "Box", "Vec", "String"];

pub struct TyCon {
    pub tycon: String,
    pub id: String,
    pub args: Vec<String>,
}

pub fn canon_type(ty: &Type, uses: &UseMap) -> TyCon {
    match ty {
        Type::Paren(p) => canon_type(&p.elem, uses),
        Type::Group(g) => canon_type(&g.elem, uses),
        Type::Slice(s) => TyCon { tycon: "slice".into(), id: "slice".into(), args: vec![compact(&s.elem)] },
        Type::Array(a) => TyCon {
            tycon: "array".into(),
            id: "array".into(),
            args: vec![compact(&a.elem), compact(&a.len)],
        },
        Type::Reference(r) => {
            let lt = r.lifetime.as_ref().map(|l| l.ident.to_string()).unwrap_or_else(|| "_".into());
            let name = if r.mutability.is_some() {
                format!("refmut:'{}", lt)
            } else if lt == "static" {
                "ref_static".to_string()
            } else {
                format!("ref:'{}", lt)
            };
            TyCon { tycon: name.clone(), id: name, args: vec![compact(&r.elem)] }
        }
        Type::Tuple(t) => TyCon {
            tycon: "tuple".into(),
            id: format!("tuple/{}", t.elems.len()),
            args: t.elems.iter().map(|e| compact(e)).collect(),
        },
        Type::TraitObject(o) => {
            let name = o
                .bounds
                .iter()
                .find_map(|b| match b {
                    syn::TypeParamBound::Trait(t) => t.path.segments.last().map(|s| s.ident.to_string()),
                    _ => None,
                })
                .unwrap_or_else(|| "?".into());
            let n = format!("dyn:{}", name);
            TyCon { tycon: n.clone(), id: n, args: vec![] }
        }
        Type::Path(p) if p.qself.is_none() => {
            let segs: Vec<String> = p.path.segments.iter().map(|s| s.ident.to_string()).collect();
            let last = p.path.segments.last().unwrap();
            let mut args = Vec::new();
            if let syn::PathArguments::AngleBracketed(ab) = &last.arguments {
                for a in &ab.args {
                    match a {
                        syn::GenericArgument::Lifetime(_) => {}
                        other => args.push(compact(other)),
                    }
                }
            }
            let full: Vec<String> = if segs.len() == 1 {
                let n = &segs[0];
                if let Some(f) = uses.get(n) {
                    f.clone()
                } else if PRIMS.contains(&n.as_str()) {
                    vec![n.clone()]
                } else if PRELUDE.contains(&n.as_str()) {
                    vec!["std".into(), n.clone()]
                } else {
                    vec!["crate".into(), n.clone()]
                }
            } else if matches!(segs[0].as_str(), "crate" | "self" | "super") {
                vec!["crate".into(), segs.last().unwrap().clone()]
            } else if let Some(f) = uses.get(&segs[0]) {
                let mut v = f.clone();
                v.extend(segs[1..].iter().cloned());
                v
            } else {
                segs.clone()
            };
            let name = if full.len() == 1 {
                full[0].clone()
            } else {
                let root = match full[0].as_str() {
                    "std" | "core" | "alloc" => "std",
                    "crate" | "self" | "super" => "crate",
                    r => r,
                };
                format!("{}::{}", root, full.last().unwrap())
            };
            TyCon { tycon: name.clone(), id: name, args }
        }
        other => {
            let n = format!("unknown:{}", compact(other));
            TyCon { tycon: n.clone(), id: n, args: vec![] }
        }
    }
}

fn classify_bounds<'a>(
    bs: impl Iterator<Item = &'a syn::TypeParamBound>,
    collect: &mut bool,
    is_static: &mut bool,
    others: &mut Vec<String>,
) {
    for b in bs {
        match b {
            syn::TypeParamBound::Lifetime(l) if l.ident == "static" => *is_static = true,
            syn::TypeParamBound::Trait(t)
                if matches!(t.modifier, syn::TraitBoundModifier::None)
                    && t.lifetimes.is_none()
                    && t.path.segments.last().map(|s| s.ident == "Collect").unwrap_or(false) =>
            {
                *collect = true
            }
            o => others.push(compact(o)),
        }
    }
}

pub fn bounds_of(g: &syn::Generics) -> (Vec<Bound>, Vec<String>) {
    let mut out: Vec<Bound> = Vec::new();
    let mut consts = Vec::new();
    for p in &g.params {
        match p {
            syn::GenericParam::Type(t) => {
                let mut b = Bound {
                    ty: t.ident.to_string(),
                    is_param: true,
                    collect: false,
                    is_static: false,
                    others: vec![],
                };
                classify_bounds(t.bounds.iter(), &mut b.collect, &mut b.is_static, &mut b.others);
                out.push(b);
            }
            syn::GenericParam::Const(c) => consts.push(c.ident.to_string()),
            syn::GenericParam::Lifetime(_) => {}
        }
    }
    if let Some(w) = &g.where_clause {
        for pr in &w.predicates {
            if let syn::WherePredicate::Type(pt) = pr {
                let ty = compact(&pt.bounded_ty);
                let idx = match out.iter().position(|b| b.ty == ty) {
                    Some(i) => i,
                    None => {
                        out.push(Bound { ty: ty.clone(), is_param: false, collect: false, is_static: false, others: vec![] });
                        out.len() - 1
                    }
                };
                let mut c = out[idx].collect;
                let mut s = out[idx].is_static;
                let mut o = std::mem::take(&mut out[idx].others);
                if pt.lifetimes.is_some() {
                    o.push(format!("for-bound:{}", compact(pr)));
                } else {
                    classify_bounds(pt.bounds.iter(), &mut c, &mut s, &mut o);
                }
                out[idx].collect = c;
                out[idx].is_static = s;
                out[idx].others = o;
            }
        }
    }
    (out, consts)
}
