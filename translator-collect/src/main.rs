//! translator-collect: regenerate `Gen/GenCollectImpls.v` (+ `Gen/impls.json`) from the current
//! working tree of the gc-arena crate.  Usage: translator-collect [OUT_DIR]
//! Source root: $VERIF_REPO (default /repo).  Output files are rewritten only when they change.

mod inline;
mod ir;
mod mexpand;
mod translate;

use inline::{FnDef, FnTable, Owner};
use ir::*;
use mexpand::MacroDef;
use quote::ToTokens;
use std::collections::BTreeMap;
use std::path::{Path, PathBuf};
use syn::spanned::Spanned;
use translate::*;

struct Defaults {
    nt: BExpr,
    body: Stmt,
    trace_default: Stmt,
    notes: Vec<String>,
}

struct World {
    fns: FnTable,
    macros: BTreeMap<String, MacroDef>,
    impls: Vec<Impl>,
    notes: Vec<String>,
    defaults: Defaults,
}

// ------------------------------------------------------------------------------------------------
// The object-safe adapter of src/collect.rs: `DynCollect`, `Collect for dyn DynCollect`, the blanket
// `impl DynCollect for T` with its forwarding tracer, and the user-facing `__dyn_collect!` macro.
// ------------------------------------------------------------------------------------------------
#[derive(Default)]
struct DynAdapter {
    trait_gc_required: bool,   // `Trace::trace_gc` has no default body
    trait_weak_required: bool, // `Trace::trace_gc_weak` has no default body
    dyn_collect_body: String,  // body of `<dyn DynCollect as Collect>::trace`, tracer renamed to cc
    dyn_trace_body: String,    // statements of `dyn_trace` other than the nested items; wrapper renamed to W
    wrap_gc: String,           // what the forwarding tracer's `trace_gc` does: "gc" | "weak" | "none" | "missing" | "?tokens"
    wrap_weak: String,
    wrap_other: Vec<String>,   // any other method the forwarding tracer overrides
    macro_bodies: Vec<String>, // body of `fn trace` in each rule of `__dyn_collect!`
}

fn rename_ident(ts: proc_macro2::TokenStream, from: &str, to: &str) -> proc_macro2::TokenStream {
    use proc_macro2::{Group, Ident, TokenTree};
    ts.into_iter()
        .map(|t| match t {
            TokenTree::Ident(i) if i == from => TokenTree::Ident(Ident::new(to, i.span())),
            TokenTree::Group(g) => TokenTree::Group(Group::new(g.delimiter(), rename_ident(g.stream(), from, to))),
            o => o,
        })
        .collect()
}

fn second_arg_name(sig: &syn::Signature) -> Option<String> {
    match sig.inputs.iter().nth(1) {
        Some(syn::FnArg::Typed(pt)) => match &*pt.pat {
            syn::Pat::Ident(pi) => Some(pi.ident.to_string()),
            _ => None,
        },
        _ => None,
    }
}

fn block_text(b: &syn::Block, renames: &[(String, &str)]) -> String {
    let mut ts = proc_macro2::TokenStream::new();
    for st in &b.stmts {
        if let syn::Stmt::Item(_) = st {
            continue;
        }
        ts.extend(st.to_token_stream());
    }
    for (f, t) in renames {
        ts = rename_ident(ts, f, t);
    }
    compact_str(&ts.to_string())
}

/// What a forwarding method `fn m(&mut self, p: ..) { self.0.X(p) }` forwards to.
fn forward_of(f: &syn::ImplItemFn) -> String {
    let arg = second_arg_name(&f.sig);
    if f.block.stmts.is_empty() {
        return "none".into();
    }
    if f.block.stmts.len() == 1 {
        let e = match &f.block.stmts[0] {
            syn::Stmt::Expr(e, _) => Some(e),
            _ => None,
        };
        if let Some(syn::Expr::MethodCall(mc)) = e {
            // `self.0` or `self.<the only field>` (the wrapper is checked to have exactly one field)
            let recv_ok = matches!(&*mc.receiver, syn::Expr::Field(fe)
                if matches!(&*fe.base, syn::Expr::Path(p) if p.path.is_ident("self")));
            let arg_ok = mc.args.len() == 1
                && matches!(&mc.args[0], syn::Expr::Path(p) if Some(p.path.segments.last().map(|s| s.ident.to_string()).unwrap_or_default()) == arg);
            if recv_ok && arg_ok && mc.turbofish.is_none() {
                if mc.method == "trace_gc" {
                    return "gc".into();
                }
                if mc.method == "trace_gc_weak" {
                    return "weak".into();
                }
            }
        }
    }
    format!("?{}", compact_str(&f.block.to_token_stream().to_string()))
}

/// Canonical text of `dyn_trace`'s statements: `self.trace(&mut W(cc))`, also recognised when the wrapper is first
/// bound with `let [mut] x = W(cc);` / `let [mut] x = W { field: cc };` and then passed as `&mut x`.
fn normal_dyn_trace(b: &syn::Block, cc: &str, wrapper: &str) -> String {
    let stmts: Vec<&syn::Stmt> = b.stmts.iter().filter(|s| !matches!(s, syn::Stmt::Item(_))).collect();
    let is_wrap_of_cc = |e: &syn::Expr| -> bool {
        match e {
            syn::Expr::Call(c) => {
                matches!(&*c.func, syn::Expr::Path(p) if p.path.is_ident(wrapper)) && c.args.len() == 1 && matches!(&c.args[0], syn::Expr::Path(p) if p.path.is_ident(cc))
            }
            syn::Expr::Struct(st) => {
                st.path.is_ident(wrapper) && st.rest.is_none() && st.fields.len() == 1 && matches!(&st.fields[0].expr, syn::Expr::Path(p) if p.path.is_ident(cc))
            }
            _ => false,
        }
    };
    if stmts.len() == 2 {
        if let (syn::Stmt::Local(l), syn::Stmt::Expr(syn::Expr::MethodCall(mc), _)) = (stmts[0], stmts[1]) {
            let var = match &l.pat {
                syn::Pat::Ident(pi) if pi.by_ref.is_none() => Some(pi.ident.to_string()),
                _ => None,
            };
            let init_ok = l.init.as_ref().map(|i| i.diverge.is_none() && is_wrap_of_cc(&i.expr)).unwrap_or(false);
            let recv_self = matches!(&*mc.receiver, syn::Expr::Path(p) if p.path.is_ident("self"));
            let arg_ok = mc.args.len() == 1
                && match (&mc.args[0], &var) {
                    (syn::Expr::Reference(r), Some(v)) => r.mutability.is_some() && matches!(&*r.expr, syn::Expr::Path(p) if p.path.is_ident(v)),
                    _ => false,
                };
            if init_ok && recv_self && arg_ok && mc.method == "trace" && mc.turbofish.is_none() {
                return "self.trace(&mut W(cc))".into();
            }
        }
    }
    block_text(b, &[(cc.to_string(), "cc"), (wrapper.to_string(), "W")])
}

fn find_fn_trace_body(ts: proc_macro2::TokenStream, out: &mut Vec<String>) {
    use proc_macro2::{Delimiter, TokenTree};
    let t: Vec<TokenTree> = ts.into_iter().collect();
    let mut i = 0;
    while i < t.len() {
        if let (TokenTree::Ident(a), Some(TokenTree::Ident(b))) = (&t[i], t.get(i + 1)) {
            if a == "fn" && b == "trace" {
                // the next brace group is the body
                let mut j = i + 2;
                while j < t.len() {
                    if let TokenTree::Group(g) = &t[j] {
                        if g.delimiter() == Delimiter::Brace {
                            out.push(compact_str(&g.stream().to_string()));
                            break;
                        }
                    }
                    j += 1;
                }
                i = j;
                continue;
            }
        }
        if let TokenTree::Group(g) = &t[i] {
            find_fn_trace_body(g.stream(), out);
        }
        i += 1;
    }
}

fn read_dyn_adapter(collect_rs: &syn::File, macros: &BTreeMap<String, MacroDef>) -> DynAdapter {
    let mut d = DynAdapter { wrap_gc: "missing".into(), wrap_weak: "missing".into(), dyn_collect_body: "?not found".into(), dyn_trace_body: "?not found".into(), ..Default::default() };
    for it in &collect_rs.items {
        match it {
            syn::Item::Trait(t) if t.ident == "Trace" => {
                for ti in &t.items {
                    if let syn::TraitItem::Fn(f) = ti {
                        if f.sig.ident == "trace_gc" {
                            d.trait_gc_required = f.default.is_none();
                        }
                        if f.sig.ident == "trace_gc_weak" {
                            d.trait_weak_required = f.default.is_none();
                        }
                    }
                }
            }
            syn::Item::Impl(im) => {
                let tr = im.trait_.as_ref().and_then(|(_, p, _)| p.segments.last().map(|s| s.ident.to_string())).unwrap_or_default();
                let self_is_dyn = matches!(&*im.self_ty, syn::Type::TraitObject(to)
                    if to.bounds.iter().any(|b| matches!(b, syn::TypeParamBound::Trait(tb) if tb.path.segments.last().map(|s| s.ident == "DynCollect").unwrap_or(false))));
                if tr == "Collect" && self_is_dyn {
                    for ii in &im.items {
                        if let syn::ImplItem::Fn(f) = ii {
                            if f.sig.ident == "trace" {
                                let cc = second_arg_name(&f.sig).unwrap_or_else(|| "cc".into());
                                d.dyn_collect_body = block_text(&f.block, &[(cc, "cc")]);
                            }
                        }
                    }
                }
                if tr == "DynCollect" {
                    for ii in &im.items {
                        if let syn::ImplItem::Fn(f) = ii {
                            if f.sig.ident != "dyn_trace" {
                                continue;
                            }
                            let cc = second_arg_name(&f.sig).unwrap_or_else(|| "cc".into());
                            // the forwarding tracer: a struct with one field and its `impl Trace`, declared inside
                            // `dyn_trace` or at module level of collect.rs; it is the type `dyn_trace` constructs around `cc`
                            let mut structs: BTreeMap<String, Vec<usize>> = BTreeMap::new();
                            let mut trace_impls: Vec<&syn::ItemImpl> = Vec::new();
                            let nested_items = f.block.stmts.iter().filter_map(|st| match st {
                                syn::Stmt::Item(i) => Some(i),
                                _ => None,
                            });
                            for item in nested_items.chain(collect_rs.items.iter()) {
                                match item {
                                    syn::Item::Struct(ws) => {
                                        structs.entry(ws.ident.to_string()).or_insert_with(Vec::new).push(ws.fields.len());
                                    }
                                    syn::Item::Impl(wi) => {
                                        let wtr = wi.trait_.as_ref().and_then(|(_, p, _)| p.segments.last().map(|s| s.ident.to_string())).unwrap_or_default();
                                        if wtr == "Trace" {
                                            trace_impls.push(wi);
                                        }
                                    }
                                    _ => {}
                                }
                            }
                            let impl_name = |wi: &syn::ItemImpl| -> String {
                                match &*wi.self_ty {
                                    syn::Type::Path(tp) => tp.path.segments.last().map(|s| s.ident.to_string()).unwrap_or_default(),
                                    _ => String::new(),
                                }
                            };
                            struct Constructed { names: Vec<String> }
                            impl<'ast> syn::visit::Visit<'ast> for Constructed {
                                fn visit_expr_call(&mut self, c: &'ast syn::ExprCall) {
                                    if let syn::Expr::Path(p) = &*c.func {
                                        if let Some(i) = p.path.get_ident() { self.names.push(i.to_string()); }
                                    }
                                    syn::visit::visit_expr_call(self, c);
                                }
                                fn visit_expr_struct(&mut self, st: &'ast syn::ExprStruct) {
                                    if let Some(i) = st.path.get_ident() { self.names.push(i.to_string()); }
                                    syn::visit::visit_expr_struct(self, st);
                                }
                                fn visit_item(&mut self, _i: &'ast syn::Item) {}
                            }
                            let mut con = Constructed { names: vec![] };
                            syn::visit::Visit::visit_block(&mut con, &f.block);
                            let cands: Vec<String> = con.names.iter().filter(|n| trace_impls.iter().any(|wi| impl_name(wi) == **n)).cloned().collect();
                            let mut wrapper = String::new();
                            let mut wrapper_fields = 0usize;
                            if cands.len() == 1 {
                                wrapper = cands[0].clone();
                                // exactly one definition of the struct, else the count stays 0 and the adapter is refused
                                wrapper_fields = match structs.get(&wrapper) {
                                    Some(v) if v.len() == 1 => v[0],
                                    _ => 0,
                                };
                            } else if cands.len() > 1 {
                                d.wrap_other.push(format!("dyn_trace constructs {} tracer types", cands.len()));
                            }
                            let mine: Vec<&&syn::ItemImpl> = trace_impls.iter().filter(|wi| !wrapper.is_empty() && impl_name(wi) == wrapper).collect();
                            if mine.len() > 1 {
                                d.wrap_other.push(format!("{} impls of Trace for {}", mine.len(), wrapper));
                            }
                            for wi in mine {
                                for wii in &wi.items {
                                    if let syn::ImplItem::Fn(wf) = wii {
                                        if wf.sig.ident == "trace_gc" {
                                            d.wrap_gc = forward_of(wf);
                                        } else if wf.sig.ident == "trace_gc_weak" {
                                            d.wrap_weak = forward_of(wf);
                                        } else {
                                            d.wrap_other.push(wf.sig.ident.to_string());
                                        }
                                    } else {
                                        d.wrap_other.push(compact_str(&wii.to_token_stream().to_string()));
                                    }
                                }
                            }
                            if wrapper_fields != 1 {
                                d.wrap_other.push(format!("wrapper struct has {} fields", wrapper_fields));
                            }
                            d.dyn_trace_body = normal_dyn_trace(&f.block, &cc, &wrapper);
                        }
                    }
                }
            }
            _ => {}
        }
    }
    if let Some(m) = macros.get("__dyn_collect") {
        for r in &m.rules {
            find_fn_trace_body(r.body.clone(), &mut d.macro_bodies);
        }
    }
    d
}

fn gates_of(attrs: &[syn::Attribute]) -> Vec<String> {
    let mut out = Vec::new();
    for a in attrs {
        if a.path().is_ident("cfg") {
            if let syn::Meta::List(l) = &a.meta {
                let inner = l.tokens.clone();
                // feature = "x"
                if let Ok(nv) = syn::parse2::<syn::MetaNameValue>(inner.clone()) {
                    let val = match &nv.value {
                        syn::Expr::Lit(l) => match &l.lit {
                            syn::Lit::Str(s) => s.value(),
                            o => compact(o),
                        },
                        o => compact(o),
                    };
                    if nv.path.is_ident("feature") {
                        out.push(format!("feature:{}", val));
                    } else {
                        out.push(format!("cfg:{}={}", compact(&nv.path), val));
                    }
                } else {
                    out.push(format!("cfg:{}", compact_str(&inner.to_string())));
                }
            }
        }
    }
    out
}

fn trait_is_collect(p: &syn::Path) -> bool {
    p.segments.last().map(|s| s.ident == "Collect").unwrap_or(false)
}

fn tracer_name(sig: &syn::Signature) -> Option<String> {
    match sig.inputs.iter().nth(1)? {
        syn::FnArg::Typed(pt) => match &*pt.pat {
            syn::Pat::Ident(i) => Some(i.ident.to_string()),
            _ => None,
        },
        _ => None,
    }
}

fn translate_impl(
    w: &mut World,
    im: &syn::ItemImpl,
    file: &str,
    uses: &UseMap,
    gates: &[String],
    via_macro: Option<(String, usize)>,
) {
    let tc = canon_type(&im.self_ty, uses);
    let (bounds, consts) = bounds_of(&im.generics);
    let mut gate: Vec<String> = gates.to_vec();
    gate.extend(gates_of(&im.attrs));
    let mut nt: Option<BExpr> = None;
    let mut body: Option<Stmt> = None;
    let mut extra = Vec::new();
    for it in &im.items {
        match it {
            syn::ImplItem::Const(c) if c.ident == "NEEDS_TRACE" => {
                let ctx = Ctx::plain("cc", true);
                nt = Some(ctx.bexpr(&c.expr));
            }
            syn::ImplItem::Fn(f) if f.sig.ident == "trace" => match tracer_name(&f.sig) {
                Some(t) => {
                    let ctx = Ctx {
                        fns: Some(&w.fns),
                        file: file.to_string(),
                        self_tycon: Some(tc.id.clone()),
                        self_args: tc.args.clone(),
                        ..Ctx::plain(&t, true)
                    };
                    body = Some(ctx.block(&f.block));
                }
                None => body = Some(Stmt::Unknown(format!("signature {}", compact(&f.sig)))),
            },
            other => extra.push(compact_str(&other.to_token_stream().to_string())),
        }
    }
    if !extra.is_empty() {
        // an item other than NEEDS_TRACE / trace inside a Collect impl does not exist in the trait
        body = Some(Stmt::Seq(
            Box::new(body.unwrap_or(Stmt::Nop)),
            Box::new(Stmt::Unknown(format!("unexpected impl item {}", extra.join(" ")))),
        ));
    }
    if im.unsafety.is_none() {
        w.notes.push(format!("{}: impl Collect for {} is not `unsafe impl`", file, compact(&im.self_ty)));
    }
    let line = via_macro.as_ref().map(|m| m.1).unwrap_or_else(|| im.span().start().line);
    let imp = Impl {
        id: tc.id,
        tycon: tc.tycon,
        self_ty: compact(&im.self_ty),
        args: tc.args,
        file: file.to_string(),
        line,
        via_macro: via_macro.map(|m| m.0),
        gate,
        bounds,
        consts,
        nt_explicit: nt.is_some(),
        needs_trace: nt.unwrap_or_else(|| w.defaults.nt.clone()),
        body_explicit: body.is_some(),
        body: body.unwrap_or_else(|| w.defaults.body.clone()),
    };
    w.impls.push(imp);
}

fn unknown_impl(w: &mut World, file: &str, gates: &[String], what: String, line: usize) {
    w.impls.push(Impl {
        id: format!("unknown:{}:{}", file, line),
        tycon: format!("unknown:{}", what),
        self_ty: String::new(),
        args: vec![],
        file: file.to_string(),
        line,
        via_macro: None,
        gate: gates.to_vec(),
        bounds: vec![],
        consts: vec![],
        nt_explicit: false,
        needs_trace: BExpr::Unknown(what.clone()),
        body_explicit: false,
        body: Stmt::Unknown(what),
    });
}

struct NestedImpls<'a> {
    found: Vec<&'a syn::ItemImpl>,
}
impl<'a> syn::visit::Visit<'a> for NestedImpls<'a> {
    fn visit_item_impl(&mut self, i: &'a syn::ItemImpl) {
        if let Some((_, p, _)) = &i.trait_ {
            if trait_is_collect(p) {
                self.found.push(i);
            }
        }
        syn::visit::visit_item_impl(self, i);
    }
}

fn walk_items(w: &mut World, items: &[syn::Item], file: &str, uses: &UseMap, gates: &[String], via: Option<(String, usize)>) {
    for it in items {
        match it {
            syn::Item::Impl(im) => {
                let is_collect = im.trait_.as_ref().map(|(_, p, _)| trait_is_collect(p)).unwrap_or(false);
                if is_collect {
                    translate_impl(w, im, file, uses, gates, via.clone());
                } else {
                    // impls nested in method bodies
                    let mut v = NestedImpls { found: vec![] };
                    syn::visit::visit_item_impl(&mut v, im);
                    for n in v.found {
                        translate_impl(w, n, file, uses, gates, via.clone());
                    }
                }
            }
            syn::Item::Macro(m) => {
                let name = m.mac.path.segments.last().map(|s| s.ident.to_string()).unwrap_or_default();
                if name == "macro_rules" {
                    continue;
                }
                let line = m.span().start().line;
                if let Some(def) = w.macros.get(&name).cloned() {
                    if mexpand::mentions_collect_impl(&def) {
                        let mut g = gates.to_vec();
                        g.extend(gates_of(&m.attrs));
                        match mexpand::expand(&def, m.mac.tokens.clone()) {
                            Ok(ts) => match syn::parse2::<syn::File>(ts.clone()) {
                                Ok(f) => {
                                    let v = via.clone().unwrap_or((name.clone(), line));
                                    walk_items(w, &f.items, file, uses, &g, Some(v));
                                }
                                Err(e) => unknown_impl(
                                    w, file, &g,
                                    format!("expansion of {}! does not parse: {} :: {}", name, e, compact_str(&ts.to_string())),
                                    line,
                                ),
                            },
                            Err(e) => unknown_impl(w, file, &g, format!("cannot expand {}!: {}", name, e), line),
                        }
                    }
                }
            }
            syn::Item::Mod(md) => {
                if let Some((_, inner)) = &md.content {
                    let mut g = gates.to_vec();
                    g.extend(gates_of(&md.attrs));
                    walk_items(w, inner, file, uses, &g, via.clone());
                }
            }
            other => {
                let mut v = NestedImpls { found: vec![] };
                syn::visit::visit_item(&mut v, other);
                for n in v.found {
                    translate_impl(w, n, file, uses, gates, via.clone());
                }
            }
        }
    }
}

/// Every function the crate defines (free, inherent, trait-impl), for inlining helper calls out of `trace`.
fn gather_fns(items: &[syn::Item], file: &str, uses: &UseMap, out: &mut Vec<FnDef>) {
    for it in items {
        match it {
            syn::Item::Fn(f) => out.push(FnDef::from_item(f, file)),
            syn::Item::Impl(im) => {
                let tc = canon_type(&im.self_ty, uses);
                let impl_generics: Vec<String> = im.generics.type_params().map(|p| p.ident.to_string()).collect();
                let owner = match &im.trait_ {
                    None => Owner::Inherent(tc.id.clone(), tc.args.clone()),
                    Some((_, p, _)) => {
                        if trait_is_collect(p) {
                            continue;
                        }
                        Owner::TraitImpl(p.segments.last().map(|s| s.ident.to_string()).unwrap_or_default(), tc.id.clone(), tc.args.clone())
                    }
                };
                // a `#[cfg]` on the impl block could make the definition conditional: keep the attribute on the
                // function so that `inlinable` refuses it
                for ii in &im.items {
                    if let syn::ImplItem::Fn(f) = ii {
                        let mut attrs = f.attrs.clone();
                        attrs.extend(im.attrs.iter().filter(|a| a.path().is_ident("cfg")).cloned());
                        out.push(FnDef {
                            name: f.sig.ident.to_string(),
                            file: file.to_string(),
                            owner: owner.clone(),
                            attrs,
                            sig: f.sig.clone(),
                            block: f.block.clone(),
                            impl_generics: impl_generics.clone(),
                        });
                    }
                }
            }
            syn::Item::Mod(md) => {
                if let Some((_, inner)) = &md.content {
                    // an inline module: its functions are only reachable through a path the resolver does not
                    // model, except by `use`; keep them (resolution stays unique-by-name and fails closed)
                    let before = out.len();
                    gather_fns(inner, file, uses, out);
                    if md.attrs.iter().any(|a| a.path().is_ident("cfg")) {
                        for d in out[before..].iter_mut() {
                            d.attrs.extend(md.attrs.iter().filter(|a| a.path().is_ident("cfg")).cloned());
                        }
                    }
                }
            }
            _ => {}
        }
    }
}

fn gather_macros(items: &[syn::Item], file: &str, out: &mut BTreeMap<String, MacroDef>, notes: &mut Vec<String>) {
    for it in items {
        match it {
            syn::Item::Macro(m) if m.mac.path.is_ident("macro_rules") => {
                if let Some(id) = &m.ident {
                    match mexpand::parse_macro_rules(&id.to_string(), file, m.mac.tokens.clone()) {
                        Ok(d) => {
                            out.insert(id.to_string(), d);
                        }
                        Err(e) => {
                            notes.push(format!("{}: macro_rules! {} not parsed: {}", file, id, e));
                            // keep a stub so that invocations fail closed
                            out.insert(
                                id.to_string(),
                                MacroDef { name: id.to_string(), file: file.to_string(), rules: vec![], raw: m.mac.tokens.clone() },
                            );
                        }
                    }
                }
            }
            syn::Item::Mod(md) => {
                if let Some((_, inner)) = &md.content {
                    gather_macros(inner, file, out, notes);
                }
            }
            _ => {}
        }
    }
}

fn read_defaults(collect_rs: &syn::File) -> Defaults {
    let mut d = Defaults {
        nt: BExpr::Unknown("trait Collect: NEEDS_TRACE default not found".into()),
        body: Stmt::Unknown("trait Collect: default trace body not found".into()),
        trace_default: Stmt::Unknown("trait Trace: default trace body not found".into()),
        notes: vec![],
    };
    for it in &collect_rs.items {
        if let syn::Item::Trait(t) = it {
            if t.ident == "Collect" {
                for ti in &t.items {
                    match ti {
                        syn::TraitItem::Const(c) if c.ident == "NEEDS_TRACE" => {
                            if let Some((_, e)) = &c.default {
                                let ctx = Ctx::plain("cc", true);
                                d.nt = ctx.bexpr(e);
                            }
                        }
                        syn::TraitItem::Fn(f) if f.sig.ident == "trace" => {
                            if let (Some(b), Some(t)) = (&f.default, tracer_name(&f.sig)) {
                                let ctx = Ctx::plain(&t, true);
                                d.body = ctx.block(b);
                            }
                        }
                        _ => {}
                    }
                }
            }
            if t.ident == "Trace" {
                for ti in &t.items {
                    if let syn::TraitItem::Fn(f) = ti {
                        if f.sig.ident == "trace" {
                            // fn trace<C: Collect<'gc> + ?Sized>(&mut self, value: &C)
                            let gen_ok = f.sig.generics.type_params().count() == 1;
                            let gname = f.sig.generics.type_params().next().map(|p| p.ident.to_string());
                            let vname = tracer_name(&f.sig); // second argument
                            match (&f.default, gen_ok, gname, vname) {
                                (Some(b), true, Some(g), Some(v)) => {
                                    let ctx = Ctx::plain("self", false);
                                    let s = ctx.block(b);
                                    // normalise the names to C / value
                                    d.trace_default = rename(&s, &g, &v);
                                }
                                _ => {
                                    d.notes.push("Trace::trace signature not understood".into());
                                }
                            }
                        }
                    }
                }
            }
        }
    }
    d
}

fn rename_b(b: &BExpr, g: &str) -> BExpr {
    match b {
        BExpr::Var(t) if t == g => BExpr::Var("C".into()),
        BExpr::Var(t) if t == "C" => BExpr::Var("C'".into()),
        BExpr::Or(a, c) => BExpr::Or(Box::new(rename_b(a, g)), Box::new(rename_b(c, g))),
        BExpr::And(a, c) => BExpr::And(Box::new(rename_b(a, g)), Box::new(rename_b(c, g))),
        BExpr::Not(a) => BExpr::Not(Box::new(rename_b(a, g))),
        o => o.clone(),
    }
}

fn rename_p(p: &Place, v: &str) -> Place {
    match p {
        Place::Var(x) if x == v => Place::Var("value".into()),
        Place::Var(x) if x == "value" => Place::Var("value'".into()),
        o => o.clone(),
    }
}

fn rename(s: &Stmt, g: &str, v: &str) -> Stmt {
    match s {
        Stmt::Seq(a, b) => Stmt::Seq(Box::new(rename(a, g, v)), Box::new(rename(b, g, v))),
        Stmt::TraceVal(p) => Stmt::TraceVal(rename_p(p, v)),
        Stmt::CollectTrace(p) => Stmt::CollectTrace(rename_p(p, v)),
        Stmt::TraceGc(p) => Stmt::TraceGc(rename_p(p, v)),
        Stmt::TraceWeak(p) => Stmt::TraceWeak(rename_p(p, v)),
        Stmt::IfConst(b, body) => Stmt::IfConst(rename_b(b, g), Box::new(rename(body, g, v))),
        Stmt::ForEach(a, b, c) => Stmt::ForEach(a.clone(), b.clone(), Box::new(rename(c, g, v))),
        Stmt::LetTuple(a, b) => Stmt::LetTuple(a.clone(), Box::new(rename(b, g, v))),
        Stmt::MatchEnum(sc, arms) => Stmt::MatchEnum(
            sc.clone(),
            arms.iter().map(|(a, b, c)| (a.clone(), b.clone(), rename(c, g, v))).collect(),
        ),
        o => o.clone(),
    }
}

fn write_if_changed(p: &Path, content: &str) -> std::io::Result<bool> {
    if let Ok(old) = std::fs::read_to_string(p) {
        if old == content {
            return Ok(false);
        }
    }
    std::fs::write(p, content)?;
    Ok(true)
}

fn coq_ident(id: &str) -> String {
    let mut s = String::from("impl_");
    for c in id.chars() {
        if c.is_ascii_alphanumeric() {
            s.push(c);
        } else {
            s.push('_');
        }
    }
    s
}

fn main() {
    let repo = std::env::var("VERIF_REPO").unwrap_or_else(|_| "/repo".to_string());
    let out_dir = std::env::args().nth(1).unwrap_or_else(|| "/verif/coq-collect/Gen".to_string());
    let src = PathBuf::from(&repo).join("src");
    let mut notes: Vec<String> = Vec::new();

    // --- lib.rs: module declarations and their gates -------------------------------------
    let lib_txt = std::fs::read_to_string(src.join("lib.rs")).expect("cannot read src/lib.rs");
    let lib = syn::parse_file(&lib_txt).expect("cannot parse src/lib.rs");
    let mut mod_gates: BTreeMap<String, Vec<String>> = BTreeMap::new();
    for it in &lib.items {
        if let syn::Item::Mod(m) = it {
            if m.content.is_none() {
                mod_gates.insert(m.ident.to_string(), gates_of(&m.attrs));
            }
        }
    }

    // --- parse all module files ---------------------------------------------------------
    let mut files: Vec<(String, syn::File, Vec<String>)> = Vec::new();
    let mut names: Vec<String> = std::fs::read_dir(&src)
        .expect("cannot list src")
        .filter_map(|e| e.ok())
        .filter_map(|e| {
            let n = e.file_name().to_string_lossy().to_string();
            if e.path().is_dir() {
                notes.push(format!("src/{} is a directory: not translated (fail closed)", n));
                return Some(format!("<dir>{}", n));
            }
            if n.ends_with(".rs") { Some(n) } else { None }
        })
        .collect();
    names.sort();
    let mut parse_failures: Vec<(String, String)> = Vec::new();
    let mut dirs: Vec<String> = Vec::new();
    for n in &names {
        if let Some(d) = n.strip_prefix("<dir>") {
            dirs.push(d.to_string());
            continue;
        }
        let stem = n.trim_end_matches(".rs").to_string();
        let gates = if stem == "lib" {
            vec![]
        } else {
            match mod_gates.get(&stem) {
                Some(g) => g.clone(),
                None => {
                    notes.push(format!("src/{} is not declared as a module in lib.rs: skipped", n));
                    continue;
                }
            }
        };
        let txt = std::fs::read_to_string(src.join(n)).expect("read");
        match syn::parse_file(&txt) {
            Ok(f) => files.push((format!("src/{}", n), f, gates)),
            Err(e) => parse_failures.push((format!("src/{}", n), e.to_string())),
        }
    }

    // --- macros, defaults ----------------------------------------------------------------
    let mut macros = BTreeMap::new();
    for (name, f, _) in &files {
        gather_macros(&f.items, name, &mut macros, &mut notes);
    }
    let defaults = match files.iter().find(|(n, _, _)| n == "src/collect.rs") {
        Some((_, f, _)) => read_defaults(f),
        None => Defaults {
            nt: BExpr::Unknown("src/collect.rs missing".into()),
            body: Stmt::Unknown("src/collect.rs missing".into()),
            trace_default: Stmt::Unknown("src/collect.rs missing".into()),
            notes: vec![],
        },
    };
    let dyn_adapter = match files.iter().find(|(n, _, _)| n == "src/collect.rs") {
        Some((_, f, _)) => read_dyn_adapter(f, &macros),
        None => DynAdapter::default(),
    };
    let mut fns = FnTable::default();
    for (name, f, _) in &files {
        let uses = collect_uses(&f.items);
        gather_fns(&f.items, name, &uses, &mut fns.fns);
        fns.uses.insert(name.clone(), uses);
    }
    let mut w = World { fns, macros, impls: vec![], notes, defaults };
    let dn = w.defaults.notes.clone();
    w.notes.extend(dn);

    for (name, f, gates) in &files {
        let uses = collect_uses(&f.items);
        walk_items(&mut w, &f.items, name, &uses, gates, None);
    }
    for (n, e) in &parse_failures {
        unknown_impl(&mut w, n, &[], format!("file does not parse: {}", e), 0);
    }
    for d in &dirs {
        unknown_impl(&mut w, &format!("src/{}", d), &[], "module directory not translated".into(), 0);
    }

    // macros that define Collect impls but are never invoked in-crate (user-facing only)
    let uninvoked: Vec<String> = w
        .macros
        .values()
        .filter(|d| mexpand::mentions_collect_impl(d))
        .filter(|d| !w.impls.iter().any(|i| i.via_macro.as_deref() == Some(d.name.as_str())))
        .map(|d| d.name.clone())
        .collect();

    // --- unique ids ---------------------------------------------------------------------
    let mut seen: BTreeMap<String, usize> = BTreeMap::new();
    for i in w.impls.iter_mut() {
        let k = seen.entry(i.id.clone()).or_insert(0);
        *k += 1;
        if *k > 1 {
            i.id = format!("{}#{}", i.id, k);
        }
    }

    // --- emit Coq -----------------------------------------------------------------------
    let mut v = String::new();
    v.push_str("(* GENERATED by /verif/translator-collect from the gc-arena source tree. DO NOT EDIT. *)\n");
    v.push_str("From Coq Require Import List String.\nFrom GACollect Require Import ModelDSL.\nImport ListNotations.\nOpen Scope string_scope.\n\n");
    v.push_str("(* default of `const NEEDS_TRACE` in `trait Collect` *)\n");
    v.push_str(&format!("Definition trait_default_needs_trace : bexpr := {}.\n", w.defaults.nt.coq()));
    v.push_str("(* default body of `Collect::trace` *)\n");
    v.push_str(&format!("Definition trait_default_body : stmt := {}.\n", w.defaults.body.coq()));
    v.push_str("(* default body of `Trace::trace<C>(&mut self, value: &C)`, with the type parameter renamed to C and the argument to value *)\n");
    v.push_str(&format!("Definition trace_default : stmt := {}.\n\n", w.defaults.trace_default.coq()));
    let fwd = |x: &str| match x {
        "gc" => "FwdGc".to_string(),
        "weak" => "FwdWeak".to_string(),
        "none" => "FwdNone".to_string(),
        o => format!("(FwdUnknown {})", coq_str(o)),
    };
    v.push_str("(* the object-safe adapter of src/collect.rs (DynCollect / dyn_collect!) *)\n");
    v.push_str(&format!(
        "Definition dyn_adapter_real : dyn_adapter :=\n  {{| da_trait_gc_required := {}; da_trait_weak_required := {};\n     da_dyn_collect_body := {};\n     da_dyn_trace_body := {};\n     da_wrap_gc := {}; da_wrap_weak := {};\n     da_wrap_other := [{}];\n     da_macro_bodies := [{}] |}}.\n\n",
        dyn_adapter.trait_gc_required,
        dyn_adapter.trait_weak_required,
        coq_str(&dyn_adapter.dyn_collect_body),
        coq_str(&dyn_adapter.dyn_trace_body),
        fwd(&dyn_adapter.wrap_gc),
        fwd(&dyn_adapter.wrap_weak),
        dyn_adapter.wrap_other.iter().map(|x| coq_str(x)).collect::<Vec<_>>().join("; "),
        dyn_adapter.macro_bodies.iter().map(|x| coq_str(x)).collect::<Vec<_>>().join("; ")
    ));
    let mut names = Vec::new();
    for i in &w.impls {
        let n = coq_ident(&i.id);
        v.push_str(&format!(
            "(* {}{} *)\nDefinition {} : impl :=\n  {}.\n\n",
            i.file,
            i.via_macro.as_ref().map(|m| format!(" via {}!", m)).unwrap_or_default(),
            n,
            i.coq()
        ));
        names.push(n);
    }
    v.push_str("Definition impls : list impl :=\n  [");
    v.push_str(&names.join(";\n   "));
    v.push_str("].\n");

    // --- emit JSON sidecar --------------------------------------------------------------
    let mut j = String::from("{\n \"impls\": [\n");
    for (k, i) in w.impls.iter().enumerate() {
        let mut unk = Vec::new();
        i.body.unknowns(&mut unk);
        if i.needs_trace.has_unknown() {
            unk.push(format!("NEEDS_TRACE `{}`", i.needs_trace.coq()));
        }
        let collect: Vec<String> = i.bounds.iter().filter(|b| b.collect).map(|b| b.ty.clone()).collect();
        j.push_str(&format!(
            "  {{\"id\": {}, \"tycon\": {}, \"self_ty\": {}, \"args\": [{}], \"file\": {}, \"line\": {}, \"via_macro\": {}, \"gate\": [{}], \"collect_params\": [{}], \"unknown\": [{}], \"coq_name\": {}}}{}\n",
            json_str(&i.id),
            json_str(&i.tycon),
            json_str(&i.self_ty),
            i.args.iter().map(|s| json_str(s)).collect::<Vec<_>>().join(", "),
            json_str(&i.file),
            i.line,
            i.via_macro.as_ref().map(|m| json_str(m)).unwrap_or_else(|| "null".into()),
            i.gate.iter().map(|s| json_str(s)).collect::<Vec<_>>().join(", "),
            collect.iter().map(|s| json_str(s)).collect::<Vec<_>>().join(", "),
            unk.iter().map(|s| json_str(s)).collect::<Vec<_>>().join(", "),
            json_str(&coq_ident(&i.id)),
            if k + 1 < w.impls.len() { "," } else { "" }
        ));
    }
    j.push_str(" ],\n");
    let mut td_unk = Vec::new();
    w.defaults.trace_default.unknowns(&mut td_unk);
    j.push_str(&format!(
        " \"trace_default\": {},\n \"trace_default_unknown\": [{}],\n \"uninvoked_collect_macros\": [{}],\n \"notes\": [{}]\n}}\n",
        json_str(&w.defaults.trace_default.coq()),
        td_unk.iter().map(|s| json_str(s)).collect::<Vec<_>>().join(", "),
        uninvoked.iter().map(|s| json_str(s)).collect::<Vec<_>>().join(", "),
        w.notes.iter().map(|s| json_str(s)).collect::<Vec<_>>().join(", ")
    ));

    std::fs::create_dir_all(&out_dir).expect("mkdir out");
    let c1 = write_if_changed(&PathBuf::from(&out_dir).join("GenCollectImpls.v"), &v).expect("write .v");
    let c2 = write_if_changed(&PathBuf::from(&out_dir).join("impls.json"), &j).expect("write json");
    println!(
        "translator-collect: {} impls from {} ({}); GenCollectImpls.v {}, impls.json {}",
        w.impls.len(),
        repo,
        if parse_failures.is_empty() { "all files parsed".to_string() } else { format!("{} files failed to parse", parse_failures.len()) },
        if c1 { "rewritten" } else { "unchanged" },
        if c2 { "rewritten" } else { "unchanged" }
    );
}
