//! A small `macro_rules!` expander, sufficient for the crate's local item-position macros
//! (`make_lock_wrapper!`, `static_collect!`, `impl_tuple!`, `impl_has_aligned_type!`).
//!
//! Supported: literal tokens, delimited groups, `$name:frag` for frag in {ident, tt, ty, expr, path,
//! meta, lifetime, literal, vis, block, pat, item, stmt}, repetitions `$( .. ) sep? (*|+|?)` (nested),
//! `$crate`. Anything else makes the expansion fail, and the caller records an Unknown item (fail
//! closed).

use proc_macro2::{Delimiter, Group, Ident, Punct, Spacing, Span, TokenStream, TokenTree};
use std::collections::HashMap;

#[derive(Clone, Debug)]
enum M {
    Tok(TokenTree),
    Group(Delimiter, Vec<M>),
    Var(String, String),
    Rep(Vec<M>, Option<TokenTree>, char),
}

#[derive(Clone, Debug)]
enum Binding {
    Leaf(TokenStream),
    Seq(Vec<Binding>),
}

#[derive(Clone, Debug)]
pub struct Rule {
    matcher: Vec<M>,
    pub matcher_text: String,
    pub transcriber: TokenStream,
}

#[derive(Clone, Debug)]
pub struct MacroDef {
    pub name: String,
    pub rules: Vec<Rule>,
}

fn flatten_vars(ms: &[M], out: &mut Vec<(String, String)>) {
    for m in ms {
        match m {
            M::Var(n, f) => out.push((n.clone(), f.clone())),
            M::Group(_, inner) | M::Rep(inner, _, _) => flatten_vars(inner, out),
            M::Tok(_) => {}
        }
    }
}

impl Rule {
    /// Every `$name:frag` of the matcher (repetitions and groups flattened).
    pub fn vars(&self) -> Vec<(String, String)> {
        let mut out = vec![];
        flatten_vars(&self.matcher, &mut out);
        out
    }
}

fn is_punct(t: &TokenTree, c: char) -> bool {
    matches!(t, TokenTree::Punct(p) if p.as_char() == c)
}

pub fn parse_macro_rules(name: &str, body: TokenStream) -> Result<MacroDef, String> {
    let toks: Vec<TokenTree> = body.into_iter().collect();
    let mut rules = vec![];
    let mut i = 0;
    while i < toks.len() {
        let m = match &toks[i] {
            TokenTree::Group(g) => g.clone(),
            t => return Err(format!("macro {}: expected matcher group, found `{}`", name, t)),
        };
        if i + 3 >= toks.len() || !(is_punct(&toks[i + 1], '=') && is_punct(&toks[i + 2], '>')) {
            return Err(format!("macro {}: expected `=> {{..}}` after the matcher", name));
        }
        let tr = match toks.get(i + 3) {
            Some(TokenTree::Group(g)) => g.clone(),
            _ => return Err(format!("macro {}: expected transcriber group", name)),
        };
        rules.push(Rule {
            matcher: parse_matcher(m.stream())?,
            matcher_text: m.stream().to_string(),
            transcriber: tr.stream(),
        });
        i += 4;
        if i < toks.len() && is_punct(&toks[i], ';') {
            i += 1;
        }
    }
    Ok(MacroDef { name: name.to_string(), rules })
}

fn parse_matcher(ts: TokenStream) -> Result<Vec<M>, String> {
    let toks: Vec<TokenTree> = ts.into_iter().collect();
    let mut out = vec![];
    let mut i = 0;
    while i < toks.len() {
        match &toks[i] {
            TokenTree::Punct(p) if p.as_char() == '$' => {
                match toks.get(i + 1) {
                    Some(TokenTree::Ident(id)) => {
                        // $name:frag
                        if !(toks.get(i + 2).map(|t| is_punct(t, ':')).unwrap_or(false)) {
                            return Err(format!("matcher: `${}` without fragment specifier", id));
                        }
                        let frag = match toks.get(i + 3) {
                            Some(TokenTree::Ident(f)) => f.to_string(),
                            _ => return Err("matcher: missing fragment specifier".into()),
                        };
                        out.push(M::Var(id.to_string(), frag));
                        i += 4;
                    }
                    Some(TokenTree::Group(g)) if g.delimiter() == Delimiter::Parenthesis => {
                        let inner = parse_matcher(g.stream())?;
                        // separator? op
                        let mut j = i + 2;
                        let mut sep = None;
                        let op;
                        match toks.get(j) {
                            Some(TokenTree::Punct(p)) if matches!(p.as_char(), '*' | '+' | '?') => {
                                op = p.as_char();
                                j += 1;
                            }
                            Some(t) => {
                                sep = Some(t.clone());
                                j += 1;
                                match toks.get(j) {
                                    Some(TokenTree::Punct(p)) if matches!(p.as_char(), '*' | '+' | '?') => {
                                        op = p.as_char();
                                        j += 1;
                                    }
                                    _ => return Err("matcher: repetition without operator".into()),
                                }
                            }
                            None => return Err("matcher: repetition without operator".into()),
                        }
                        out.push(M::Rep(inner, sep, op));
                        i = j;
                    }
                    _ => return Err("matcher: stray `$`".into()),
                }
            }
            TokenTree::Group(g) => {
                out.push(M::Group(g.delimiter(), parse_matcher(g.stream())?));
                i += 1;
            }
            t => {
                out.push(M::Tok(t.clone()));
                i += 1;
            }
        }
    }
    Ok(out)
}

fn tok_eq(a: &TokenTree, b: &TokenTree) -> bool {
    match (a, b) {
        (TokenTree::Ident(x), TokenTree::Ident(y)) => x == y,
        (TokenTree::Punct(x), TokenTree::Punct(y)) => x.as_char() == y.as_char(),
        (TokenTree::Literal(x), TokenTree::Literal(y)) => x.to_string() == y.to_string(),
        _ => false,
    }
}

/// Parse one fragment with syn from `toks[pos..]`; returns the number of token trees consumed.
fn syn_fragment(frag: &str, toks: &[TokenTree], pos: usize) -> Option<usize> {
    use syn::parse::Parser;
    let rest: TokenStream = toks[pos..].iter().cloned().collect();
    let total = toks.len() - pos;
    macro_rules! try_parse {
        ($t:ty) => {{
            let p = |input: syn::parse::ParseStream| -> syn::Result<TokenStream> {
                let _x: $t = input.parse()?;
                input.parse::<TokenStream>()
            };
            p.parse2(rest).ok().map(|r| total - r.into_iter().count())
        }};
    }
    let n = match frag {
        "ty" => try_parse!(syn::Type),
        "expr" => try_parse!(syn::Expr),
        "path" => try_parse!(syn::Path),
        "meta" => try_parse!(syn::Meta),
        "vis" => try_parse!(syn::Visibility),
        "block" => try_parse!(syn::Block),
        "item" => try_parse!(syn::Item),
        "stmt" => try_parse!(syn::Stmt),
        "pat" | "pat_param" => {
            let p = |input: syn::parse::ParseStream| -> syn::Result<TokenStream> {
                let _x = syn::Pat::parse_multi_with_leading_vert(input)?;
                input.parse::<TokenStream>()
            };
            p.parse2(rest).ok().map(|r| total - r.into_iter().count())
        }
        _ => None,
    };
    n.filter(|&k| k > 0 || frag == "vis")
}

fn match_seq(ms: &[M], toks: &[TokenTree], mut pos: usize, b: &mut HashMap<String, Binding>) -> Option<usize> {
    for (k, m) in ms.iter().enumerate() {
        match m {
            M::Tok(t) => {
                if pos < toks.len() && tok_eq(t, &toks[pos]) {
                    pos += 1;
                } else {
                    return None;
                }
            }
            M::Group(d, inner) => match toks.get(pos) {
                Some(TokenTree::Group(g)) if g.delimiter() == *d => {
                    let it: Vec<TokenTree> = g.stream().into_iter().collect();
                    let end = match_seq(inner, &it, 0, b)?;
                    if end != it.len() {
                        return None;
                    }
                    pos += 1;
                }
                _ => return None,
            },
            M::Var(name, frag) => {
                let n = match frag.as_str() {
                    "ident" => match toks.get(pos) {
                        Some(TokenTree::Ident(_)) => 1,
                        _ => return None,
                    },
                    "tt" => match toks.get(pos) {
                        Some(TokenTree::Punct(p)) if p.as_char() == '\'' && p.spacing() == Spacing::Joint => 2,
                        Some(_) => 1,
                        None => return None,
                    },
                    "lifetime" => match (toks.get(pos), toks.get(pos + 1)) {
                        (Some(TokenTree::Punct(p)), Some(TokenTree::Ident(_))) if p.as_char() == '\'' => 2,
                        _ => return None,
                    },
                    "literal" => match (toks.get(pos), toks.get(pos + 1)) {
                        (Some(TokenTree::Literal(_)), _) => 1,
                        (Some(TokenTree::Punct(p)), Some(TokenTree::Literal(_))) if p.as_char() == '-' => 2,
                        _ => return None,
                    },
                    f => syn_fragment(f, toks, pos)?,
                };
                if pos + n > toks.len() {
                    return None;
                }
                let ts: TokenStream = toks[pos..pos + n].iter().cloned().collect();
                // Multi-token fragments are substituted as an invisible group so precedence is kept.
                let ts = if n > 1 && matches!(frag.as_str(), "expr" | "ty") {
                    TokenStream::from(TokenTree::Group(Group::new(Delimiter::None, ts)))
                } else {
                    ts
                };
                b.insert(name.clone(), Binding::Leaf(ts));
                pos += n;
            }
            M::Rep(inner, sep, op) => {
                let mut iters: Vec<HashMap<String, Binding>> = vec![];
                loop {
                    if *op == '?' && iters.len() == 1 {
                        break;
                    }
                    let mut p = pos;
                    if !iters.is_empty() {
                        if let Some(s) = sep {
                            if p < toks.len() && tok_eq(s, &toks[p]) {
                                p += 1;
                            } else {
                                break;
                            }
                        }
                    }
                    let mut nb = HashMap::new();
                    match match_seq(inner, toks, p, &mut nb) {
                        Some(e) if e > p || inner.is_empty() => {
                            // Greedy, but the rest of the matcher must still be able to match: check
                            // lazily only at the end (macro_rules itself does not backtrack).
                            if e == p {
                                break;
                            }
                            pos = e;
                            iters.push(nb);
                        }
                        _ => break,
                    }
                }
                if *op == '+' && iters.is_empty() {
                    return None;
                }
                // Trailing separator is not consumed (matches rustc).
                let mut names = vec![];
                collect_vars(inner, &mut names);
                for n in names {
                    let seq = iters.iter().map(|it| it.get(&n).cloned().unwrap_or(Binding::Seq(vec![]))).collect();
                    b.insert(n, Binding::Seq(seq));
                }
                let _ = k;
            }
        }
    }
    Some(pos)
}

fn collect_vars(ms: &[M], out: &mut Vec<String>) {
    for m in ms {
        match m {
            M::Var(n, _) => out.push(n.clone()),
            M::Group(_, i) | M::Rep(i, _, _) => collect_vars(i, out),
            M::Tok(_) => {}
        }
    }
}

fn lookup<'a>(b: &'a HashMap<String, Binding>, name: &str, idx: &[usize]) -> Option<&'a Binding> {
    let mut cur = b.get(name)?;
    for &i in idx {
        match cur {
            Binding::Seq(v) => cur = v.get(i)?,
            Binding::Leaf(_) => return Some(cur), // depth-0 variable used inside a repetition
        }
    }
    Some(cur)
}

fn vars_in(ts: &TokenStream, out: &mut Vec<String>) {
    let toks: Vec<TokenTree> = ts.clone().into_iter().collect();
    let mut i = 0;
    while i < toks.len() {
        match &toks[i] {
            TokenTree::Punct(p) if p.as_char() == '$' => {
                if let Some(TokenTree::Ident(id)) = toks.get(i + 1) {
                    out.push(id.to_string());
                    i += 2;
                    continue;
                }
                if let Some(TokenTree::Group(g)) = toks.get(i + 1) {
                    vars_in(&g.stream(), out);
                    i += 2;
                    continue;
                }
                i += 1;
            }
            TokenTree::Group(g) => {
                vars_in(&g.stream(), out);
                i += 1;
            }
            _ => i += 1,
        }
    }
}

fn transcribe(ts: &TokenStream, b: &HashMap<String, Binding>, idx: &mut Vec<usize>) -> Result<TokenStream, String> {
    let toks: Vec<TokenTree> = ts.clone().into_iter().collect();
    let mut out = TokenStream::new();
    let mut i = 0;
    while i < toks.len() {
        match &toks[i] {
            TokenTree::Punct(p) if p.as_char() == '$' => match toks.get(i + 1) {
                Some(TokenTree::Ident(id)) if id == "crate" => {
                    out.extend([TokenTree::Ident(Ident::new("crate", Span::call_site()))]);
                    i += 2;
                }
                Some(TokenTree::Ident(id)) => {
                    match lookup(b, &id.to_string(), idx) {
                        Some(Binding::Leaf(l)) => out.extend(l.clone()),
                        Some(Binding::Seq(_)) => return Err(format!("`${}` used at the wrong repetition depth", id)),
                        None => return Err(format!("unbound macro variable `${}`", id)),
                    }
                    i += 2;
                }
                Some(TokenTree::Group(g)) if g.delimiter() == Delimiter::Parenthesis => {
                    // repetition in the transcriber
                    let mut j = i + 2;
                    let mut sep: Option<TokenTree> = None;
                    match toks.get(j) {
                        Some(TokenTree::Punct(p)) if matches!(p.as_char(), '*' | '+' | '?') => j += 1,
                        Some(t) => {
                            sep = Some(t.clone());
                            j += 1;
                            match toks.get(j) {
                                Some(TokenTree::Punct(p)) if matches!(p.as_char(), '*' | '+' | '?') => j += 1,
                                _ => return Err("transcriber: repetition without operator".into()),
                            }
                        }
                        None => return Err("transcriber: repetition without operator".into()),
                    }
                    let mut names = vec![];
                    vars_in(&g.stream(), &mut names);
                    let mut len: Option<usize> = None;
                    for n in &names {
                        if let Some(Binding::Seq(v)) = lookup(b, n, idx) {
                            match len {
                                None => len = Some(v.len()),
                                Some(l) if l == v.len() => {}
                                Some(_) => return Err("transcriber: repetition length mismatch".into()),
                            }
                        }
                    }
                    let len = len.ok_or_else(|| "transcriber: repetition without a repeating variable".to_string())?;
                    for k in 0..len {
                        if k > 0 {
                            if let Some(s) = &sep {
                                out.extend([s.clone()]);
                            }
                        }
                        idx.push(k);
                        let r = transcribe(&g.stream(), b, idx);
                        idx.pop();
                        out.extend(r?);
                    }
                    i = j;
                }
                _ => {
                    out.extend([TokenTree::Punct(Punct::new('$', Spacing::Alone))]);
                    i += 1;
                }
            },
            TokenTree::Group(g) => {
                let inner = transcribe(&g.stream(), b, idx)?;
                let mut ng = Group::new(g.delimiter(), inner);
                ng.set_span(g.span());
                out.extend([TokenTree::Group(ng)]);
                i += 1;
            }
            t => {
                out.extend([t.clone()]);
                i += 1;
            }
        }
    }
    Ok(out)
}

/// Expand one invocation; tries the rules in order.
pub fn expand(def: &MacroDef, input: TokenStream) -> Result<TokenStream, String> {
    let toks: Vec<TokenTree> = input.into_iter().collect();
    for r in &def.rules {
        let mut b = HashMap::new();
        if let Some(end) = match_seq(&r.matcher, &toks, 0, &mut b) {
            if end == toks.len() {
                return transcribe(&r.transcriber, &b, &mut vec![]);
            }
        }
    }
    Err(format!("no rule of `{}!` matches the invocation", def.name))
}
