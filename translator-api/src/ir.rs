//! Intermediate representation mirroring /verif/coq-api/Syntax.v, and its printer to Gallina.

#[derive(Clone, Debug, PartialEq, Eq)]
pub enum Lt {
    Static,
    Named(String),
    Elided,
}

#[derive(Clone, Debug, PartialEq, Eq)]
pub enum Ty {
    Path(String, Vec<Lt>, Vec<Ty>),
    Param(String),
    Ref(Lt, bool, Box<Ty>),
    Ptr(bool, Box<Ty>),
    Slice(Box<Ty>),
    Array(Box<Ty>),
    Tuple(Vec<Ty>),
    FnPtr(Vec<Ty>, Box<Ty>),
    ImplFn(Vec<String>, String, Vec<Ty>, Box<Ty>),
    Dyn(Vec<String>, String, Vec<Lt>, Vec<Ty>),
    Proj(Box<Ty>, String, Vec<Lt>, Vec<Ty>, String),
    Const(String),
    Never,
    Unknown(String),
}

impl Ty {
    pub fn unit() -> Ty {
        Ty::Tuple(vec![])
    }
    /// Name used as the "owner" of the functions of an impl block.
    pub fn owner_name(&self) -> String {
        match self {
            Ty::Path(n, _, _) => n.clone(),
            Ty::Param(n) => format!("<{}>", n),
            Ty::Ref(..) => "&".into(),
            Ty::Ptr(..) => "*".into(),
            Ty::Slice(_) => "[]".into(),
            Ty::Array(_) => "[;]".into(),
            Ty::Tuple(_) => "()".into(),
            Ty::Dyn(_, t, _, _) => format!("dyn {}", t),
            Ty::Proj(..) => "<proj>".into(),
            _ => "?".into(),
        }
    }
    /// Does the type mention a nominal type with one of the given names (syntactically)?
    pub fn mentions_any(&self, names: &[&str]) -> bool {
        let mut found = false;
        self.walk(&mut |t| {
            if let Ty::Path(n, _, _) = t {
                if names.contains(&n.as_str()) {
                    found = true;
                }
            }
        });
        found
    }
    pub fn mentions_assoc(&self, assoc: &str) -> bool {
        let mut found = false;
        self.walk(&mut |t| {
            if let Ty::Proj(_, _, _, _, a) = t {
                if a == assoc {
                    found = true;
                }
            }
        });
        found
    }
    pub fn walk(&self, f: &mut dyn FnMut(&Ty)) {
        f(self);
        match self {
            Ty::Path(_, _, a) | Ty::Tuple(a) | Ty::Dyn(_, _, _, a) => a.iter().for_each(|t| t.walk(f)),
            Ty::Ref(_, _, t) | Ty::Ptr(_, t) | Ty::Slice(t) | Ty::Array(t) => t.walk(f),
            Ty::FnPtr(a, r) | Ty::ImplFn(_, _, a, r) => {
                a.iter().for_each(|t| t.walk(f));
                r.walk(f)
            }
            Ty::Proj(s, _, _, a, _) => {
                s.walk(f);
                a.iter().for_each(|t| t.walk(f))
            }
            Ty::Param(_) | Ty::Const(_) | Ty::Never | Ty::Unknown(_) => {}
        }
    }
}

#[derive(Clone, Debug, PartialEq, Eq)]
pub enum Bound {
    Trait(Vec<String>, String, Vec<Lt>, Vec<Ty>, Vec<(String, Ty)>),
    Fn(Vec<String>, String, Vec<Ty>, Ty),
    Outlives(Lt),
    MaybeSized,
    Unknown(String),
}

#[derive(Clone, Debug, PartialEq, Eq)]
pub struct TParam {
    pub name: String,
    pub bounds: Vec<Bound>,
    pub default: Option<Ty>,
}

#[derive(Clone, Debug, Default, PartialEq, Eq)]
pub struct Generics {
    pub lts: Vec<String>,
    pub tps: Vec<TParam>,
    pub consts: Vec<String>,
    pub wher: Vec<(Vec<String>, Ty, Vec<Bound>)>,
}

#[derive(Clone, Debug)]
pub struct Field {
    pub name: String,
    pub is_pub: bool,
    pub ty: Ty,
}

#[derive(Clone, Debug)]
pub enum Decl {
    Struct { name: String, vis: String, attrs: Vec<String>, g: Generics, fields: Vec<Field> },
    Enum { name: String, vis: String, attrs: Vec<String>, g: Generics, variants: Vec<(String, Vec<Field>)> },
    Alias { name: String, vis: String, g: Generics, target: Ty },
    Unknown(String),
}

#[derive(Clone, Debug)]
pub struct TraitDecl {
    pub name: String,
    pub is_unsafe: bool,
    pub vis: String,
    pub g: Generics,
    pub supers: Vec<Bound>,
    pub assoc: Vec<String>,
    pub fns: Vec<(String, bool)>,
}

#[derive(Clone, Debug)]
pub struct ImplHdr {
    pub is_unsafe: bool,
    pub neg: bool,
    pub g: Generics,
    pub tr: String,
    pub tr_lts: Vec<Lt>,
    pub tr_args: Vec<Ty>,
    pub self_ty: Ty,
    pub file: String,
    pub cfg: Vec<String>,
    pub consts: Vec<(String, String)>,
}

#[derive(Clone, Debug, PartialEq, Eq)]
pub enum Recv {
    None,
    Ref,
    RefMut,
    Value,
    Typed(Ty),
}

#[derive(Clone, Debug)]
pub struct FnSig {
    pub name: String,
    pub owner: String,
    pub self_ty: Ty,
    pub tr: String,
    pub vis: String,
    pub is_unsafe: bool,
    pub impl_g: Generics,
    pub g: Generics,
    pub recv: Recv,
    pub params: Vec<Ty>,
    pub ret: Ty,
    pub file: String,
    pub cfg: Vec<String>,
    pub calls: Vec<String>,
    pub field_calls: Vec<(String, String)>,
    // --- call-graph only (not printed in fnsig) ---
    pub kind: String, // "free" | "inherent" | "trait"
    pub qcalls: Vec<(String, String)>,
    pub mentioned: Vec<String>,
    pub type_params_in_scope: Vec<String>,
}

#[derive(Clone, Debug)]
pub enum Pat {
    Ref(bool, Box<Pat>),
    Struct(String, Vec<(String, Pat)>, bool),
    Bind(bool, bool, String),
    Unknown(String),
}

#[derive(Clone, Debug)]
pub struct MacroShape {
    pub found: bool,
    pub rules: usize,
    pub matcher: String,
    pub scrutinee: String,
    pub arms: usize,
    pub pat: Pat,
    pub body_unsafe: bool,
    pub body_fn: String,
    pub body_args: Vec<String>,
    pub text: String,
}

impl MacroShape {
    pub fn missing() -> Self {
        MacroShape {
            found: false,
            rules: 0,
            matcher: String::new(),
            scrutinee: String::new(),
            arms: 0,
            pat: Pat::Unknown("macro not found".into()),
            body_unsafe: false,
            body_fn: String::new(),
            body_args: vec![],
            text: String::new(),
        }
    }
}

#[derive(Clone, Debug)]
pub enum ZExpr {
    SizeOf,
    AlignOf,
    MaxAlign,
    Lit(u64),
    Unknown(String),
}

#[derive(Clone, Debug)]
pub enum ZCond {
    Eq(ZExpr, ZExpr),
    Le(ZExpr, ZExpr),
    Lt(ZExpr, ZExpr),
    And(Box<ZCond>, Box<ZCond>),
    Or(Box<ZCond>, Box<ZCond>),
    Not(Box<ZCond>),
    True,
    Unknown(String),
}

// ------------------------------------------------------------------------------------------------
// Printing to Gallina
// ------------------------------------------------------------------------------------------------
pub fn s(x: &str) -> String {
    // Coq strings: `"` is escaped by doubling; keep to printable ASCII (others replaced by '?').
    let mut o = String::with_capacity(x.len() + 2);
    o.push('"');
    for c in x.chars() {
        if c == '"' {
            o.push_str("\"\"");
        } else if c == '\n' || c == '\r' || c == '\t' {
            o.push(' ');
        } else if (c as u32) < 0x20 || (c as u32) > 0x7e {
            o.push('?');
        } else {
            o.push(c);
        }
    }
    o.push('"');
    o
}

pub fn b(x: bool) -> &'static str {
    if x {
        "true"
    } else {
        "false"
    }
}

pub fn list<T>(xs: &[T], f: impl Fn(&T) -> String) -> String {
    let mut o = String::from("[");
    for (i, x) in xs.iter().enumerate() {
        if i > 0 {
            o.push_str("; ");
        }
        o.push_str(&f(x));
    }
    o.push(']');
    o
}

pub fn strs(xs: &[String]) -> String {
    list(xs, |x| s(x))
}

pub fn lt(l: &Lt) -> String {
    match l {
        Lt::Static => "LStatic".into(),
        Lt::Named(n) => format!("(LNamed {})", s(n)),
        Lt::Elided => "LElided".into(),
    }
}

pub fn ty(t: &Ty) -> String {
    match t {
        Ty::Path(n, l, a) => format!("(TPath {} {} {})", s(n), list(l, lt), list(a, ty)),
        Ty::Param(n) => format!("(TParam {})", s(n)),
        Ty::Ref(l, m, t) => format!("(TRef {} {} {})", lt(l), b(*m), ty(t)),
        Ty::Ptr(m, t) => format!("(TPtr {} {})", b(*m), ty(t)),
        Ty::Slice(t) => format!("(TSlice {})", ty(t)),
        Ty::Array(t) => format!("(TArray {})", ty(t)),
        Ty::Tuple(a) => format!("(TTuple {})", list(a, ty)),
        Ty::FnPtr(a, r) => format!("(TFnPtr {} {})", list(a, ty), ty(r)),
        Ty::ImplFn(bi, k, a, r) => format!("(TImplFn {} {} {} {})", strs(bi), s(k), list(a, ty), ty(r)),
        Ty::Dyn(bi, tr, l, a) => format!("(TDyn {} {} {} {})", strs(bi), s(tr), list(l, lt), list(a, ty)),
        Ty::Proj(se, tr, l, a, x) => format!("(TProj {} {} {} {} {})", ty(se), s(tr), list(l, lt), list(a, ty), s(x)),
        Ty::Const(c) => format!("(TConst {})", s(c)),
        Ty::Never => "TNever".into(),
        Ty::Unknown(u) => format!("(TUnknown {})", s(u)),
    }
}

pub fn bound(x: &Bound) -> String {
    match x {
        Bound::Trait(bi, n, l, a, assoc) => format!(
            "(BTrait {} {} {} {} {})",
            strs(bi),
            s(n),
            list(l, lt),
            list(a, ty),
            list(assoc, |(k, v)| format!("({}, {})", s(k), ty(v)))
        ),
        Bound::Fn(bi, k, a, r) => format!("(BFn {} {} {} {})", strs(bi), s(k), list(a, ty), ty(r)),
        Bound::Outlives(l) => format!("(BOutlives {})", lt(l)),
        Bound::MaybeSized => "BMaybeSized".into(),
        Bound::Unknown(u) => format!("(BUnknown {})", s(u)),
    }
}

pub fn generics(g: &Generics) -> String {
    if g.lts.is_empty() && g.tps.is_empty() && g.consts.is_empty() && g.wher.is_empty() {
        return "no_generics".into();
    }
    format!(
        "{{| g_lts := {}; g_tps := {}; g_consts := {}; g_where := {} |}}",
        strs(&g.lts),
        list(&g.tps, |p| format!(
            "{{| tp_name := {}; tp_bounds := {}; tp_default := {} |}}",
            s(&p.name),
            list(&p.bounds, bound),
            match &p.default {
                None => "None".to_string(),
                Some(t) => format!("(Some {})", ty(t)),
            }
        )),
        strs(&g.consts),
        list(&g.wher, |(bi, t, bs)| format!("({}, {}, {})", strs(bi), ty(t), list(bs, bound)))
    )
}

pub fn field(f: &Field) -> String {
    format!("{{| f_name := {}; f_pub := {}; f_ty := {} |}}", s(&f.name), b(f.is_pub), ty(&f.ty))
}

pub fn decl(d: &Decl) -> String {
    match d {
        Decl::Struct { name, vis, attrs, g, fields } => format!(
            "(DStruct {} {} {} {}\n     {})",
            s(name),
            s(vis),
            strs(attrs),
            generics(g),
            list(fields, field)
        ),
        Decl::Enum { name, vis, attrs, g, variants } => format!(
            "(DEnum {} {} {} {}\n     {})",
            s(name),
            s(vis),
            strs(attrs),
            generics(g),
            list(variants, |(n, fs)| format!("({}, {})", s(n), list(fs, field)))
        ),
        Decl::Alias { name, vis, g, target } => {
            format!("(DAlias {} {} {}\n     {})", s(name), s(vis), generics(g), ty(target))
        }
        Decl::Unknown(u) => format!("(DUnknown {})", s(u)),
    }
}

pub fn trait_decl(t: &TraitDecl) -> String {
    format!(
        "{{| tr_name := {}; tr_unsafe := {}; tr_vis := {}; tr_g := {};\n     tr_supers := {}; tr_assoc := {}; tr_fns := {} |}}",
        s(&t.name),
        b(t.is_unsafe),
        s(&t.vis),
        generics(&t.g),
        list(&t.supers, bound),
        strs(&t.assoc),
        list(&t.fns, |(n, u)| format!("({}, {})", s(n), b(*u)))
    )
}

pub fn impl_hdr(i: &ImplHdr) -> String {
    format!(
        "{{| i_unsafe := {}; i_neg := {}; i_g := {};\n     i_trait := {}; i_trait_lts := {}; i_trait_args := {};\n     i_self := {}; i_file := {}; i_cfg := {}; i_consts := {} |}}",
        b(i.is_unsafe),
        b(i.neg),
        generics(&i.g),
        s(&i.tr),
        list(&i.tr_lts, lt),
        list(&i.tr_args, ty),
        ty(&i.self_ty),
        s(&i.file),
        strs(&i.cfg),
        list(&i.consts, |(k, v)| format!("({}, {})", s(k), s(v)))
    )
}

pub fn recv(r: &Recv) -> String {
    match r {
        Recv::None => "RNone".into(),
        Recv::Ref => "RRef".into(),
        Recv::RefMut => "RRefMut".into(),
        Recv::Value => "RValue".into(),
        Recv::Typed(t) => format!("(RTyped {})", ty(t)),
    }
}

pub fn fnsig(f: &FnSig) -> String {
    format!(
        "{{| fs_name := {}; fs_owner := {}; fs_self_ty := {}; fs_trait := {}; fs_vis := {};\n     fs_unsafe := {}; fs_impl_g := {};\n     fs_g := {};\n     fs_recv := {}; fs_params := {};\n     fs_ret := {};\n     fs_file := {}; fs_cfg := {}; fs_calls := {};\n     fs_field_calls := {} |}}",
        s(&f.name),
        s(&f.owner),
        ty(&f.self_ty),
        s(&f.tr),
        s(&f.vis),
        b(f.is_unsafe),
        generics(&f.impl_g),
        generics(&f.g),
        recv(&f.recv),
        list(&f.params, ty),
        ty(&f.ret),
        s(&f.file),
        strs(&f.cfg),
        strs(&f.calls),
        list(&f.field_calls, |(a, c)| format!("({}, {})", s(a), s(c)))
    )
}

pub fn pat(p: &Pat) -> String {
    match p {
        Pat::Ref(m, p) => format!("(PRef {} {})", b(*m), pat(p)),
        Pat::Struct(n, fs, rest) => format!(
            "(PStruct {} {} {})",
            s(n),
            list(fs, |(k, v)| format!("({}, {})", s(k), pat(v))),
            b(*rest)
        ),
        Pat::Bind(r, m, n) => format!("(PBind {} {} {})", b(*r), b(*m), s(n)),
        Pat::Unknown(u) => format!("(PUnknown {})", s(u)),
    }
}

pub fn macro_shape(m: &MacroShape) -> String {
    format!(
        "{{| ms_found := {}; ms_rules := {}; ms_matcher := {};\n     ms_scrutinee := {}; ms_arms := {};\n     ms_pat := {};\n     ms_body_unsafe := {}; ms_body_fn := {}; ms_body_args := {};\n     ms_text := {} |}}",
        b(m.found),
        m.rules,
        s(&m.matcher),
        s(&m.scrutinee),
        m.arms,
        pat(&m.pat),
        b(m.body_unsafe),
        s(&m.body_fn),
        strs(&m.body_args),
        s(&m.text)
    )
}

pub fn zexpr(e: &ZExpr) -> String {
    match e {
        ZExpr::SizeOf => "ZSizeOf".into(),
        ZExpr::AlignOf => "ZAlignOf".into(),
        ZExpr::MaxAlign => "ZMaxAlign".into(),
        ZExpr::Lit(n) => format!("(ZLit {}%N)", n),
        ZExpr::Unknown(u) => format!("(ZUnknownE {})", s(u)),
    }
}

pub fn zcond(c: &ZCond) -> String {
    match c {
        ZCond::Eq(a, b) => format!("(ZEq {} {})", zexpr(a), zexpr(b)),
        ZCond::Le(a, b) => format!("(ZLe {} {})", zexpr(a), zexpr(b)),
        ZCond::Lt(a, b) => format!("(ZLt {} {})", zexpr(a), zexpr(b)),
        ZCond::And(a, b) => format!("(ZAnd {} {})", zcond(a), zcond(b)),
        ZCond::Or(a, b) => format!("(ZOr {} {})", zcond(a), zcond(b)),
        ZCond::Not(a) => format!("(ZNot {})", zcond(a)),
        ZCond::True => "ZTrue".into(),
        ZCond::Unknown(u) => format!("(ZUnknownC {})", s(u)),
    }
}

/// The body of `alloc_zst` as a decision tree (see Syntax.v, `zbody`).
#[derive(Clone, Debug)]
pub enum ZBody {
    RetSome,
    RetNone,
    If(ZCond, Box<ZBody>, Box<ZBody>),
    /// internal only (bodies of `bool` helpers): a leaf that is itself a condition; never printed
    Cond(ZCond),
    Unknown(String),
}

pub fn zbody(b: &ZBody) -> String {
    match b {
        ZBody::RetSome => "ZRetSome".into(),
        ZBody::RetNone => "ZRetNone".into(),
        ZBody::If(c, t, e) => format!("(ZIf {}\n     {}\n     {})", zcond(c), zbody(t), zbody(e)),
        ZBody::Cond(_) => format!("(ZUnknownB {})", s("condition leaf outside a bool helper")),
        ZBody::Unknown(u) => format!("(ZUnknownB {})", s(u)),
    }
}
