//! syn -> IR lowering for the whole crate.

use crate::ir::*;
use crate::mexpand::{self, MacroDef};
use proc_macro2::{Delimiter, TokenStream, TokenTree};
use quote::ToTokens;
use std::collections::{BTreeMap, HashMap};
use syn::visit::{self, Visit};

pub fn toks<T: ToTokens>(t: &T) -> String {
    t.to_token_stream().to_string()
}

fn compact(s: &str) -> String {
    s.chars().filter(|c| !c.is_whitespace()).collect()
}

#[derive(Clone, Debug, Default)]
pub struct TraitInfo {
    pub lts: Vec<String>,
    pub tps: Vec<String>,
    pub supers: Vec<Bound>,
    pub assoc: Vec<String>,
}

#[derive(Default)]
pub struct Krate {
    pub decls: Vec<(String, bool, Decl)>, // file, nested?, decl
    pub traits: Vec<TraitDecl>,
    pub impls: Vec<ImplHdr>,
    pub fns: Vec<FnSig>,
    pub statics: Vec<(String, bool, String)>,
    pub thread_locals: Vec<String>,
    pub unknown: Vec<String>,
    pub macros: BTreeMap<String, (String, MacroDef)>,
    pub trait_table: HashMap<String, TraitInfo>,
    pub aligned: Vec<(String, String)>, // (repr(align(N)) of AlignedType, N of Alignment<N>) per const block
}

#[derive(Clone, Default)]
pub struct Scope {
    pub tps: Vec<String>,
    pub consts: Vec<String>,
    pub raw_bounds: Vec<(String, syn::TypeParamBound)>,
    pub self_ty: Option<Ty>,
    pub impl_trait: Option<(String, Vec<Lt>, Vec<Ty>)>,
    pub impl_assoc: Vec<(String, Ty)>,
    pub in_trait: Option<String>,
}

fn std_assoc(tr: &str, assoc: &str) -> bool {
    matches!(
        (tr, assoc),
        ("Deref", "Target")
            | ("DerefMut", "Target")
            | ("Index", "Output")
            | ("IndexMut", "Output")
            | ("Iterator", "Item")
            | ("IntoIterator", "Item")
            | ("IntoIterator", "IntoIter")
            | ("FnOnce", "Output")
            | ("FnMut", "Output")
            | ("Fn", "Output")
            | ("Add", "Output")
            | ("ToOwned", "Owned")
    )
}

pub fn subst_lt(l: &Lt, lm: &HashMap<String, Lt>) -> Lt {
    match l {
        Lt::Named(n) => lm.get(n).cloned().unwrap_or_else(|| l.clone()),
        _ => l.clone(),
    }
}

pub fn subst_ty(t: &Ty, tm: &HashMap<String, Ty>, lm: &HashMap<String, Lt>) -> Ty {
    let sv = |v: &Vec<Ty>| v.iter().map(|x| subst_ty(x, tm, lm)).collect::<Vec<_>>();
    let sl = |v: &Vec<Lt>| v.iter().map(|x| subst_lt(x, lm)).collect::<Vec<_>>();
    match t {
        Ty::Param(n) => tm.get(n).cloned().unwrap_or_else(|| t.clone()),
        Ty::Path(n, l, a) => Ty::Path(n.clone(), sl(l), sv(a)),
        Ty::Ref(l, m, x) => Ty::Ref(subst_lt(l, lm), *m, Box::new(subst_ty(x, tm, lm))),
        Ty::Ptr(m, x) => Ty::Ptr(*m, Box::new(subst_ty(x, tm, lm))),
        Ty::Slice(x) => Ty::Slice(Box::new(subst_ty(x, tm, lm))),
        Ty::Array(x) => Ty::Array(Box::new(subst_ty(x, tm, lm))),
        Ty::Tuple(a) => Ty::Tuple(sv(a)),
        Ty::FnPtr(a, r) => Ty::FnPtr(sv(a), Box::new(subst_ty(r, tm, lm))),
        Ty::ImplFn(b, k, a, r) => Ty::ImplFn(b.clone(), k.clone(), sv(a), Box::new(subst_ty(r, tm, lm))),
        Ty::Dyn(b, tr, l, a) => Ty::Dyn(b.clone(), tr.clone(), sl(l), sv(a)),
        Ty::Proj(s, tr, l, a, x) => Ty::Proj(Box::new(subst_ty(s, tm, lm)), tr.clone(), sl(l), sv(a), x.clone()),
        Ty::Const(_) | Ty::Never | Ty::Unknown(_) => t.clone(),
    }
}

pub struct Lowerer<'k> {
    pub k: &'k mut Krate,
    pub file: String,
    /// `use` declarations of the file: imported name -> full path (segments joined by `::`).
    pub uses: HashMap<String, String>,
}

pub fn collect_uses(items: &[syn::Item], out: &mut HashMap<String, String>) {
    fn tree(prefix: &str, t: &syn::UseTree, out: &mut HashMap<String, String>) {
        match t {
            syn::UseTree::Path(p) => tree(&format!("{}{}::", prefix, p.ident), &p.tree, out),
            syn::UseTree::Name(n) => {
                out.insert(n.ident.to_string(), format!("{}{}", prefix, n.ident));
            }
            syn::UseTree::Rename(r) => {
                out.insert(r.rename.to_string(), format!("{}{}", prefix, r.ident));
            }
            syn::UseTree::Group(g) => g.items.iter().for_each(|x| tree(prefix, x, out)),
            syn::UseTree::Glob(_) => {}
        }
    }
    for it in items {
        match it {
            syn::Item::Use(u) => tree("", &u.tree, out),
            syn::Item::Mod(m) => {
                if let Some((_, items)) = &m.content {
                    collect_uses(items, out);
                }
            }
            _ => {}
        }
    }
}

fn lower_lt(l: &syn::Lifetime) -> Lt {
    let n = l.ident.to_string();
    if n == "static" {
        Lt::Static
    } else if n == "_" {
        Lt::Elided
    } else {
        Lt::Named(format!("'{}", n))
    }
}

fn binder_names(b: &Option<syn::BoundLifetimes>) -> Vec<String> {
    match b {
        None => vec![],
        Some(b) => b
            .lifetimes
            .iter()
            .filter_map(|p| match p {
                syn::GenericParam::Lifetime(l) => Some(format!("'{}", l.lifetime.ident)),
                _ => None,
            })
            .collect(),
    }
}

pub fn vis_str(v: &syn::Visibility) -> String {
    match v {
        syn::Visibility::Public(_) => "pub".into(),
        syn::Visibility::Restricted(_) => "pub(crate)".into(),
        syn::Visibility::Inherited => "priv".into(),
    }
}

pub fn attr_strs(attrs: &[syn::Attribute]) -> (Vec<String>, Vec<String>) {
    let mut a = vec![];
    let mut cfg = vec![];
    for at in attrs {
        let s = compact(&toks(&at.meta));
        if at.path().is_ident("doc") {
            continue;
        }
        if at.path().is_ident("cfg") {
            cfg.push(s);
        } else {
            a.push(s);
        }
    }
    (a, cfg)
}

impl<'k> Lowerer<'k> {
    // ------------------------------------------------------------------------------------------
    // Types
    // ------------------------------------------------------------------------------------------
    fn path_args(&self, seg: &syn::PathSegment, sc: &Scope) -> (Vec<Lt>, Vec<Ty>, Vec<(String, Ty)>) {
        let mut lts = vec![];
        let mut tys = vec![];
        let mut assoc = vec![];
        if let syn::PathArguments::AngleBracketed(ab) = &seg.arguments {
            for a in &ab.args {
                match a {
                    syn::GenericArgument::Lifetime(l) => lts.push(lower_lt(l)),
                    syn::GenericArgument::Type(t) => tys.push(self.lower_ty(t, sc)),
                    syn::GenericArgument::Const(e) => tys.push(Ty::Const(compact(&toks(e)))),
                    syn::GenericArgument::AssocType(at) => assoc.push((at.ident.to_string(), self.lower_ty(&at.ty, sc))),
                    other => tys.push(Ty::Unknown(format!("generic argument `{}`", toks(other)))),
                }
            }
        }
        (lts, tys, assoc)
    }

    /// Find `assoc` among the associated types of trait `tr<lts, args>` or its supertraits.
    fn find_assoc(&self, self_ty: &Ty, tr: &str, lts: &[Lt], args: &[Ty], assoc: &str, depth: usize) -> Option<Ty> {
        if depth > 6 {
            return None;
        }
        match self.k.trait_table.get(tr) {
            Some(info) => {
                if info.assoc.iter().any(|a| a == assoc) {
                    return Some(Ty::Proj(Box::new(self_ty.clone()), tr.to_string(), lts.to_vec(), args.to_vec(), assoc.to_string()));
                }
                let mut tm = HashMap::new();
                let mut lm = HashMap::new();
                for (i, p) in info.tps.iter().enumerate() {
                    if let Some(a) = args.get(i) {
                        tm.insert(p.clone(), a.clone());
                    }
                }
                tm.insert("Self".to_string(), self_ty.clone());
                for (i, p) in info.lts.iter().enumerate() {
                    if let Some(a) = lts.get(i) {
                        lm.insert(p.clone(), a.clone());
                    }
                }
                for s in info.supers.clone() {
                    if let Bound::Trait(_, n, l, a, _) = s {
                        let l2: Vec<Lt> = l.iter().map(|x| subst_lt(x, &lm)).collect();
                        let a2: Vec<Ty> = a.iter().map(|x| subst_ty(x, &tm, &lm)).collect();
                        if let Some(r) = self.find_assoc(self_ty, &n, &l2, &a2, assoc, depth + 1) {
                            return Some(r);
                        }
                    }
                }
                None
            }
            None => {
                if std_assoc(tr, assoc) {
                    Some(Ty::Proj(Box::new(self_ty.clone()), tr.to_string(), lts.to_vec(), args.to_vec(), assoc.to_string()))
                } else {
                    None
                }
            }
        }
    }

    fn resolve_param_assoc(&self, param: &str, assoc: &str, sc: &Scope) -> Ty {
        let self_ty = Ty::Param(param.to_string());
        for (p, b) in &sc.raw_bounds {
            if p != param {
                continue;
            }
            if let syn::TypeParamBound::Trait(tb) = b {
                if let Some(seg) = tb.path.segments.last() {
                    let name = seg.ident.to_string();
                    let (lts, args, _) = self.path_args(seg, sc);
                    if let Some(t) = self.find_assoc(&self_ty, &name, &lts, &args, assoc, 0) {
                        return t;
                    }
                }
            }
        }
        Ty::Proj(Box::new(self_ty), "?".into(), vec![], vec![], assoc.to_string())
    }

    pub fn lower_ty(&self, t: &syn::Type, sc: &Scope) -> Ty {
        match t {
            syn::Type::Paren(p) => self.lower_ty(&p.elem, sc),
            syn::Type::Group(p) => self.lower_ty(&p.elem, sc),
            syn::Type::Never(_) => Ty::Never,
            syn::Type::Reference(r) => Ty::Ref(
                r.lifetime.as_ref().map(lower_lt).unwrap_or(Lt::Elided),
                r.mutability.is_some(),
                Box::new(self.lower_ty(&r.elem, sc)),
            ),
            syn::Type::Ptr(p) => Ty::Ptr(p.mutability.is_some(), Box::new(self.lower_ty(&p.elem, sc))),
            syn::Type::Slice(s) => Ty::Slice(Box::new(self.lower_ty(&s.elem, sc))),
            syn::Type::Array(a) => Ty::Array(Box::new(self.lower_ty(&a.elem, sc))),
            syn::Type::Tuple(tu) => Ty::Tuple(tu.elems.iter().map(|e| self.lower_ty(e, sc)).collect()),
            syn::Type::BareFn(f) => {
                let args = f.inputs.iter().map(|a| self.lower_ty(&a.ty, sc)).collect();
                let ret = match &f.output {
                    syn::ReturnType::Default => Ty::unit(),
                    syn::ReturnType::Type(_, t) => self.lower_ty(t, sc),
                };
                Ty::FnPtr(args, Box::new(ret))
            }
            syn::Type::ImplTrait(it) => {
                for b in &it.bounds {
                    if let Bound::Fn(bi, k, a, r) = self.lower_bound(b, sc) {
                        return Ty::ImplFn(bi, k, a, Box::new(r));
                    }
                }
                Ty::Unknown(format!("impl trait `{}`", toks(t)))
            }
            syn::Type::TraitObject(to) => {
                for b in &to.bounds {
                    match self.lower_bound(b, sc) {
                        Bound::Trait(bi, n, l, mut a, assoc) => {
                            a.extend(assoc.into_iter().map(|(_, t)| t));
                            return Ty::Dyn(bi, n, l, a);
                        }
                        Bound::Fn(bi, k, mut a, r) => {
                            a.push(r);
                            return Ty::Dyn(bi, k, vec![], a);
                        }
                        _ => {}
                    }
                }
                Ty::Unknown(format!("trait object `{}`", toks(t)))
            }
            syn::Type::Path(tp) => self.lower_path_ty(tp, sc),
            other => Ty::Unknown(format!("type `{}`", toks(other))),
        }
    }

    fn lower_path_ty(&self, tp: &syn::TypePath, sc: &Scope) -> Ty {
        let segs: Vec<&syn::PathSegment> = tp.path.segments.iter().collect();
        if let Some(q) = &tp.qself {
            let self_ty = self.lower_ty(&q.ty, sc);
            if q.position > 0 && q.position < segs.len() && segs.len() == q.position + 1 {
                let trseg = segs[q.position - 1];
                let (lts, args, _) = self.path_args(trseg, sc);
                return Ty::Proj(Box::new(self_ty), trseg.ident.to_string(), lts, args, segs[q.position].ident.to_string());
            }
            return Ty::Unknown(format!("qualified path `{}`", toks(tp)));
        }
        let first = segs[0].ident.to_string();
        if segs.len() == 1 {
            if first == "Self" {
                return match (&sc.self_ty, &sc.in_trait) {
                    (Some(t), _) => t.clone(),
                    (None, Some(_)) => Ty::Param("Self".into()),
                    _ => Ty::Unknown("Self outside impl".into()),
                };
            }
            if sc.tps.contains(&first) && matches!(segs[0].arguments, syn::PathArguments::None) {
                return Ty::Param(first);
            }
            if sc.consts.contains(&first) {
                return Ty::Const(first);
            }
        }
        if segs.len() == 2 && matches!(segs[0].arguments, syn::PathArguments::None) {
            let assoc = segs[1].ident.to_string();
            if first == "Self" {
                if let Some((_, t)) = sc.impl_assoc.iter().find(|(n, _)| *n == assoc) {
                    return t.clone();
                }
                if let (Some(st), Some((tr, l, a))) = (&sc.self_ty, &sc.impl_trait) {
                    if let Some(t) = self.find_assoc(st, tr, l, a, &assoc, 0) {
                        return t;
                    }
                    return Ty::Proj(Box::new(st.clone()), tr.clone(), l.clone(), a.clone(), assoc);
                }
                if let Some(tr) = &sc.in_trait {
                    let info = self.k.trait_table.get(tr).cloned().unwrap_or_default();
                    let l: Vec<Lt> = info.lts.iter().map(|x| Lt::Named(x.clone())).collect();
                    let a: Vec<Ty> = info.tps.iter().map(|x| Ty::Param(x.clone())).collect();
                    if let Some(t) = self.find_assoc(&Ty::Param("Self".into()), tr, &l, &a, &assoc, 0) {
                        return t;
                    }
                }
                return Ty::Unknown(format!("`Self::{}` outside a trait impl", assoc));
            }
            if sc.tps.contains(&first) {
                return self.resolve_param_assoc(&first, &assoc, sc);
            }
        }
        let last = segs[segs.len() - 1];
        if let syn::PathArguments::Parenthesized(_) = last.arguments {
            return Ty::Unknown(format!("parenthesized path type `{}`", toks(tp)));
        }
        let (lts, args, assoc) = self.path_args(last, sc);
        let mut args = args;
        args.extend(assoc.into_iter().map(|(_, t)| t));
        let mut name = last.ident.to_string();
        if name == "Weak" {
            // `rc::Weak` and `sync::Weak` differ in their auto traits: qualify by the module.
            let full = if segs.len() >= 2 {
                segs.iter().map(|s| s.ident.to_string()).collect::<Vec<_>>().join("::")
            } else {
                self.uses.get("Weak").cloned().unwrap_or_default()
            };
            if full.contains("rc::") {
                name = "rc::Weak".into();
            } else if full.contains("sync::") {
                name = "sync::Weak".into();
            }
        }
        Ty::Path(name, lts, args)
    }

    pub fn lower_bound(&self, b: &syn::TypeParamBound, sc: &Scope) -> Bound {
        match b {
            syn::TypeParamBound::Lifetime(l) => Bound::Outlives(lower_lt(l)),
            syn::TypeParamBound::Trait(tb) => {
                if let syn::TraitBoundModifier::Maybe(_) = tb.modifier {
                    return Bound::MaybeSized;
                }
                let bi = binder_names(&tb.lifetimes);
                let seg = match tb.path.segments.last() {
                    Some(s) => s,
                    None => return Bound::Unknown(toks(b)),
                };
                match &seg.arguments {
                    syn::PathArguments::Parenthesized(p) => {
                        let args = p.inputs.iter().map(|t| self.lower_ty(t, sc)).collect();
                        let ret = match &p.output {
                            syn::ReturnType::Default => Ty::unit(),
                            syn::ReturnType::Type(_, t) => self.lower_ty(t, sc),
                        };
                        Bound::Fn(bi, seg.ident.to_string(), args, ret)
                    }
                    _ => {
                        let (lts, args, assoc) = self.path_args(seg, sc);
                        Bound::Trait(bi, seg.ident.to_string(), lts, args, assoc)
                    }
                }
            }
            other => Bound::Unknown(toks(other)),
        }
    }

    /// Extend a scope with the parameters (and raw bounds) of a generics list.
    pub fn extend_scope(&self, sc: &Scope, g: &syn::Generics) -> Scope {
        let mut s = sc.clone();
        for p in &g.params {
            match p {
                syn::GenericParam::Type(t) => {
                    s.tps.push(t.ident.to_string());
                    for b in &t.bounds {
                        s.raw_bounds.push((t.ident.to_string(), b.clone()));
                    }
                }
                syn::GenericParam::Const(c) => s.consts.push(c.ident.to_string()),
                syn::GenericParam::Lifetime(_) => {}
            }
        }
        if let Some(w) = &g.where_clause {
            for p in &w.predicates {
                if let syn::WherePredicate::Type(pt) = p {
                    if let syn::Type::Path(tp) = &pt.bounded_ty {
                        if tp.qself.is_none() {
                            if let Some(id) = tp.path.get_ident() {
                                for b in &pt.bounds {
                                    s.raw_bounds.push((id.to_string(), b.clone()));
                                }
                            }
                        }
                    }
                }
            }
        }
        s
    }

    /// Lower a generics list; `sc` must already be extended with it.
    pub fn lower_generics(&self, g: &syn::Generics, sc: &Scope) -> Generics {
        let mut out = Generics::default();
        for p in &g.params {
            match p {
                syn::GenericParam::Lifetime(l) => out.lts.push(format!("'{}", l.lifetime.ident)),
                syn::GenericParam::Type(t) => out.tps.push(TParam {
                    name: t.ident.to_string(),
                    bounds: t.bounds.iter().map(|b| self.lower_bound(b, sc)).collect(),
                    default: t.default.as_ref().map(|d| self.lower_ty(d, sc)),
                }),
                syn::GenericParam::Const(c) => out.consts.push(c.ident.to_string()),
            }
        }
        if let Some(w) = &g.where_clause {
            for p in &w.predicates {
                match p {
                    syn::WherePredicate::Type(pt) => {
                        let mut bi = binder_names(&pt.lifetimes);
                        let mut bs: Vec<Bound> = pt.bounds.iter().map(|b| self.lower_bound(b, sc)).collect();
                        let mut merged = false;
                        // `where for<'a> F: Tr<'a>` is `where F: for<'a> Tr<'a>` when the left-hand side is a
                        // plain type parameter (which cannot mention `'a`): move the predicate's binder onto
                        // each trait bound. (An outlives bound under a binder is left as a where-predicate.)
                        let lhs_is_param = matches!(&pt.bounded_ty, syn::Type::Path(tp) if tp.qself.is_none()
                            && tp.path.get_ident().map(|id| out.tps.iter().any(|x| x.name == id.to_string())).unwrap_or(false));
                        if !bi.is_empty() && lhs_is_param && bs.iter().all(|b| matches!(b, Bound::Trait(..) | Bound::Fn(..))) {
                            for b in bs.iter_mut() {
                                match b {
                                    Bound::Trait(inner, ..) | Bound::Fn(inner, ..) => {
                                        let mut all = bi.clone();
                                        all.extend(inner.drain(..));
                                        *inner = all;
                                    }
                                    _ => {}
                                }
                            }
                            bi.clear();
                        }
                        if bi.is_empty() {
                            if let syn::Type::Path(tp) = &pt.bounded_ty {
                                if tp.qself.is_none() {
                                    if let Some(id) = tp.path.get_ident() {
                                        if let Some(tp) = out.tps.iter_mut().find(|x| x.name == id.to_string()) {
                                            tp.bounds.extend(bs.clone());
                                            merged = true;
                                        }
                                    }
                                }
                            }
                        }
                        if !merged {
                            out.wher.push((bi, self.lower_ty(&pt.bounded_ty, sc), bs));
                        }
                    }
                    syn::WherePredicate::Lifetime(_) => {}
                    other => out.wher.push((vec![], Ty::Unknown(toks(other)), vec![])),
                }
            }
        }
        out
    }

    // ------------------------------------------------------------------------------------------
    // Items
    // ------------------------------------------------------------------------------------------
    fn fields(&self, f: &syn::Fields, sc: &Scope) -> Vec<Field> {
        f.iter()
            .enumerate()
            .map(|(i, fd)| Field {
                name: fd.ident.as_ref().map(|x| x.to_string()).unwrap_or_else(|| i.to_string()),
                is_pub: matches!(fd.vis, syn::Visibility::Public(_)),
                ty: self.lower_ty(&fd.ty, sc),
            })
            .collect()
    }

    pub fn lower_items(&mut self, items: &[syn::Item], nested: bool, outer_owner: &str, outer_scope: &Scope, depth: usize) {
        for it in items {
            self.lower_item(it, nested, outer_owner, outer_scope, depth);
        }
    }

    fn lower_item(&mut self, it: &syn::Item, nested: bool, outer_owner: &str, outer_scope: &Scope, depth: usize) {
        let file = self.file.clone();
        match it {
            syn::Item::Use(_) | syn::Item::ExternCrate(_) => {}
            syn::Item::Mod(m) => {
                if let Some((_, items)) = &m.content {
                    self.lower_items(items, nested, outer_owner, outer_scope, depth);
                }
            }
            syn::Item::Struct(s) => {
                let sc = self.extend_scope(&Scope::default(), &s.generics);
                let g = self.lower_generics(&s.generics, &sc);
                let (attrs, _) = attr_strs(&s.attrs);
                let d = Decl::Struct { name: s.ident.to_string(), vis: vis_str(&s.vis), attrs, g, fields: self.fields(&s.fields, &sc) };
                self.k.decls.push((file, nested, d));
            }
            syn::Item::Enum(e) => {
                let sc = self.extend_scope(&Scope::default(), &e.generics);
                let g = self.lower_generics(&e.generics, &sc);
                let (attrs, _) = attr_strs(&e.attrs);
                let variants = e.variants.iter().map(|v| (v.ident.to_string(), self.fields(&v.fields, &sc))).collect();
                self.k.decls.push((file, nested, Decl::Enum { name: e.ident.to_string(), vis: vis_str(&e.vis), attrs, g, variants }));
            }
            syn::Item::Type(t) => {
                let sc = self.extend_scope(&Scope::default(), &t.generics);
                let g = self.lower_generics(&t.generics, &sc);
                let target = self.lower_ty(&t.ty, &sc);
                self.k.decls.push((file, nested, Decl::Alias { name: t.ident.to_string(), vis: vis_str(&t.vis), g, target }));
            }
            syn::Item::Union(u) => self.k.decls.push((file, nested, Decl::Unknown(format!("union {}", u.ident)))),
            syn::Item::Static(s) => {
                let m = matches!(s.mutability, syn::StaticMutability::Mut(_));
                self.k.statics.push((s.ident.to_string(), m, file));
                self.scan_expr_for_items(&s.expr, outer_owner, outer_scope, depth);
            }
            syn::Item::Const(c) => {
                // `const _: () = { struct ..; impl .. };` blocks contain items.
                let before_d = self.k.decls.len();
                let before_i = self.k.impls.len();
                self.scan_expr_for_items(&c.expr, outer_owner, outer_scope, depth);
                self.note_aligned(before_d, before_i);
            }
            syn::Item::Fn(f) => {
                self.lower_fn(&f.sig, &vis_str(&f.vis), &f.attrs, Some(&f.block), outer_owner, &Ty::unit(), "", &Generics::default(), outer_scope, depth);
            }
            syn::Item::Trait(t) => self.lower_trait(t, depth),
            syn::Item::Impl(i) => self.lower_impl(i, depth),
            syn::Item::Macro(m) => self.lower_item_macro(m, nested, outer_owner, outer_scope, depth),
            syn::Item::ForeignMod(_) => self.k.unknown.push(format!("{}: extern block", file)),
            other => self.k.unknown.push(format!("{}: unsupported item `{}`", file, toks(other).chars().take(80).collect::<String>())),
        }
    }

    fn note_aligned(&mut self, before_d: usize, before_i: usize) {
        // Inside one const block: `#[repr(align(N))] struct AlignedType` + `impl HasAlignedType for Alignment<M>`.
        let mut n = None;
        for (_, _, d) in &self.k.decls[before_d..] {
            if let Decl::Struct { name, attrs, .. } = d {
                if name == "AlignedType" {
                    for a in attrs {
                        if let Some(x) = a.strip_prefix("repr(align(") {
                            n = Some(x.trim_end_matches(')').to_string());
                        }
                    }
                }
            }
        }
        let mut m = None;
        for i in &self.k.impls[before_i..] {
            if i.tr == "HasAlignedType" {
                if let Ty::Path(nm, _, a) = &i.self_ty {
                    if nm == "Alignment" {
                        if let Some(Ty::Const(c)) = a.first() {
                            m = Some(c.clone());
                        }
                    }
                }
            }
        }
        if n.is_some() || m.is_some() {
            self.k.aligned.push((n.unwrap_or_else(|| "?".into()), m.unwrap_or_else(|| "?".into())));
        }
    }

    fn lower_item_macro(&mut self, m: &syn::ItemMacro, nested: bool, outer_owner: &str, outer_scope: &Scope, depth: usize) {
        let name = m.mac.path.segments.last().map(|s| s.ident.to_string()).unwrap_or_default();
        if name == "macro_rules" {
            return; // definitions were collected in the first pass
        }
        if name == "thread_local" {
            self.k.thread_locals.push(format!("{}: thread_local!", self.file));
            return;
        }
        if depth > 8 {
            self.k.unknown.push(format!("{}: macro recursion too deep at `{}!`", self.file, name));
            return;
        }
        let def = self.k.macros.get(&name).map(|(_, d)| d.clone());
        match def {
            Some(def) => match mexpand::expand(&def, m.mac.tokens.clone()) {
                Ok(ts) => match syn::parse2::<syn::File>(ts.clone()) {
                    Ok(f) => {
                        // attributes (cfg) on the invocation apply to every produced item: keep them
                        // by pushing the cfg text on impls/fns via the file-level list below.
                        let (_, cfg) = attr_strs(&m.attrs);
                        let i0 = self.k.impls.len();
                        let f0 = self.k.fns.len();
                        self.lower_items(&f.items, nested, outer_owner, outer_scope, depth + 1);
                        for i in &mut self.k.impls[i0..] {
                            i.cfg.extend(cfg.clone());
                        }
                        for f in &mut self.k.fns[f0..] {
                            f.cfg.extend(cfg.clone());
                        }
                    }
                    Err(e) => self.k.unknown.push(format!("{}: expansion of `{}!` does not parse as items: {}", self.file, name, e)),
                },
                Err(e) => self.k.unknown.push(format!("{}: cannot expand `{}!`: {}", self.file, name, e)),
            },
            None => self.k.unknown.push(format!("{}: item macro `{}!` is not a local macro_rules", self.file, name)),
        }
    }

    fn scan_expr_for_items(&mut self, e: &syn::Expr, outer_owner: &str, outer_scope: &Scope, depth: usize) {
        let mut v = BodyV::default();
        v.visit_expr(e);
        self.absorb_body_side(&mut v);
        let items = std::mem::take(&mut v.nested_items);
        self.lower_items(&items, true, outer_owner, outer_scope, depth + 1);
    }

    fn absorb_body_side(&mut self, v: &mut BodyV) {
        for t in v.thread_locals.drain(..) {
            self.k.thread_locals.push(format!("{}: {}", self.file, t));
        }
    }

    fn lower_trait(&mut self, t: &syn::ItemTrait, depth: usize) {
        let mut sc = self.extend_scope(&Scope::default(), &t.generics);
        sc.in_trait = Some(t.ident.to_string());
        sc.tps.push("Self".into());
        let g = self.lower_generics(&t.generics, &sc);
        let supers: Vec<Bound> = t.supertraits.iter().map(|b| self.lower_bound(b, &sc)).collect();
        let mut assoc = vec![];
        let mut fns = vec![];
        for it in &t.items {
            match it {
                syn::TraitItem::Type(ty) => assoc.push(ty.ident.to_string()),
                syn::TraitItem::Fn(f) => {
                    fns.push((f.sig.ident.to_string(), f.sig.unsafety.is_some()));
                    let self_ty = Ty::Param("Self".into());
                    self.lower_fn(&f.sig, "trait", &f.attrs, f.default.as_ref(), &t.ident.to_string(), &self_ty, &t.ident.to_string(), &g, &sc, depth);
                }
                syn::TraitItem::Const(_) => {}
                other => self.k.unknown.push(format!("{}: trait item `{}`", self.file, toks(other).chars().take(60).collect::<String>())),
            }
        }
        self.k.traits.push(TraitDecl { name: t.ident.to_string(), is_unsafe: t.unsafety.is_some(), vis: vis_str(&t.vis), g, supers, assoc, fns });
    }

    fn lower_impl(&mut self, i: &syn::ItemImpl, depth: usize) {
        let mut sc = self.extend_scope(&Scope::default(), &i.generics);
        let g = self.lower_generics(&i.generics, &sc);
        let self_ty = self.lower_ty(&i.self_ty, &sc);
        sc.self_ty = Some(self_ty.clone());
        let (_, cfg) = attr_strs(&i.attrs);
        let mut trname = String::new();
        if let Some((bang, path, _)) = &i.trait_ {
            let seg = path.segments.last().unwrap();
            let (lts, args, _) = self.path_args(seg, &sc);
            trname = seg.ident.to_string();
            sc.impl_trait = Some((trname.clone(), lts.clone(), args.clone()));
            let mut consts = vec![];
            for it in &i.items {
                if let syn::ImplItem::Const(c) = it {
                    consts.push((c.ident.to_string(), toks(&c.expr)));
                }
            }
            self.k.impls.push(ImplHdr {
                is_unsafe: i.unsafety.is_some(),
                neg: bang.is_some(),
                g: g.clone(),
                tr: trname.clone(),
                tr_lts: lts,
                tr_args: args,
                self_ty: self_ty.clone(),
                file: self.file.clone(),
                cfg: cfg.clone(),
                consts,
            });
        }
        for it in &i.items {
            if let syn::ImplItem::Type(t) = it {
                let lowered = self.lower_ty(&t.ty, &sc);
                sc.impl_assoc.push((t.ident.to_string(), lowered));
            }
        }
        let owner = self_ty.owner_name();
        for it in &i.items {
            match it {
                syn::ImplItem::Fn(f) => {
                    let vis = if trname.is_empty() { vis_str(&f.vis) } else { "trait".to_string() };
                    let n0 = self.k.fns.len();
                    self.lower_fn(&f.sig, &vis, &f.attrs, Some(&f.block), &owner, &self_ty, &trname, &g, &sc, depth);
                    for x in &mut self.k.fns[n0..] {
                        x.cfg.extend(cfg.clone());
                    }
                }
                syn::ImplItem::Const(_) | syn::ImplItem::Type(_) => {}
                other => self.k.unknown.push(format!("{}: impl item `{}`", self.file, toks(other).chars().take(60).collect::<String>())),
            }
        }
    }

    #[allow(clippy::too_many_arguments)]
    fn lower_fn(
        &mut self,
        sig: &syn::Signature,
        vis: &str,
        attrs: &[syn::Attribute],
        block: Option<&syn::Block>,
        owner: &str,
        self_ty: &Ty,
        trname: &str,
        impl_g: &Generics,
        outer: &Scope,
        depth: usize,
    ) {
        let sc = self.extend_scope(outer, &sig.generics);
        let g = self.lower_generics(&sig.generics, &sc);
        let mut recv = Recv::None;
        let mut params = vec![];
        for a in &sig.inputs {
            match a {
                syn::FnArg::Receiver(r) => {
                    recv = if r.colon_token.is_some() {
                        match &*r.ty {
                            syn::Type::Path(p) if p.path.is_ident("Self") => Recv::Value,
                            syn::Type::Reference(rf) if matches!(&*rf.elem, syn::Type::Path(p) if p.path.is_ident("Self")) => {
                                if rf.mutability.is_some() {
                                    Recv::RefMut
                                } else {
                                    Recv::Ref
                                }
                            }
                            t => Recv::Typed(self.lower_ty(t, &sc)),
                        }
                    } else if r.reference.is_some() {
                        if r.mutability.is_some() {
                            Recv::RefMut
                        } else {
                            Recv::Ref
                        }
                    } else {
                        Recv::Value
                    };
                }
                syn::FnArg::Typed(pt) => params.push(self.lower_ty(&pt.ty, &sc)),
            }
        }
        let ret = match &sig.output {
            syn::ReturnType::Default => Ty::unit(),
            syn::ReturnType::Type(_, t) => self.lower_ty(t, &sc),
        };
        let (_, cfg) = attr_strs(attrs);
        let mut v = BodyV::default();
        if let Some(b) = block {
            v.visit_block(b);
        }
        self.absorb_body_side(&mut v);
        let mut calls: Vec<String> = v.qcalls.iter().map(|(_, n)| n.clone()).collect();
        calls.sort();
        calls.dedup();
        let mut qcalls = v.qcalls.clone();
        qcalls.sort();
        qcalls.dedup();
        let mut fcalls = v.field_calls.clone();
        fcalls.sort();
        fcalls.dedup();
        // "Mentioned" = nominal types whose values this function may create or own and hence drop
        // implicitly: struct literals and tuple-struct constructor calls in the body, and the nominal
        // types of by-value parameters / a by-value receiver (not behind a reference or pointer).
        // (Values obtained from calls are added in main.rs from the callees' return types.)
        let mut mentioned = v.mentioned.clone();
        for (q, n) in &v.qcalls {
            if q.is_empty() {
                mentioned.push(n.clone());
            }
        }
        fn by_value_names(t: &Ty, out: &mut Vec<String>) {
            match t {
                Ty::Path(n, _, a) => {
                    out.push(n.clone());
                    a.iter().for_each(|x| by_value_names(x, out));
                }
                Ty::Tuple(a) => a.iter().for_each(|x| by_value_names(x, out)),
                Ty::Array(x) | Ty::Slice(x) => by_value_names(x, out),
                _ => {}
            }
        }
        for p in &params {
            by_value_names(p, &mut mentioned);
        }
        match &recv {
            Recv::Value => by_value_names(self_ty, &mut mentioned),
            Recv::Typed(t) => by_value_names(t, &mut mentioned),
            _ => {}
        }
        mentioned.sort();
        mentioned.dedup();
        self.k.fns.push(FnSig {
            name: sig.ident.to_string(),
            owner: owner.to_string(),
            self_ty: self_ty.clone(),
            tr: trname.to_string(),
            vis: vis.to_string(),
            is_unsafe: sig.unsafety.is_some(),
            impl_g: impl_g.clone(),
            g,
            recv,
            params,
            ret,
            file: self.file.clone(),
            cfg,
            calls,
            field_calls: fcalls,
            kind: if self_ty == &Ty::unit() && trname.is_empty() { "free".into() } else if trname.is_empty() { "inherent".into() } else { "trait".into() },
            qcalls,
            mentioned,
            type_params_in_scope: sc.tps.clone(),
        });
        let items = std::mem::take(&mut v.nested_items);
        // Nested fns keep the enclosing owner (e.g. the `barrier` helpers inside Context methods).
        self.lower_items(&items, true, owner, &Scope::default(), depth + 1);
    }
}

// ------------------------------------------------------------------------------------------------
// Body visitor: calls, field calls, mentioned identifiers, nested items, thread_local! uses
// ------------------------------------------------------------------------------------------------
#[derive(Default)]
pub struct BodyV {
    pub qcalls: Vec<(String, String)>,
    pub field_calls: Vec<(String, String)>,
    pub mentioned: Vec<String>,
    pub nested_items: Vec<syn::Item>,
    pub thread_locals: Vec<String>,
}

const KEYWORDS: &[&str] = &[
    "if", "while", "match", "for", "return", "in", "as", "let", "loop", "else", "move", "ref", "mut", "fn", "unsafe", "where", "impl", "dyn", "break", "continue",
];

impl BodyV {
    fn fn_value_arg(&mut self, e: &syn::Expr) {
        if let syn::Expr::Path(p) = e {
            let segs: Vec<String> = p.path.segments.iter().map(|s| s.ident.to_string()).collect();
            let name = segs.last().cloned().unwrap_or_default();
            let qual = if p.qself.is_some() {
                "?".to_string()
            } else if segs.len() >= 2 {
                segs[segs.len() - 2].clone()
            } else {
                String::new()
            };
            self.qcalls.push((qual, name));
        }
    }

    pub fn scan_tokens(&mut self, ts: TokenStream) {
        let t: Vec<TokenTree> = ts.into_iter().collect();
        for i in 0..t.len() {
            match &t[i] {
                TokenTree::Ident(id) => {
                    let name = id.to_string();
                    let is_call = matches!(t.get(i + 1), Some(TokenTree::Group(g)) if g.delimiter() == Delimiter::Parenthesis)
                        || (matches!(t.get(i + 1), Some(TokenTree::Punct(p)) if p.as_char() == ':')
                            && matches!(t.get(i + 2), Some(TokenTree::Punct(p)) if p.as_char() == ':')
                            && matches!(t.get(i + 3), Some(TokenTree::Punct(p)) if p.as_char() == '<'));
                    if is_call && !KEYWORDS.contains(&name.as_str()) {
                        let mut qual = String::new();
                        if i >= 1 && matches!(&t[i - 1], TokenTree::Punct(p) if p.as_char() == '.') {
                            qual = ".".to_string();
                        }
                        if i >= 2 {
                            if let (TokenTree::Punct(a), TokenTree::Punct(b)) = (&t[i - 1], &t[i - 2]) {
                                if a.as_char() == ':' && b.as_char() == ':' {
                                    qual = match t.get(i.wrapping_sub(3)) {
                                        Some(TokenTree::Ident(q)) if i >= 3 => q.to_string(),
                                        _ => "?".to_string(),
                                    };
                                }
                            }
                        }
                        self.qcalls.push((qual, name.clone()));
                    }
                    if name == "thread_local" && matches!(t.get(i + 1), Some(TokenTree::Punct(p)) if p.as_char() == '!') {
                        self.thread_locals.push("thread_local! (inside a macro invocation)".into());
                    }
                    if name == "static" {
                        // `static NAME: T = ..` inside macro arguments cannot be parsed reliably: flag it.
                        if matches!(t.get(i + 1), Some(TokenTree::Ident(_))) {
                            self.thread_locals.push("`static` item inside a macro invocation".into());
                        }
                    }
                }
                TokenTree::Group(g) => self.scan_tokens(g.stream()),
                _ => {}
            }
        }
    }
}

impl<'ast> Visit<'ast> for BodyV {
    fn visit_item(&mut self, i: &'ast syn::Item) {
        self.nested_items.push(i.clone());
    }
    fn visit_expr_method_call(&mut self, e: &'ast syn::ExprMethodCall) {
        let name = e.method.to_string();
        if let syn::Expr::Field(f) = &*e.receiver {
            if let syn::Member::Named(id) = &f.member {
                self.field_calls.push((id.to_string(), name.clone()));
            }
        }
        self.qcalls.push((".".to_string(), name));
        for a in &e.args {
            self.fn_value_arg(a);
        }
        visit::visit_expr_method_call(self, e);
    }
    fn visit_expr_call(&mut self, e: &'ast syn::ExprCall) {
        if let syn::Expr::Path(p) = &*e.func {
            let segs: Vec<String> = p.path.segments.iter().map(|s| s.ident.to_string()).collect();
            let name = segs.last().cloned().unwrap_or_default();
            let mut qual = if segs.len() >= 2 { segs[segs.len() - 2].clone() } else { String::new() };
            if p.qself.is_some() {
                // <T as Trait>::f(..): qualifier unknown
                qual = "?".to_string();
            }
            self.qcalls.push((qual, name));
        }
        for a in &e.args {
            self.fn_value_arg(a);
        }
        visit::visit_expr_call(self, e);
    }
    fn visit_macro(&mut self, m: &'ast syn::Macro) {
        let name = m.path.segments.last().map(|s| s.ident.to_string()).unwrap_or_default();
        if name == "thread_local" {
            self.thread_locals.push("thread_local!".into());
        }
        self.scan_tokens(m.tokens.clone());
    }
    fn visit_expr_struct(&mut self, e: &'ast syn::ExprStruct) {
        // A struct literal creates a value of that type.
        if let Some(seg) = e.path.segments.last() {
            self.mentioned.push(seg.ident.to_string());
        }
        visit::visit_expr_struct(self, e);
    }
    fn visit_type(&mut self, _t: &'ast syn::Type) {
        // Types (annotations, turbofish arguments, casts) do not create or drop values: not descended.
    }
}

// ------------------------------------------------------------------------------------------------
// First pass: macro definitions and the trait table
// ------------------------------------------------------------------------------------------------
pub fn collect_macros(k: &mut Krate, file: &str, items: &[syn::Item]) {
    for it in items {
        match it {
            syn::Item::Macro(m) if m.mac.path.is_ident("macro_rules") => {
                if let Some(id) = &m.ident {
                    match mexpand::parse_macro_rules(&id.to_string(), m.mac.tokens.clone()) {
                        Ok(d) => {
                            k.macros.insert(id.to_string(), (file.to_string(), d));
                        }
                        Err(e) => k.unknown.push(format!("{}: cannot parse macro_rules `{}`: {}", file, id, e)),
                    }
                }
            }
            syn::Item::Mod(m) => {
                if let Some((_, items)) = &m.content {
                    collect_macros(k, file, items);
                }
            }
            _ => {}
        }
    }
}

pub fn collect_traits(k: &mut Krate, file: &str, items: &[syn::Item], with_supers: bool) {
    for it in items {
        match it {
            syn::Item::Trait(t) => {
                let mut info = TraitInfo::default();
                for p in &t.generics.params {
                    match p {
                        syn::GenericParam::Lifetime(l) => info.lts.push(format!("'{}", l.lifetime.ident)),
                        syn::GenericParam::Type(tp) => info.tps.push(tp.ident.to_string()),
                        _ => {}
                    }
                }
                for ti in &t.items {
                    if let syn::TraitItem::Type(ty) = ti {
                        info.assoc.push(ty.ident.to_string());
                    }
                }
                if with_supers {
                    let supers: Vec<Bound> = {
                        let lw = Lowerer { k: &mut *k, file: file.to_string(), uses: HashMap::new() };
                        let mut sc = lw.extend_scope(&Scope::default(), &t.generics);
                        sc.in_trait = Some(t.ident.to_string());
                        sc.tps.push("Self".into());
                        t.supertraits.iter().map(|b| lw.lower_bound(b, &sc)).collect()
                    };
                    info.supers = supers;
                }
                k.trait_table.insert(t.ident.to_string(), info);
            }
            syn::Item::Mod(m) => {
                if let Some((_, items)) = &m.content {
                    collect_traits(k, file, items, with_supers);
                }
            }
            _ => {}
        }
    }
}

// ------------------------------------------------------------------------------------------------
// Inlining of private helpers into the body facts of their callers
// ------------------------------------------------------------------------------------------------
/// `calls` / `field_calls` of a function are what its body does; a body that delegates to a private
/// (non-`pub`, or `pub(crate)` / `pub(super)`) helper of the crate does what the helper does. The facts of a
/// helper are merged into its callers (transitively) when the call resolves UNAMBIGUOUSLY: the crate
/// defines exactly one function of that name, it is not public and not a trait method, and the call's
/// qualifier fits it (method call -> has a receiver; `Self::f` / `Type::f` -> that owner; `f(..)` /
/// `module::f(..)` -> a free function). Anything else is left alone (the caller's own facts only).
pub fn inline_private_helpers(k: &mut Krate) {
    let n = k.fns.len();
    let mut by_name: BTreeMap<String, Vec<usize>> = BTreeMap::new();
    for (i, f) in k.fns.iter().enumerate() {
        by_name.entry(f.name.clone()).or_default().push(i);
    }
    let struct_names: Vec<String> = k
        .decls
        .iter()
        .filter_map(|(_, _, d)| match d {
            Decl::Struct { name, .. } | Decl::Enum { name, .. } => Some(name.clone()),
            _ => None,
        })
        .collect();
    let mut helpers: Vec<Vec<usize>> = vec![vec![]; n];
    for i in 0..n {
        for (q, name) in &k.fns[i].qcalls {
            let Some(c) = by_name.get(name) else { continue };
            if c.len() != 1 || c[0] == i {
                continue;
            }
            let h = &k.fns[c[0]];
            let nonpub = h.vis == "priv" || h.vis == "pub(crate)";
            if !nonpub || h.kind == "trait" {
                continue;
            }
            let q2 = if q == "Self" { k.fns[i].owner.clone() } else { q.clone() };
            let fits = if q == "." {
                h.recv != Recv::None
            } else if q.is_empty() {
                h.kind == "free"
            } else if struct_names.contains(&q2) {
                h.owner == q2
            } else if q2.chars().next().map(|c| c.is_lowercase()).unwrap_or(false) {
                h.kind == "free"
            } else {
                false
            };
            if fits && !helpers[i].contains(&c[0]) {
                helpers[i].push(c[0]);
            }
        }
    }
    for _ in 0..16 {
        let mut changed = false;
        for i in 0..n {
            for &j in &helpers[i].clone() {
                let (hc, hf) = (k.fns[j].calls.clone(), k.fns[j].field_calls.clone());
                let f = &mut k.fns[i];
                for c in hc {
                    if !f.calls.contains(&c) {
                        f.calls.push(c);
                        changed = true;
                    }
                }
                for c in hf {
                    if !f.field_calls.contains(&c) {
                        f.field_calls.push(c);
                        changed = true;
                    }
                }
            }
        }
        if !changed {
            break;
        }
    }
    for f in k.fns.iter_mut() {
        f.calls.sort();
        f.calls.dedup();
        f.field_calls.sort();
        f.field_calls.dedup();
    }
}
