(** * Objects and the heap (index = object id; [None] = block released). *)
From GA Require Export Model.Base.

Record obj := mkObj {
  col : color;               (* GcHeader colour bits *)
  ntr : bool;                (* GcHeader needs_trace bit *)
  live : bool;               (* GcHeader is_live bit *)
  okind : kind;
  strong : list (option id); (* Gc slots, in trace order *)
  weak : list (option id)    (* GcWeak slots, traced after the strong ones *)
}.

Definition with_col (o : obj) (c : color) : obj :=
  mkObj c (ntr o) (live o) (okind o) (strong o) (weak o).
Definition with_live (o : obj) (b : bool) : obj :=
  mkObj (col o) (ntr o) b (okind o) (strong o) (weak o).
Definition with_strong (o : obj) (s : list (option id)) : obj :=
  mkObj (col o) (ntr o) (live o) (okind o) s (weak o).
Definition with_weak (o : obj) (w : list (option id)) : obj :=
  mkObj (col o) (ntr o) (live o) (okind o) (strong o) w.

(** What [Collect::trace] of the object's value reports, in order. *)
Definition edges_of (s w : list (option id)) : list edge :=
  map Strong (somes s) ++ map Weak (somes w).
Definition edges (o : obj) : list edge := edges_of (strong o) (weak o).

Definition heap_t := list (option obj).

Definition hget (h : heap_t) (i : id) : option obj := opt_join (nth_error h i).
Definition hset (h : heap_t) (i : id) (o : option obj) : heap_t := set_nth h i o.
Definition halloc (h : heap_t) (o : obj) : heap_t * id := (h ++ [Some o], length h).

Definition new_obj (k : kind) (ns nw : nat) : obj :=
  mkObj White (kind_ntr k) true k
        (if kind_ntr k then repeat None ns else [])
        (if kind_ntr k then repeat None nw else []).
