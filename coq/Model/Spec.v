(** * The specification view: the object graph and reachability (knows nothing of colours). *)
From GA Require Export Model.Mutator.

(** Strong reachability from the arena root: least set containing the root's strong targets and
    closed under the strong edges of objects whose value has not been destructed. *)
Inductive reach (c : ctx) : id -> Prop :=
| reach_root : forall x, In (Some x) (rootS c) -> reach c x
| reach_step : forall p o x, reach c p -> get c p = Some o -> In (Some x) (strong o) -> reach c x.

(** Weak targets of the root and of reachable objects. *)
Inductive wreach (c : ctx) : id -> Prop :=
| wreach_root : forall x, In (Some x) (rootW c) -> wreach c x
| wreach_obj : forall p o x, reach c p -> get c p = Some o -> In (Some x) (weak o) -> wreach c x.

(** Executable versions used by the property oracles (fuel = heap size iterations). *)
Definition succs (c : ctx) (x : id) : list id :=
  match get c x with Some o => somes (strong o) | None => [] end.

Fixpoint add_new (seen l : list id) : list id :=
  match l with
  | [] => seen
  | x :: t => if mem_nat x seen then add_new seen t else add_new (seen ++ [x]) t
  end.

Fixpoint reach_iter (fuel : nat) (c : ctx) (seen : list id) : list id :=
  match fuel with
  | O => seen
  | S n => reach_iter n c (add_new seen (flat_map (succs c) seen))
  end.

Definition reach_list (c : ctx) : list id :=
  reach_iter (S (length (heap c))) c (add_new [] (somes (rootS c))).

Definition wreach_list (c : ctx) : list id :=
  add_new [] (somes (rootW c) ++
              flat_map (fun x => match get c x with Some o => somes (weak o) | None => [] end)
                       (reach_list c)).

(** Reachability from a given object (used for resurrection). *)
Definition reach_from_list (c : ctx) (x : id) : list id :=
  reach_iter (S (length (heap c))) c [x].
