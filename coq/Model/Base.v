(** * Base definitions of the collector model (definitions only; no proofs in Model/). *)
From Coq Require Export List Arith NArith ZArith QArith Bool Lia.
Export ListNotations.

Definition id := nat.

Inductive color := White | WhiteWeak | Gray | Black.          (* src/types.rs GcColor *)
Inductive phase := Sleep | Mark | Sweep.                      (* src/context.rs Phase (Drop = arena gone) *)
Inductive edge := Strong (t : id) | Weak (t : id).            (* what Collect::trace reports *)

(** Harness object kinds. The collector model itself only looks at [ntr] and the edges. *)
Inductive kind := KNode | KLeaf | KSet | KLock | KOnce | KStruct.

Definition color_eqb (a b : color) : bool :=
  match a, b with
  | White, White | WhiteWeak, WhiteWeak | Gray, Gray | Black, Black => true
  | _, _ => false
  end.

Definition phase_eqb (a b : phase) : bool :=
  match a, b with
  | Sleep, Sleep | Mark, Mark | Sweep, Sweep => true
  | _, _ => false
  end.

Definition kind_eqb (a b : kind) : bool :=
  match a, b with
  | KNode, KNode | KLeaf, KLeaf | KSet, KSet | KLock, KLock | KOnce, KOnce | KStruct, KStruct => true
  | _, _ => false
  end.

Definition is_whiteish (c : color) : bool :=
  match c with White | WhiteWeak => true | _ => false end.

(** [Collect::NEEDS_TRACE] of the harness type of each kind. *)
Definition kind_ntr (k : kind) : bool :=
  match k with KLeaf => false | _ => true end.

(** Does the harness type of this kind log its destructor (drop tag)? *)
Definition kind_tagged (k : kind) : bool :=
  match k with KNode | KLeaf | KStruct => true | _ => false end.

(** ** List helpers *)
Fixpoint set_nth {A} (l : list A) (n : nat) (x : A) : list A :=
  match l, n with
  | [], _ => []
  | _ :: t, O => x :: t
  | h :: t, S n' => h :: set_nth t n' x
  end.

Definition opt_join {A} (o : option (option A)) : option A :=
  match o with Some (Some x) => Some x | _ => None end.

Fixpoint somes {A} (l : list (option A)) : list A :=
  match l with
  | [] => []
  | Some x :: t => x :: somes t
  | None :: t => somes t
  end.

Fixpoint mem_nat (x : nat) (l : list nat) : bool :=
  match l with
  | [] => false
  | y :: t => if Nat.eqb x y then true else mem_nat x t
  end.

Fixpoint remove_nat (x : nat) (l : list nat) : list nat :=
  match l with
  | [] => []
  | y :: t => if Nat.eqb x y then remove_nat x t else y :: remove_nat x t
  end.

Definition last_opt {A} (l : list A) : option A :=
  match rev l with [] => None | x :: _ => Some x end.

Definition hd_opt {A} (l : list A) : option A :=
  match l with [] => None | x :: _ => Some x end.
