(** * The mutator VM and the Arena API level: worlds, operations, [step]. *)
From GA Require Export Model.Collector.

(** ** DynamicRootSet slot tables (src/dynamic_roots.rs Slots); the roots themselves are the
    strong slots of the set object, so that tracing the set object traces every occupied slot. *)
Inductive slotm := SVacant (next_free : option nat) | SOcc (ref_count : N).
Record slots := mkSlots { smeta : list slotm; snext : option nat }.
Record handle := mkHandle { h_uid : nat; h_set : id; h_idx : nat; h_ptr : id }.

Record arena := mkArena { actx : ctx; auid : nat; asets : list (id * slots) }.

Inductive cbkind := CNew | CTryNew | CMutate | CMutateRoot | CMapRoot | CTryMapRoot
                  | CFinalize (finish : bool).

Record world := mkWorld {
  arenas : list (option arena);
  nuid : nat;
  handles : list (option handle);
  cur : option (nat * cbkind * bool)        (* running callback: arena index, kind, entered *)
}.

Definition NARENAS : nat := 3.
Definition NHANDLES : nat := 6.
Definition world_init : world := mkWorld (repeat None NARENAS) 0 (repeat None NHANDLES) None.

Inductive mop :=
| MAlloc (r : nat) (k : kind) (ns nw : nat)
| MLoadRoot (r i : nat) | MLoadRootW (w i : nat)
| MLoad (r p i : nat) | MLoadW (w p i : nat)
| MStore (p i : nat) (c : option nat)
| MStoreW (p i : nat) (w : option nat)
| MOnceInit (p c : nat)
| MRootSet (i : nat) (c : option nat) | MRootSetW (i : nat) (w : option nat)
| MDowngrade (w r : nat) | MUpgrade (r w : nat) | MIsDropped (w : nat)
| MBarrierB (p : nat) (c : option nat) | MBarrierBW (p w : nat)
| MBarrierF (p : option nat) (c : nat) | MBarrierFW (p : option nat) (w : nat)
| MRawStore (p i c : nat) | MRawStoreW (p i w : nat)
| MStash (h s c : nat) | MFetch (r s h : nat)
| MIsDead (r : nat) | MIsDeadW (w : nat) | MResurrect (r : nat) | MResurrectW (r w : nat)
| MMove (r r' : nat) | MClear (r : nat) | MClearW (w : nat) | MPtrEq (r1 r2 : nat)
(* Gc::new(mc, value) where the value already HOLDS pointers (taken from the callback's registers):
   the object is born with contents; no barrier is involved *)
| MAllocWith (r : nat) (k : kind) (cs ws : list (option nat)).

Inductive chow := HCollectDebt | HMarkDebt | HFinishMarking | HCycleDebt | HFinishCycle.

Inductive op :=
| OBegin (a : nat) (k : cbkind)
| OMicro (m : mop)
| OEnd | OEndErr | OPanic
| OCollect (a : nat) (how : chow) (fault : option (nat * nat))
| OStartSweep (a : nat) (finish : bool)
| ODropArena (a : nat)
| OAdjustDebt (a : nat) (q : Q)
| OSetPacing (a : nat) (p : pacing)
| OCloneH (h' h : nat) | ODropH (h : nat).

(** ** Register file helpers *)
Definition rg (c : ctx) (r : nat) : option id := opt_join (nth_error (regs c) r).
Definition wrg (c : ctx) (r : nat) : option id := opt_join (nth_error (wregs c) r).
(* register content usable where an erased Gc<'gc, ()> is required: a DynamicRootSet does not
   expose its inner Gc, so such registers behave as empty for those ops *)
Definition rgE (c : ctx) (r : nat) : option id :=
  match rg c r with
  | Some x => match get c x with
              | Some o => match okind o with KSet => None | _ => Some x end
              | None => Some x
              end
  | None => None
  end.
Definition set_rg (c : ctx) (r : nat) (v : option id) : ctx := set_regs c (set_nth (regs c) r v).
Definition set_wrg (c : ctx) (r : nat) (v : option id) : ctx := set_wregs c (set_nth (wregs c) r v).
Definition add_lic (c : ctx) (l : licence) : ctx := set_lics c (l :: lics c).
Definition clear_cb (c : ctx) : ctx :=
  set_lics (set_wregs (set_regs c (repeat None NREGS)) (repeat None NREGS)) [].

Definition oid (o : option id) : Z := match o with Some x => Z.of_nat x | None => (-1)%Z end.
Definition ob (b : bool) : Z := if b then 1%Z else 0%Z.
Definition SKIP : list Z := [(-2)%Z].

Definition licence_eqb (a b : licence) : bool :=
  match a, b with
  | LParent p, LParent q | LChild p, LChild q | LChildW p, LChildW q => Nat.eqb p q
  | LPair p c, LPair q d | LPairW p c, LPairW q d => Nat.eqb p q && Nat.eqb c d
  | _, _ => false
  end.
Definition has_lic (c : ctx) (l : licence) : bool := existsb (licence_eqb l) (lics c).

(** normalised slot counts per kind *)
Definition norm_obj (k : kind) (ns nw : nat) : obj :=
  match k with
  | KNode => new_obj KNode ns nw
  | KLeaf => new_obj KLeaf 0 0
  | KSet => new_obj KSet 0 0
  | KLock => new_obj KLock 1 0
  | KOnce => new_obj KOnce 1 0
  | KStruct => new_obj KStruct (2 + ns) nw
  end.

(** an object born with contents. A [OnceLock] can only be created empty; a [Lock] has one slot. *)
Definition init_obj (k : kind) (s w : list (option id)) : option obj :=
  match k with
  | KNode => Some (mkObj White true true KNode s w)
  | KLock => Some (mkObj White true true KLock [match s with a :: _ => a | [] => None end] [])
  | KStruct =>
    Some (mkObj White true true KStruct
                (match s with a :: _ :: rest => a :: None :: rest | [a] => [a; None] | [] => [None; None] end) w)
  | _ => None
  end.

Definition store_strong (c : ctx) (pid : id) (o : obj) (i : nat) (v : option id) : ctx :=
  if Nat.ltb i (length (strong o)) then put c pid (with_strong o (set_nth (strong o) i v)) else c.
Definition store_weak (c : ctx) (pid : id) (o : obj) (i : nat) (v : option id) : ctx :=
  if Nat.ltb i (length (weak o)) then put c pid (with_weak o (set_nth (weak o) i v)) else c.

(** Gc::write(mc, p): the parent-only backward barrier, recorded as a licence *)
Definition gc_write (c : ctx) (pid : id) : ctx := add_lic (backward_barrier c pid None) (LParent pid).

(** re-read the object after a barrier (colours may have changed) *)
Definition store_after (c : ctx) (pid : id) (i : nat) (v : option id) : ctx :=
  match get c pid with Some o => store_strong c pid o i v | None => c end.
Definition store_weak_after (c : ctx) (pid : id) (i : nat) (v : option id) : ctx :=
  match get c pid with Some o => store_weak c pid o i v | None => c end.

Definition slot_empty (o : obj) (i : nat) : bool :=
  match nth_error (strong o) i with Some None => true | _ => false end.

(** ** Slots::add / inc / dec *)
Definition sets_get (l : list (id * slots)) (s : id) : option slots :=
  match find (fun p => Nat.eqb (fst p) s) l with Some p => Some (snd p) | None => None end.
Definition sets_put (l : list (id * slots)) (s : id) (v : slots) : list (id * slots) :=
  (s, v) :: filter (fun p => negb (Nat.eqb (fst p) s)) l.

(* returns new slots, index, and whether the vector grew *)
Definition slots_add (sl : slots) : slots * nat * bool :=
  match snext sl with
  | Some idx =>
    match nth_error (smeta sl) idx with
    | Some (SVacant nf) => (mkSlots (set_nth (smeta sl) idx (SOcc 0)) nf, idx, false)
    | _ => (sl, idx, false)          (* "free slot linked list corrupted": unreachable *)
    end
  | None => (mkSlots (smeta sl ++ [SOcc 0]) None, length (smeta sl), true)
  end.

Definition slots_inc (sl : slots) (idx : nat) : slots :=
  match nth_error (smeta sl) idx with
  | Some (SOcc rc) => mkSlots (set_nth (smeta sl) idx (SOcc (rc + 1))) (snext sl)
  | _ => sl
  end.

(* returns new slots and whether the slot was vacated *)
Definition slots_dec (sl : slots) (idx : nat) : slots * bool :=
  match nth_error (smeta sl) idx with
  | Some (SOcc rc) =>
    if N.eqb rc 0 then (mkSlots (set_nth (smeta sl) idx (SVacant (snext sl))) (Some idx), true)
    else (mkSlots (set_nth (smeta sl) idx (SOcc (rc - 1))) (snext sl), false)
  | _ => (sl, false)
  end.

(** ** Micro-ops (inside a callback of arena [ar], callback kind [k]) *)
Definition is_finalize (k : cbkind) : bool := match k with CFinalize _ => true | _ => false end.
Definition root_mutable (k : cbkind) : bool := match k with CMutateRoot => true | _ => false end.

Definition micro (w : world) (ar : arena) (k : cbkind) (m : mop) : arena * list (option handle) * list Z :=
  let c := actx ar in
  let keep := (ar, handles w, SKIP) in
  let upd c' out := (mkArena c' (auid ar) (asets ar), handles w, out) in
  match m with
  | MAlloc r kd ns nw =>
    let '(c1, i) := link c (norm_obj kd ns nw) in
    let ar' := mkArena (set_rg c1 r (Some i)) (auid ar)
                       (match kd with KSet => sets_put (asets ar) i (mkSlots [] None) | _ => asets ar end) in
    (ar', handles w, [Z.of_nat i])
  | MLoadRoot r i =>
    let v := opt_join (nth_error (rootS c) i) in upd (set_rg c r v) [oid v]
  | MLoadRootW r i =>
    let v := opt_join (nth_error (rootW c) i) in upd (set_wrg c r v) [oid v]
  | MLoad r p i =>
    match rg c p with
    | None => keep
    | Some pid =>
      match get c pid with
      | None => upd (set_ub c) SKIP
      | Some o =>
        match okind o with
        | KSet => keep
        | _ =>
          let c1 := if live o then c else set_ub c in
          let v := opt_join (nth_error (strong o) i) in upd (set_rg c1 r v) [oid v]
        end
      end
    end
  | MLoadW r p i =>
    match rg c p with
    | None => keep
    | Some pid =>
      match get c pid with
      | None => upd (set_ub c) SKIP
      | Some o =>
        let c1 := if live o then c else set_ub c in
        let v := opt_join (nth_error (weak o) i) in upd (set_wrg c1 r v) [oid v]
      end
    end
  | MStore p i cr =>
    match rg c p with
    | None => keep
    | Some pid =>
      let v := match cr with Some r => rg c r | None => None end in
      match get c pid with
      | None => upd (set_ub c) SKIP
      | Some o =>
        match okind o with
        | KSet => keep
        | KLeaf => upd (gc_write c pid) [0%Z]
        | KNode | KLock => upd (store_after (gc_write c pid) pid i v) [0%Z]
        | KStruct =>
          if Nat.eqb i 1 then
            (* field!(Gc::write(mc,p), S, once).unlock().set(v) : barrier, then set-if-empty *)
            let c1 := gc_write c pid in
            match v with
            | None => upd c1 [0%Z]
            | Some _ => if slot_empty o 1 then upd (store_after c1 pid 1 v) [1%Z] else upd c1 [0%Z]
            end
          else upd (store_after (gc_write c pid) pid i v) [0%Z]
        | KOnce =>
          (* Gc<OnceLock>::set : store if empty, THEN barrier if it was stored *)
          match v with
          | None => keep
          | Some _ =>
            if slot_empty o 0 then upd (gc_write (store_strong c pid o 0 v) pid) [1%Z]
            else upd c [0%Z]
          end
        end
      end
    end
  | MStoreW p i wr =>
    match rg c p with
    | None => keep
    | Some pid =>
      let v := match wr with Some r => wrg c r | None => None end in
      match get c pid with
      | None => upd (set_ub c) SKIP
      | Some o =>
        match okind o with
        | KNode | KStruct => upd (store_weak_after (gc_write c pid) pid i v) [0%Z]
        | _ => keep
        end
      end
    end
  | MOnceInit p cr =>
    match rg c p, rg c cr with
    | Some pid, Some cid =>
      match get c pid with
      | None => upd (set_ub c) SKIP
      | Some o =>
        match okind o with
        | KOnce =>
          (* get_or_init: if empty, the init closure issues the barrier, then the value is stored *)
          if slot_empty o 0 then upd (store_after (gc_write c pid) pid 0 (Some cid)) [1%Z]
          else upd c [0%Z]
        | _ => keep
        end
      end
    | _, _ => keep
    end
  | MRootSet i cr =>
    if root_mutable k then
      let v := match cr with Some r => rg c r | None => None end in
      if Nat.ltb i (length (rootS c)) then upd (set_root c (set_nth (rootS c) i v) (rootW c)) [0%Z] else keep
    else keep
  | MRootSetW i wr =>
    if root_mutable k then
      let v := match wr with Some r => wrg c r | None => None end in
      if Nat.ltb i (length (rootW c)) then upd (set_root c (rootS c) (set_nth (rootW c) i v)) [0%Z] else keep
    else keep
  | MDowngrade wr r =>
    (* a DynamicRootSet does not expose its Gc, so it cannot be downgraded *)
    match rg c r with
    | Some x =>
      match get c x with
      | Some o => match okind o with KSet => keep | _ => upd (set_wrg c wr (Some x)) [oid (Some x)] end
      | None => upd (set_ub c) SKIP
      end
    | None => keep
    end
  | MUpgrade r wr =>
    match wrg c wr with
    | None => keep
    | Some x => let '(c1, b) := upgrade c x in upd (set_rg c1 r (if b then Some x else None)) [ob b; Z.of_nat x]
    end
  | MIsDropped wr =>
    match wrg c wr with
    | None => keep
    | Some x => let '(c1, b) := is_dropped c x in upd c1 [ob b; Z.of_nat x]
    end
  | MBarrierB p cr =>
    match rgE c p with
    | None => keep
    | Some pid =>
      match cr with
      | None => upd (gc_write c pid) [0%Z]
      | Some r =>
        match rgE c r with
        | None => keep
        | Some cid => upd (add_lic (backward_barrier c pid (Some cid)) (LPair pid cid)) [0%Z]
        end
      end
    end
  | MBarrierBW p wr =>
    match rgE c p, wrg c wr with
    | Some pid, Some x => upd (add_lic (backward_barrier_weak c pid x) (LPairW pid x)) [0%Z]
    | _, _ => keep
    end
  | MBarrierF p cr =>
    match rgE c cr with
    | None => keep
    | Some cid =>
      match p with
      | None => upd (add_lic (forward_barrier c None cid) (LChild cid)) [0%Z]
      | Some pr =>
        match rgE c pr with
        | None => keep
        | Some pid => upd (add_lic (forward_barrier c (Some pid) cid) (LPair pid cid)) [0%Z]
        end
      end
    end
  | MBarrierFW p wr =>
    match wrg c wr with
    | None => keep
    | Some x =>
      match p with
      | None => upd (add_lic (forward_barrier_weak c None x) (LChildW x)) [0%Z]
      | Some pr =>
        match rgE c pr with
        | None => keep
        | Some pid => upd (add_lic (forward_barrier_weak c (Some pid) x) (LPairW pid x)) [0%Z]
        end
      end
    end
  | MRawStore p i cr =>
    match rg c p, rg c cr with
    | Some pid, Some cid =>
      match get c pid with
      | Some o =>
        match okind o with
        | KNode =>
          if has_lic c (LParent pid) || has_lic c (LChild cid) || has_lic c (LPair pid cid)
          then upd (store_strong c pid o i (Some cid)) [1%Z] else upd c [0%Z]
        | _ => keep
        end
      | None => upd (set_ub c) SKIP
      end
    | _, _ => keep
    end
  | MRawStoreW p i wr =>
    match rg c p, wrg c wr with
    | Some pid, Some x =>
      match get c pid with
      | Some o =>
        match okind o with
        | KNode =>
          if has_lic c (LParent pid) || has_lic c (LChildW x) || has_lic c (LPairW pid x)
             || has_lic c (LChild x) || has_lic c (LPair pid x)
          then upd (store_weak c pid o i (Some x)) [1%Z] else upd c [0%Z]
        | _ => keep
        end
      | None => upd (set_ub c) SKIP
      end
    | _, _ => keep
    end
  | MStash h s cr =>
    match rg c s, rg c cr, nth_error (handles w) h with
    | Some sid, Some cid, Some None =>
      match get c sid, sets_get (asets ar) sid with
      | Some so, Some sl =>
        match okind so with
        | KSet =>
          (* a DynamicRootSet cannot itself be stashed (its Gc is not exposed) *)
          if live so && ntr so && negb (match get c cid with Some co => kind_eqb (okind co) KSet | None => true end) then
            let c1 := add_lic (backward_barrier c sid (Some cid)) (LPair sid cid) in
            let '(sl', idx, grew) := slots_add sl in
            match get c1 sid with
            | Some so1 =>
              let st := if grew then strong so1 ++ [Some cid] else set_nth (strong so1) idx (Some cid) in
              let c2 := put c1 sid (with_strong so1 st) in
              (mkArena c2 (auid ar) (sets_put (asets ar) sid sl'),
               set_nth (handles w) h (Some (mkHandle (auid ar) sid idx cid)), [1%Z; Z.of_nat sid; Z.of_nat cid])
            | None => keep
            end
          else keep
        | _ => keep
        end
      | _, _ => keep
      end
    | _, _, _ => keep
    end
  | MFetch r s h =>
    match rg c s, nth_error (handles w) h with
    | Some sid, Some (Some hd) =>
      match get c sid with
      | Some so =>
        match okind so with
        | KSet =>
          if live so then
            let ok := Nat.eqb (h_uid hd) (auid ar) && Nat.eqb (h_set hd) sid in
            if ok then
              (* the slot invariant (Proofs/Slots.v, C14) shows the handle's target is always still
                 held by the set; a dangling handle would be reported as output 9 *)
              if existsb (fun s => match s with Some y => Nat.eqb y (h_ptr hd) | None => false end) (strong so)
              then upd (set_rg c r (Some (h_ptr hd))) [1%Z; Z.of_nat (h_ptr hd); Z.of_nat sid]
              else upd c [9%Z; (-1)%Z; Z.of_nat sid]
            else upd c [0%Z; (-1)%Z; Z.of_nat sid]
          else keep
        | _ => keep
        end
      | None => upd (set_ub c) SKIP
      end
    | _, _ => keep
    end
  | MIsDead r =>
    if is_finalize k then
      match rgE c r with Some x => let '(c1, b) := is_dead c x in upd c1 [ob b; Z.of_nat x] | None => keep end
    else keep
  | MIsDeadW wr =>
    if is_finalize k then
      match wrg c wr with Some x => let '(c1, b) := is_dead c x in upd c1 [ob b; Z.of_nat x] | None => keep end
    else keep
  | MResurrect r =>
    if is_finalize k then
      match rgE c r with Some x => upd (resurrect c x) [0%Z; Z.of_nat x] | None => keep end
    else keep
  | MResurrectW r wr =>
    if is_finalize k then
      match wrg c wr with
      | Some x =>
        match get c x with
        | None => upd (set_ub c) SKIP
        | Some o => if live o then upd (set_rg (resurrect c x) r (Some x)) [1%Z; Z.of_nat x]
                    else upd (set_rg c r None) [0%Z; Z.of_nat x]
        end
      | None => keep
      end
    else keep
  | MMove r r' => upd (set_rg c r (rg c r')) [oid (rg c r')]
  | MClear r => upd (set_rg c r None) [0%Z]
  | MClearW r => upd (set_wrg c r None) [0%Z]
  | MPtrEq r1 r2 =>
    match rg c r1, rg c r2 with
    | Some x, Some y => upd c [ob (Nat.eqb x y)]
    | _, _ => keep
    end
  | MAllocWith r kd cs ws =>
    let s := map (fun x => match x with Some r' => rg c r' | None => None end) cs in
    let wv := map (fun x => match x with Some r' => wrg c r' | None => None end) ws in
    match init_obj kd s wv with
    | None => keep
    | Some o => let '(c1, i) := link c o in upd (set_rg c1 r (Some i)) [Z.of_nat i]
    end
  end.

(** ** API level *)
Definition get_arena (w : world) (a : nat) : option arena := opt_join (nth_error (arenas w) a).
Definition put_arena (w : world) (a : nat) (v : option arena) : world :=
  mkWorld (set_nth (arenas w) a v) (nuid w) (handles w) (cur w).
Definition set_cur (w : world) (v : option (nat * cbkind * bool)) : world :=
  mkWorld (arenas w) (nuid w) (handles w) v.
Definition set_handles (w : world) (h : list (option handle)) : world :=
  mkWorld (arenas w) (nuid w) h (cur w).

Definition how_params (h : chow) : run_until * stop :=
  match h with
  | HCollectDebt => (PayDebt, Full)
  | HMarkDebt => (PayDebt, FullyMarked)
  | HFinishMarking => (RunStop, FullyMarked)
  | HCycleDebt => (PayDebt, FinishCycle)
  | HFinishCycle => (RunStop, FinishCycle)
  end.

Definition is_marked (c : ctx) : bool := phase_eqb (ph c) Mark && negb (gray_remaining c).

Definition outcome_code (o : outcome) : Z :=
  match o with Done => 0%Z | Panicked => 1%Z | OutOfFuel => 9%Z end.

(** dropping the arena: events, and the final Gc count read from a retained Metrics handle *)
Definition drop_arena_effect (c : ctx) : list event * N :=
  (drop_all_events (heap c) (all c), fold_left (fun n _ => (n - 1)%N) (all c) (total (met c))).

Definition first_n_opt (l : list (option id)) (n : nat) : list (option id) :=
  firstn n (l ++ repeat None n).

Record result := mkResult { r_out : list Z; r_events : list event }.

Definition step (w : world) (o : op) : world * result :=
  let nop := (w, mkResult SKIP []) in
  match o with
  | OBegin a k =>
    match cur w with
    | Some _ => nop
    | None =>
      match k with
      | CNew | CTryNew =>
        match nth_error (arenas w) a with
        | Some None =>
          let ar := mkArena ctx_new (nuid w) [] in
          (mkWorld (set_nth (arenas w) a (Some ar)) (S (nuid w)) (handles w) (Some (a, k, true)),
           mkResult [1%Z] [])
        | _ => nop
        end
      | _ =>
        match get_arena w a with
        | None => nop
        | Some ar =>
          let c := actx ar in
          match k with
          | CMutate => (set_cur w (Some (a, k, true)), mkResult [1%Z] [])
          | CMutateRoot =>
            (set_cur (put_arena w a (Some (mkArena (root_barrier c) (auid ar) (asets ar)))) (Some (a, k, true)),
             mkResult [1%Z] [])
          | CMapRoot | CTryMapRoot =>
            let c1 := root_barrier c in
            (* the old root is moved into the callback *)
            let c2 := set_wregs (set_regs c1 (first_n_opt (rootS c1) NREGS)) (first_n_opt (rootW c1) NREGS) in
            let c3 := set_root c2 (repeat None NROOT) (repeat None NROOT) in
            (set_cur (put_arena w a (Some (mkArena c3 (auid ar) (asets ar)))) (Some (a, k, true)),
             mkResult [1%Z] [])
          | CFinalize fin =>
            let '(c1, evs, oc) := do_collection dec_debt c (if fin then RunStop else PayDebt) FullyMarked None in
            let ent := is_marked c1 in
            (set_cur (put_arena w a (Some (mkArena c1 (auid ar) (asets ar)))) (Some (a, k, ent)),
             mkResult [ob ent; outcome_code oc] evs)
          | _ => nop
          end
        end
      end
    end
  | OMicro m =>
    match cur w with
    | Some (a, k, true) =>
      match get_arena w a with
      | Some ar =>
        let '(ar', hs, out) := micro w ar k m in
        (set_handles (put_arena w a (Some ar')) hs, mkResult out [])
      | None => nop
      end
    | _ => nop
    end
  | OEnd | OEndErr | OPanic =>
    match cur w with
    | None => nop
    | Some (a, k, ent) =>
      match get_arena w a with
      | None => (set_cur w None, mkResult SKIP [])
      | Some ar =>
        let c := actx ar in
        let destroys :=
          match o, k with
          | OPanic, (CNew | CTryNew | CMapRoot | CTryMapRoot) => true
          | OEndErr, (CTryNew | CTryMapRoot) => true
          | _, _ => false
          end in
        if destroys then
          let '(evs, tot) := drop_arena_effect c in
          (set_cur (put_arena w a None) None, mkResult [Z.of_N tot] evs)
        else
          let c1 :=
            match k with
            | CNew | CTryNew | CMapRoot | CTryMapRoot =>
              match o with
              | OPanic => c
              | _ => set_root c (first_n_opt (regs c) NROOT) (first_n_opt (wregs c) NROOT)
              end
            | _ => c
            end in
          (set_cur (put_arena w a (Some (mkArena (clear_cb c1) (auid ar) (asets ar)))) None,
           mkResult [0%Z] [])
      end
    end
  | OCollect a how fault =>
    match cur w, get_arena w a with
    | None, Some ar =>
      let '(ru, st) := how_params how in
      let '(c1, evs, oc) := do_collection dec_debt (actx ar) ru st fault in
      (put_arena w a (Some (mkArena c1 (auid ar) (asets ar))),
       mkResult [outcome_code oc; ob (is_marked c1)] evs)
    | _, _ => nop
    end
  | OStartSweep a fin =>
    match cur w, get_arena w a with
    | None, Some ar =>
      let '(c1, evs1, oc) := do_collection dec_debt (actx ar) (if fin then RunStop else PayDebt) FullyMarked None in
      if is_marked c1 then
        let '(c2, evs, oc2) := do_collection dec_debt c1 RunStop AtSweep None in
        (put_arena w a (Some (mkArena c2 (auid ar) (asets ar))),
         mkResult [1%Z; ob (phase_eqb (ph c2) Sweep)] (evs1 ++ evs))
      else
        (put_arena w a (Some (mkArena c1 (auid ar) (asets ar))), mkResult [0%Z; 0%Z] evs1)
    | _, _ => nop
    end
  | ODropArena a =>
    match cur w, get_arena w a with
    | None, Some ar =>
      let '(evs, tot) := drop_arena_effect (actx ar) in
      (put_arena w a None, mkResult [Z.of_N tot] evs)
    | _, _ => nop
    end
  | OAdjustDebt a q =>
    let ok := match cur w with None => true | Some (a', _, _) => Nat.eqb a a' end in
    match ok, get_arena w a with
    | true, Some ar =>
      let c := actx ar in
      (put_arena w a (Some (mkArena (set_met c (adjust_debt (met c) q)) (auid ar) (asets ar))), mkResult [0%Z] [])
    | _, _ => nop
    end
  | OSetPacing a p =>
    let ok := match cur w with None => true | Some (a', _, _) => Nat.eqb a a' end in
    match ok, get_arena w a with
    | true, Some ar =>
      let c := actx ar in
      (put_arena w a (Some (mkArena (set_met c (set_pacing (met c) p)) (auid ar) (asets ar))), mkResult [0%Z] [])
    | _, _ => nop
    end
  | OCloneH h' h =>
    match nth_error (handles w) h', nth_error (handles w) h with
    | Some None, Some (Some hd) =>
      let w1 := set_handles w (set_nth (handles w) h' (Some hd)) in
      (* inc only if the set's Rc is still alive: its arena exists and the set object is live *)
      let find_ar :=
        find (fun p => match snd p with Some ar => Nat.eqb (auid ar) (h_uid hd) | None => false end)
             (combine (seq 0 (length (arenas w))) (arenas w)) in
      match find_ar with
      | Some (ai, Some ar) =>
        match get (actx ar) (h_set hd), sets_get (asets ar) (h_set hd) with
        | Some so, Some sl =>
          if live so then
            (put_arena w1 ai (Some (mkArena (actx ar) (auid ar)
                                            (sets_put (asets ar) (h_set hd) (slots_inc sl (h_idx hd))))),
             mkResult [1%Z] [])
          else (w1, mkResult [1%Z] [])
        | _, _ => (w1, mkResult [1%Z] [])
        end
      | _ => (w1, mkResult [1%Z] [])
      end
    | _, _ => nop
    end
  | ODropH h =>
    match nth_error (handles w) h with
    | Some (Some hd) =>
      let w1 := set_handles w (set_nth (handles w) h None) in
      let find_ar :=
        find (fun p => match snd p with Some ar => Nat.eqb (auid ar) (h_uid hd) | None => false end)
             (combine (seq 0 (length (arenas w))) (arenas w)) in
      match find_ar with
      | Some (ai, Some ar) =>
        let c := actx ar in
        match get c (h_set hd), sets_get (asets ar) (h_set hd) with
        | Some so, Some sl =>
          if live so then
            let '(sl', vac) := slots_dec sl (h_idx hd) in
            let c1 := if vac then put c (h_set hd) (with_strong so (set_nth (strong so) (h_idx hd) None)) else c in
            (put_arena w1 ai (Some (mkArena c1 (auid ar) (sets_put (asets ar) (h_set hd) sl'))),
             mkResult [1%Z] [])
          else (w1, mkResult [1%Z] [])
        | _, _ => (w1, mkResult [1%Z] [])
        end
      | _ => (w1, mkResult [1%Z] [])
      end
    | _ => nop
    end
  end.

Definition run (w : world) (ops : list op) : world := fold_left (fun w o => fst (step w o)) ops w.

(** All results of a run, in order. *)
Fixpoint run_trace (w : world) (ops : list op) : list (world * result) :=
  match ops with
  | [] => []
  | o :: t => let '(w1, r) := step w o in (w1, r) :: run_trace w1 t
  end.
