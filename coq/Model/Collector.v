(** * src/context.rs: collector state and micro-steps (one Gallina function per Rust function).

    The [all] list is kept as [pre ++ unsw]: [unsw] is the part of the list the sweep cursor has
    not reached yet (empty outside [Sweep]), [pre] the part before it (new allocations are pushed
    on the front of [pre]). The pointer fields of the implementation are derived:
    [sweep = hd unsw], [sweep_prev = last pre] (in [Sweep]). The pointer-level list surgery is
    shown to implement these list operations in Proofs/Pointer.v. *)
From GA Require Export Model.Heap Model.Metrics.

Inductive licence :=
| LParent (p : id)            (* backward_barrier(p, None) / Gc::write(p): p may adopt anything *)
| LChild (c : id)             (* forward_barrier(None, c): c may be adopted by anything *)
| LChildW (c : id)            (* forward_barrier_weak(None, c) *)
| LPair (p c : id)            (* a barrier given both parent and child *)
| LPairW (p c : id).          (* weak variant *)

Inductive event := EvDrop (x : id) | EvFree (x : id).

Record ctx := mkCtx {
  heap : heap_t;
  ph : phase;
  pre : list id;
  unsw : list id;
  rnt : bool;                      (* root_needs_trace *)
  gray : list id;                  (* top of stack first *)
  gray_again : list id;            (* top of stack first *)
  met : metrics;
  rootS : list (option id);        (* root's Gc slots *)
  rootW : list (option id);        (* root's GcWeak slots *)
  regs : list (option id);         (* callback-local strong pointers (the callback's stack) *)
  wregs : list (option id);        (* callback-local weak pointers *)
  lics : list licence;             (* barriers issued in the running callback *)
  uflow : bool;                    (* ghost: an unsigned metric subtraction underflowed *)
  ub : bool                        (* ghost: a released / destructed object was accessed *)
}.

Definition all (c : ctx) : list id := pre c ++ unsw c.

Definition NREGS : nat := 6.
Definition NROOT : nat := 4.

Definition ctx_new : ctx :=
  mkCtx [] Sleep [] [] true [] [] metrics_new
        (repeat None NROOT) (repeat None NROOT) (repeat None NREGS) (repeat None NREGS) [] false false.

(** ** Field setters *)
Definition set_heap (c : ctx) (h : heap_t) : ctx :=
  mkCtx h (ph c) (pre c) (unsw c) (rnt c) (gray c) (gray_again c) (met c) (rootS c) (rootW c) (regs c) (wregs c) (lics c) (uflow c) (ub c).
Definition set_ph (c : ctx) (p : phase) : ctx :=
  mkCtx (heap c) p (pre c) (unsw c) (rnt c) (gray c) (gray_again c) (met c) (rootS c) (rootW c) (regs c) (wregs c) (lics c) (uflow c) (ub c).
Definition set_lists (c : ctx) (p u : list id) : ctx :=
  mkCtx (heap c) (ph c) p u (rnt c) (gray c) (gray_again c) (met c) (rootS c) (rootW c) (regs c) (wregs c) (lics c) (uflow c) (ub c).
Definition set_rnt (c : ctx) (b : bool) : ctx :=
  mkCtx (heap c) (ph c) (pre c) (unsw c) b (gray c) (gray_again c) (met c) (rootS c) (rootW c) (regs c) (wregs c) (lics c) (uflow c) (ub c).
Definition set_gray (c : ctx) (g : list id) : ctx :=
  mkCtx (heap c) (ph c) (pre c) (unsw c) (rnt c) g (gray_again c) (met c) (rootS c) (rootW c) (regs c) (wregs c) (lics c) (uflow c) (ub c).
Definition set_gray_again (c : ctx) (g : list id) : ctx :=
  mkCtx (heap c) (ph c) (pre c) (unsw c) (rnt c) (gray c) g (met c) (rootS c) (rootW c) (regs c) (wregs c) (lics c) (uflow c) (ub c).
Definition set_met (c : ctx) (m : metrics) : ctx :=
  mkCtx (heap c) (ph c) (pre c) (unsw c) (rnt c) (gray c) (gray_again c) m (rootS c) (rootW c) (regs c) (wregs c) (lics c) (uflow c) (ub c).
Definition set_root (c : ctx) (s w : list (option id)) : ctx :=
  mkCtx (heap c) (ph c) (pre c) (unsw c) (rnt c) (gray c) (gray_again c) (met c) s w (regs c) (wregs c) (lics c) (uflow c) (ub c).
Definition set_regs (c : ctx) (r : list (option id)) : ctx :=
  mkCtx (heap c) (ph c) (pre c) (unsw c) (rnt c) (gray c) (gray_again c) (met c) (rootS c) (rootW c) r (wregs c) (lics c) (uflow c) (ub c).
Definition set_wregs (c : ctx) (r : list (option id)) : ctx :=
  mkCtx (heap c) (ph c) (pre c) (unsw c) (rnt c) (gray c) (gray_again c) (met c) (rootS c) (rootW c) (regs c) r (lics c) (uflow c) (ub c).
Definition set_lics (c : ctx) (l : list licence) : ctx :=
  mkCtx (heap c) (ph c) (pre c) (unsw c) (rnt c) (gray c) (gray_again c) (met c) (rootS c) (rootW c) (regs c) (wregs c) l (uflow c) (ub c).
Definition set_uflow (c : ctx) (b : bool) : ctx :=
  mkCtx (heap c) (ph c) (pre c) (unsw c) (rnt c) (gray c) (gray_again c) (met c) (rootS c) (rootW c) (regs c) (wregs c) (lics c) b (ub c).
Definition set_ub (c : ctx) : ctx :=
  mkCtx (heap c) (ph c) (pre c) (unsw c) (rnt c) (gray c) (gray_again c) (met c) (rootS c) (rootW c) (regs c) (wregs c) (lics c) (uflow c) true.

Definition get (c : ctx) (i : id) : option obj := hget (heap c) i.
Definition put (c : ctx) (i : id) (o : obj) : ctx := set_heap c (hset (heap c) i (Some o)).

(** header colour write *)
Definition recolor (c : ctx) (i : id) (k : color) : ctx :=
  match get c i with
  | Some o => put c i (with_col o k)
  | None => set_ub c
  end.

Definition color_of (c : ctx) (i : id) : option color :=
  match get c i with Some o => Some (col o) | None => None end.

(** ** Context::link  (+ GcBuilder::assume_init's set_live, and the header's needs_trace) *)
Definition link (c : ctx) (o : obj) : ctx * id :=
  let '(h, i) := halloc (heap c) o in
  let c1 := set_heap c h in
  let c2 := set_lists c1 (i :: pre c1) (unsw c1) in
  (set_met c2 (mark_gc_allocated (met c2)), i).

(** ** Context::trace *)
Definition trace (c : ctx) (t : id) : ctx :=
  match get c t with
  | None => set_ub c
  | Some o =>
    match col o with
    | Black | Gray => c
    | White | WhiteWeak =>
      let c1 := if ntr o then set_gray (recolor c t Gray) (t :: gray c) else recolor c t Black in
      match col o with
      | White => set_met c1 (mark_gc_marked (met c1))
      | _ => c1
      end
    end
  end.

(** ** Context::trace_weak *)
Definition trace_weak (c : ctx) (t : id) : ctx :=
  match get c t with
  | None => set_ub c
  | Some o =>
    match col o with
    | White => let c1 := recolor c t WhiteWeak in set_met c1 (mark_gc_marked (met c1))
    | _ => c
    end
  end.

Definition trace_edge (c : ctx) (e : edge) : ctx :=
  match e with Strong t => trace c t | Weak t => trace_weak c t end.

Definition trace_edges (c : ctx) (es : list edge) : ctx := fold_left trace_edge es c.

(** ** Context::make_gray_again *)
Definition make_gray_again (c : ctx) (p : id) : ctx :=
  let c1 := recolor c p Gray in
  let c2 := set_gray_again c1 (p :: gray_again c1) in
  let c3 := if N.eqb (traced (met c2)) 0 then set_uflow c2 true else c2 in
  set_met c3 (mark_gc_untraced (met c3)).

(** ** Write barriers (with the fix: a parent that needs no tracing is never re-queued) *)
Definition backward_barrier (c : ctx) (p : id) (ch : option id) : ctx :=
  match ph c with
  | Mark =>
    match get c p with
    | None => set_ub c
    | Some po =>
      (* `&&` short-circuits: the child's header is read only if the parent is black and traced *)
      if color_eqb (col po) Black && ntr po then
        match ch with
        | None => make_gray_again c p
        | Some x =>
          match get c x with
          | None => set_ub c
          | Some xo => if is_whiteish (col xo) then make_gray_again c p else c
          end
        end
      else c
    end
  | _ => c
  end.

Definition backward_barrier_weak (c : ctx) (p : id) (x : id) : ctx :=
  match ph c with
  | Mark =>
    match get c p with
    | None => set_ub c
    | Some po =>
      if color_eqb (col po) Black && ntr po then
        match get c x with
        | None => set_ub c
        | Some xo => if color_eqb (col xo) White then make_gray_again c p else c
        end
      else c
    end
  | _ => c
  end.

Definition parent_black (c : ctx) (p : option id) : option bool :=
  match p with
  | None => Some true
  | Some q => match get c q with Some qo => Some (color_eqb (col qo) Black) | None => None end
  end.

Definition forward_barrier (c : ctx) (p : option id) (x : id) : ctx :=
  match ph c with
  | Mark =>
    match parent_black c p with
    | None => set_ub c
    | Some true => trace c x
    | Some false => c
    end
  | _ => c
  end.

Definition forward_barrier_weak (c : ctx) (p : option id) (x : id) : ctx :=
  match ph c with
  | Mark =>
    match parent_black c p with
    | None => set_ub c
    | Some true => trace_weak c x
    | Some false => c
    end
  | _ => c
  end.

(** ** Context::upgrade, GcWeak::is_dropped, Gc::is_dead *)
Definition upgrade (c : ctx) (x : id) : ctx * bool :=
  match get c x with
  | None => (set_ub c, false)
  | Some o =>
    if negb (live o) then (c, false)
    else if phase_eqb (ph c) Sweep && color_eqb (col o) WhiteWeak then (c, false)
    else (c, true)
  end.

Definition is_dropped (c : ctx) (x : id) : ctx * bool :=
  match get c x with
  | None => (set_ub c, true)
  | Some o => (c, negb (live o))
  end.

Definition is_dead (c : ctx) (x : id) : ctx * bool :=
  match get c x with
  | None => (set_ub c, true)
  | Some o => (c, is_whiteish (col o))
  end.

(** ** Context::resurrect (callers guarantee: phase Mark, object live) *)
Definition resurrect (c : ctx) (x : id) : ctx :=
  match get c x with
  | None => set_ub c
  | Some o =>
    if is_whiteish (col o) then
      let c1 := set_gray (recolor c x Gray) (x :: gray c) in
      match col o with
      | White => set_met c1 (mark_gc_marked (met c1))
      | _ => c1
      end
    else c
  end.

(** ** Context::root_barrier, gray_remaining *)
Definition root_barrier (c : ctx) : ctx :=
  match ph c with Mark => set_rnt c true | _ => c end.

Definition gray_remaining (c : ctx) : bool :=
  negb (match gray c with [] => true | _ => false end)
  || negb (match gray_again c with [] => true | _ => false end)
  || rnt c.

(** ** Context::mark_one.
    [fault = Some j]: the [Collect::trace] call made by this step (if it makes one on a harness
    type whose trace can be made to panic) panics after reporting [j] edges. *)
Inductive mark_res := MContinue | MBreak | MPanic.

Definition can_panic (k : kind) : bool :=
  match k with KNode | KStruct => true | _ => false end.

Definition mark_one (c : ctx) (fault : option nat) : ctx * mark_res * bool (* fault consumed *) :=
  let pop :=
    match gray c with
    | x :: g => Some (x, set_gray c g)
    | [] => match gray_again c with
            | x :: g => Some (x, set_gray_again c g)
            | [] => None
            end
    end in
  match pop with
  | Some (x, c1) =>
    let c2 := set_met c1 (mark_gc_traced (met c1)) in
    let c3 := recolor c2 x Black in
    match get c3 x with
    | None => (c3, MContinue, false)
    | Some o =>
      let c4 := if live o then c3 else set_ub c3 in
      match fault with
      | Some j =>
        if can_panic (okind o) then
          (* DropGuard: trace unwound after j edges; the object is re-queued *)
          (make_gray_again (trace_edges c4 (firstn j (edges o))) x, MPanic, true)
        else (trace_edges c4 (edges o), MContinue, false)
      | None => (trace_edges c4 (edges o), MContinue, false)
      end
    end
  | None =>
    if rnt c then
      let es := edges_of (rootS c) (rootW c) in
      match fault with
      | Some j => (trace_edges c (firstn j es), MPanic, true)   (* root_needs_trace stays set *)
      | None => (set_rnt (trace_edges c es) false, MContinue, false)
      end
    else (c, MBreak, false)
  end.

(** ** Context::sweep_one *)
Inductive sweep_res := SContinue | SBreak.

Definition free_total (c : ctx) : ctx :=
  let c1 := if N.eqb (total (met c)) 0 then set_uflow c true else c in
  set_met c1 (mark_gc_freed (met c1)).

Definition sweep_one (c : ctx) : ctx * list event * sweep_res :=
  match unsw c with
  | [] => (c, [], SBreak)      (* sweep_prev := None is implied: it is derived, and the phase changes *)
  | x :: rest =>
    match get c x with
    | None => (set_ub (set_lists c (pre c) rest), [], SContinue)
    | Some o =>
      match col o with
      | White =>
        (* unlink, then destruct (if still live), then dealloc *)
        let c1 := set_lists c (pre c) rest in
        let c2 := if live o then set_met c1 (mark_gc_dropped (met c1)) else c1 in
        let c3 := set_heap c2 (hset (heap c2) x None) in
        (free_total c3, (if live o then [EvDrop x] else []) ++ [EvFree x], SContinue)
      | WhiteWeak =>
        let c1 := set_lists c (pre c ++ [x]) rest in
        let c2 := put c1 x (with_live (with_col o White) false) in
        let c3 := if live o then set_met c2 (mark_gc_dropped (met c2)) else c2 in
        (set_met c3 (mark_gc_remembered (met c3)), (if live o then [EvDrop x] else []), SContinue)
      | Black =>
        let c1 := set_lists c (pre c ++ [x]) rest in
        let c2 := put c1 x (with_col o White) in
        (set_met c2 (mark_gc_remembered (met c2)), [], SContinue)
      | Gray =>
        (* debug_assert!(false): unreachable; release builds just move on *)
        (set_ub (set_lists c (pre c ++ [x]) rest), [], SContinue)
      end
    end
  end.

(** ** Context::do_collection *)
Inductive run_until := PayDebt | RunStop.
Inductive stop := FullyMarked | AtSweep | FinishCycle | Full.

Definition stop_rank (s : stop) : nat :=
  match s with FullyMarked => 0 | AtSweep => 1 | FinishCycle => 2 | Full => 3 end.
Definition stop_le (a b : stop) : bool := Nat.leb (stop_rank a) (stop_rank b).

Inductive ctl := CCont (has_slept : bool) | CBreak | CReturn | CPanic.

(** One iteration of the driver loop's [match cx.phase]. [fault = Some (k, j)]: the k-th (0-based)
    panic-capable trace call from now on panics after j edges. *)
Definition loop_body (st : stop) (hs : bool) (c : ctx) (fault : option (nat * nat))
  : ctx * list event * ctl * option (nat * nat) :=
  match ph c with
  | Sleep => (set_ph c Mark, [], CCont true, fault)
  | Mark =>
    let f_here := match fault with Some (O, j) => Some j | _ => None end in
    (* does this step make a panic-capable trace call? (needed to count down k) *)
    let capable :=
      match gray c, gray_again c with
      | x :: _, _ | [], x :: _ =>
          match get c x with Some o => can_panic (okind o) | None => false end
      | [], [] => rnt c
      end in
    let '(c1, r, used) := mark_one c f_here in
    let fault' :=
      match fault with
      | Some (S k, j) => if capable then Some (k, j) else fault
      | Some (O, j) => if used then None else fault
      | None => None
      end in
    match r with
    | MPanic => (c1, [], CPanic, fault')
    | MContinue => (c1, [], CCont hs, fault')
    | MBreak =>
      if stop_le st FullyMarked then (c1, [], CBreak, fault')
      else (set_lists (set_ph c1 Sweep) [] (all c1), [], CCont hs, fault')
    end
  | Sweep =>
    if stop_le st AtSweep then (c, [], CBreak, fault)
    else
      let '(c1, evs, r) := sweep_one c in
      match r with
      | SContinue => (c1, evs, CCont hs, fault)
      | SBreak =>
        let c2 := set_met c1 (finish_cycle (met c1) hs) in
        let c3 := set_ph (set_rnt c2 true) Sleep in
        match st with
        | FinishCycle => (c3, evs, CReturn, fault)
        | _ => if hs then (c3, evs, CBreak, fault) else (c3, evs, CCont hs, fault)
        end
      end
  end.

Inductive outcome := Done | Panicked | OutOfFuel.

Section Loop.
  (** The debt test [allocation_debt() > 0.0]; a parameter so that the heap theorems hold for
      every pacing / debt / work granularity (oracle model). *)
  Variable dec : ctx -> bool.

  Fixpoint loop (fuel : nat) (ru : run_until) (st : stop) (hs : bool) (c : ctx)
           (fault : option (nat * nat)) : ctx * list event * outcome :=
    match fuel with
    | O => (c, [], OutOfFuel)
    | S n =>
      let '(c1, ev1, k, fault') := loop_body st hs c fault in
      match k with
      | CPanic => (c1, ev1, Panicked)
      | CBreak | CReturn => (c1, ev1, Done)
      | CCont hs' =>
        match ru with
        | PayDebt => if dec c1 then
                       let '(c2, ev2, r) := loop n ru st hs' c1 fault' in (c2, ev1 ++ ev2, r)
                     else (c1, ev1, Done)
        | RunStop => let '(c2, ev2, r) := loop n ru st hs' c1 fault' in (c2, ev1 ++ ev2, r)
        end
      end
    end.

  Definition collection_fuel (c : ctx) : nat :=
    4 * length (heap c) + 2 * (length (gray c) + length (gray_again c)) + 16.

  Definition do_collection (c : ctx) (ru : run_until) (st : stop) (fault : option (nat * nat))
    : ctx * list event * outcome :=
    match ru with
    | PayDebt => if dec c then loop (collection_fuel c) ru st false c fault else (c, [], Done)
    | RunStop => loop (collection_fuel c) ru st false c fault
    end.
End Loop.

(** The full model's debt test. *)
Definition dec_debt (c : ctx) : bool := debt_pos (met c).

(** ** impl Drop for Context (DropAll): walk the whole list, destruct live values, free all. *)
Fixpoint drop_all_events (h : heap_t) (l : list id) : list event :=
  match l with
  | [] => []
  | x :: t =>
    (match hget h x with
     | Some o => (if live o then [EvDrop x] else []) ++ [EvFree x]
     | None => [EvFree x]
     end) ++ drop_all_events h t
  end.

(** ** Observable phase (Arena::collection_phase): 0 Sleeping 1 Marking 2 Marked 3 Sweeping *)
Definition collection_phase (c : ctx) : nat :=
  match ph c with
  | Sleep => 0
  | Mark => if gray_remaining c then 1 else 2
  | Sweep => 3
  end.
