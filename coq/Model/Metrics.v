(** * src/metrics.rs over exact rationals. *)
From GA Require Export Model.Base.

Record pacing := mkPacing {
  sleep_f : Q; min_sleep : N;
  mark_f : Q; trace_f : Q; keep_f : Q; drop_f : Q; free_f : Q
}.

Record metrics := mkMetrics {
  pac : pacing;
  total : N;             (* total_gcs *)
  wakeup : Q;            (* wakeup_amount *)
  artificial : Q;        (* artificial_debt *)
  allocated : N; dropped : N; freed : N; marked : N; traced : N; remembered : N
}.

Definition q0 : Q := 0.
Definition QofN (n : N) : Q := inject_Z (Z.of_N n).
Definition Qmax (a b : Q) : Q := if Qle_bool a b then b else a.   (* f64::max on non-NaN *)
Definition Qpos_b (a : Q) : bool := negb (Qle_bool a 0).          (* a > 0.0 *)

(* Pacing::DEFAULT is not dyadic; the default-constructed MetricsInner uses Default::default(),
   i.e. Pacing::DEFAULT through the Default impl. *)
Definition pacing_default : pacing :=
  mkPacing (1#2) 256 (1#10) (4#10) (5#100) (2#10) (3#10).
Definition pacing_stw : pacing := mkPacing 1 256 0 0 0 0 0.

Definition metrics_new : metrics :=
  mkMetrics pacing_default 0 0 0 0 0 0 0 0 0.

Definition set_pacing (m : metrics) (p : pacing) : metrics :=
  mkMetrics p (total m) (wakeup m) (artificial m) (allocated m) (dropped m) (freed m) (marked m) (traced m) (remembered m).

Definition adjust_debt (m : metrics) (x : Q) : metrics :=
  mkMetrics (pac m) (total m) (wakeup m) (Qred (artificial m + x)) (allocated m) (dropped m) (freed m) (marked m) (traced m) (remembered m).

Definition cycle_debits (m : metrics) : Q := QofN (allocated m) - wakeup m + artificial m.

Definition cycle_credits (m : metrics) : Q :=
  QofN (marked m) * mark_f (pac m)
  + QofN (traced m) * trace_f (pac m)
  + QofN (remembered m) * keep_f (pac m)
  + QofN (dropped m) * drop_f (pac m)
  + QofN (freed m) * free_f (pac m).

Definition allocation_debt (m : metrics) : Q :=
  if N.eqb (total m) 0 then 0
  else if Qle_bool (cycle_debits m) 0 then 0
  else Qmax (cycle_debits m - cycle_credits m) 0.

Definition debt_pos (m : metrics) : bool := Qpos_b (allocation_debt m).

Definition finish_cycle (m : metrics) (reset_debt : bool) : metrics :=
  (* Qred only normalises the representation (Qred q == q); it keeps denominators small *)
  let wk := Qred (Qmax (QofN (remembered m) * sleep_f (pac m)) (QofN (min_sleep (pac m)))) in
  let ad := if reset_debt then 0 else Qred (allocation_debt m) in
  mkMetrics (pac m) (total m) wk ad 0 0 0 0 0 0.

Definition mark_gc_allocated (m : metrics) : metrics :=
  mkMetrics (pac m) (total m + 1) (wakeup m) (artificial m) (allocated m + 1) (dropped m) (freed m) (marked m) (traced m) (remembered m).
Definition mark_gc_dropped (m : metrics) : metrics :=
  mkMetrics (pac m) (total m) (wakeup m) (artificial m) (allocated m) (dropped m + 1) (freed m) (marked m) (traced m) (remembered m).
(* unsigned subtraction: N.sub truncates; the caller records an underflow in a ghost flag *)
Definition mark_gc_freed (m : metrics) : metrics :=
  mkMetrics (pac m) (total m - 1) (wakeup m) (artificial m) (allocated m) (dropped m) (freed m + 1) (marked m) (traced m) (remembered m).
Definition mark_gc_marked (m : metrics) : metrics :=
  mkMetrics (pac m) (total m) (wakeup m) (artificial m) (allocated m) (dropped m) (freed m) (marked m + 1) (traced m) (remembered m).
Definition mark_gc_traced (m : metrics) : metrics :=
  mkMetrics (pac m) (total m) (wakeup m) (artificial m) (allocated m) (dropped m) (freed m) (marked m) (traced m + 1) (remembered m).
Definition mark_gc_untraced (m : metrics) : metrics :=
  mkMetrics (pac m) (total m) (wakeup m) (artificial m) (allocated m) (dropped m) (freed m) (marked m) (traced m - 1) (remembered m).
Definition mark_gc_remembered (m : metrics) : metrics :=
  mkMetrics (pac m) (total m) (wakeup m) (artificial m) (allocated m) (dropped m) (freed m) (marked m) (traced m) (remembered m + 1).
