(** * The intrusive object list of src/context.rs at POINTER level (layer C of DESIGN section 2.1).

    [Collector.v] keeps the list of all objects as two Coq lists [pre ++ unsw] and derives the
    cursors. The implementation has no lists: every [GcHeader] has a [next] field and the
    [Context] holds three pointers [all], [sweep], [sweep_prev]. This file models exactly that
    pointer surgery (definitions only; the refinement to the list level is in Proofs/Pointer.v):

      - [plink]         Context::link            (header.set_next(all); all = new; the sweep_prev fix-up)
      - [penter_sweep]  do_collection            (cx.sweep = cx.all.get() when Mark -> Sweep)
      - [psweep_one]    Context::sweep_one       (the unlink of the White arm through sweep_prev or all,
                                                  sweep_prev = sweep in the two keep arms, the final reset)
      - [pwalk]         impl Drop for Context    (DropAll follows [next] from [all])                     *)
From GA Require Export Model.Collector.

Record plist := mkPL {
  nxt : id -> option id;       (* GcHeader::next of every object *)
  p_all : option id;           (* Context.all *)
  p_sweep : option id;         (* Context.sweep *)
  p_prev : option id           (* Context.sweep_prev *)
}.

Definition pl_new : plist := mkPL (fun _ => None) None None None.          (* Context::new *)

Definition upd (f : id -> option id) (x : id) (v : option id) : id -> option id :=
  fun y => if Nat.eqb y x then v else f y.

(** Context::link. [sweeping] is [self.phase == Phase::Sweep]. *)
Definition plink (sweeping : bool) (p : plist) (i : id) : plist :=
  let n := upd (nxt p) i (p_all p) in                (* gc_ptr.header().set_next(self.all.get()) *)
  let a := Some i in                                 (* self.all.set(Some(gc_ptr)) *)
  mkPL n a (p_sweep p)
       (if sweeping then match p_prev p with None => a | Some q => Some q end else p_prev p).

(** Mark -> Sweep in do_collection: [cx.sweep = cx.all.get()]. *)
Definition penter_sweep (p : plist) : plist := mkPL (nxt p) (p_all p) (p_all p) (p_prev p).

(** Which arm of [sweep_one]'s [match sweep_header.color()] is taken. *)
Inductive parm := PFree (* White *) | PKeep (* WhiteWeak, Black *) | PGray (* debug_assert!(false) *).

Definition arm_of_color (k : color) : parm :=
  match k with White => PFree | WhiteWeak | Black => PKeep | Gray => PGray end.

(** Context::sweep_one, pointer part. Returns the object that was under the cursor and the arm. *)
Definition psweep_one (arm : id -> parm) (p : plist) : plist * option (id * parm) :=
  match p_sweep p with
  | None => (mkPL (nxt p) (p_all p) None None, None)            (* self.sweep_prev.set(None); Break *)
  | Some s =>
    let nx := nxt p s in                                         (* let next_ptr = sweep_header.next(); self.sweep = next_ptr *)
    match arm s with
    | PFree =>
      match p_prev p with
      | Some q => (mkPL (upd (nxt p) q nx) (p_all p) nx (p_prev p), Some (s, PFree))   (* sweep_prev.header().set_next(next_ptr) *)
      | None => (mkPL (nxt p) nx nx None, Some (s, PFree))                             (* self.all.set(next_ptr) *)
      end
    | PKeep => (mkPL (nxt p) (p_all p) nx (Some s), Some (s, PKeep))                   (* self.sweep_prev.set(Some(sweep)) *)
    | PGray => (mkPL (nxt p) (p_all p) nx (p_prev p), Some (s, PGray))
    end
  end.

(** DropAll: [while let Some(gc_ptr) = cur { cur = header.next(); ... }]. *)
Fixpoint pwalk (fuel : nat) (n : id -> option id) (h : option id) : list id :=
  match fuel, h with
  | S f, Some x => x :: pwalk f n (n x)
  | _, _ => []
  end.

(** ** The list-level events the collector performs on [(pre, unsw)], and both interpretations. *)
Inductive lev :=
| LLink (i : id)          (* link of a fresh object *)
| LEnter                  (* Mark -> Sweep *)
| LSweep (a : parm)       (* one sweep_one call; [a] = the arm its colour match takes *).

(** list level: exactly what Collector.v does to [pre] / [unsw] *)
Definition lstep (st : bool * list id * list id) (e : lev) : bool * list id * list id :=
  let '(sw, pre, unsw) := st in
  match e with
  | LLink i => (sw, i :: pre, unsw)
  | LEnter => (true, [], pre ++ unsw)
  | LSweep a =>
    match unsw with
    | [] => (false, pre, [])
    | x :: rest => match a with PFree => (sw, pre, rest) | _ => (sw, pre ++ [x], rest) end
    end
  end.

(** pointer level *)
Definition pstep (st : bool * plist) (e : lev) : bool * plist :=
  let '(sw, p) := st in
  match e with
  | LLink i => (sw, plink sw p i)
  | LEnter => (true, penter_sweep p)
  | LSweep a => match p_sweep p with
                | None => (false, fst (psweep_one (fun _ => a) p))
                | Some _ => (sw, fst (psweep_one (fun _ => a) p))
                end
  end.

(** side conditions under which the events are the collector's: fresh ids, Mark -> Sweep only from a
    non-sweeping state, sweeping only while sweeping and never over a gray object *)
Definition lev_ok (st : bool * list id * list id) (e : lev) : Prop :=
  let '(sw, pre, unsw) := st in
  match e with
  | LLink i => ~ In i (pre ++ unsw)
  | LEnter => sw = false
  | LSweep a => sw = true /\ (unsw <> [] -> a <> PGray)
  end.

Fixpoint lrun_ok (st : bool * list id * list id) (evs : list lev) : Prop :=
  match evs with
  | [] => True
  | e :: t => lev_ok st e /\ lrun_ok (lstep st e) t
  end.
