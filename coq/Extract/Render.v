(** * Canonical text rendering of results and snapshots (shared by extraction and vm_compute). *)
From Coq Require Import String Ascii DecimalString.
From GA Require Import Model.Mutator Model.Spec.
Local Open Scope string_scope.

Definition s_of_N (n : N) : string := NilZero.string_of_uint (N.to_uint n).
Definition s_of_nat (n : nat) : string := s_of_N (N.of_nat n).
Definition s_of_Z (z : Z) : string :=
  match z with
  | Z0 => "0"
  | Zpos p => s_of_N (Npos p)
  | Zneg p => "-" ++ s_of_N (Npos p)
  end.

Fixpoint join (sep : string) (l : list string) : string :=
  match l with
  | [] => ""
  | [x] => x
  | x :: t => x ++ sep ++ join sep t
  end.

Definition s_opt_id (o : option id) : string := match o with Some x => s_of_nat x | None => "-" end.
Definition s_bool (b : bool) : string := if b then "1" else "0".
Definition s_color (c : color) : string :=
  match c with White => "W" | WhiteWeak => "w" | Gray => "G" | Black => "B" end.
Definition s_phase (p : phase) : string :=
  match p with Sleep => "0" | Mark => "1" | Sweep => "2" end.

(** Q values are printed in units of 1/4096 when that is exact, else as a reduced fraction. *)
Definition s_of_Q (q : Q) : string :=
  let r := Qred q in
  let n := (Qnum r * 4096)%Z in
  let d := Zpos (Qden r) in
  if Z.eqb (Z.modulo n d) 0 then s_of_Z (Z.div n d)
  else s_of_Z (Qnum r) ++ "/" ++ s_of_Z d.

Definition s_event (e : event) : string :=
  match e with EvDrop x => "D" ++ s_of_nat x | EvFree x => "F" ++ s_of_nat x end.

Definition s_obj (c : ctx) (x : id) : string :=
  match get c x with
  | Some o => s_of_nat x ++ ":" ++ s_color (col o) ++ s_bool (ntr o) ++ s_bool (live o)
  | None => s_of_nat x ++ ":?"
  end.

Definition s_ctx (c : ctx) : string :=
  let m := met c in
  "p=" ++ s_phase (ph c)
  ++ " all=" ++ join "," (map (s_obj c) (all c))
  ++ " sw=" ++ s_opt_id (hd_opt (unsw c))
  ++ " sp=" ++ s_opt_id (match ph c with Sweep => last_opt (pre c) | _ => None end)
  ++ " g=" ++ join "," (map s_of_nat (rev (gray c)))
  ++ " ga=" ++ join "," (map s_of_nat (rev (gray_again c)))
  ++ " rnt=" ++ s_bool (rnt c)
  ++ " cp=" ++ s_of_nat (collection_phase c)
  ++ " m=" ++ join "," (map s_of_N [total m; allocated m; dropped m; freed m; marked m; traced m; remembered m])
  ++ " dp=" ++ s_bool (debt_pos m)
  ++ " q=" ++ join "," (map s_of_Q [wakeup m; artificial m; allocation_debt m]).

Definition s_slotm (s : slotm) : string :=
  match s with
  | SVacant nf => "v" ++ (match nf with Some n => s_of_nat n | None => "-" end)
  | SOcc rc => "o" ++ s_of_N rc
  end.

Definition s_arena (i : nat) (a : option arena) : string :=
  "A" ++ s_of_nat i ++
  match a with
  | None => "-"
  | Some ar => "{" ++ s_ctx (actx ar) ++ "}"
  end.

Fixpoint s_arenas (i : nat) (l : list (option arena)) : list string :=
  match l with
  | [] => []
  | a :: t => s_arena i a :: s_arenas (S i) t
  end.

(** ghost flags; never expected to be set *)
Definition s_ghost (w : world) : string :=
  join "" (map (fun a => match a with
                         | Some ar => (if ub (actx ar) then "UB" else "") ++ (if uflow (actx ar) then "UFLOW" else "")
                         | None => "" end) (arenas w)).

(** the arena an op acts on (for looking up the kinds of destructed objects in the pre-state) *)
Definition op_arena (w0 : world) (o : op) : option nat :=
  match o with
  | OCollect a _ _ | OStartSweep a _ | ODropArena a => Some a
  | OEnd | OEndErr | OPanic => match cur w0 with Some (a, _, _) => Some a | None => None end
  | _ => None
  end.

(** destructors of untagged harness types are not observable: printed in lower case *)
Definition s_event_k (c0 : option ctx) (e : event) : string :=
  match e with
  | EvDrop x =>
    let tagged := match c0 with
                  | Some c => match get c x with Some o => kind_tagged (okind o) | None => true end
                  | None => true end in
    (if tagged then "D" else "d") ++ s_of_nat x
  | EvFree x => "F" ++ s_of_nat x
  end.

(** spec view per arena (not part of the comparison with the implementation; consumed by the
    property oracles): strongly reachable ids and weak targets of the root / reachable objects *)
Fixpoint s_specs (i : nat) (l : list (option arena)) : list string :=
  match l with
  | [] => []
  | Some ar :: t =>
    ("R" ++ s_of_nat i ++ "=" ++ join "," (map s_of_nat (reach_list (actx ar)))
     ++ ";W" ++ s_of_nat i ++ "=" ++ join "," (map s_of_nat (wreach_list (actx ar)))) :: s_specs (S i) t
  | None :: t => s_specs (S i) t
  end.

Definition render_step (w0 : world) (o : op) (w : world) (r : result) : string :=
  let c0 := match op_arena w0 o with
            | Some a => match get_arena w0 a with Some ar => Some (actx ar) | None => None end
            | None => None end in
  join " " (map s_of_Z (r_out r))
  ++ " | " ++ join " " (map (s_event_k c0) (r_events r))
  ++ " | " ++ join " " (s_arenas 0 (arenas w))
  ++ " | " ++ s_ghost w
  ++ " | " ++ join " " (s_specs 0 (arenas w)).

Fixpoint render_run (w : world) (ops : list op) : list string :=
  match ops with
  | [] => []
  | o :: t => let '(w1, r) := step w o in render_step w o w1 r :: render_run w1 t
  end.
