(** Extraction of the executable model. Only ExtrOcamlBasic is used: no Extract Constant, no
    ExtrOcamlNatInt / ZInt / String; nat, N, Z, Q, string stay the extracted inductive types. *)
Require Extraction.
Require Import ExtrOcamlBasic.
From GA Require Import Model.Mutator Extract.Render.
Extraction Language OCaml.
Extraction "model.ml" world_init step render_step render_run pacing_default pacing_stw.
