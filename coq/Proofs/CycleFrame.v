(** * The bookkeeping of one collection cycle (C09): within a cycle, [total + freed - allocated] and
    [debits - allocated] do not change. *)
From Coq Require Import Lqa.
From GA Require Import Model.Spec Proofs.HeapLemmas Proofs.Inv Proofs.InvMark Proofs.InvSweep Proofs.Phases Proofs.MInv
     Proofs.MetricsLemmas Proofs.DebtMono Proofs.DebtMonoOps.
Local Open Scope Z_scope.

(** objects the cycle has seen minus allocations counted since the last roll-over: constant in a cycle *)
Definition cycJ (m : metrics) : Z := Z.of_N (total m) + Z.of_N (freed m) - Z.of_N (Metrics.allocated m).

(** pacing and the two debt offsets are untouched by collector work and mutator operations *)
Definition same_offsets (m m' : metrics) : Prop :=
  pac m' = pac m /\ wakeup m' = wakeup m /\ artificial m' = artificial m.

(** metrics moves that stay within a cycle *)
Record cyc_step (m m' : metrics) : Prop := mkCycStep {
  cy_J : cycJ m' = cycJ m;
  cy_off : same_offsets m m';
  cy_alloc : (Metrics.allocated m <= Metrics.allocated m')%N
}.

Lemma cyc_refl m : cyc_step m m.
Proof. constructor; [reflexivity|repeat split|lia]. Qed.

Lemma cyc_trans a b c : cyc_step a b -> cyc_step b c -> cyc_step a c.
Proof.
  intros [J1 [P1 [W1 A1]] L1] [J2 [P2 [W2 A2]] L2]. constructor; [congruence|repeat split; congruence|lia].
Qed.

(** only marked / traced / dropped / remembered differ: collector work that releases nothing *)
Definition work_only (m m' : metrics) : Prop :=
  pac m' = pac m /\ total m' = total m /\ wakeup m' = wakeup m /\ artificial m' = artificial m
  /\ Metrics.allocated m' = Metrics.allocated m /\ freed m' = freed m.

Lemma work_only_refl m : work_only m m.
Proof. repeat split. Qed.
Lemma work_only_trans a b c : work_only a b -> work_only b c -> work_only a c.
Proof. intros [? [? [? [? [? ?]]]]] [? [? [? [? [? ?]]]]]. repeat split; congruence. Qed.
Lemma work_only_cyc m m' : work_only m m' -> cyc_step m m'.
Proof.
  intros [P [T [W [A [AL F]]]]]. constructor; [unfold cycJ; rewrite T, F, AL; reflexivity|repeat split; auto|rewrite AL; lia].
Qed.

Lemma mstep_cyc m m' : mstep m m' -> cyc_step m m'.
Proof.
  induction 1 as [|m' H IH|m' H IH]; [apply cyc_refl| |].
  - eapply cyc_trans; [exact IH|]. constructor; [unfold cycJ; cbn; lia|repeat split|cbn; lia].
  - eapply cyc_trans; [exact IH|]. apply work_only_cyc. repeat split.
Qed.

Lemma mf_cyc c c' : MF c c' -> cyc_step (met c) (met c').
Proof. intros [H|H]; rewrite H; [apply cyc_refl|apply work_only_cyc; repeat split]. Qed.

(** every mutator micro-op stays within the cycle *)
Lemma micro_cyc w ar k m ar' hs out : micro w ar k m = (ar', hs, out) -> cyc_step (met (actx ar)) (met (actx ar')).
Proof.
  intros E. destruct (first_marking m) eqn:FM.
  - apply mf_cyc. eapply micro_mf; eauto.
  - apply mstep_cyc. eapply micro_ms; eauto.
Qed.

(** ** collector steps *)
Definition WO (c c' : ctx) : Prop := work_only (met c) (met c').

Lemma wo_same c c' : met c' = met c -> WO c c'.
Proof. intros H. unfold WO. rewrite H. apply work_only_refl. Qed.

Lemma wo_trace c t : WO c (trace c t).
Proof.
  destruct (mf_trace c t) as [H|H]; unfold WO; rewrite H; [apply work_only_refl|repeat split].
Qed.
Lemma wo_trace_weak c t : WO c (trace_weak c t).
Proof.
  destruct (mf_trace_weak c t) as [H|H]; unfold WO; rewrite H; [apply work_only_refl|repeat split].
Qed.
Lemma wo_trace_edge c e : WO c (trace_edge c e).
Proof. destruct e; cbn; [apply wo_trace|apply wo_trace_weak]. Qed.
Lemma wo_trace_edges es : forall c, WO c (trace_edges c es).
Proof.
  induction es as [|e es IH]; intros c; [apply work_only_refl|]. cbn [trace_edges fold_left].
  eapply work_only_trans; [apply (wo_trace_edge c e)|apply IH].
Qed.
Lemma wo_make_gray_again c p : WO c (make_gray_again c p).
Proof. unfold WO. rewrite met_make_gray_again. repeat split. Qed.

Lemma wo_mark_one c f c' r u : mark_one c f = (c', r, u) -> WO c c'.
Proof.
  unfold mark_one.
  assert (POP : forall x c1, met c1 = met c ->
    (let c2 := set_met c1 (mark_gc_traced (met c1)) in
     let c3 := recolor c2 x Black in
     match get c3 x with
     | None => (c3, MContinue, false)
     | Some o =>
       let c4 := if live o then c3 else set_ub c3 in
       match f with
       | Some j => if can_panic (okind o) then (make_gray_again (trace_edges c4 (firstn j (edges o))) x, MPanic, true)
                   else (trace_edges c4 (edges o), MContinue, false)
       | None => (trace_edges c4 (edges o), MContinue, false)
       end
     end) = (c', r, u) -> WO c c').
  { intros x c1 H1. cbv zeta.
    assert (K3 : WO c (recolor (set_met c1 (mark_gc_traced (met c1))) x Black)).
    { unfold WO. rewrite met_recolor. cbn [met set_met]. rewrite H1. repeat split. }
    destruct (get _ x) as [o|]; [|intros E; inversion E; subst; exact K3].
    set (c4 := if live o then _ else _).
    assert (K4 : WO c c4).
    { unfold c4. destruct (live o); [exact K3|eapply work_only_trans; [exact K3|apply wo_same; reflexivity]]. }
    destruct f as [j|].
    - destruct (can_panic (okind o)); intros E; inversion E; subst.
      + eapply work_only_trans; [exact K4|]. eapply work_only_trans; [apply wo_trace_edges|apply wo_make_gray_again].
      + eapply work_only_trans; [exact K4|apply wo_trace_edges].
    - intros E; inversion E; subst. eapply work_only_trans; [exact K4|apply wo_trace_edges]. }
  destruct (gray c) as [|x g].
  - destruct (gray_again c) as [|x g].
    + destruct (rnt c); [|intros E; inversion E; subst; apply work_only_refl].
      destruct f; intros E; inversion E; subst.
      * apply wo_trace_edges.
      * eapply work_only_trans; [apply wo_trace_edges|apply wo_same; reflexivity].
    + apply POP. reflexivity.
  - apply POP. reflexivity.
Qed.

(** a sweep step releases at most the object under the cursor: [total - 1], [freed + 1] *)
Lemma sweep_one_cyc c c' evs r :
  Inv None c -> MInv c -> ph c = Sweep -> sweep_one c = (c', evs, r) -> cyc_step (met c) (met c').
Proof.
  intros I M HS E. unfold sweep_one in E.
  destruct (unsw c) as [|x rest] eqn:HU; [inversion E; subst; apply cyc_refl|].
  assert (POS : (1 <= total (met c))%N).
  { rewrite (m_total _ M). unfold all. rewrite HU, app_length. cbn. lia. }
  destruct (get c x) as [o|] eqn:G; [|inversion E; subst; apply cyc_refl].
  destruct (col o); inversion E; subst; clear E.
  - (* White *)
    unfold free_total. constructor.
    + unfold cycJ. destruct (N.eqb _ 0); destruct (live o); cbn; lia.
    + destruct (N.eqb _ 0); destruct (live o); repeat split.
    + destruct (N.eqb _ 0); destruct (live o); cbn; lia.
  - apply work_only_cyc. destruct (live o); repeat split.
  - apply cyc_refl.
  - apply work_only_cyc. repeat split.
Qed.

(** one iteration of the driver loop that does not roll the cycle over *)
Lemma loop_body_cyc st hs c f c1 evs k f' :
  Inv None c -> MInv c -> loop_body st hs c f = (c1, evs, k, f') -> ph c1 <> Sleep -> cyc_step (met c) (met c1).
Proof.
  intros I M E NS. unfold loop_body in E. destruct (ph c) eqn:P.
  - inversion E; subst. apply cyc_refl.
  - destruct (mark_one c _) as [[c2 r] u] eqn:EM. pose proof (work_only_cyc _ _ (wo_mark_one _ _ _ _ _ EM)) as K2.
    destruct r.
    + inversion E; subst; auto.
    + destruct (stop_le st FullyMarked); inversion E; subst; auto.
    + inversion E; subst; auto.
  - destruct (stop_le st AtSweep); [inversion E; subst; apply cyc_refl|].
    destruct (sweep_one c) as [[c2 evs2] r] eqn:ES. pose proof (sweep_one_cyc _ _ _ _ I M P ES) as K2.
    destruct r; [inversion E; subst; auto|].
    exfalso. destruct st; [| |inversion E; subst; apply NS; reflexivity|]; destruct hs; inversion E; subst; apply NS; reflexivity.
Qed.
