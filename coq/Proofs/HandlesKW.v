(** * The DynamicRootSet / handle invariant (C14), part 1: what an operation may do to set objects. *)
From GA Require Import Model.Spec Proofs.HeapLemmas.
From GA Require Import Proofs.Slots.
Local Open Scope nat_scope.

(** [KW c c']: ids stay, NO object is created, every object of [c'] has the same kind as in [c], was live if it is
    live, and -- if it is a DynamicRootSet -- holds the same slot vector *)
Definition KW (c c' : ctx) : Prop :=
  length (heap c) <= length (heap c')
  /\ forall y o', get c' y = Some o' ->
       exists o, get c y = Some o /\ okind o' = okind o /\ (live o' = true -> live o = true)
                 /\ (okind o = KSet -> strong o' = strong o).

Lemma kw_refl c : KW c c.
Proof. split; auto. intros y o' G. exists o'. auto. Qed.

Lemma kw_trans a b c : KW a b -> KW b c -> KW a c.
Proof.
  intros [L1 H1] [L2 H2]. split; [lia|]. intros y o' G.
  destruct (H2 y o' G) as [o1 [G1 [K1 [V1 S1]]]].
  destruct (H1 y o1 G1) as [o0 [G0 [K0 [V0 S0]]]].
  exists o0. split; auto. split; [congruence|]. split; [auto|].
  intros KS. rewrite S1 by congruence. auto.
Qed.

Lemma kw_same_heap c c' : heap c' = heap c -> KW c c'.
Proof. intros H. unfold KW, get. rewrite H. split; auto. intros y o' G. exists o'. auto. Qed.

Lemma kw_heap_of c c1 c' : KW c c1 -> heap c' = heap c1 -> KW c c'.
Proof. intros K H. eapply kw_trans; [exact K|apply kw_same_heap; auto]. Qed.

Lemma kw_put c p o o' :
  get c p = Some o -> okind o' = okind o -> (live o' = true -> live o = true) -> (okind o = KSet -> strong o' = strong o) ->
  KW c (put c p o').
Proof.
  intros G K V S. split.
  - unfold put. cbn. rewrite hset_length. auto.
  - intros y oy Gy. rewrite (get_put c p y o' o G) in Gy. destruct (Nat.eqb_spec p y) as [->|N].
    + inversion Gy; subst. exists o. auto.
    + exists oy. auto.
Qed.

Lemma kw_recolor c x k : KW c (recolor c x k).
Proof.
  unfold recolor. destruct (get c x) as [o|] eqn:G; [|apply kw_same_heap; reflexivity].
  eapply kw_put; eauto.
Qed.

Lemma kw_make_gray_again c p : KW c (make_gray_again c p).
Proof.
  unfold make_gray_again. apply (kw_heap_of c (recolor c p Gray)); [apply kw_recolor|].
  destruct (N.eqb _ 0); reflexivity.
Qed.

Lemma kw_trace c t : KW c (trace c t).
Proof.
  unfold trace. destruct (get c t) as [o|]; [|apply kw_same_heap; reflexivity].
  destruct (col o); try apply kw_refl; destruct (ntr o);
    first [apply (kw_heap_of c (recolor c t Gray)); [apply kw_recolor|reflexivity]
          |apply (kw_heap_of c (recolor c t Black)); [apply kw_recolor|reflexivity]].
Qed.

Lemma kw_trace_weak c t : KW c (trace_weak c t).
Proof.
  unfold trace_weak. destruct (get c t) as [o|]; [|apply kw_same_heap; reflexivity].
  destruct (col o); try apply kw_refl. apply (kw_heap_of c (recolor c t WhiteWeak)); [apply kw_recolor|reflexivity].
Qed.

Lemma kw_backward_barrier c p ch : KW c (backward_barrier c p ch).
Proof.
  unfold backward_barrier. destruct (ph c); try apply kw_refl.
  destruct (get c p) as [po|]; [|apply kw_same_heap; reflexivity].
  destruct (color_eqb (col po) Black && ntr po); try apply kw_refl.
  destruct ch as [x|]; [|apply kw_make_gray_again].
  destruct (get c x) as [xo|]; [|apply kw_same_heap; reflexivity].
  destruct (is_whiteish (col xo)); [apply kw_make_gray_again|apply kw_refl].
Qed.

Lemma kw_backward_barrier_weak c p x : KW c (backward_barrier_weak c p x).
Proof.
  unfold backward_barrier_weak. destruct (ph c); try apply kw_refl.
  destruct (get c p) as [po|]; [|apply kw_same_heap; reflexivity].
  destruct (color_eqb (col po) Black && ntr po); try apply kw_refl.
  destruct (get c x) as [xo|]; [|apply kw_same_heap; reflexivity].
  destruct (color_eqb (col xo) White); [apply kw_make_gray_again|apply kw_refl].
Qed.

Lemma kw_forward_barrier c p x : KW c (forward_barrier c p x).
Proof.
  unfold forward_barrier. destruct (ph c); try apply kw_refl.
  destruct (parent_black c p) as [[|]|]; [apply kw_trace|apply kw_refl|apply kw_same_heap; reflexivity].
Qed.

Lemma kw_forward_barrier_weak c p x : KW c (forward_barrier_weak c p x).
Proof.
  unfold forward_barrier_weak. destruct (ph c); try apply kw_refl.
  destruct (parent_black c p) as [[|]|]; [apply kw_trace_weak|apply kw_refl|apply kw_same_heap; reflexivity].
Qed.

Lemma kw_gc_write c p : KW c (gc_write c p).
Proof. unfold gc_write. apply (kw_heap_of c (backward_barrier c p None)); [apply kw_backward_barrier|reflexivity]. Qed.

Lemma kw_resurrect c x : KW c (resurrect c x).
Proof.
  unfold resurrect. destruct (get c x) as [o|]; [|apply kw_same_heap; reflexivity].
  destruct (is_whiteish (col o)); [|apply kw_refl].
  destruct (col o); apply (kw_heap_of c (recolor c x Gray)); try apply kw_recolor; reflexivity.
Qed.

Lemma kw_store_strong c p o i v : get c p = Some o -> okind o <> KSet -> KW c (store_strong c p o i v).
Proof.
  intros G K. unfold store_strong. destruct (Nat.ltb _ _); [|apply kw_refl].
  eapply kw_put; eauto. intros E. contradiction.
Qed.

Lemma kw_store_weak c p o i v : get c p = Some o -> KW c (store_weak c p o i v).
Proof.
  intros G. unfold store_weak. destruct (Nat.ltb _ _); [|apply kw_refl]. eapply kw_put; eauto.
Qed.

(** stores after a barrier re-read the object: its kind is the one it had before the barrier *)
Lemma kw_store_after c0 c p i v o :
  KW c0 c -> get c0 p = Some o -> okind o <> KSet -> KW c0 (store_after c p i v).
Proof.
  intros K G NK. unfold store_after. destruct (get c p) as [o1|] eqn:G1; [|exact K].
  eapply kw_trans; [exact K|]. apply kw_store_strong; auto.
  destruct K as [_ H]. destruct (H p o1 G1) as [o0 [G0 [K0 _]]]. congruence.
Qed.

Lemma kw_store_weak_after c0 c p i v : KW c0 c -> KW c0 (store_weak_after c p i v).
Proof.
  intros K. unfold store_weak_after. destruct (get c p) as [o1|] eqn:G1; [|exact K].
  eapply kw_trans; [exact K|]. apply kw_store_weak; auto.
Qed.

Lemma kw_upgrade c x : KW c (fst (upgrade c x)).
Proof.
  unfold upgrade. destruct (get c x) as [o|]; [|apply kw_same_heap; reflexivity].
  destruct (negb (live o)); [apply kw_refl|]. destruct (_ && _); apply kw_refl.
Qed.
Lemma kw_is_dropped c x : KW c (fst (is_dropped c x)).
Proof. unfold is_dropped. destruct (get c x); [apply kw_refl|apply kw_same_heap; reflexivity]. Qed.
Lemma kw_is_dead c x : KW c (fst (is_dead c x)).
Proof. unfold is_dead. destruct (get c x); [apply kw_refl|apply kw_same_heap; reflexivity]. Qed.

(** ** every micro-op except stash and allocation leaves handles and set tables alone and is [KW] *)
Definition is_stash (m : mop) : bool := match m with MStash _ _ _ => true | _ => false end.
Definition is_alloc (m : mop) : bool := match m with MAlloc _ _ _ _ | MAllocWith _ _ _ _ => true | _ => false end.

Ltac fin E :=
  inversion E; subst; clear E; cbn [actx auid asets];
  (split; [reflexivity|split; [|split; reflexivity]]).

Lemma micro_sets w ar k m ar' hs out :
  is_stash m = false -> is_alloc m = false -> micro w ar k m = (ar', hs, out) ->
  auid ar' = auid ar /\ KW (actx ar) (actx ar') /\ hs = handles w /\ asets ar' = asets ar.
Proof.
  intros NS NA E. destruct ar as [c uid sets]. cbn [actx auid asets] in *.
  assert (KH : forall c', heap c' = heap c -> KW c c') by (intros; apply kw_same_heap; auto).
  destruct m; cbn [micro actx auid asets] in E; try discriminate NS; try discriminate NA.
  - fin E. apply KH; reflexivity.
  - fin E. apply KH; reflexivity.
  - (* MLoad *)
    destruct (rg c p) as [pid|]; [|fin E; apply kw_refl].
    destruct (get c pid) as [o|]; [|fin E; apply KH; reflexivity].
    destruct (okind o); fin E; try apply kw_refl; destruct (live o); apply KH; reflexivity.
  - destruct (rg c p) as [pid|]; [|fin E; apply kw_refl].
    destruct (get c pid) as [o|]; [|fin E; apply KH; reflexivity].
    fin E. destruct (live o); apply KH; reflexivity.
  - (* MStore *)
    destruct (rg c p) as [pid|]; [|fin E; apply kw_refl].
    destruct (get c pid) as [o|] eqn:G; [|fin E; apply KH; reflexivity].
    destruct (okind o) eqn:K.
    + fin E. eapply kw_store_after; [apply kw_gc_write|eauto|congruence].
    + fin E. apply kw_gc_write.
    + fin E. apply kw_refl.
    + fin E. eapply kw_store_after; [apply kw_gc_write|eauto|congruence].
    + destruct (match c0 with Some r => rg c r | None => None end) as [v|]; [|fin E; apply kw_refl].
      destruct (slot_empty o 0); [|fin E; apply kw_refl].
      fin E. eapply kw_trans; [apply kw_store_strong; eauto; congruence|apply kw_gc_write].
    + destruct (Nat.eqb i 1).
      * destruct (match c0 with Some r => rg c r | None => None end) as [v|]; [|fin E; apply kw_gc_write].
        destruct (slot_empty o 1); [|fin E; apply kw_gc_write].
        fin E. eapply kw_store_after; [apply kw_gc_write|eauto|congruence].
      * fin E. eapply kw_store_after; [apply kw_gc_write|eauto|congruence].
  - (* MStoreW *)
    destruct (rg c p) as [pid|]; [|fin E; apply kw_refl].
    destruct (get c pid) as [o|] eqn:G; [|fin E; apply KH; reflexivity].
    destruct (okind o) eqn:K; fin E; try apply kw_refl; apply kw_store_weak_after; apply kw_gc_write.
  - (* MOnceInit *)
    destruct (rg c p) as [pid|]; [|fin E; apply kw_refl].
    destruct (rg c c0) as [cid|]; [|fin E; apply kw_refl].
    destruct (get c pid) as [o|] eqn:G; [|fin E; apply KH; reflexivity].
    destruct (okind o) eqn:K; try (fin E; apply kw_refl).
    destruct (slot_empty o 0); [|fin E; apply kw_refl].
    fin E. eapply kw_store_after; [apply kw_gc_write|eauto|congruence].
  - destruct (root_mutable k); [|fin E; apply kw_refl].
    destruct (Nat.ltb i (length (rootS c))); fin E; [apply KH; reflexivity|apply kw_refl].
  - destruct (root_mutable k); [|fin E; apply kw_refl].
    destruct (Nat.ltb i (length (rootW c))); fin E; [apply KH; reflexivity|apply kw_refl].
  - (* MDowngrade *)
    destruct (rg c r) as [x|]; [|fin E; apply kw_refl].
    destruct (get c x) as [o|]; [|fin E; apply KH; reflexivity].
    destruct (okind o); fin E; try apply kw_refl; apply KH; reflexivity.
  - (* MUpgrade *)
    destruct (wrg c w0) as [x|]; [|fin E; apply kw_refl].
    destruct (upgrade c x) as [c1 b] eqn:U. fin E.
    apply (kw_heap_of c c1); [|reflexivity]. pose proof (kw_upgrade c x) as H. rewrite U in H. exact H.
  - destruct (wrg c w0) as [x|]; [|fin E; apply kw_refl].
    destruct (is_dropped c x) as [c1 b] eqn:U. fin E. pose proof (kw_is_dropped c x) as H. rewrite U in H. exact H.
  - (* MBarrierB *)
    destruct (rgE c p) as [pid|]; [|fin E; apply kw_refl].
    destruct c0 as [r|]; [|fin E; apply kw_gc_write].
    destruct (rgE c r) as [cid|]; [|fin E; apply kw_refl].
    fin E. apply (kw_heap_of c (backward_barrier c pid (Some cid))); [apply kw_backward_barrier|reflexivity].
  - destruct (rgE c p) as [pid|]; [|fin E; apply kw_refl].
    destruct (wrg c w0) as [x|]; [|fin E; apply kw_refl].
    fin E. apply (kw_heap_of c (backward_barrier_weak c pid x)); [apply kw_backward_barrier_weak|reflexivity].
  - (* MBarrierF *)
    destruct (rgE c c0) as [cid|]; [|fin E; apply kw_refl].
    destruct p as [pr|].
    + destruct (rgE c pr) as [pid|]; [|fin E; apply kw_refl].
      fin E. apply (kw_heap_of c (forward_barrier c (Some pid) cid)); [apply kw_forward_barrier|reflexivity].
    + fin E. apply (kw_heap_of c (forward_barrier c None cid)); [apply kw_forward_barrier|reflexivity].
  - destruct (wrg c w0) as [x|]; [|fin E; apply kw_refl].
    destruct p as [pr|].
    + destruct (rgE c pr) as [pid|]; [|fin E; apply kw_refl].
      fin E. apply (kw_heap_of c (forward_barrier_weak c (Some pid) x)); [apply kw_forward_barrier_weak|reflexivity].
    + fin E. apply (kw_heap_of c (forward_barrier_weak c None x)); [apply kw_forward_barrier_weak|reflexivity].
  - (* MRawStore *)
    destruct (rg c p) as [pid|]; [|fin E; apply kw_refl].
    destruct (rg c c0) as [cid|]; [|fin E; apply kw_refl].
    destruct (get c pid) as [o|] eqn:G; [|fin E; apply KH; reflexivity].
    destruct (okind o) eqn:K; try (fin E; apply kw_refl).
    destruct (_ || _); fin E; [apply kw_store_strong; auto; congruence|apply kw_refl].
  - destruct (rg c p) as [pid|]; [|fin E; apply kw_refl].
    destruct (wrg c w0) as [x|]; [|fin E; apply kw_refl].
    destruct (get c pid) as [o|] eqn:G; [|fin E; apply KH; reflexivity].
    destruct (okind o) eqn:K; try (fin E; apply kw_refl).
    destruct (_ || _); fin E; [apply kw_store_weak; auto|apply kw_refl].
  - (* MFetch *)
    destruct (rg c s) as [sid|]; [|fin E; apply kw_refl].
    destruct (nth_error (handles w) h) as [[hd|]|]; try (fin E; apply kw_refl).
    destruct (get c sid) as [so|]; [|fin E; apply KH; reflexivity].
    destruct (okind so); try (fin E; apply kw_refl).
    destruct (live so); [|fin E; apply kw_refl].
    destruct (_ && _); [|fin E; apply kw_refl].
    destruct (existsb _ _); fin E; [apply KH; reflexivity|apply kw_refl].
  - (* MIsDead *)
    destruct (is_finalize k); [|fin E; apply kw_refl].
    destruct (rgE c r) as [x|]; [|fin E; apply kw_refl].
    destruct (is_dead c x) as [c1 b] eqn:U. fin E. pose proof (kw_is_dead c x) as H. rewrite U in H. exact H.
  - destruct (is_finalize k); [|fin E; apply kw_refl].
    destruct (wrg c w0) as [x|]; [|fin E; apply kw_refl].
    destruct (is_dead c x) as [c1 b] eqn:U. fin E. pose proof (kw_is_dead c x) as H. rewrite U in H. exact H.
  - destruct (is_finalize k); [|fin E; apply kw_refl].
    destruct (rgE c r) as [x|]; [|fin E; apply kw_refl].
    fin E. apply kw_resurrect.
  - (* MResurrectW *)
    destruct (is_finalize k); [|fin E; apply kw_refl].
    destruct (wrg c w0) as [x|]; [|fin E; apply kw_refl].
    destruct (get c x) as [o|]; [|fin E; apply KH; reflexivity].
    destruct (live o); fin E; [apply (kw_heap_of c (resurrect c x)); [apply kw_resurrect|reflexivity]|apply KH; reflexivity].
  - fin E. apply KH; reflexivity.
  - fin E. apply KH; reflexivity.
  - fin E. apply KH; reflexivity.
  - destruct (rg c r1) as [x|]; [|fin E; apply kw_refl].
    destruct (rg c r2) as [y|]; fin E; apply kw_refl.
Qed.
