(** * The driver loop of do_collection terminates within [collection_fuel] (part of C08):
    at most the rest of the running cycle plus one whole cycle; every mark_one step lowers
    [#unmarked + |queues| + root flag], every sweep_one step shortens the unswept list. *)
From GA Require Import Model.Spec Proofs.HeapLemmas Proofs.Inv Proofs.Recolor Proofs.InvMicro Proofs.InvStore
     Proofs.InvMark Proofs.InvSweep Proofs.InvLoop Proofs.Phases Proofs.MInv.
Local Open Scope nat_scope.

Definition whiteish_b (c : ctx) (x : id) : bool :=
  match get c x with Some o => is_whiteish (col o) | None => false end.

Definition nwhite (c : ctx) : nat := length (filter (whiteish_b c) (all c)).

Definition mu (c : ctx) : nat := nwhite c + length (gray c) + length (gray_again c) + b2n (rnt c).

Lemma nwhite_recol e c c' x o k :
  Inv e c -> recol c c' x o k ->
  nwhite c' + b2n (is_whiteish (col o)) = nwhite c + b2n (is_whiteish k).
Proof.
  intros I R. unfold nwhite. rewrite (recol_all _ _ _ _ _ R).
  assert (Hin : In x (all c)) by (apply (i_all _ _ I); exists o; apply (rc_get _ _ _ _ _ R)).
  pose proof (filter_point_change (whiteish_b c) (whiteish_b c') (all c) x (i_nodup _ _ I) Hin) as H.
  assert (EX : whiteish_b c x = is_whiteish (col o)) by (unfold whiteish_b; rewrite (rc_get _ _ _ _ _ R); reflexivity).
  assert (EX' : whiteish_b c' x = is_whiteish k).
  { unfold whiteish_b. rewrite (recol_get _ _ _ _ _ x R), Nat.eqb_refl. reflexivity. }
  rewrite EX, EX' in H. apply H. intros y NY. unfold whiteish_b. rewrite (recol_get _ _ _ _ _ y R).
  destruct (Nat.eqb_spec x y); [congruence|reflexivity].
Qed.

(** the part of [mu] that tracing can change *)
Definition wq (c : ctx) : nat := nwhite c + length (gray c) + length (gray_again c).

Lemma wq_recol e c c' x o k :
  Inv e c -> recol c c' x o k ->
  length (gray c') + length (gray_again c') + b2n (is_whiteish (col o)) =
    length (gray c) + length (gray_again c) + b2n (is_whiteish k) + (if is_whiteish k then 0 else 0) ->
  True.
Proof. auto. Qed.

Lemma trace_wq e c t o : Inv e c -> get c t = Some o -> wq (trace c t) <= wq c /\ rnt (trace c t) = rnt c.
Proof.
  intros I G. unfold trace. rewrite G. unfold wq.
  assert (E0 : forall k, gray (recolor c t k) = gray c) by (intros; unfold recolor; rewrite G; reflexivity).
  assert (E1 : forall k, gray_again (recolor c t k) = gray_again c) by (intros; unfold recolor; rewrite G; reflexivity).
  assert (E2 : forall k, rnt (recolor c t k) = rnt c) by (intros; unfold recolor; rewrite G; reflexivity).
  assert (RG : forall c', recol c c' t o Gray -> is_whiteish (col o) = true -> nwhite c' + 1 = nwhite c).
  { intros c' R W. pose proof (nwhite_recol e c c' t o Gray I R) as H. rewrite W in H. cbn [is_whiteish b2n] in H. lia. }
  assert (RB : forall c', recol c c' t o Black -> is_whiteish (col o) = true -> nwhite c' + 1 = nwhite c).
  { intros c' R W. pose proof (nwhite_recol e c c' t o Black I R) as H. rewrite W in H. cbn [is_whiteish b2n] in H. lia. }
  destruct (col o) eqn:C; try (split; [lia|reflexivity]).
  - destruct (ntr o).
    + pose proof (RG _ (recol_set_met _ _ _ _ _ (mark_gc_marked (met (set_gray (recolor c t Gray) (t :: gray c)))) (recol_set_gray _ _ _ _ _ (t :: gray c) (recol_recolor c t o Gray G))) eq_refl) as H.
      cbn [gray gray_again set_met set_gray rnt]. rewrite E1, E2. cbn [length]. split; [lia|reflexivity].
    + pose proof (RB _ (recol_set_met _ _ _ _ _ (mark_gc_marked (met (recolor c t Black))) (recol_recolor c t o Black G)) eq_refl) as H.
      cbn [gray gray_again set_met rnt]. rewrite E0, E1, E2. split; [lia|reflexivity].
  - destruct (ntr o).
    + pose proof (RG _ (recol_set_gray _ _ _ _ _ (t :: gray c) (recol_recolor c t o Gray G)) eq_refl) as H.
      cbn [gray gray_again set_gray rnt]. rewrite E1, E2. cbn [length]. split; [lia|reflexivity].
    + pose proof (RB _ (recol_recolor c t o Black G) eq_refl) as H.
      rewrite E0, E1, E2. split; [lia|reflexivity].
Qed.

Lemma trace_weak_wq e c t o : Inv e c -> get c t = Some o -> wq (trace_weak c t) <= wq c /\ rnt (trace_weak c t) = rnt c.
Proof.
  intros I G. unfold trace_weak. rewrite G. unfold wq. destruct (col o) eqn:C; try (split; [lia|reflexivity]).
  pose proof (nwhite_recol e c _ t o WhiteWeak I (recol_set_met _ _ _ _ _ (mark_gc_marked (met (recolor c t WhiteWeak))) (recol_recolor c t o WhiteWeak G))) as H.
  rewrite C in H. cbn [is_whiteish b2n] in H. cbn [gray gray_again set_met rnt].
  assert (E0 : gray (recolor c t WhiteWeak) = gray c) by (unfold recolor; rewrite G; reflexivity).
  assert (E1 : gray_again (recolor c t WhiteWeak) = gray_again c) by (unfold recolor; rewrite G; reflexivity).
  assert (E2 : rnt (recolor c t WhiteWeak) = rnt c) by (unfold recolor; rewrite G; reflexivity).
  rewrite E0, E1, E2. split; [lia|reflexivity].
Qed.

Lemma trace_edges_wq es : forall e c,
  Inv e c -> ph c = Mark -> Forall (edge_ok c) es ->
  wq (trace_edges c es) <= wq c /\ rnt (trace_edges c es) = rnt c.
Proof.
  induction es as [|ed es IH]; intros e c I HM F; [cbn; auto|].
  inversion F as [|? ? Hd Tl]; subst. cbn [trace_edges fold_left].
  destruct (trace_edge_inv e c ed I HM Hd) as [I1 [_ [Mo1 Fr1]]].
  assert (S1 : wq (trace_edge c ed) <= wq c /\ rnt (trace_edge c ed) = rnt c).
  { destruct ed as [t|t]; cbn in *.
    - destruct Hd as [o [G _]]. apply (trace_wq e c t o I G).
    - destruct Hd as [o G]. apply (trace_weak_wq e c t o I G). }
  change (fold_left trace_edge es (trace_edge c ed)) with (trace_edges (trace_edge c ed) es).
  destruct (IH e (trace_edge c ed) I1) as [A B].
  - rewrite (f_ph _ _ Fr1); auto.
  - eapply Forall_impl; [|exact Tl]. intros a. apply mono_edge_ok; auto.
  - destruct S1. split; [lia|congruence].
Qed.

(** a marking step that continues lowers [mu] *)
Lemma mark_one_mu c c' u :
  Inv None c -> quiescent c -> ph c = Mark -> mark_one c None = (c', MContinue, u) -> mu c' < mu c.
Proof.
  intros I Q HM E. pose proof Q as [QR [QW QL]]. unfold mark_one in E.
  assert (POP : forall x c1,
     gray c ++ gray_again c = x :: (gray c1 ++ gray_again c1) ->
     length (gray c) + length (gray_again c) = S (length (gray c1) + length (gray_again c1)) ->
     heap c1 = heap c -> ph c1 = ph c -> pre c1 = pre c -> unsw c1 = unsw c -> rnt c1 = rnt c ->
     rootS c1 = rootS c -> rootW c1 = rootW c -> regs c1 = regs c -> wregs c1 = wregs c ->
     lics c1 = lics c -> ub c1 = ub c ->
     (let c2 := set_met c1 (mark_gc_traced (met c1)) in
      let c3 := recolor c2 x Black in
      match get c3 x with
      | None => (c3, MContinue, false)
      | Some o =>
        let c4 := if live o then c3 else set_ub c3 in (trace_edges c4 (edges o), MContinue, false)
      end) = (c', MContinue, u) -> mu c' < mu c).
  { intros x c1 EQ LQ E3 E4 E5 E6 E7 E8 E9 E10 E11 E12 E13 EE.
    destruct (pop_blacken c c1 x I QL HM EQ E3 E4 E5 E6 E7 E8 E9 E10 E11 E12 E13 (mark_gc_traced (met c1)))
      as [o0 [G0 [G3 [L0 [I3 [F3 S3]]]]]].
    cbv zeta in EE. rewrite G3 in EE. cbn [live with_col] in EE. rewrite L0 in EE.
    set (c3 := recolor (set_met c1 (mark_gc_traced (met c1))) x Black) in *.
    assert (HM3 : ph c3 = Mark) by (rewrite (f_ph _ _ F3); auto).
    assert (C0 : col o0 = Gray).
    { assert (Hin : In x (gray c ++ gray_again c)) by (rewrite EQ; left; auto).
      apply (i_gray _ _ I) in Hin. destruct Hin as [o' [G' C']]. congruence. }
    assert (G1 : get (set_met c1 (mark_gc_traced (met c1))) x = Some o0) by (unfold get in *; cbn; rewrite E3; auto).
    assert (R : recol c c3 x o0 Black).
    { unfold c3, recolor. rewrite G1. constructor; cbn; auto. rewrite E3. reflexivity. }
    pose proof (nwhite_recol _ _ _ _ _ _ I R) as NW. rewrite C0 in NW. cbn [is_whiteish b2n] in NW.
    assert (Q3 : gray c3 = gray c1 /\ gray_again c3 = gray_again c1 /\ rnt c3 = rnt c).
    { unfold c3, recolor. rewrite G1. cbn. auto. }
    destruct Q3 as [Q31 [Q32 Q33]].
    assert (OK0 : Forall (edge_ok c) (edges o0)).
    { eapply slots_ok_edges; eauto. eapply (i_obj _ _ I); eauto. eapply not_condemned_nosweep; eauto. rewrite HM; discriminate. }
    assert (OK3 : Forall (edge_ok c3) (edges (with_col o0 Black))).
    { eapply Forall_impl; [|exact OK0]. intros a. apply sgraph_edge_ok; auto. }
    destruct (trace_edges_wq _ (Some x) c3 I3 HM3 OK3) as [W5 R5].
    inversion EE; subst. unfold mu. unfold wq in W5. rewrite R5, Q33. rewrite Q31, Q32 in W5. lia. }
  destruct (gray c) as [|x g] eqn:EG.
  - destruct (gray_again c) as [|x g] eqn:EGA.
    + destruct (rnt c) eqn:ER; [|inversion E].
      inversion E; subst.
      assert (OK : Forall (edge_ok c) (edges_of (rootS c) (rootW c))).
      { eapply slots_ok_edges; eauto. apply (i_root _ _ I). }
      destruct (trace_edges_wq _ None c I HM OK) as [W5 R5].
      unfold mu. cbn [rnt set_rnt gray gray_again]. change (nwhite (set_rnt ?X false)) with (nwhite X).
      unfold wq in W5. rewrite EG, EGA in *. rewrite ER. cbn [b2n length] in *. lia.
    + eapply (POP x (set_gray_again c g)); eauto; cbn; auto; try rewrite EG; try rewrite EGA; try reflexivity.
  - eapply (POP x (set_gray c g)); eauto; cbn; auto; try rewrite EG; try reflexivity.
Qed.

(** ** the potential of the driver loop *)
Definition cyc (a : nat) : nat := 2 * a + 3.

Definition phi (c : ctx) (hs : bool) : nat :=
  match ph c with
  | Sleep => 1 + cyc (length (all c))
  | Mark => mu c + 1 + (length (all c) + 1) + (if hs then 0 else 1 + cyc (length (all c)))
  | Sweep => length (unsw c) + 1 + (if hs then 0 else 1 + cyc (length (all c)))
  end.

Lemma filter_length_le {A} (f : A -> bool) l : length (filter f l) <= length l.
Proof. induction l as [|a t IH]; cbn; auto. destruct (f a); cbn; lia. Qed.

Lemma all_le_heap e c : Inv e c -> length (all c) <= length (heap c).
Proof.
  intros I. rewrite <- (seq_length (length (heap c)) 0). apply NoDup_incl_length; [apply (i_nodup _ _ I)|].
  intros x Hx. apply (i_all _ _ I) in Hx. destruct Hx as [o G]. apply get_some_lt in G. apply in_seq. lia.
Qed.

Lemma mark_one_no_panic c c' r u : mark_one c None = (c', r, u) -> r <> MPanic.
Proof.
  unfold mark_one. destruct (gray c) as [|x g].
  - destruct (gray_again c) as [|x g].
    + destruct (rnt c); intros E; inversion E; discriminate.
    + destruct (get _ x); intros E; inversion E; discriminate.
  - destruct (get _ x); intros E; inversion E; discriminate.
Qed.

Lemma sweep_one_lists c c' evs :
  sweep_one c = (c', evs, SContinue) ->
  S (length (unsw c')) = length (unsw c) /\ length (all c') <= length (all c).
Proof.
  unfold sweep_one, all. destruct (unsw c) as [|x rest] eqn:HU; [intros E; inversion E|].
  destruct (get c x) as [o|].
  - destruct (col o); intros E; inversion E; subst; clear E; unfold free_total;
      repeat match goal with |- context [if ?b then _ else _] => destruct b end; cbn; rewrite !app_length; cbn; lia.
  - intros E; inversion E; subst. cbn. rewrite !app_length. cbn. lia.
Qed.

Lemma phi_pos c hs : 1 <= phi c hs.
Proof. unfold phi. destruct (ph c); lia. Qed.

(** one iteration that continues lowers the potential *)
Lemma loop_body_phi st hs c c1 evs hs' f' :
  Inv None c -> quiescent c -> loop_body st hs c None = (c1, evs, CCont hs', f') ->
  phi c1 hs' < phi c hs /\ f' = None.
Proof.
  intros I Q E. unfold loop_body in E. destruct (ph c) eqn:P.
  - inversion E; subst. split; auto. unfold phi. cbn [ph set_ph]. rewrite P.
    destruct (i_sleep _ _ I P) as [_ [G1 [G2 _]]].
    unfold mu. cbn [gray gray_again rnt set_ph]. rewrite G1, G2. change (nwhite (set_ph c Mark)) with (nwhite c).
    change (all (set_ph c Mark)) with (all c). pose proof (filter_length_le (whiteish_b c) (all c)) as H.
    unfold nwhite. unfold cyc. cbn [length]. destruct (rnt c); cbn [b2n]; lia.
  - destruct (mark_one c _) as [[c2 r] u] eqn:EM. change (mark_one c None = (c2, r, u)) in EM.
    destruct (mark_one_inv _ _ _ _ _ I Q P EM) as [_ [K2 [_ B2]]].
    destruct K2 as [K1 [K3 [K4 _]]].
    assert (EA : all c2 = all c) by (unfold all; rewrite K3, K4; reflexivity).
    destruct r.
    + inversion E; subst. split; auto. pose proof (mark_one_mu _ _ _ I Q P EM) as MU.
      unfold phi. rewrite K1, P, EA. lia.
    + destruct (B2 eq_refl) as [-> GR].
      destruct (stop_le st FullyMarked); inversion E; subst. split; auto.
      unfold phi. cbn [ph set_ph set_lists unsw]. rewrite P.
      assert (EA2 : all (set_lists (set_ph c Sweep) [] (all c)) = all c) by reflexivity.
      rewrite EA2. destruct hs'; lia.
    + exfalso. eapply mark_one_no_panic; eauto.
  - destruct (stop_le st AtSweep); [inversion E|].
    destruct (sweep_one c) as [[c2 evs2] r] eqn:ES.
    pose proof (sweep_one_ph _ _ _ _ ES) as P2.
    destruct r.
    + inversion E; subst. split; auto. destruct (sweep_one_lists _ _ _ ES) as [A B].
      unfold phi. rewrite P2, P. unfold cyc. destruct hs'; lia.
    + assert (c2 = c) by (unfold sweep_one in ES; destruct (unsw c) as [|x rest]; [inversion ES; auto|];
                          destruct (get c x) as [o|]; [destruct (col o)|]; inversion ES).
      subst c2.
      destruct st; try (inversion E; fail); destruct hs; inversion E; subst;
        (split; auto; unfold phi; cbn [ph set_ph]; rewrite P;
         match goal with |- context [all (set_ph ?X Sleep)] => change (all (set_ph X Sleep)) with (all c) end;
         unfold cyc; lia).
Qed.

Section Term.
  Variable dec : ctx -> bool.

  Lemma loop_terminates fuel : forall ru st hs c c' evs oc,
    Inv None c -> quiescent c -> phi c hs <= fuel ->
    loop dec fuel ru st hs c None = (c', evs, oc) -> oc = Done.
  Proof.
    induction fuel as [|n IH]; intros ru st hs c c' evs oc I Q LE E.
    - pose proof (phi_pos c hs). lia.
    - cbn [loop] in E. destruct (loop_body st hs c None) as [[[c1 ev1] k] f1] eqn:EB.
      destruct k.
      + destruct (loop_body_phi _ _ _ _ _ _ _ I Q EB) as [LT ->].
        destruct (loop_body_inv _ _ _ _ _ _ _ _ I Q EB) as [I1 [S1 _]].
        assert (Q1 : quiescent c1) by (eapply same_cb_quiescent; eauto).
        destruct ru.
        * destruct (dec c1); [|inversion E; auto].
          destruct (loop dec n PayDebt st has_slept c1 None) as [[c2 ev2] r] eqn:EL. inversion E; subst.
          eapply IH; eauto. lia.
        * destruct (loop dec n RunStop st has_slept c1 None) as [[c2 ev2] r] eqn:EL. inversion E; subst.
          eapply IH; eauto. lia.
      + inversion E; auto.
      + inversion E; auto.
      + exfalso. unfold loop_body in EB. destruct (ph c).
        * inversion EB.
        * destruct (mark_one c _) as [[c2 r] u] eqn:EM. destruct r; try (destruct (stop_le st FullyMarked)); inversion EB;
            eapply (mark_one_no_panic c c2 MPanic u); auto.
        * destruct (stop_le st AtSweep); [inversion EB|]. destruct (sweep_one c) as [[c2 e2] r].
          destruct r; [inversion EB|]. destruct st; try (inversion EB; fail); destruct hs; inversion EB.
  Qed.

  Lemma phi_le_fuel c : Inv None c -> phi c false <= collection_fuel c.
  Proof.
    intros I. pose proof (all_le_heap _ _ I) as A. unfold phi, collection_fuel, cyc.
    pose proof (filter_length_le (whiteish_b c) (all c)) as W.
    assert (U : length (unsw c) <= length (all c)) by (unfold all; rewrite app_length; lia).
    destruct (ph c).
    - lia.
    - unfold mu, nwhite. destruct (rnt c); cbn [b2n]; lia.
    - lia.
  Qed.

  (** The driver loop never runs out of fuel (and never reports a panic without an injected
      trace fault): every collection call completes. *)
  Theorem do_collection_terminates c ru st c' evs oc :
    Inv None c -> quiescent c -> do_collection dec c ru st None = (c', evs, oc) -> oc = Done.
  Proof.
    intros I Q E. unfold do_collection in E.
    pose proof (phi_le_fuel c I) as LE.
    destruct ru.
    - destruct (dec c); [eapply loop_terminates; eauto|inversion E; auto].
    - eapply loop_terminates; eauto.
  Qed.
End Term.
