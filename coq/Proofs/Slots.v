(** * DynamicRootSet slot tables (C14): the pure invariant of a slot table against the list of live
    handles and the set object's slot vector, and its preservation by Slots::add / inc / dec. *)
From GA Require Import Model.Spec Proofs.HeapLemmas.
Local Open Scope nat_scope.

(** the free list threads vacant slots, without repetition *)
Inductive fl_chain (meta : list slotm) : option nat -> list nat -> Prop :=
| fl_nil : fl_chain meta None []
| fl_cons i nx L : nth_error meta i = Some (SVacant nx) -> fl_chain meta nx L -> ~ In i L ->
                   fl_chain meta (Some i) (i :: L).

Definition fl_ok (sl : slots) : Prop :=
  exists L, fl_chain (smeta sl) (snext sl) L /\ forall i nx, nth_error (smeta sl) i = Some (SVacant nx) -> In i L.

(** number of live handles naming slot [i] of set [s] of the arena with unique id [u] *)
Definition hm (u : nat) (s : id) (i : nat) (x : option handle) : bool :=
  match x with
  | Some hd => Nat.eqb (h_uid hd) u && Nat.eqb (h_set hd) s && Nat.eqb (h_idx hd) i
  | None => false
  end.
Definition hcount (hs : list (option handle)) (u : nat) (s : id) (i : nat) : nat := length (filter (hm u s i) hs).

Record slot_ok (hs : list (option handle)) (u : nat) (s : id) (sl : slots) (st : list (option id)) : Prop := mkSlotOk {
  so_len : length (smeta sl) = length st;
  so_fl : fl_ok sl;
  so_vac : forall i nx, nth_error (smeta sl) i = Some (SVacant nx) -> nth_error st i = Some None /\ hcount hs u s i = 0;
  so_occ : forall i rc, nth_error (smeta sl) i = Some (SOcc rc) -> hcount hs u s i = N.to_nat rc + 1;
  so_hd : forall h hd, nth_error hs h = Some (Some hd) -> h_uid hd = u -> h_set hd = s ->
                       h_idx hd < length st /\ nth_error st (h_idx hd) = Some (Some (h_ptr hd))
}.

Definition b2n (b : bool) : nat := if b then 1 else 0.

Lemma filter_set_nth {A} (f : A -> bool) l : forall h v old,
  nth_error l h = Some old ->
  length (filter f (set_nth l h v)) + b2n (f old) = length (filter f l) + b2n (f v).
Proof.
  induction l as [|a t IH]; intros [|h] v old H; cbn in *; try discriminate.
  - inversion H; subst. destruct (f old), (f v); cbn; lia.
  - specialize (IH h v old H). destruct (f a); cbn; lia.
Qed.

Lemma hcount_set_nth hs h v old u s i :
  nth_error hs h = Some old ->
  hcount (set_nth hs h v) u s i + b2n (hm u s i old) = hcount hs u s i + b2n (hm u s i v).
Proof. apply filter_set_nth. Qed.

Lemma hm_true u s i hd : hm u s i (Some hd) = true <-> h_uid hd = u /\ h_set hd = s /\ h_idx hd = i.
Proof.
  cbn. rewrite !andb_true_iff, !Nat.eqb_eq. tauto.
Qed.

Lemma hcount_pos hs h hd : nth_error hs h = Some (Some hd) -> 1 <= hcount hs (h_uid hd) (h_set hd) (h_idx hd).
Proof.
  intros H. unfold hcount.
  assert (Hin : In (Some hd) (filter (hm (h_uid hd) (h_set hd) (h_idx hd)) hs)).
  { apply filter_In. split; [eapply nth_error_In; eauto|]. apply hm_true. auto. }
  destruct (filter _ hs); [destruct Hin|cbn; lia].
Qed.

(** a live handle of the set names an occupied slot *)
Lemma handle_occupied hs u s sl st h hd :
  slot_ok hs u s sl st -> nth_error hs h = Some (Some hd) -> h_uid hd = u -> h_set hd = s ->
  exists rc, nth_error (smeta sl) (h_idx hd) = Some (SOcc rc).
Proof.
  intros OK H U S. destruct (so_hd _ _ _ _ _ OK h hd H U S) as [LT _].
  rewrite <- (so_len _ _ _ _ _ OK) in LT.
  destruct (nth_error (smeta sl) (h_idx hd)) as [[nx|rc]|] eqn:E.
  - destruct (so_vac _ _ _ _ _ OK _ _ E) as [_ Z]. pose proof (hcount_pos hs h hd H) as P. rewrite U, S in P. lia.
  - eauto.
  - apply nth_error_None in E. lia.
Qed.

(** ** the free list *)
Lemma fl_chain_in_vacant meta nx L : fl_chain meta nx L -> forall i, In i L -> exists n, nth_error meta i = Some (SVacant n).
Proof.
  intros C. induction C as [|i nx L H C IH NI]; intros j Hj; [destruct Hj|].
  destruct Hj as [<-|Hj]; eauto.
Qed.

Lemma fl_chain_set_notin meta nx L j v :
  fl_chain meta nx L -> ~ In j L -> fl_chain (set_nth meta j v) nx L.
Proof.
  intros C. induction C as [|i nx L H C IH NI]; intros NJ; [constructor|].
  apply (fl_cons _ i nx L); auto.
  - rewrite nth_error_set_nth_neq; auto. intros ->. apply NJ. left; auto.
  - apply IH. intros Hj. apply NJ. right; auto.
Qed.

Lemma fl_chain_app meta nx L x : fl_chain meta nx L -> fl_chain (meta ++ [x]) nx L.
Proof.
  intros C. induction C as [|i nx L H C IH NI]; [constructor|]. apply (fl_cons _ i nx L); auto.
  rewrite nth_error_app1; auto. apply nth_error_Some. congruence.
Qed.

(** ** Slots::add *)
Lemma slots_add_spec sl : fl_ok sl ->
  let '(sl', idx, grew) := slots_add sl in
  fl_ok sl'
  /\ (grew = true -> idx = length (smeta sl) /\ smeta sl' = smeta sl ++ [SOcc 0])
  /\ (grew = false -> (exists nx, nth_error (smeta sl) idx = Some (SVacant nx)) /\ smeta sl' = set_nth (smeta sl) idx (SOcc 0)).
Proof.
  intros [L [C ALL]]. unfold slots_add. destruct (snext sl) as [idx|] eqn:N.
  - inversion C as [|i nx L' H C' NI]; subst. rewrite H. cbn [smeta snext]. split; [|split; [discriminate|intros _; split; eauto]].
    exists L'. cbn [smeta snext]. split.
    + apply fl_chain_set_notin; auto.
    + intros j nj Hj. destruct (Nat.eq_dec idx j) as [->|NE].
      * rewrite nth_error_set_nth_eq in Hj by (apply nth_error_Some; congruence). discriminate.
      * rewrite nth_error_set_nth_neq in Hj by auto. destruct (ALL j nj Hj) as [E|E]; [congruence|auto].
  - inversion C; subst. cbn [smeta snext]. split; [|split; [auto|discriminate]].
    exists []. cbn [smeta snext]. split; [constructor|].
    intros j nj Hj. destruct (Nat.lt_ge_cases j (length (smeta sl))) as [LT|GE].
    + rewrite nth_error_app1 in Hj by auto. apply (ALL j nj Hj).
    + rewrite nth_error_app2 in Hj by auto. destruct (j - length (smeta sl)) as [|[|k]]; cbn in Hj; discriminate.
Qed.

(** stash: a fresh handle for the slot handed out by [slots_add] *)
Lemma slot_ok_stash hs u s sl st h cid :
  slot_ok hs u s sl st -> nth_error hs h = Some None ->
  let '(sl', idx, grew) := slots_add sl in
  slot_ok (set_nth hs h (Some (mkHandle u s idx cid))) u s sl'
          (if grew then st ++ [Some cid] else set_nth st idx (Some cid)).
Proof.
  intros OK HN. pose proof (slots_add_spec sl (so_fl _ _ _ _ _ OK)) as SP.
  destruct (slots_add sl) as [[sl' idx] grew]. destruct SP as [FL [GT GF]].
  assert (CNT : forall i, hcount (set_nth hs h (Some (mkHandle u s idx cid))) u s i = hcount hs u s i + b2n (Nat.eqb idx i)).
  { intros i. pose proof (hcount_set_nth hs h (Some (mkHandle u s idx cid)) None u s i HN) as E.
    cbn [hm b2n h_uid h_set h_idx] in E. rewrite !Nat.eqb_refl in E. cbn [andb] in E. lia. }
  assert (HL : h < length hs) by (apply nth_error_Some; congruence).
  destruct grew.
  - destruct (GT eq_refl) as [-> EM]. constructor.
    + rewrite EM, !app_length, (so_len _ _ _ _ _ OK). reflexivity.
    + exact FL.
    + intros i nx Hi. rewrite EM in Hi. assert (LT : i < length (smeta sl)).
      { destruct (Nat.lt_ge_cases i (length (smeta sl))); auto. rewrite nth_error_app2 in Hi by auto.
        destruct (i - length (smeta sl)) as [|[|k]]; cbn in Hi; discriminate. }
      rewrite nth_error_app1 in Hi by auto. destruct (so_vac _ _ _ _ _ OK _ _ Hi) as [A B].
      split; [rewrite nth_error_app1 by (rewrite <- (so_len _ _ _ _ _ OK); auto); auto|].
      rewrite CNT, B. destruct (Nat.eqb_spec (length (smeta sl)) i); [lia|reflexivity].
    + intros i rc Hi. rewrite EM in Hi. rewrite CNT. destruct (Nat.lt_ge_cases i (length (smeta sl))) as [LT|GE].
      * rewrite nth_error_app1 in Hi by auto. rewrite (so_occ _ _ _ _ _ OK _ _ Hi).
        destruct (Nat.eqb_spec (length (smeta sl)) i); [lia|cbn; lia].
      * rewrite nth_error_app2 in Hi by auto. destruct (i - length (smeta sl)) as [|[|k]] eqn:D; cbn in Hi; try discriminate.
        inversion Hi; subst. assert (i = length (smeta sl)) by lia. subst i. rewrite Nat.eqb_refl.
        assert (Z : hcount hs u s (length (smeta sl)) = 0).
        { unfold hcount. destruct (filter _ hs) as [|x t] eqn:F; auto. exfalso.
          assert (Hin : In x (filter (hm u s (length (smeta sl))) hs)) by (rewrite F; left; auto).
          apply filter_In in Hin. destruct Hin as [Hin HM]. destruct x as [hd|]; [|discriminate].
          apply hm_true in HM. destruct HM as [U [S I]]. apply In_nth_error in Hin. destruct Hin as [n Hn].
          destruct (so_hd _ _ _ _ _ OK n hd Hn U S) as [LT _]. rewrite <- (so_len _ _ _ _ _ OK) in LT. lia. }
        rewrite Z. cbn. lia.
    + intros h0 hd H0 U S. destruct (Nat.eq_dec h h0) as [->|NE].
      * rewrite nth_error_set_nth_eq in H0 by auto. inversion H0; subst. cbn [h_idx h_ptr].
        rewrite app_length, <- (so_len _ _ _ _ _ OK). cbn. split; [lia|].
        rewrite nth_error_app2 by (rewrite <- (so_len _ _ _ _ _ OK); auto).
        rewrite (so_len _ _ _ _ _ OK), Nat.sub_diag. reflexivity.
      * rewrite nth_error_set_nth_neq in H0 by auto. destruct (so_hd _ _ _ _ _ OK h0 hd H0 U S) as [A B].
        split; [rewrite app_length; lia|rewrite nth_error_app1; auto].
  - destruct (GF eq_refl) as [[nx VI] EM]. assert (IL : idx < length (smeta sl)) by (apply nth_error_Some; congruence).
    destruct (so_vac _ _ _ _ _ OK _ _ VI) as [VS VC]. constructor.
    + rewrite EM, !set_nth_length. apply (so_len _ _ _ _ _ OK).
    + exact FL.
    + intros i nx' Hi. rewrite EM in Hi. destruct (Nat.eq_dec idx i) as [->|NE].
      * rewrite nth_error_set_nth_eq in Hi by auto. discriminate.
      * rewrite nth_error_set_nth_neq in Hi by auto. destruct (so_vac _ _ _ _ _ OK _ _ Hi) as [A B].
        split; [rewrite nth_error_set_nth_neq; auto|]. rewrite CNT, B. destruct (Nat.eqb_spec idx i); [contradiction|reflexivity].
    + intros i rc Hi. rewrite EM in Hi. rewrite CNT. destruct (Nat.eq_dec idx i) as [->|NE].
      * rewrite nth_error_set_nth_eq in Hi by auto. inversion Hi; subst. rewrite VC, Nat.eqb_refl. cbn. lia.
      * rewrite nth_error_set_nth_neq in Hi by auto. rewrite (so_occ _ _ _ _ _ OK _ _ Hi).
        destruct (Nat.eqb_spec idx i); [contradiction|cbn; lia].
    + intros h0 hd H0 U S. rewrite set_nth_length. destruct (Nat.eq_dec h h0) as [->|NE].
      * rewrite nth_error_set_nth_eq in H0 by auto. inversion H0; subst. cbn [h_idx h_ptr].
        rewrite <- (so_len _ _ _ _ _ OK). split; [auto|]. apply nth_error_set_nth_eq. rewrite <- (so_len _ _ _ _ _ OK); auto.
      * rewrite nth_error_set_nth_neq in H0 by auto. destruct (so_hd _ _ _ _ _ OK h0 hd H0 U S) as [A B]. split; auto.
        destruct (Nat.eq_dec idx (h_idx hd)) as [EI|NI].
        -- exfalso. destruct (handle_occupied _ _ _ _ _ _ _ OK H0 U S) as [rc O]. rewrite <- EI in O. congruence.
        -- rewrite nth_error_set_nth_neq; auto.
Qed.

(** a handle of ANOTHER set (or arena) does not disturb this set's table *)
Lemma slot_ok_other_handle hs u s sl st h v old :
  slot_ok hs u s sl st -> nth_error hs h = Some old ->
  (forall i, hm u s i old = false) -> (forall i, hm u s i v = false) ->
  slot_ok (set_nth hs h v) u s sl st.
Proof.
  intros OK HO FO FV.
  assert (CNT : forall i, hcount (set_nth hs h v) u s i = hcount hs u s i).
  { intros i. pose proof (hcount_set_nth hs h v old u s i HO) as E. rewrite FO, FV in E. cbn in E. lia. }
  assert (HL : h < length hs) by (apply nth_error_Some; congruence).
  constructor.
  - apply (so_len _ _ _ _ _ OK).
  - apply (so_fl _ _ _ _ _ OK).
  - intros i nx Hi. rewrite CNT. apply (so_vac _ _ _ _ _ OK _ _ Hi).
  - intros i rc Hi. rewrite CNT. apply (so_occ _ _ _ _ _ OK _ _ Hi).
  - intros h0 hd H0 U S. destruct (Nat.eq_dec h h0) as [->|NE].
    + rewrite nth_error_set_nth_eq in H0 by auto. inversion H0; subst.
      specialize (FV (h_idx hd)). cbn in FV. rewrite !Nat.eqb_refl in FV. discriminate.
    + rewrite nth_error_set_nth_neq in H0 by auto. apply (so_hd _ _ _ _ _ OK h0 hd H0 U S).
Qed.

(** ** clone: Slots::inc *)
Lemma slot_ok_clone hs u s sl st h' hd h :
  slot_ok hs u s sl st -> nth_error hs h' = Some None -> nth_error hs h = Some (Some hd) ->
  h_uid hd = u -> h_set hd = s ->
  slot_ok (set_nth hs h' (Some hd)) u s (slots_inc sl (h_idx hd)) st.
Proof.
  intros OK HN HH U S. destruct (handle_occupied _ _ _ _ _ _ _ OK HH U S) as [rc O].
  unfold slots_inc. rewrite O.
  assert (IL : h_idx hd < length (smeta sl)) by (apply nth_error_Some; congruence).
  assert (CNT : forall i, hcount (set_nth hs h' (Some hd)) u s i = hcount hs u s i + b2n (Nat.eqb (h_idx hd) i)).
  { intros i. pose proof (hcount_set_nth hs h' (Some hd) None u s i HN) as E.
    cbn [hm b2n] in E. rewrite U, S, !Nat.eqb_refl in E. cbn [andb] in E. lia. }
  assert (HL : h' < length hs) by (apply nth_error_Some; congruence).
  constructor; cbn [smeta snext].
  - rewrite set_nth_length. apply (so_len _ _ _ _ _ OK).
  - destruct (so_fl _ _ _ _ _ OK) as [L [C ALL]]. exists L. cbn [smeta snext]. split.
    + apply fl_chain_set_notin; auto. intros Hin. destruct (fl_chain_in_vacant _ _ _ C _ Hin) as [n V]. congruence.
    + intros j nj Hj. destruct (Nat.eq_dec (h_idx hd) j) as [<-|NE].
      * rewrite nth_error_set_nth_eq in Hj by auto. discriminate.
      * rewrite nth_error_set_nth_neq in Hj by auto. eauto.
  - intros i nx Hi. destruct (Nat.eq_dec (h_idx hd) i) as [<-|NE].
    + rewrite nth_error_set_nth_eq in Hi by auto. discriminate.
    + rewrite nth_error_set_nth_neq in Hi by auto. destruct (so_vac _ _ _ _ _ OK _ _ Hi) as [A B]. split; auto.
      rewrite CNT, B. destruct (Nat.eqb_spec (h_idx hd) i); [contradiction|reflexivity].
  - intros i rc' Hi. rewrite CNT. destruct (Nat.eq_dec (h_idx hd) i) as [<-|NE].
    + rewrite nth_error_set_nth_eq in Hi by auto. inversion Hi; subst. rewrite (so_occ _ _ _ _ _ OK _ _ O), Nat.eqb_refl. cbn. lia.
    + rewrite nth_error_set_nth_neq in Hi by auto. rewrite (so_occ _ _ _ _ _ OK _ _ Hi).
      destruct (Nat.eqb_spec (h_idx hd) i); [contradiction|cbn; lia].
  - intros h0 hd0 H0 U0 S0. destruct (Nat.eq_dec h' h0) as [->|NE].
    + rewrite nth_error_set_nth_eq in H0 by auto. inversion H0; subst. apply (so_hd _ _ _ _ _ OK h hd0 HH eq_refl eq_refl).
    + rewrite nth_error_set_nth_neq in H0 by auto. apply (so_hd _ _ _ _ _ OK h0 hd0 H0 U0 S0).
Qed.

(** ** drop: Slots::dec *)
Lemma slot_ok_drop hs u s sl st h hd :
  slot_ok hs u s sl st -> nth_error hs h = Some (Some hd) -> h_uid hd = u -> h_set hd = s ->
  let '(sl', vac) := slots_dec sl (h_idx hd) in
  slot_ok (set_nth hs h None) u s sl' (if vac then set_nth st (h_idx hd) None else st).
Proof.
  intros OK HH U S. destruct (handle_occupied _ _ _ _ _ _ _ OK HH U S) as [rc O].
  unfold slots_dec. rewrite O.
  assert (IL : h_idx hd < length (smeta sl)) by (apply nth_error_Some; congruence).
  assert (CNT : forall i, hcount (set_nth hs h None) u s i + b2n (Nat.eqb (h_idx hd) i) = hcount hs u s i).
  { intros i. pose proof (hcount_set_nth hs h None (Some hd) u s i HH) as E.
    cbn [hm b2n] in E. rewrite U, S, !Nat.eqb_refl in E. cbn [andb] in E. lia. }
  assert (HL : h < length hs) by (apply nth_error_Some; congruence).
  pose proof (so_occ _ _ _ _ _ OK _ _ O) as CO.
  destruct (N.eqb_spec rc 0) as [->|NZ].
  - (* last handle: the slot is vacated and pushed on the free list *)
    constructor; cbn [smeta snext].
    + rewrite !set_nth_length. apply (so_len _ _ _ _ _ OK).
    + destruct (so_fl _ _ _ _ _ OK) as [L [C ALL]]. exists (h_idx hd :: L). cbn [smeta snext].
      assert (NI : ~ In (h_idx hd) L).
      { intros Hin. destruct (fl_chain_in_vacant _ _ _ C _ Hin) as [n V]. congruence. }
      split.
      * apply (fl_cons _ (h_idx hd) (snext sl) L); auto; [apply nth_error_set_nth_eq; auto|apply fl_chain_set_notin; auto].
      * intros j nj Hj. destruct (Nat.eq_dec (h_idx hd) j) as [<-|NE]; [left; auto|].
        rewrite nth_error_set_nth_neq in Hj by auto. right. eauto.
    + intros i nx Hi. destruct (Nat.eq_dec (h_idx hd) i) as [<-|NE].
      * split; [apply nth_error_set_nth_eq; rewrite <- (so_len _ _ _ _ _ OK); auto|].
        specialize (CNT (h_idx hd)). rewrite Nat.eqb_refl in CNT. cbn in CNT, CO. lia.
      * rewrite nth_error_set_nth_neq in Hi by auto. destruct (so_vac _ _ _ _ _ OK _ _ Hi) as [A B].
        split; [rewrite nth_error_set_nth_neq; auto|]. specialize (CNT i). lia.
    + intros i rc' Hi. destruct (Nat.eq_dec (h_idx hd) i) as [<-|NE].
      * rewrite nth_error_set_nth_eq in Hi by auto. discriminate.
      * rewrite nth_error_set_nth_neq in Hi by auto. specialize (CNT i).
        destruct (Nat.eqb_spec (h_idx hd) i); [contradiction|]. cbn in CNT. rewrite <- (so_occ _ _ _ _ _ OK _ _ Hi). lia.
    + intros h0 hd0 H0 U0 S0. rewrite set_nth_length. destruct (Nat.eq_dec h h0) as [->|NE].
      * rewrite nth_error_set_nth_eq in H0 by auto. discriminate.
      * rewrite nth_error_set_nth_neq in H0 by auto. destruct (so_hd _ _ _ _ _ OK h0 hd0 H0 U0 S0) as [A B]. split; auto.
        destruct (Nat.eq_dec (h_idx hd) (h_idx hd0)) as [EI|NI]; [|rewrite nth_error_set_nth_neq; auto].
        exfalso. (* a second handle of the same slot would make the count at least 2 *)
        assert (P : 1 <= hcount (set_nth hs h None) (h_uid hd0) (h_set hd0) (h_idx hd0)).
        { apply (hcount_pos _ h0). rewrite nth_error_set_nth_neq; auto. }
        rewrite U0, S0, <- EI in P. specialize (CNT (h_idx hd)). rewrite Nat.eqb_refl in CNT. cbn in CNT, CO. lia.
  - constructor; cbn [smeta snext].
    + rewrite set_nth_length. apply (so_len _ _ _ _ _ OK).
    + destruct (so_fl _ _ _ _ _ OK) as [L [C ALL]]. exists L. cbn [smeta snext]. split.
      * apply fl_chain_set_notin; auto. intros Hin. destruct (fl_chain_in_vacant _ _ _ C _ Hin) as [n V]. congruence.
      * intros j nj Hj. destruct (Nat.eq_dec (h_idx hd) j) as [<-|NE].
        -- rewrite nth_error_set_nth_eq in Hj by auto. discriminate.
        -- rewrite nth_error_set_nth_neq in Hj by auto. eauto.
    + intros i nx Hi. destruct (Nat.eq_dec (h_idx hd) i) as [<-|NE].
      * rewrite nth_error_set_nth_eq in Hi by auto. discriminate.
      * rewrite nth_error_set_nth_neq in Hi by auto. destruct (so_vac _ _ _ _ _ OK _ _ Hi) as [A B]. split; auto.
        specialize (CNT i). lia.
    + intros i rc' Hi. specialize (CNT i). destruct (Nat.eq_dec (h_idx hd) i) as [<-|NE].
      * rewrite nth_error_set_nth_eq in Hi by auto. inversion Hi; subst. rewrite Nat.eqb_refl in CNT. cbn in CNT. lia.
      * rewrite nth_error_set_nth_neq in Hi by auto. destruct (Nat.eqb_spec (h_idx hd) i); [contradiction|]. cbn in CNT.
        rewrite <- (so_occ _ _ _ _ _ OK _ _ Hi). lia.
    + intros h0 hd0 H0 U0 S0. destruct (Nat.eq_dec h h0) as [->|NE].
      * rewrite nth_error_set_nth_eq in H0 by auto. discriminate.
      * rewrite nth_error_set_nth_neq in H0 by auto. apply (so_hd _ _ _ _ _ OK h0 hd0 H0 U0 S0).
Qed.

(** an empty table *)
Lemma slot_ok_empty hs u s :
  (forall h hd, nth_error hs h = Some (Some hd) -> h_uid hd = u -> h_set hd = s -> False) ->
  slot_ok hs u s (mkSlots [] None) [].
Proof.
  intros NH. constructor; cbn.
  - reflexivity.
  - exists []. split; [constructor|]. intros i nx H. destruct i; discriminate.
  - intros i nx H. destruct i; discriminate.
  - intros i rc H. destruct i; discriminate.
  - intros h hd H U S. exfalso. eauto.
Qed.
