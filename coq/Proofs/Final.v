(** * Finalization (C07): what a fully marked arena guarantees; resurrection. *)
From GA Require Import Model.Spec Proofs.HeapLemmas Proofs.Inv Proofs.Recolor Proofs.InvMicro Proofs.InvStore
     Proofs.InvMark Proofs.InvSweep.
Local Open Scope nat_scope.

Lemma dark_black_if_no_gray c o x :
  Inv None c -> gray c = [] -> gray_again c = [] -> get c x = Some o -> dark (col o) -> col o = Black.
Proof.
  intros I G1 G2 G [D|D]; auto. exfalso.
  assert (In x (gray c ++ gray_again c)) by (apply (i_gray _ _ I); eauto). rewrite G1, G2 in H. destruct H.
Qed.

(** When a MarkedArena is handed out, every strongly reachable object is marked (black). *)
Theorem marked_sound c x :
  Inv None c -> ph c = Mark -> gray_remaining c = false -> reach c x ->
  exists o, get c x = Some o /\ col o = Black.
Proof.
  intros I HM GR R. apply gray_remaining_false in GR. destruct GR as [G1 [G2 G3]].
  induction R as [x Hx|p o x Hp IH G Hin].
  - destruct (i_tri_root _ _ I HM G3) as [A _]. destruct (A x Hx) as [ox [Gx D]].
    exists ox. split; auto. eapply dark_black_if_no_gray; eauto.
  - destruct IH as [op [Gp B]]. rewrite G in Gp. inversion Gp; subst.
    destruct (i_tri _ _ I HM p op G B ltac:(discriminate)) as [A _]. destruct (A x Hin) as [ox [Gx D]].
    exists ox. split; auto. eapply dark_black_if_no_gray; eauto.
Qed.

Corollary marked_not_dead c x :
  Inv None c -> ph c = Mark -> gray_remaining c = false -> reach c x -> snd (is_dead c x) = false.
Proof.
  intros I HM GR R. destruct (marked_sound c x I HM GR R) as [o [G B]]. unfold is_dead. rewrite G, B. reflexivity.
Qed.

(** Reviving a dead, undestructed object re-opens marking. *)
Theorem revive_marking c x o :
  get c x = Some o -> is_whiteish (col o) = true -> ph c = Mark ->
  gray_remaining (resurrect c x) = true /\ collection_phase (resurrect c x) = 1.
Proof.
  intros G W HM. unfold resurrect. rewrite G, W.
  assert (H : forall c', ph c' = Mark -> gray c' = x :: gray c -> gray_remaining c' = true /\ collection_phase c' = 1).
  { intros c' P E. unfold collection_phase, gray_remaining. rewrite P, E. cbn. auto. }
  destruct (col o); try discriminate; apply H; cbn; try (unfold recolor; rewrite G; cbn); auto.
Qed.

(** After resurrect the object is queued, so by the invariant it is traced to black with its whole
    closure before sweeping may start ([marked_sound] applies to every object, and a gray object
    is black-or-gray until the sweep resets it). *)
Theorem resurrected_is_marked c x o :
  Inv None c -> ph c = Mark -> get c x = Some o -> live o = true ->
  Inv None (resurrect c x) /\ tstrong (resurrect c x) x.
Proof.
  intros I HM G L. destruct (resurrect_inv c x o I HM G L) as [I1 [F1 M1]]. split; auto.
  unfold resurrect in *. rewrite G in *. destruct (is_whiteish (col o)) eqn:W.
  - assert (E : forall c', get c' x = Some (with_col o Gray) -> tstrong c' x).
    { intros c' G'. exists (with_col o Gray). split; auto. left; reflexivity. }
    destruct (col o); try discriminate; apply E; unfold get; cbn; unfold recolor; rewrite G; cbn;
      apply hget_hset_eq; eapply hget_some_lt; apply G.
  - exists o. split; auto. destruct (col o); try discriminate; [left|right]; auto.
Qed.

(** a black or gray object's closure: when marking completes, everything strongly reachable from a
    marked object is marked *)
Theorem marked_closure c p op x :
  Inv None c -> ph c = Mark -> gray_remaining c = false ->
  get c p = Some op -> col op = Black -> In (Some x) (strong op) ->
  exists ox, get c x = Some ox /\ col ox = Black.
Proof.
  intros I HM GR G B Hin. apply gray_remaining_false in GR. destruct GR as [G1 [G2 G3]].
  destruct (i_tri _ _ I HM p op G B ltac:(discriminate)) as [A _]. destruct (A x Hin) as [ox [Gx D]].
  exists ox. split; auto. eapply dark_black_if_no_gray; eauto.
Qed.
