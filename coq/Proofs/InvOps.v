(** * Every mutator micro-op preserves [Inv] (after every micro-op, so a callback may unwind
    anywhere: C11), and so does every API-level operation. *)
From GA Require Import Model.Spec Proofs.HeapLemmas Proofs.Inv Proofs.Recolor Proofs.InvMicro Proofs.InvStore
     Proofs.InvMark Proofs.InvSweep Proofs.InvLoop Proofs.InvBarrier.
Local Open Scope nat_scope.

Lemma opt_join_nth_in {A} (l : list (option A)) r x : opt_join (nth_error l r) = Some x -> In (Some x) l.
Proof.
  unfold opt_join. destruct (nth_error l r) as [[y|]|] eqn:E; try discriminate.
  intros H; inversion H; subst. eapply nth_error_In; eauto.
Qed.

Lemma rg_ok c r x : Inv None c -> rg c r = Some x -> ok_strong c x.
Proof. intros I H. apply (i_regs _ _ I). eapply opt_join_nth_in; eauto. Qed.
Lemma wrg_ok c r x : Inv None c -> wrg c r = Some x -> ok_weak c x.
Proof. intros I H. apply (i_regs _ _ I). eapply opt_join_nth_in; eauto. Qed.
Lemma rgE_rg c r x : rgE c r = Some x -> rg c r = Some x.
Proof.
  unfold rgE. destruct (rg c r) as [y|]; [|discriminate]. destruct (get c y) as [o|]; [destruct (okind o)|]; congruence.
Qed.

Lemma ok_strong_get c x : ok_strong c x -> exists o, get c x = Some o /\ live o = true.
Proof. intros [o [G [L _]]]. eauto. Qed.

Lemma inv_unexempt' x c :
  Inv (Some x) c ->
  (ph c = Mark -> forall o, get c x = Some o -> col o = Black -> slots_marked c (strong o) (weak o)) ->
  Inv None c.
Proof.
  intros I H. pose proof (i_tri _ _ I) as T. destruct I. constructor; auto.
  intros HM p o G B _. destruct (Nat.eq_dec p x); subst; auto. apply (T HM p o G B). congruence.
Qed.

(** what a micro-op may not change *)
Definition stable (c c' : ctx) : Prop := ph c' = ph c /\ rnt c' = rnt c.
Lemma stable_refl c : stable c c.
Proof. split; auto. Qed.
Lemma stable_trans a b c : stable a b -> stable b c -> stable a c.
Proof. intros [? ?] [? ?]. split; congruence. Qed.
Ltac triv4 := split; [assumption|split; [split; reflexivity|split; reflexivity]].

Lemma frame_stable c c' : frame c c' -> stable c c'.
Proof. intros []. split; auto. Qed.

(** ** Gc::write *)
Lemma gc_write_inv c p po :
  Inv None c -> get c p = Some po ->
  Inv None (gc_write c p) /\ stable c (gc_write c p) /\ regs (gc_write c p) = regs c /\ wregs (gc_write c p) = wregs c
  /\ (ph c = Mark -> unblack (gc_write c p) p)
  /\ sgraph c (gc_write c p)
  /\ rootS (gc_write c p) = rootS c /\ rootW (gc_write c p) = rootW c.
Proof.
  intros I G. unfold gc_write.
  destruct (backward_barrier_inv_none c p po None I G ltac:(discriminate)) as [I1 [F1 [L1 [_ [_ S1]]]]].
  split; [apply inv_add_lic; auto|]. split; [apply frame_stable in F1; exact F1|].
  split; [apply (f_regs _ _ F1)|]. split; [apply (f_wregs _ _ F1)|].
  split; [|split; [exact S1|split; [apply (f_rootS _ _ F1)|apply (f_rootW _ _ F1)]]].
  intros HM. apply L1. cbn. rewrite (f_ph _ _ F1). auto.
Qed.

(** ** slot stores *)
Lemma store_strong_inv c p o i v :
  Inv None c -> get c p = Some o -> ok_strong c p ->
  (forall x, v = Some x -> ok_strong c x) ->
  (ph c = Mark -> unblack c p \/ (forall x, v = Some x -> tstrong c x)) ->
  Inv None (store_strong c p o i v) /\ stable c (store_strong c p o i v)
  /\ regs (store_strong c p o i v) = regs c /\ wregs (store_strong c p o i v) = wregs c.
Proof.
  intros I G OKP HV HT. unfold store_strong.
  destruct (Nat.ltb_spec i (length (strong o))) as [LT|GE]; [|triv4].
  set (o' := with_strong o (set_nth (strong o) i v)).
  assert (R : reslot c (put c p o') p o o') by (constructor; auto).
  split; [|split; [split; reflexivity|split; reflexivity]].
  eapply (inv_reslot None None c _ p o o' I R).
  - intros N. destruct (i_ntr _ _ I p o G N) as [ES EW]. rewrite ES in LT. cbn in LT. lia.
  - intros L NC. destruct (i_obj _ _ I p o G L NC) as [A B]. split; cbn; auto.
    intros t Ht. apply in_set_nth in Ht. destruct Ht as [E|Ht]; auto.
  - intros HM B. right. destruct (HT HM) as [U|TV].
    + exfalso. destruct (ntr o) eqn:N; [apply (U o G); auto|].
      destruct (i_ntr _ _ I p o G N) as [ES EW]. rewrite ES in LT. cbn in LT. lia.
    + destruct (i_tri _ _ I HM p o G B ltac:(discriminate)) as [A B']. split; cbn; auto.
      intros t Ht. apply in_set_nth in Ht. destruct Ht as [E|Ht]; auto.
  - auto.
Qed.

Lemma store_weak_inv c p o i v :
  Inv None c -> get c p = Some o -> ok_strong c p ->
  (forall x, v = Some x -> ok_weak c x) ->
  (ph c = Mark -> unblack c p \/ (forall x, v = Some x -> tweak c x)) ->
  Inv None (store_weak c p o i v) /\ stable c (store_weak c p o i v)
  /\ regs (store_weak c p o i v) = regs c /\ wregs (store_weak c p o i v) = wregs c.
Proof.
  intros I G OKP HV HT. unfold store_weak.
  destruct (Nat.ltb_spec i (length (weak o))) as [LT|GE]; [|triv4].
  set (o' := with_weak o (set_nth (weak o) i v)).
  assert (R : reslot c (put c p o') p o o') by (constructor; auto).
  split; [|split; [split; reflexivity|split; reflexivity]].
  eapply (inv_reslot None None c _ p o o' I R).
  - intros N. destruct (i_ntr _ _ I p o G N) as [ES EW]. rewrite EW in LT. cbn in LT. lia.
  - intros L NC. destruct (i_obj _ _ I p o G L NC) as [A B]. split; cbn; auto.
    intros t Ht. apply in_set_nth in Ht. destruct Ht as [E|Ht]; auto.
  - intros HM B. right. destruct (HT HM) as [U|TV].
    + exfalso. destruct (ntr o) eqn:N; [apply (U o G); auto|].
      destruct (i_ntr _ _ I p o G N) as [ES EW]. rewrite EW in LT. cbn in LT. lia.
    + destruct (i_tri _ _ I HM p o G B ltac:(discriminate)) as [A B']. split; cbn; auto.
      intros t Ht. apply in_set_nth in Ht. destruct Ht as [E|Ht]; auto.
  - auto.
Qed.

(** barrier-then-store, as every sanctioned setter does it *)
Lemma write_store_inv c r p po i v :
  Inv None c -> rg c r = Some p -> get c p = Some po ->
  (forall x, v = Some x -> exists r', rg c r' = Some x) ->
  Inv None (store_after (gc_write c p) p i v) /\ stable c (store_after (gc_write c p) p i v)
  /\ regs (store_after (gc_write c p) p i v) = regs c /\ wregs (store_after (gc_write c p) p i v) = wregs c.
Proof.
  intros I HR G HV.
  destruct (gc_write_inv c p po I G) as [I1 [S1 [R1 [W1 [U1 [SG1 _]]]]]].
  set (c1 := gc_write c p) in *.
  assert (RG : forall r', rg c1 r' = rg c r') by (intros; unfold rg; rewrite R1; auto).
  unfold store_after.
  destruct (get c1 p) as [o1|] eqn:G1; [|split; [auto|split; [auto|split; auto]]].
  destruct (store_strong_inv c1 p o1 i v I1 G1) as [I2 [S2 [R2 W2]]].
  - eapply rg_ok; eauto. rewrite RG; eauto.
  - intros x E. destruct (HV x E) as [r' Hr']. eapply rg_ok; eauto. rewrite RG; eauto.
  - intros HM. left. apply U1. destruct S1 as [P1 _]. rewrite <- P1. auto.
  - split; [auto|split; [eapply stable_trans; eauto|split; congruence]].
Qed.

Lemma write_store_weak_inv c r p po i v :
  Inv None c -> rg c r = Some p -> get c p = Some po ->
  (forall x, v = Some x -> exists r', wrg c r' = Some x) ->
  Inv None (store_weak_after (gc_write c p) p i v) /\ stable c (store_weak_after (gc_write c p) p i v)
  /\ regs (store_weak_after (gc_write c p) p i v) = regs c /\ wregs (store_weak_after (gc_write c p) p i v) = wregs c.
Proof.
  intros I HR G HV.
  destruct (gc_write_inv c p po I G) as [I1 [S1 [R1 [W1 [U1 [SG1 _]]]]]].
  set (c1 := gc_write c p) in *.
  assert (RG : forall r', rg c1 r' = rg c r') by (intros; unfold rg; rewrite R1; auto).
  assert (WRG : forall r', wrg c1 r' = wrg c r') by (intros; unfold wrg; rewrite W1; auto).
  unfold store_weak_after.
  destruct (get c1 p) as [o1|] eqn:G1; [|split; [auto|split; [auto|split; auto]]].
  destruct (store_weak_inv c1 p o1 i v I1 G1) as [I2 [S2 [R2 W2]]].
  - eapply rg_ok; eauto. rewrite RG; eauto.
  - intros x E. destruct (HV x E) as [r' Hr']. eapply wrg_ok; eauto. rewrite WRG; eauto.
  - intros HM. left. apply U1. destruct S1 as [P1 _]. rewrite <- P1. auto.
  - split; [auto|split; [eapply stable_trans; eauto|split; congruence]].
Qed.

(** ** helper facts *)
Lemma norm_obj_props k ns nw :
  let o := norm_obj k ns nw in
  col o = White /\ live o = true /\ (forall t, ~ In (Some t) (strong o)) /\ (forall t, ~ In (Some t) (weak o))
  /\ (ntr o = false -> strong o = [] /\ weak o = []).
Proof.
  destruct k; cbn; repeat split; auto; try discriminate;
    try (intros t H; apply repeat_spec in H; discriminate);
    try (intros t H; destruct H as [H|H]; [discriminate|]; try (destruct H as [H|H]; [discriminate|]);
         try (apply repeat_spec in H; discriminate); try contradiction).
Qed.

Lemma init_obj_props k s w o :
  init_obj k s w = Some o ->
  col o = White /\ live o = true /\ ntr o = true /\ okind o = k /\ k <> KSet /\
  (forall t, In (Some t) (strong o) -> In (Some t) s) /\ (forall t, In (Some t) (weak o) -> In (Some t) w).
Proof.
  intros H. destruct k; cbn in H; try discriminate; inversion H; subst; cbn;
    (repeat split; auto; try discriminate).
  - intros t [E|[]]. destruct s; [discriminate|]. subst. left; reflexivity.
  - intros t [].
  - intros t Ht. destruct s as [|a [|b rest]]; cbn in *.
    + destruct Ht as [E|[E|[]]]; discriminate.
    + destruct Ht as [E|[E|[]]]; [auto|discriminate].
    + destruct Ht as [E|[E|Ht]]; [auto|discriminate|auto].
Qed.

Lemma in_map_rg c cs t :
  In (Some t) (map (fun x => match x with Some r' => rg c r' | None => None end) cs) -> exists r', rg c r' = Some t.
Proof.
  intros H. apply in_map_iff in H. destruct H as [x [E _]]. destruct x as [r'|]; [eauto|discriminate].
Qed.
Lemma in_map_wrg c ws t :
  In (Some t) (map (fun x => match x with Some r' => wrg c r' | None => None end) ws) -> exists r', wrg c r' = Some t.
Proof.
  intros H. apply in_map_iff in H. destruct H as [x [E _]]. destruct x as [r'|]; [eauto|discriminate].
Qed.

Lemma licence_eqb_eq a b : licence_eqb a b = true -> a = b.
Proof.
  destruct a, b; cbn; try discriminate; intros H;
    try (apply Nat.eqb_eq in H; subst; reflexivity);
    apply andb_true_iff in H; destruct H as [H1 H2]; apply Nat.eqb_eq in H1, H2; subst; reflexivity.
Qed.

Lemma has_lic_ok c l : Inv None c -> has_lic c l = true -> lic_ok c l.
Proof.
  intros I H. unfold has_lic in H. apply existsb_exists in H. destruct H as [l' [Hin E]].
  apply licence_eqb_eq in E. subst. pose proof (i_lics _ _ I) as F. rewrite Forall_forall in F. auto.
Qed.

Lemma tstrong_tweak c x : tstrong c x -> tweak c x.
Proof. intros [o [G D]]. exists o. split; auto. destruct D as [D|D]; rewrite D; discriminate. Qed.

Lemma upgrade_ok c x :
  Inv None c -> ok_weak c x -> snd (upgrade c x) = true -> ok_strong c x /\ fst (upgrade c x) = c.
Proof.
  intros I [[o G] ND] H. unfold upgrade in *. rewrite G in *.
  destruct (live o) eqn:L; cbn in H; [|discriminate].
  destruct (phase_eqb (ph c) Sweep && color_eqb (col o) WhiteWeak) eqn:T; cbn in H; [discriminate|].
  split; [|reflexivity]. exists o. split; auto. split; auto.
  intros [Hin [o' [G' W]]]. rewrite G in G'. inversion G'; subst o'.
  destruct (col o) eqn:C; try discriminate.
  - apply ND. split; auto. exists o. auto.
  - destruct (ph c) eqn:P; cbn in T; try discriminate.
    + rewrite (i_unsw _ _ I) in Hin by (rewrite P; discriminate). contradiction.
    + rewrite (i_unsw _ _ I) in Hin by (rewrite P; discriminate). contradiction.
Qed.

Lemma upgrade_state c x : allocated c x -> fst (upgrade c x) = c.
Proof.
  intros [o G]. unfold upgrade. rewrite G. destruct (negb (live o)); auto.
  destruct (phase_eqb (ph c) Sweep && color_eqb (col o) WhiteWeak); auto.
Qed.

Definition cb_ok (k : cbkind) (c : ctx) : Prop :=
  (root_mutable k = true -> ph c = Mark -> rnt c = true) /\ (is_finalize k = true -> ph c = Mark).

Lemma cb_ok_stable k c c' : stable c c' -> cb_ok k c -> cb_ok k c'.
Proof. intros [P R] [A B]. split; rewrite P, ?R; auto. Qed.

(** handles of this arena's live sets point at targets held in the set's slots (part of the
    DynamicRootSet invariant, established in Proofs/Slots.v) *)
Definition handles_ok (w : world) (ar : arena) : Prop :=
  forall h hd so, nth_error (handles w) h = Some (Some hd) -> h_uid hd = auid ar ->
                  get (actx ar) (h_set hd) = Some so -> live so = true ->
                  In (Some (h_ptr hd)) (strong so).
