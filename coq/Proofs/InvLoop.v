(** * [Inv] through the driver loop of Context::do_collection, for every debt oracle. *)
From GA Require Import Model.Spec Proofs.HeapLemmas Proofs.Inv Proofs.Recolor Proofs.InvMicro Proofs.InvStore Proofs.InvMark Proofs.InvSweep.
Local Open Scope nat_scope.

Lemma reach_ext c c' t :
  (forall y, get c' y = get c y) -> rootS c' = rootS c -> reach c t -> reach c' t.
Proof.
  intros GE ER H. induction H as [x Hx|p o x Hp IH G Hin].
  - apply reach_root. rewrite ER; auto.
  - eapply reach_step; eauto. rewrite GE; eauto.
Qed.

Definition same_cb (c c' : ctx) : Prop :=
  regs c' = regs c /\ wregs c' = wregs c /\ lics c' = lics c /\ rootS c' = rootS c /\ rootW c' = rootW c.

Lemma same_cb_refl c : same_cb c c.
Proof. repeat split. Qed.
Lemma same_cb_trans a b c : same_cb a b -> same_cb b c -> same_cb a c.
Proof. intros [? [? [? [? ?]]]] [? [? [? [? ?]]]]. repeat split; congruence. Qed.
Lemma same_cb_quiescent c c' : same_cb c c' -> quiescent c -> quiescent c'.
Proof. intros [R [W [L _]]] [A [B C]]. unfold quiescent. rewrite R, W, L. auto. Qed.

Lemma loop_body_inv st hs c f c1 evs k f' :
  Inv None c -> quiescent c -> loop_body st hs c f = (c1, evs, k, f') ->
  Inv None c1 /\ same_cb c c1
  /\ (forall ev, In ev evs -> condemned c (ev_id ev))
  /\ (forall t, reach c t -> reach c1 t).
Proof.
  intros I Q E. unfold loop_body in E. destruct (ph c) eqn:P.
  - (* Sleep *)
    inversion E; subst. split; [apply inv_sleep_to_mark; auto|]. split; [unfold same_cb; repeat split; reflexivity|].
    split; [intros ev []|]. intros t. apply reach_ext; auto.
  - (* Mark *)
    destruct (mark_one c _) as [[c2 r] used] eqn:EM.
    destruct (mark_one_inv _ _ _ _ _ I Q P EM) as [I2 [K2 [S2 B2]]].
    destruct K2 as [K1 [K3 [K4 [K5 [K6 [K7 [K8 K9]]]]]]].
    assert (SC : same_cb c c2) by (repeat split; auto).
    assert (RT : forall t, reach c t -> reach c2 t) by (intros t; apply sgraph_reach; auto).
    destruct r.
    + inversion E; subst. split; [auto|split; [auto|split; [intros ev []|auto]]].
    + destruct (B2 eq_refl) as [-> GR].
      destruct (stop_le st FullyMarked).
      * inversion E; subst. split; [auto|split; [auto|split; [intros ev []|auto]]].
      * inversion E; subst. split; [apply inv_enter_sweep; auto|]. split; [unfold same_cb; repeat split; reflexivity|].
        split; [intros ev []|]. intros t. apply reach_ext; auto.
    + inversion E; subst. split; [auto|split; [auto|split; [intros ev []|auto]]].
  - (* Sweep *)
    destruct (stop_le st AtSweep).
    + inversion E; subst. split; [auto|split; [unfold same_cb; repeat split; reflexivity|split; [intros ev []|auto]]].
    + destruct (sweep_one c) as [[c2 evs2] r] eqn:ES.
      destruct (sweep_one_inv _ _ _ _ I P ES) as [I2 [P2 [R2 [W2 [L2 [RS2 [RW2 [EV2 [RT2 B2]]]]]]]]].
      assert (SC : same_cb c c2) by (repeat split; auto).
      destruct r.
      * inversion E; subst. split; [auto|split; [auto|split; auto]].
      * destruct (B2 eq_refl) as [-> HU].
        assert (IS : forall m, Inv None (set_ph (set_rnt (set_met c m) true) Sleep))
          by (intros m; apply inv_to_sleep; auto).
        assert (RS : forall m t, reach c t -> reach (set_ph (set_rnt (set_met c m) true) Sleep) t)
          by (intros m t; apply reach_ext; auto).
        destruct st; [| |inversion E; subst; split; [apply IS|split; [unfold same_cb; repeat split; reflexivity|split; [auto|apply RS]]]|];
          destruct hs; inversion E; subst; (split; [apply IS|split; [unfold same_cb; repeat split; reflexivity|split; [auto|apply RS]]]).
Qed.

Section Loop.
  Variable dec : ctx -> bool.

  Lemma loop_inv fuel : forall ru st hs c f c' evs oc,
    Inv None c -> quiescent c -> loop dec fuel ru st hs c f = (c', evs, oc) ->
    Inv None c' /\ same_cb c c'
    /\ (forall ev, In ev evs -> ~ reach c (ev_id ev))
    /\ (forall t, reach c t -> reach c' t).
  Proof.
    induction fuel as [|n IH]; intros ru st hs c f c' evs oc I Q E; cbn [loop] in E.
    - inversion E; subst. split; [auto|split; [apply same_cb_refl|split; [intros ev []|auto]]].
    - destruct (loop_body st hs c f) as [[[c1 ev1] k] f1] eqn:EB.
      destruct (loop_body_inv _ _ _ _ _ _ _ _ I Q EB) as [I1 [S1 [EV1 RT1]]].
      assert (Q1 : quiescent c1) by (eapply same_cb_quiescent; eauto).
      assert (EVR : forall ev, In ev ev1 -> ~ reach c (ev_id ev)).
      { intros ev Hin R. apply (reach_ok _ _ I) in R. destruct R as [o [_ [_ N]]]. apply N. auto. }
      assert (STOP : (c1, ev1, oc) = (c', evs, oc) ->
                Inv None c' /\ same_cb c c' /\ (forall ev, In ev evs -> ~ reach c (ev_id ev)) /\ (forall t, reach c t -> reach c' t)).
      { intros EE. inversion EE; subst. auto. }
      assert (GO : forall hs', loop dec n ru st hs' c1 f1 = (let '(c2, ev2, r) := loop dec n ru st hs' c1 f1 in (c2, ev2, r)) -> True) by auto.
      assert (CONT : forall hs', (let '(c2, ev2, r) := loop dec n ru st hs' c1 f1 in (c2, ev1 ++ ev2, r)) = (c', evs, oc) ->
                Inv None c' /\ same_cb c c' /\ (forall ev, In ev evs -> ~ reach c (ev_id ev)) /\ (forall t, reach c t -> reach c' t)).
      { intros hs' EE. destruct (loop dec n ru st hs' c1 f1) as [[c2 ev2] r] eqn:EL. inversion EE; subst.
        destruct (IH _ _ _ _ _ _ _ _ I1 Q1 EL) as [I2 [S2 [EV2 RT2]]].
        split; [auto|split; [eapply same_cb_trans; eauto|split; [|auto]]].
        intros ev Hin. rewrite in_app_iff in Hin. destruct Hin as [H|H]; auto.
        intros R. apply (EV2 ev H). auto. }
      destruct k.
      + destruct ru.
        * destruct (dec c1); [apply (CONT has_slept); auto|]. inversion E; subst. auto.
        * apply (CONT has_slept); auto.
      + inversion E; subst. auto.
      + inversion E; subst. auto.
      + inversion E; subst. auto.
  Qed.

  Theorem do_collection_inv c ru st f c' evs oc :
    Inv None c -> quiescent c -> do_collection dec c ru st f = (c', evs, oc) ->
    Inv None c' /\ quiescent c' /\ same_cb c c'
    /\ (forall ev, In ev evs -> ~ reach c (ev_id ev))
    /\ (forall t, reach c t -> reach c' t).
  Proof.
    intros I Q E. unfold do_collection in E.
    assert (H : forall fuel hs, loop dec fuel ru st hs c f = (c', evs, oc) ->
             Inv None c' /\ quiescent c' /\ same_cb c c' /\ (forall ev, In ev evs -> ~ reach c (ev_id ev)) /\ (forall t, reach c t -> reach c' t)).
    { intros fuel hs EL. destruct (loop_inv _ _ _ _ _ _ _ _ _ I Q EL) as [A [B [C D]]].
      split; [auto|split; [eapply same_cb_quiescent; eauto|auto]]. }
    destruct ru.
    - destruct (dec c); [eapply H; eauto|]. inversion E; subst.
      split; [auto|split; [auto|split; [apply same_cb_refl|split; [intros ev []|auto]]]].
    - eapply H; eauto.
  Qed.
End Loop.
