(** * Metric truthfulness (C10): the Gc count is exact and no counter update underflows. *)
From GA Require Import Model.Spec Proofs.HeapLemmas Proofs.Inv Proofs.Recolor Proofs.InvMicro Proofs.InvStore
     Proofs.InvMark Proofs.InvSweep.
Local Open Scope nat_scope.

Definition black_ntr (c : ctx) (x : id) : bool :=
  match get c x with Some o => color_eqb (col o) Black && ntr o | None => false end.

Definition nblack (c : ctx) : nat := length (filter (black_ntr c) (all c)).

Definition b2n (b : bool) : nat := if b then 1 else 0.

Record MInv (c : ctx) : Prop := mkMInv {
  m_uflow : uflow c = false;
  m_total : total (met c) = N.of_nat (length (all c));
  m_traced : ph c = Mark -> (N.of_nat (nblack c) <= traced (met c))%N
}.

(** counting under a point change of the predicate *)
Lemma filter_point_change (f g : id -> bool) l x :
  NoDup l -> In x l -> (forall y, y <> x -> g y = f y) ->
  length (filter g l) + b2n (f x) = length (filter f l) + b2n (g x).
Proof.
  induction l as [|y t IH]; intros ND Hin HE; [destruct Hin|].
  inversion ND as [|? ? NI ND']; subst. cbn [filter].
  destruct Hin as [->|Hin].
  - assert (ET : filter g t = filter f t).
    { apply filter_ext_in. intros a Ha. apply HE. intros ->. contradiction. }
    rewrite ET. destruct (f x), (g x); cbn; lia.
  - assert (y <> x) by (intros ->; contradiction).
    rewrite (HE y H). specialize (IH ND' Hin HE). destruct (f y); cbn; lia.
Qed.

Lemma filter_same (f g : id -> bool) l : (forall y, In y l -> g y = f y) -> length (filter g l) = length (filter f l).
Proof. intros H. f_equal. apply filter_ext_in. auto. Qed.

Lemma nblack_recol e c c' x o k :
  Inv e c -> recol c c' x o k ->
  nblack c' + b2n (color_eqb (col o) Black && ntr o) = nblack c + b2n (color_eqb k Black && ntr o).
Proof.
  intros I R. unfold nblack. rewrite (recol_all _ _ _ _ _ R).
  assert (Hin : In x (all c)) by (apply (i_all _ _ I); exists o; apply (rc_get _ _ _ _ _ R)).
  pose proof (filter_point_change (black_ntr c) (black_ntr c') (all c) x (i_nodup _ _ I) Hin) as H.
  assert (EX : black_ntr c x = color_eqb (col o) Black && ntr o).
  { unfold black_ntr. rewrite (rc_get _ _ _ _ _ R). reflexivity. }
  assert (EX' : black_ntr c' x = color_eqb k Black && ntr o).
  { unfold black_ntr. rewrite (recol_get _ _ _ _ _ x R), Nat.eqb_refl. reflexivity. }
  rewrite EX, EX' in H. apply H. intros y NY. unfold black_ntr. rewrite (recol_get _ _ _ _ _ y R).
  destruct (Nat.eqb_spec x y); [congruence|reflexivity].
Qed.

(** the object graph / colours unchanged => nblack unchanged *)
Lemma nblack_same_colors c c' :
  all c' = all c -> (forall y, black_ntr c' y = black_ntr c y) -> nblack c' = nblack c.
Proof. intros EA H. unfold nblack. rewrite EA. apply filter_same. auto. Qed.

(** ** trace / trace_weak / resurrect never blacken a traced-type object *)
Lemma trace_metrics e c t o :
  Inv e c -> get c t = Some o ->
  nblack (trace c t) = nblack c /\ traced (met (trace c t)) = traced (met c)
  /\ total (met (trace c t)) = total (met c) /\ uflow (trace c t) = uflow c /\ all (trace c t) = all c.
Proof.
  intros I G. unfold trace. rewrite G.
  assert (NB : forall c' k, recol c c' t o k -> is_whiteish (col o) = true -> (k = Black -> ntr o = false) ->
               nblack c' = nblack c).
  { intros c' k R W HK. pose proof (nblack_recol _ _ _ _ _ _ I R) as H.
    assert (E1 : color_eqb (col o) Black && ntr o = false) by (destruct (col o); try discriminate; reflexivity).
    assert (E2 : color_eqb k Black && ntr o = false).
    { destruct (color_eqb k Black) eqn:CK; auto. apply color_eqb_eq in CK. rewrite (HK CK). reflexivity. }
    rewrite E1, E2 in H. cbn in H. lia. }
  destruct (col o) eqn:C; try (repeat split; reflexivity).
  - destruct (ntr o) eqn:N.
    + split; [eapply (NB _ Gray); [apply recol_set_met, recol_set_gray, recol_recolor; auto|first [reflexivity|rewrite C; reflexivity]|discriminate]|].
      cbn. unfold recolor. rewrite G. repeat split; reflexivity.
    + split; [eapply (NB _ Black); [apply recol_set_met, recol_recolor; auto|first [reflexivity|rewrite C; reflexivity]|auto]|].
      cbn. unfold recolor. rewrite G. repeat split; reflexivity.
  - destruct (ntr o) eqn:N.
    + split; [eapply (NB _ Gray); [apply recol_set_gray, recol_recolor; auto|first [reflexivity|rewrite C; reflexivity]|discriminate]|].
      cbn. unfold recolor. rewrite G. repeat split; reflexivity.
    + split; [eapply (NB _ Black); [apply recol_recolor; auto|first [reflexivity|rewrite C; reflexivity]|auto]|].
      unfold recolor. rewrite G. repeat split; reflexivity.
Qed.

Lemma trace_weak_metrics e c t o :
  Inv e c -> get c t = Some o ->
  nblack (trace_weak c t) = nblack c /\ traced (met (trace_weak c t)) = traced (met c)
  /\ total (met (trace_weak c t)) = total (met c) /\ uflow (trace_weak c t) = uflow c /\ all (trace_weak c t) = all c.
Proof.
  intros I G. unfold trace_weak. rewrite G. destruct (col o) eqn:C; try (repeat split; reflexivity).
  split.
  - assert (R : recol c (set_met (recolor c t WhiteWeak) (mark_gc_marked (met (recolor c t WhiteWeak)))) t o WhiteWeak)
      by (apply recol_set_met, recol_recolor; auto).
    pose proof (nblack_recol _ _ _ _ _ _ I R) as H. rewrite C in H. cbn [b2n andb color_eqb] in H. lia.
  - cbn. unfold recolor. rewrite G. repeat split; reflexivity.
Qed.

Definition mstable (c c' : ctx) : Prop :=
  nblack c' = nblack c /\ traced (met c') = traced (met c) /\ total (met c') = total (met c)
  /\ uflow c' = uflow c /\ all c' = all c.

Lemma mstable_refl c : mstable c c.
Proof. repeat split. Qed.
Lemma mstable_trans a b c : mstable a b -> mstable b c -> mstable a c.
Proof. intros [? [? [? [? ?]]]] [? [? [? [? ?]]]]. repeat split; congruence. Qed.

Lemma minv_mstable c c' : ph c' = ph c -> mstable c c' -> MInv c -> MInv c'.
Proof.
  intros P [A [B [C [D E]]]] [M1 M2 M3]. constructor.
  - congruence.
  - rewrite C, E. auto.
  - rewrite P, A, B. auto.
Qed.

Lemma trace_edge_mstable e c ed : Inv e c -> ph c = Mark -> edge_ok c ed -> mstable c (trace_edge c ed).
Proof.
  intros I HM H. destruct ed as [t|t]; cbn in *.
  - destruct H as [o [G _]]. apply (trace_metrics e c t o I G).
  - destruct H as [o G]. apply (trace_weak_metrics e c t o I G).
Qed.

Lemma trace_edges_mstable es : forall e c,
  Inv e c -> ph c = Mark -> Forall (edge_ok c) es -> mstable c (trace_edges c es).
Proof.
  induction es as [|ed es IH]; intros e c I HM F; [apply mstable_refl|].
  inversion F as [|? ? Hd Tl]; subst. cbn [trace_edges fold_left].
  destruct (trace_edge_inv e c ed I HM Hd) as [I1 [_ [Mo1 Fr1]]].
  eapply mstable_trans; [apply (trace_edge_mstable e c ed I HM Hd)|].
  change (fold_left trace_edge es (trace_edge c ed)) with (trace_edges (trace_edge c ed) es).
  apply (IH e); auto.
  - rewrite (f_ph _ _ Fr1); auto.
  - eapply Forall_impl; [|exact Tl]. intros a. apply mono_edge_ok; auto.
Qed.

(** ** make_gray_again: the only subtraction on [traced] *)
Lemma make_gray_again_metrics e c p o :
  Inv e c -> get c p = Some o -> col o = Black -> uflow c = false -> (1 <= traced (met c))%N ->
  uflow (make_gray_again c p) = false
  /\ traced (met (make_gray_again c p)) = (traced (met c) - 1)%N
  /\ total (met (make_gray_again c p)) = total (met c)
  /\ all (make_gray_again c p) = all c
  /\ nblack (make_gray_again c p) + b2n (ntr o) = nblack c.
Proof.
  intros I G B U T. unfold make_gray_again.
  assert (ET : traced (met (set_gray_again (recolor c p Gray) (p :: gray_again (recolor c p Gray)))) = traced (met c)).
  { cbn. unfold recolor. rewrite G. reflexivity. }
  rewrite ET. destruct (N.eqb (traced (met c)) 0) eqn:Z; [apply N.eqb_eq in Z; lia|].
  assert (R : recol c (set_met (set_gray_again (recolor c p Gray) (p :: gray_again (recolor c p Gray)))
                               (mark_gc_untraced (met (set_gray_again (recolor c p Gray) (p :: gray_again (recolor c p Gray)))))) p o Gray).
  { apply recol_set_met, recol_set_gray_again, recol_recolor; auto. }
  pose proof (nblack_recol _ _ _ _ _ _ I R) as H. rewrite B in H. cbn [b2n andb color_eqb] in H.
  repeat split.
  - cbn. unfold recolor. rewrite G. cbn. auto.
  - cbn. unfold recolor. rewrite G. reflexivity.
  - cbn. unfold recolor. rewrite G. reflexivity.
  - unfold all. cbn. unfold recolor. rewrite G. reflexivity.
  - destruct (ntr o); cbn in *; lia.
Qed.

Lemma make_gray_again_minv e c p o :
  Inv e c -> MInv c -> ph c = Mark -> get c p = Some o -> col o = Black -> ntr o = true ->
  MInv (make_gray_again c p).
Proof.
  intros I [M1 M2 M3] HM G B N.
  assert (NB : 1 <= nblack c).
  { unfold nblack. assert (Hin : In p (filter (black_ntr c) (all c))).
    { apply filter_In. split; [apply (i_all _ _ I); eexists; eauto|]. unfold black_ntr. rewrite G, B, N. reflexivity. }
    destruct (filter (black_ntr c) (all c)); [destruct Hin|cbn; lia]. }
  specialize (M3 HM).
  destruct (make_gray_again_metrics e c p o I G B M1 ltac:(lia)) as [U [T [TT [A NBk]]]].
  constructor; auto.
  - rewrite TT, A. auto.
  - intros _. rewrite T. rewrite N in NBk. cbn [b2n] in NBk. lia.
Qed.
