(** * [Inv] is preserved by the colour-changing micro-steps of src/context.rs. *)
From GA Require Import Model.Spec Proofs.HeapLemmas Proofs.Inv Proofs.Recolor.
Local Open Scope nat_scope.

Lemma recol_recolor c x o k : get c x = Some o -> recol c (recolor c x k) x o k.
Proof. intros G. unfold recolor. rewrite G. constructor; auto. Qed.

Lemma recol_set_gray c c' x o k g : recol c c' x o k -> recol c (set_gray c' g) x o k.
Proof. intros R. destruct R. constructor; auto. Qed.
Lemma recol_set_gray_again c c' x o k g : recol c c' x o k -> recol c (set_gray_again c' g) x o k.
Proof. intros R. destruct R. constructor; auto. Qed.
Lemma recol_set_met c c' x o k m : recol c c' x o k -> recol c (set_met c' m) x o k.
Proof. intros R. destruct R. constructor; auto. Qed.
Lemma recol_set_uflow c c' x o k b : recol c c' x o k -> recol c (set_uflow c' b) x o k.
Proof. intros R. destruct R. constructor; auto. Qed.

(** Everything but colours, queues and metrics. *)
Record frame (c c' : ctx) : Prop := mkFrame {
  f_ph : ph c' = ph c; f_pre : pre c' = pre c; f_unsw : unsw c' = unsw c; f_rnt : rnt c' = rnt c;
  f_rootS : rootS c' = rootS c; f_rootW : rootW c' = rootW c;
  f_regs : regs c' = regs c; f_wregs : wregs c' = wregs c; f_lics : lics c' = lics c
}.

Lemma frame_refl c : frame c c.
Proof. constructor; reflexivity. Qed.
Lemma frame_trans a b c : frame a b -> frame b c -> frame a c.
Proof. intros [] []. constructor; congruence. Qed.
Lemma recol_frame c c' x o k : recol c c' x o k -> frame c c'.
Proof. intros []. constructor; auto. Qed.

(** Colours only move up; dark colours are frozen; the graph does not change. *)
Definition mono (c c' : ctx) : Prop :=
  forall y, match get c y, get c' y with
            | Some o, Some o' =>
              strong o' = strong o /\ weak o' = weak o /\ live o' = live o /\ ntr o' = ntr o
              /\ okind o' = okind o
              /\ (dark (col o) -> col o' = col o) /\ (col o <> White -> col o' <> White)
            | None, None => True
            | _, _ => False
            end.

Lemma mono_refl c : mono c c.
Proof. intros y. destruct (get c y); auto. repeat split; auto. Qed.

Lemma mono_trans a b c : mono a b -> mono b c -> mono a c.
Proof.
  intros H1 H2 y. specialize (H1 y). specialize (H2 y).
  destruct (get a y), (get b y), (get c y); auto; try contradiction.
  destruct H1 as [S1 [W1 [L1 [N1 [K1 [D1 C1]]]]]], H2 as [S2 [W2 [L2 [N2 [K2 [D2 C2]]]]]].
  repeat split; try congruence.
  - intros D. rewrite D2; [apply D1; auto|]. rewrite D1; auto.
  - auto.
Qed.

Lemma recol_mono c c' x o k :
  recol c c' x o k -> (dark (col o) -> k = col o) -> (col o <> White -> k <> White) -> mono c c'.
Proof.
  intros R H1 H2 y. rewrite (recol_get _ _ _ _ _ y R).
  destruct (Nat.eqb_spec x y); subst.
  - rewrite (rc_get _ _ _ _ _ R). cbn. repeat split; auto.
  - destruct (get c y); auto. repeat split; auto.
Qed.

Lemma mono_tstrong c c' t : mono c c' -> tstrong c t -> tstrong c' t.
Proof.
  intros M [o [G D]]. specialize (M t). rewrite G in M. destruct (get c' t) as [o'|] eqn:G'; [|contradiction].
  exists o'. split; auto. destruct M as [_ [_ [_ [_ [_ [DD _]]]]]]. rewrite (DD D). exact D.
Qed.

Lemma mono_tweak c c' t : mono c c' -> tweak c t -> tweak c' t.
Proof.
  intros M [o [G D]]. specialize (M t). rewrite G in M. destruct (get c' t) as [o'|] eqn:G'; [|contradiction].
  exists o'. split; auto. destruct M as [_ [_ [_ [_ [_ [_ DD]]]]]]. auto.
Qed.

Lemma mono_get c c' y o : mono c c' -> get c y = Some o ->
  exists o', get c' y = Some o' /\ strong o' = strong o /\ weak o' = weak o /\ live o' = live o
             /\ ntr o' = ntr o /\ okind o' = okind o /\ (dark (col o) -> col o' = col o).
Proof.
  intros M G. specialize (M y). rewrite G in M. destruct (get c' y) as [o'|] eqn:G'; [|contradiction].
  exists o'. destruct M as [? [? [? [? [? [? ?]]]]]]. repeat split; auto.
Qed.

Lemma not_in_queues_if_not_gray e c x o :
  Inv e c -> get c x = Some o -> col o <> Gray -> ~ In x (gray c ++ gray_again c).
Proof. intros I G N H. apply (i_gray _ _ I) in H. destruct H as [o' [G' C]]. congruence. Qed.

(** ** Context::trace *)
Lemma trace_inv e c t o :
  Inv e c -> ph c = Mark -> get c t = Some o -> live o = true ->
  Inv e (trace c t) /\ tstrong (trace c t) t /\ mono c (trace c t) /\ frame c (trace c t).
Proof.
  intros I HM G L. unfold trace. rewrite G.
  assert (TS: forall k, dark k -> target_safe (col o) k).
  { intros k D. split; auto. intros _ E. destruct D; congruence. }
  destruct (col o) eqn:C.
  - (* White *)
    assert (NQ := not_in_queues_if_not_gray _ _ _ _ I G ltac:(congruence)).
    destruct (ntr o) eqn:N.
    + set (c' := set_met _ _).
      assert (R : recol c c' t o Gray).
      { apply recol_set_met, recol_set_gray, recol_recolor; auto. }
      split; [|split; [|split]].
      * eapply (inv_recol_mark e e c c' t o Gray I R HM); auto.
        -- intros y. subst c'. cbn [gray gray_again set_met set_gray]. cbn [app In].
           assert (EG: gray_again (recolor c t Gray) = gray_again c) by (unfold recolor; rewrite G; reflexivity).
           rewrite EG. split.
           ++ intros [E|H]; [left; auto|]. right. split; auto. intros E; subst. contradiction.
           ++ intros [[E _]|[_ H]]; auto.
        -- subst c'. cbn [gray gray_again set_met set_gray].
           assert (EG: gray_again (recolor c t Gray) = gray_again c) by (unfold recolor; rewrite G; reflexivity).
           rewrite EG. cbn [app]. constructor; auto. apply (i_gray_nd _ _ I).
        -- rewrite C. apply TS. left; auto.
        -- discriminate.
        -- right. discriminate.
      * unfold tstrong. rewrite (recol_get _ _ _ _ _ t R), Nat.eqb_refl. eexists. split; eauto. left; reflexivity.
      * eapply recol_mono; eauto; rewrite C; intros []; congruence.
      * eapply recol_frame; eauto.
    + set (c' := set_met _ _).
      assert (R : recol c c' t o Black).
      { apply recol_set_met, recol_recolor; auto. }
      assert (EQ: gray c' ++ gray_again c' = gray c ++ gray_again c).
      { subst c'. cbn [gray gray_again set_met]. unfold recolor. rewrite G. reflexivity. }
      split; [|split; [|split]].
      * eapply (inv_recol_mark e e c c' t o Black I R HM); auto.
        -- intros y. rewrite EQ. split.
           ++ intros H. right. split; auto. intros E; subst; contradiction.
           ++ intros [[_ E]|[_ H]]; [discriminate|auto].
        -- rewrite EQ. apply (i_gray_nd _ _ I).
        -- rewrite C. apply TS. right; auto.
        -- intros _. right. eapply (i_ntr _ _ I); eauto.
      * unfold tstrong. rewrite (recol_get _ _ _ _ _ t R), Nat.eqb_refl. eexists. split; eauto. right; reflexivity.
      * eapply recol_mono; eauto; rewrite C; intros []; congruence.
      * eapply recol_frame; eauto.
  - (* WhiteWeak *)
    assert (NQ := not_in_queues_if_not_gray _ _ _ _ I G ltac:(congruence)).
    destruct (ntr o) eqn:N.
    + set (c' := set_gray _ _).
      assert (R : recol c c' t o Gray).
      { apply recol_set_gray, recol_recolor; auto. }
      split; [|split; [|split]].
      * eapply (inv_recol_mark e e c c' t o Gray I R HM); auto.
        -- intros y. subst c'. cbn [gray gray_again set_gray]. cbn [app In].
           assert (EG: gray_again (recolor c t Gray) = gray_again c) by (unfold recolor; rewrite G; reflexivity).
           rewrite EG. split.
           ++ intros [E|H]; [left; auto|]. right. split; auto. intros E; subst. contradiction.
           ++ intros [[E _]|[_ H]]; auto.
        -- subst c'. cbn [gray gray_again set_gray].
           assert (EG: gray_again (recolor c t Gray) = gray_again c) by (unfold recolor; rewrite G; reflexivity).
           rewrite EG. cbn [app]. constructor; auto. apply (i_gray_nd _ _ I).
        -- rewrite C. apply TS. left; auto.
        -- discriminate.
        -- right. discriminate.
      * unfold tstrong. rewrite (recol_get _ _ _ _ _ t R), Nat.eqb_refl. eexists. split; eauto. left; reflexivity.
      * eapply recol_mono; eauto; rewrite C; first [intros []; congruence|discriminate].
      * eapply recol_frame; eauto.
    + set (c' := recolor c t Black).
      assert (R : recol c c' t o Black) by (apply recol_recolor; auto).
      assert (EQ: gray c' ++ gray_again c' = gray c ++ gray_again c).
      { subst c'. unfold recolor. rewrite G. reflexivity. }
      split; [|split; [|split]].
      * eapply (inv_recol_mark e e c c' t o Black I R HM); auto.
        -- intros y. rewrite EQ. split.
           ++ intros H. right. split; auto. intros E; subst; contradiction.
           ++ intros [[_ E]|[_ H]]; [discriminate|auto].
        -- rewrite EQ. apply (i_gray_nd _ _ I).
        -- rewrite C. apply TS. right; auto.
        -- intros _. right. eapply (i_ntr _ _ I); eauto.
      * unfold tstrong. rewrite (recol_get _ _ _ _ _ t R), Nat.eqb_refl. eexists. split; eauto. right; reflexivity.
      * eapply recol_mono; eauto; rewrite C; first [intros []; congruence|discriminate].
      * eapply recol_frame; eauto.
  - split; [auto|split; [|split; [apply mono_refl|apply frame_refl]]].
    exists o. split; auto. rewrite C. left; auto.
  - split; [auto|split; [|split; [apply mono_refl|apply frame_refl]]].
    exists o. split; auto. rewrite C. right; auto.
Qed.

(** ** Context::trace_weak *)
Lemma trace_weak_inv e c t o :
  Inv e c -> ph c = Mark -> get c t = Some o ->
  Inv e (trace_weak c t) /\ tweak (trace_weak c t) t /\ mono c (trace_weak c t) /\ frame c (trace_weak c t).
Proof.
  intros I HM G. unfold trace_weak. rewrite G.
  destruct (col o) eqn:C.
  - assert (NQ := not_in_queues_if_not_gray _ _ _ _ I G ltac:(congruence)).
    set (c' := set_met _ _).
    assert (R : recol c c' t o WhiteWeak) by (apply recol_set_met, recol_recolor; auto).
    assert (EQ: gray c' ++ gray_again c' = gray c ++ gray_again c).
    { subst c'. cbn [gray gray_again set_met]. unfold recolor. rewrite G. reflexivity. }
    split; [|split; [|split]].
    + eapply (inv_recol_mark e e c c' t o WhiteWeak I R HM); auto.
      * intros y. rewrite EQ. split.
        -- intros H. right. split; auto. intros E; subst; contradiction.
        -- intros [[_ E]|[_ H]]; [discriminate|auto].
      * rewrite EQ. apply (i_gray_nd _ _ I).
      * intros []; discriminate.
      * rewrite C. split; [intros []; discriminate|congruence].
      * discriminate.
      * right; discriminate.
    + unfold tweak. rewrite (recol_get _ _ _ _ _ t R), Nat.eqb_refl. eexists. split; eauto. cbn. discriminate.
    + eapply recol_mono; eauto; rewrite C; first [intros []; discriminate|congruence].
    + eapply recol_frame; eauto.
  - split; [auto|split; [|split; [apply mono_refl|apply frame_refl]]]. exists o. split; auto. congruence.
  - split; [auto|split; [|split; [apply mono_refl|apply frame_refl]]]. exists o. split; auto. congruence.
  - split; [auto|split; [|split; [apply mono_refl|apply frame_refl]]]. exists o. split; auto. congruence.
Qed.

(** ** Context::make_gray_again (on a black object) *)
Lemma make_gray_again_inv e c p o :
  Inv e c -> ph c = Mark -> get c p = Some o -> col o = Black ->
  Inv None (make_gray_again c p) \/ e <> Some p -> 
  Inv (match e with Some q => if Nat.eqb q p then None else e | None => None end) (make_gray_again c p)
  /\ frame c (make_gray_again c p).
Proof.
Abort.

Lemma make_gray_again_inv e c p o :
  Inv e c -> ph c = Mark -> get c p = Some o -> col o = Black ->
  (e = None \/ e = Some p) ->
  Inv None (make_gray_again c p) /\ frame c (make_gray_again c p)
  /\ (forall y, tstrong c y -> tstrong (make_gray_again c p) y)
  /\ (forall y, tweak c y -> tweak (make_gray_again c p) y).
Proof.
  intros I HM G C HE. unfold make_gray_again.
  assert (NQ := not_in_queues_if_not_gray _ _ _ _ I G ltac:(congruence)).
  set (c' := set_met _ _).
  assert (R : recol c c' p o Gray).
  { subst c'. apply recol_set_met. destruct (N.eqb _ 0); [apply recol_set_uflow|];
    apply recol_set_gray_again, recol_recolor; auto. }
  assert (EG : gray c' = gray c /\ gray_again c' = p :: gray_again c).
  { subst c'. cbn [gray gray_again set_met]. destruct (N.eqb _ 0); cbn; unfold recolor; rewrite G; cbn; auto. }
  destruct EG as [EG1 EG2].
  assert (TS : target_safe (col o) Gray).
  { rewrite C. split; [left; auto|discriminate]. }
  split; [|split; [eapply recol_frame; eauto|split]].
  - eapply (inv_recol_mark e None c c' p o Gray I R HM); auto.
    + intros y. rewrite EG1, EG2. rewrite !in_app_iff. cbn [In].
      pose proof NQ as NQ2. rewrite in_app_iff in NQ2. split.
      * intros [H|[H|H]].
        -- right. split; auto. intros E; subst; tauto.
        -- left; auto.
        -- right. split; auto. intros E; subst; tauto.
      * intros [[E _]|[_ [H|H]]]; auto.
    + rewrite EG1, EG2. apply NoDup_Add with (a := p) (l := gray c ++ gray_again c).
      * apply Add_app. 
      * split; [apply (i_gray_nd _ _ I)|exact NQ].
    + intros _. eapply (i_dark_live _ _ I); eauto. rewrite C; right; auto.
    + discriminate.
    + intros q _ NP. destruct HE as [->| ->]; congruence.
    + right; discriminate.
  - intros y. eapply recol_tstrong; eauto.
  - intros y. eapply recol_tweak; eauto.
Qed.

(** ** Context::resurrect (phase Mark, live object) *)
Lemma resurrect_inv c x o :
  Inv None c -> ph c = Mark -> get c x = Some o -> live o = true ->
  Inv None (resurrect c x) /\ frame c (resurrect c x) /\ mono c (resurrect c x).
Proof.
  intros I HM G L. unfold resurrect. rewrite G.
  destruct (is_whiteish (col o)) eqn:W; [|split; [auto|split; [apply frame_refl|apply mono_refl]]].
  assert (NQ : ~ In x (gray c ++ gray_again c)).
  { eapply not_in_queues_if_not_gray; eauto. intros E; rewrite E in W; discriminate. }
  assert (EG: gray_again (recolor c x Gray) = gray_again c) by (unfold recolor; rewrite G; reflexivity).
  assert (HH : forall c', recol c c' x o Gray -> gray c' = x :: gray c -> gray_again c' = gray_again c ->
               Inv None c' /\ frame c c' /\ mono c c').
  { intros c' R E1 E2. split; [|split; [eapply recol_frame; eauto|]].
    - eapply (inv_recol_mark None None c c' x o Gray I R HM); auto.
      + intros y. rewrite E1, E2. cbn [app In]. split.
        * intros [E|H]; [left; auto|]. right. split; auto. intros E; subst; contradiction.
        * intros [[E _]|[_ H]]; auto.
      + rewrite E1, E2. cbn [app]. constructor; auto. apply (i_gray_nd _ _ I).
      + split; [left; auto|discriminate].
      + discriminate.
      + right; discriminate.
    - eapply recol_mono; eauto.
      + intros [D|D]; rewrite D in W; discriminate.
      + discriminate. }
  destruct (col o) eqn:C; try discriminate.
  - apply HH; [apply recol_set_met, recol_set_gray, recol_recolor; auto| |]; cbn; auto.
  - apply HH; [apply recol_set_gray, recol_recolor; auto| |]; cbn; auto.
Qed.
