(** * [MInv] at the world level: in every reachable world, for every arena, the Gc count is exact
    and no metric subtraction has ever underflowed. *)
From GA Require Import Model.Spec Proofs.HeapLemmas Proofs.Inv Proofs.InvStore Proofs.InvLoop Proofs.InvOps
     Proofs.InvMicroOps Proofs.InvWorld Proofs.MInv Proofs.MInvCollect Proofs.MInvOps.
Local Open Scope nat_scope.

Definition WMInv (w : world) : Prop := forall a ar, get_arena w a = Some ar -> MInv (actx ar).

Lemma minv_new : MInv ctx_new.
Proof. constructor; cbn; auto. discriminate. Qed.

Lemma wminv_init : WMInv world_init.
Proof.
  intros a ar H. unfold get_arena, world_init in H. cbn in H.
  destruct a as [|[|[|a]]]; cbn in H; try discriminate. destruct a; discriminate.
Qed.

Lemma minv_met_only c m :
  total m = total (met c) -> traced m = traced (met c) -> MInv c -> MInv (set_met c m).
Proof.
  intros T TR [M1 M2 M3]. constructor; cbn; auto.
  - rewrite T. exact M2.
  - rewrite TR. exact M3.
Qed.

Lemma minv_root_barrier c : MInv c -> MInv (root_barrier c).
Proof.
  intros M. unfold root_barrier. destruct (ph c) eqn:P; auto. apply (minv_same c); auto.
Qed.

Lemma minv_vacate c s so idx :
  get c s = Some so -> MInv c -> MInv (put c s (with_strong so (set_nth (strong so) idx None))).
Proof. intros G M. eapply put_minv; eauto. Qed.

Lemma wminv_put w a c' ar :
  WMInv w -> get_arena w a = Some ar -> MInv c' -> forall s, WMInv (put_arena w a (Some (mkArena c' (auid ar) s))).
Proof.
  intros WM GA M s b arb Hb. rewrite get_arena_put in Hb by (eapply get_arena_lt; eauto).
  destruct (Nat.eqb_spec a b); subst; [inversion Hb; subst; auto|apply (WM b arb Hb)].
Qed.

Lemma wminv_same_arenas (w w' : world) : (forall b, get_arena w' b = get_arena w b) -> WMInv w -> WMInv w'.
Proof. intros H WM b arb Hb. rewrite H in Hb. apply (WM b arb Hb). Qed.

Lemma wminv_remove w a : WMInv w -> a < length (arenas w) -> WMInv (put_arena w a None).
Proof.
  intros WM LT b arb Hb. rewrite get_arena_put in Hb by auto.
  destruct (Nat.eqb_spec a b); [discriminate|apply (WM b arb Hb)].
Qed.

Ltac end_minv WM :=
  match goal with w : world |- _ =>
  destruct (cur w) as [[[a k] ent]|] eqn:CU; [|exact WM];
  destruct (get_arena w a) as [ar|] eqn:GA; [|apply (wminv_same_arenas w); [reflexivity|exact WM]];
  destruct k; cbn [fst];
  first
    [ destruct (drop_arena_effect (actx ar)) as [evs tot]; cbn [fst];
      apply (wminv_same_arenas (put_arena w a None)); [reflexivity|];
      apply wminv_remove; [exact WM|eapply get_arena_lt; eauto]
    | cbn [fst];
      match goal with |- WMInv (set_cur (put_arena w a (Some (mkArena ?C _ _))) _) =>
        apply (wminv_same_arenas (put_arena w a (Some (mkArena C (auid ar) (asets ar))))); [reflexivity|];
        apply wminv_put; auto; apply (minv_same (actx ar)); try reflexivity; apply (WM a ar GA) end ]
  end.

Theorem step_minv w o : WInv w -> WMInv w -> WMInv (fst (step w o)).
Proof.
  intros WI WM. destruct o; cbn [step].
  - (* OBegin *)
    destruct (cur w) as [[[a' k'] e']|] eqn:CU; [exact WM|].
    assert (NOACT : forall b, active w b = None) by (intros b; unfold active; rewrite CU; reflexivity).
    assert (NEW : forall kk, match nth_error (arenas w) a with
       | Some None => WMInv (mkWorld (set_nth (arenas w) a (Some (mkArena ctx_new (nuid w) []))) (S (nuid w)) (handles w) (Some (a, kk, true)))
       | _ => True end).
    { intros kk. destruct (nth_error (arenas w) a) as [[?|]|] eqn:NA; auto.
      assert (LT : a < length (arenas w)) by (apply nth_error_Some; congruence).
      intros b arb Hb. unfold get_arena in Hb. cbn in Hb. destruct (Nat.eqb_spec b a); subst.
      - rewrite nth_error_set_nth_eq in Hb by auto. cbn in Hb. inversion Hb; subst. apply minv_new.
      - rewrite nth_error_set_nth_neq in Hb by auto. apply (WM b arb Hb). }
    destruct k.
    + specialize (NEW CNew). destruct (nth_error (arenas w) a) as [[?|]|]; auto.
    + specialize (NEW CTryNew). destruct (nth_error (arenas w) a) as [[?|]|]; auto.
    + destruct (get_arena w a) as [ar|] eqn:GA; [|exact WM]. cbn. apply (wminv_same_arenas w); auto.
    + destruct (get_arena w a) as [ar|] eqn:GA; [|exact WM]. cbn.
      apply (wminv_same_arenas (put_arena w a (Some (mkArena (root_barrier (actx ar)) (auid ar) (asets ar))))); [reflexivity|].
      apply wminv_put; auto. apply minv_root_barrier. apply (WM a ar GA).
    + destruct (get_arena w a) as [ar|] eqn:GA; [|exact WM]. cbn.
      match goal with |- WMInv (set_cur (put_arena w a (Some (mkArena ?C _ _))) _) =>
        apply (wminv_same_arenas (put_arena w a (Some (mkArena C (auid ar) (asets ar))))); [reflexivity|]; apply wminv_put; auto;
        apply (minv_same (root_barrier (actx ar))); try reflexivity; apply minv_root_barrier; apply (WM a ar GA) end.
    + destruct (get_arena w a) as [ar|] eqn:GA; [|exact WM]. cbn.
      match goal with |- WMInv (set_cur (put_arena w a (Some (mkArena ?C _ _))) _) =>
        apply (wminv_same_arenas (put_arena w a (Some (mkArena C (auid ar) (asets ar))))); [reflexivity|]; apply wminv_put; auto;
        apply (minv_same (root_barrier (actx ar))); try reflexivity; apply minv_root_barrier; apply (WM a ar GA) end.
    + destruct (get_arena w a) as [ar|] eqn:GA; [|exact WM].
      destruct (do_collection dec_debt (actx ar) _ FullyMarked None) as [[c1 evs] oc] eqn:DC. cbn.
      pose proof (WI a ar GA) as WA. rewrite NOACT in WA. destruct WA as [I Q].
      apply (wminv_same_arenas (put_arena w a (Some (mkArena c1 (auid ar) (asets ar))))); [reflexivity|].
      apply wminv_put; auto. eapply do_collection_minv; eauto.
  - (* OMicro *)
    destruct (cur w) as [[[a k] e]|] eqn:CU; [|exact WM]. destruct e; [|exact WM].
    destruct (get_arena w a) as [ar|] eqn:GA; [|exact WM].
    destruct (micro w ar k m) as [[ar' hs] out] eqn:EM. cbn.
    pose proof (WI a ar GA) as WA. unfold active in WA. rewrite CU, Nat.eqb_refl in WA. destruct WA as [I [CB RT]].
    pose proof (micro_minv _ _ _ _ _ _ _ I CB (WM a ar GA) EM) as M1.
    apply (wminv_same_arenas (put_arena w a (Some ar'))); [reflexivity|].
    intros b arb Hb. rewrite get_arena_put in Hb by (eapply get_arena_lt; eauto).
    destruct (Nat.eqb_spec a b); subst; [inversion Hb; subst; auto|apply (WM b arb Hb)].
  - (* OEnd *) end_minv WM.
  - end_minv WM.
  - end_minv WM.
  - (* OCollect *)
    destruct (cur w) as [[[a' k'] e']|] eqn:CU; [exact WM|].
    destruct (get_arena w a) as [ar|] eqn:GA; [|exact WM].
    destruct (how_params how) as [ru st].
    destruct (do_collection dec_debt (actx ar) ru st fault) as [[c1 evs] oc] eqn:DC. cbn.
    pose proof (WI a ar GA) as WA. unfold active in WA. rewrite CU in WA. destruct WA as [I Q].
    apply wminv_put; auto. eapply do_collection_minv; eauto.
  - (* OStartSweep *)
    destruct (cur w) as [[[a' k'] e']|] eqn:CU; [exact WM|].
    destruct (get_arena w a) as [ar|] eqn:GA; [|exact WM].
    destruct (do_collection dec_debt (actx ar) _ FullyMarked None) as [[c1 evs] oc] eqn:DC.
    pose proof (WI a ar GA) as WA. unfold active in WA. rewrite CU in WA. destruct WA as [I Q].
    destruct (do_collection_inv _ _ _ _ _ _ _ _ I Q DC) as [I1 [Q1 _]].
    pose proof (do_collection_minv _ _ _ _ _ _ _ _ I Q (WM a ar GA) DC) as M1.
    destruct (is_marked c1).
    + destruct (do_collection dec_debt c1 RunStop AtSweep None) as [[c2 evs2] oc2] eqn:DC2. cbn.
      apply wminv_put; auto. eapply do_collection_minv; eauto.
    + cbn. apply wminv_put; auto.
  - (* ODropArena *)
    destruct (cur w); [exact WM|]. destruct (get_arena w a) as [ar|] eqn:GA; [|exact WM].
    destruct (drop_arena_effect (actx ar)). cbn. apply wminv_remove; auto. eapply get_arena_lt; eauto.
  - (* OAdjustDebt *)
    cbv zeta. destruct (cur w) as [[[a' k'] e']|]; [destruct (Nat.eqb a a')|]; try exact WM;
      (destruct (get_arena w a) as [ar|] eqn:GA; [|exact WM]; cbn; apply wminv_put; auto;
       apply minv_met_only; try reflexivity; apply (WM a ar GA)).
  - cbv zeta. destruct (cur w) as [[[a' k'] e']|]; [destruct (Nat.eqb a a')|]; try exact WM;
      (destruct (get_arena w a) as [ar|] eqn:GA; [|exact WM]; cbn; apply wminv_put; auto;
       apply minv_met_only; try reflexivity; apply (WM a ar GA)).
  - (* OCloneH *)
    destruct (nth_error (handles w) h') as [[?|]|]; try exact WM.
    destruct (nth_error (handles w) h) as [[hd|]|]; try exact WM.
    set (w1 := set_handles w (set_nth (handles w) h' (Some hd))).
    assert (W1 : WMInv w1) by (apply (wminv_same_arenas w); auto).
    destruct (find _ _) as [[ai [ar|]]|] eqn:FD; try exact W1.
    assert (GA : get_arena w ai = Some ar).
    { apply find_some in FD. destruct FD as [Hin _]. apply in_combine_nth_error in Hin. exact Hin. }
    destruct (get (actx ar) (h_set hd)) as [so|]; try exact W1.
    destruct (sets_get (asets ar) (h_set hd)) as [sl|]; try exact W1.
    destruct (live so); try exact W1. cbn.
    intros b arb Hb.
    match type of Hb with get_arena (put_arena _ _ ?V) b = _ => change (get_arena (put_arena w1 ai V) b) with (get_arena (put_arena w ai V) b) in Hb end.
    rewrite get_arena_put in Hb by (eapply get_arena_lt; eauto).
    destruct (Nat.eqb_spec ai b); subst; [inversion Hb; subst; cbn; apply (WM b ar GA)|apply (WM b arb Hb)].
  - (* ODropH *)
    destruct (nth_error (handles w) h) as [[hd|]|]; try exact WM.
    set (w1 := set_handles w (set_nth (handles w) h None)).
    assert (W1 : WMInv w1) by (apply (wminv_same_arenas w); auto).
    destruct (find _ _) as [[ai [ar|]]|] eqn:FD; try exact W1.
    assert (GA : get_arena w ai = Some ar).
    { apply find_some in FD. destruct FD as [Hin _]. apply in_combine_nth_error in Hin. exact Hin. }
    destruct (get (actx ar) (h_set hd)) as [so|] eqn:GS; try exact W1.
    destruct (sets_get (asets ar) (h_set hd)) as [sl|]; try exact W1.
    destruct (live so); try exact W1.
    destruct (slots_dec sl (h_idx hd)) as [sl' vac]. cbn.
    intros b arb Hb.
    match type of Hb with get_arena (put_arena _ _ ?V) b = _ => change (get_arena (put_arena w1 ai V) b) with (get_arena (put_arena w ai V) b) in Hb end.
    rewrite get_arena_put in Hb by (eapply get_arena_lt; eauto).
    destruct (Nat.eqb_spec ai b); subst; [|apply (WM b arb Hb)].
    inversion Hb; subst. cbn. destruct vac; [apply minv_vacate; auto|]; apply (WM b ar GA).
Qed.

Lemma both_run ops : forall w, WInv w -> WMInv w -> WInv (run w ops) /\ WMInv (run w ops).
Proof.
  induction ops as [|o ops IH]; intros w WI WM; cbn; auto.
  apply IH; [apply step_inv; auto|apply step_minv; auto].
Qed.

Theorem wminv_reachable ops : WMInv (run world_init ops).
Proof. apply (both_run ops world_init winv_init wminv_init). Qed.

(** the Gc count equals the number of allocated, not yet released blocks *)
Theorem count_exact ops a ar :
  get_arena (run world_init ops) a = Some ar ->
  total (met (actx ar)) = N.of_nat (length (all (actx ar)))
  /\ NoDup (all (actx ar)) /\ (forall x, In x (all (actx ar)) <-> allocated (actx ar) x).
Proof.
  intros H. pose proof (wminv_reachable ops a ar H) as M. pose proof (proj1 (winv_reachable ops a ar H)) as I.
  split; [apply (m_total _ M)|]. split; [apply (i_nodup _ _ I)|apply (i_all _ _ I)].
Qed.

(** no metric update ever underflowed *)
Theorem no_underflow ops a ar : get_arena (run world_init ops) a = Some ar -> uflow (actx ar) = false.
Proof. intros H. apply (m_uflow _ (wminv_reachable ops a ar H)). Qed.

Lemma fold_sub_all (l : list id) : fold_left (fun n _ => (n - 1)%N) l (N.of_nat (length l)) = 0%N.
Proof.
  induction l as [|x t IH]; cbn [fold_left length]; auto.
  replace (N.of_nat (S (length t)) - 1)%N with (N.of_nat (length t)) by lia. exact IH.
Qed.

(** ... and the count reads zero once the arena is dropped *)
Theorem count_zero_after_drop ops a ar :
  get_arena (run world_init ops) a = Some ar -> snd (drop_arena_effect (actx ar)) = 0%N.
Proof.
  intros H. unfold drop_arena_effect. cbn [snd]. rewrite (m_total _ (wminv_reachable ops a ar H)). apply fold_sub_all.
Qed.
