(** * [MInv] through every mutator micro-op and every API operation (C10). *)
From GA Require Import Model.Spec Proofs.HeapLemmas Proofs.Inv Proofs.Recolor Proofs.InvMicro Proofs.InvStore
     Proofs.InvMark Proofs.InvSweep Proofs.InvLoop Proofs.InvBarrier Proofs.InvOps Proofs.InvMicroOps Proofs.InvWorld
     Proofs.Phases Proofs.MInv Proofs.MInvCollect.
Local Open Scope nat_scope.

Lemma minv_same c c' :
  heap c' = heap c -> pre c' = pre c -> unsw c' = unsw c -> met c' = met c -> uflow c' = uflow c -> ph c' = ph c ->
  MInv c -> MInv c'.
Proof. intros H P U M F PH. apply minv_mstable; auto. apply mstable_same; auto. Qed.

Lemma minv_add_lic c l : MInv c -> MInv (add_lic c l).
Proof. apply minv_same; reflexivity. Qed.
Lemma minv_set_rg c r v : MInv c -> MInv (set_rg c r v).
Proof. apply minv_same; reflexivity. Qed.
Lemma minv_set_wrg c r v : MInv c -> MInv (set_wrg c r v).
Proof. apply minv_same; reflexivity. Qed.

Lemma put_minv c p o o' :
  get c p = Some o -> col o' = col o -> ntr o' = ntr o -> MInv c -> MInv (put c p o').
Proof.
  intros G C N. apply minv_mstable; [reflexivity|].
  assert (EA : all (put c p o') = all c) by reflexivity.
  split; [|repeat split; auto].
  apply nblack_same_colors; auto. intros y. unfold black_ntr. rewrite (get_put c p y o' o G).
  destruct (Nat.eqb_spec p y); subst; auto. rewrite G, C, N. reflexivity.
Qed.

Lemma store_strong_minv c p o i v : get c p = Some o -> MInv c -> MInv (store_strong c p o i v).
Proof. intros G M. unfold store_strong. destruct (Nat.ltb _ _); auto. eapply put_minv; eauto. Qed.
Lemma store_weak_minv c p o i v : get c p = Some o -> MInv c -> MInv (store_weak c p o i v).
Proof. intros G M. unfold store_weak. destruct (Nat.ltb _ _); auto. eapply put_minv; eauto. Qed.
Lemma store_after_minv c p i v : MInv c -> MInv (store_after c p i v).
Proof. intros M. unfold store_after. destruct (get c p) eqn:G; auto. eapply store_strong_minv; eauto. Qed.
Lemma store_weak_after_minv c p i v : MInv c -> MInv (store_weak_after c p i v).
Proof. intros M. unfold store_weak_after. destruct (get c p) eqn:G; auto. eapply store_weak_minv; eauto. Qed.

Lemma backward_barrier_minv e c p po ch :
  Inv e c -> MInv c -> get c p = Some po -> (forall x, ch = Some x -> allocated c x) ->
  MInv (backward_barrier c p ch).
Proof.
  intros I M G HA. unfold backward_barrier. destruct (ph c) eqn:P; auto. rewrite G.
  destruct (color_eqb (col po) Black) eqn:CB; cbn [andb]; auto. apply color_eqb_eq in CB.
  destruct (ntr po) eqn:N; auto.
  destruct ch as [x|]; [|eapply make_gray_again_minv; eauto].
  destruct (HA x eq_refl) as [xo Gx]. rewrite Gx. destruct (is_whiteish (col xo)); auto.
  eapply make_gray_again_minv; eauto.
Qed.

Lemma backward_barrier_weak_minv c p po x :
  Inv None c -> MInv c -> get c p = Some po -> allocated c x -> MInv (backward_barrier_weak c p x).
Proof.
  intros I M G [xo Gx]. unfold backward_barrier_weak. destruct (ph c) eqn:P; auto. rewrite G.
  destruct (color_eqb (col po) Black) eqn:CB; cbn [andb]; auto. apply color_eqb_eq in CB.
  destruct (ntr po) eqn:N; auto. rewrite Gx. destruct (color_eqb (col xo) White); auto.
  eapply make_gray_again_minv; eauto.
Qed.

Lemma trace_minv c t o : Inv None c -> MInv c -> get c t = Some o -> MInv (trace c t).
Proof.
  intros I M G. eapply minv_mstable; [|apply (trace_metrics None c t o I G)|auto].
  unfold trace. rewrite G. destruct (col o); auto; destruct (ntr o); cbn; unfold recolor; rewrite G; auto.
Qed.

Lemma trace_weak_minv c t o : Inv None c -> MInv c -> get c t = Some o -> MInv (trace_weak c t).
Proof.
  intros I M G. eapply minv_mstable; [|apply (trace_weak_metrics None c t o I G)|auto].
  unfold trace_weak. rewrite G. destruct (col o); auto; cbn; unfold recolor; rewrite G; auto.
Qed.

Lemma forward_barrier_minv c p x xo :
  Inv None c -> MInv c -> get c x = Some xo -> MInv (forward_barrier c p x).
Proof.
  intros I M G. unfold forward_barrier. destruct (ph c); auto.
  destruct (parent_black c p) as [[|]|]; auto; [eapply trace_minv; eauto|apply (minv_same c); auto].
Qed.

Lemma forward_barrier_weak_minv c p x xo :
  Inv None c -> MInv c -> get c x = Some xo -> MInv (forward_barrier_weak c p x).
Proof.
  intros I M G. unfold forward_barrier_weak. destruct (ph c); auto.
  destruct (parent_black c p) as [[|]|]; auto; [eapply trace_weak_minv; eauto|apply (minv_same c); auto].
Qed.

Lemma gc_write_minv c p po : Inv None c -> MInv c -> get c p = Some po -> MInv (gc_write c p).
Proof.
  intros I M G. unfold gc_write. apply minv_add_lic. eapply (backward_barrier_minv None c p po None); eauto; discriminate.
Qed.

Lemma resurrect_minv c x o : Inv None c -> MInv c -> get c x = Some o -> MInv (resurrect c x).
Proof.
  intros I M G. unfold resurrect. rewrite G. destruct (is_whiteish (col o)) eqn:W; auto.
  assert (H : forall c', recol c c' x o Gray -> traced (met c') = traced (met c) -> total (met c') = total (met c) ->
              uflow c' = uflow c -> MInv c').
  { intros c' R T TT U. pose proof (nblack_recol _ _ _ _ _ _ I R) as NB.
    assert (E1 : color_eqb (col o) Black && ntr o = false) by (destruct (col o); try discriminate; reflexivity).
    rewrite E1 in NB. cbn [color_eqb andb b2n] in NB.
    destruct M as [M1 M2 M3]. constructor; [congruence|rewrite TT, (recol_all _ _ _ _ _ R); auto|].
    rewrite (rc_ph _ _ _ _ _ R), T. intros HM. specialize (M3 HM). lia. }
  destruct (col o); try discriminate.
  - apply H; [apply recol_set_met, recol_set_gray, recol_recolor; auto| | |]; cbn; unfold recolor; rewrite G; reflexivity.
  - apply H; [apply recol_set_gray, recol_recolor; auto| | |]; cbn; unfold recolor; rewrite G; reflexivity.
Qed.

Lemma link_minv c o : Inv None c -> MInv c -> col o = White -> MInv (fst (link c o)).
Proof.
  intros I [M1 M2 M3] C. constructor.
  - cbn. auto.
  - cbn. unfold all. cbn. rewrite M2. unfold all. rewrite !app_length. cbn. lia.
  - intros HM. change (ph (fst (link c o))) with (ph c) in HM. specialize (M3 HM).
    change (traced (met (fst (link c o)))) with (traced (met c)).
    assert (NB : nblack (fst (link c o)) = nblack c).
    { unfold nblack. change (all (fst (link c o))) with (length (heap c) :: all c). cbn [filter].
      assert (E0 : black_ntr (fst (link c o)) (length (heap c)) = false).
      { unfold black_ntr. rewrite get_link_new, C. reflexivity. }
      rewrite E0. apply filter_same. intros y Hy. unfold black_ntr. rewrite get_link.
      destruct (Nat.eqb_spec y (length (heap c))); auto. subst. exfalso. eapply not_allocated_new; eauto. }
    rewrite NB. exact M3.
Qed.

(** ** every micro-op *)
Lemma micro_minv w ar k m ar' hs out :
  Inv None (actx ar) -> cb_ok k (actx ar) -> MInv (actx ar) ->
  micro w ar k m = (ar', hs, out) -> MInv (actx ar').
Proof.
  intros I CB M E. destruct ar as [c uid sets]. cbn [actx auid asets] in *.
  assert (RGM : forall r v, MInv (set_rg c r v)) by (intros; apply (minv_same c); auto).
  assert (WRGM : forall r v, MInv (set_wrg c r v)) by (intros; apply (minv_same c); auto).
  destruct m; cbn [micro actx auid asets] in E.
  - destruct (link c (norm_obj k0 ns nw)) as [c1 i] eqn:EL.
    destruct (norm_obj_props k0 ns nw) as [P1 _].
    pose proof (link_minv c (norm_obj k0 ns nw) I M P1) as M1. rewrite EL in M1. cbn [fst] in M1.
    inversion E; subst. cbn [actx]. apply (minv_same c1); auto.
  - inversion E; subst; cbn [actx]; auto.
  - inversion E; subst; cbn [actx]; auto.
  - destruct (rg c p) as [pid|]; [|inversion E; subst; auto].
    destruct (get c pid) as [o|]; [|inversion E; subst; cbn [actx]; apply (minv_same c); auto].
    destruct (okind o); inversion E; subst; cbn [actx]; auto; destruct (live o); apply (minv_same c); auto.
  - destruct (rg c p) as [pid|]; [|inversion E; subst; auto].
    destruct (get c pid) as [o|]; [|inversion E; subst; cbn [actx]; apply (minv_same c); auto].
    inversion E; subst; cbn [actx]. destruct (live o); apply (minv_same c); auto.
  - (* MStore *)
    destruct (rg c p) as [pid|] eqn:RP; [|inversion E; subst; auto].
    pose proof (rg_ok _ _ _ I RP) as [o [G [L NC]]]. rewrite G in E.
    pose proof (gc_write_minv c pid o I M G) as GW.
    destruct (okind o).
    + inversion E; subst. cbn [actx]. apply store_after_minv; auto.
    + inversion E; subst. auto.
    + inversion E; subst; auto.
    + inversion E; subst. cbn [actx]. apply store_after_minv; auto.
    + match type of E with (match ?v with _ => _ end) = _ => destruct v as [x|] eqn:EV end; [|inversion E; subst; auto].
      destruct (slot_empty o 0); [|inversion E; subst; auto].
      inversion E; subst. cbn [actx].
      (* store, then barrier: the intermediate state satisfies the invariant with the tri-colour
         obligation for pid postponed, which is all the barrier's metric argument needs *)
      unfold store_strong. destruct (Nat.ltb_spec 0 (length (strong o))) as [LT|GE]; [|auto].
      set (o' := with_strong o (set_nth (strong o) 0 (Some x))).
      assert (R : reslot c (put c pid o') pid o o') by (constructor; auto).
      assert (NT : ntr o = true).
      { destruct (ntr o) eqn:N; auto. destruct (i_ntr _ _ I pid o G N) as [ES _]. rewrite ES in LT. cbn in LT. lia. }
      assert (OKX : ok_strong c x).
      { destruct c0 as [r0|]; [|discriminate]. eapply rg_ok; eauto. }
      assert (I1 : Inv (Some pid) (put c pid o')).
      { eapply (inv_reslot None (Some pid) c _ pid o o' I R).
        - rewrite NT. discriminate.
        - intros _ _. destruct (i_obj _ _ I pid o G L NC) as [A B]. split; cbn; auto.
          intros t Ht. apply in_set_nth in Ht. destruct Ht as [Et|Ht]; auto. inversion Et; subst; auto.
        - intros _ _. left; auto.
        - intros q _ _. discriminate. }
      assert (M1 : MInv (put c pid o')) by (eapply put_minv; eauto).
      assert (G1 : get (put c pid o') pid = Some o') by (apply get_put_eq; eapply get_some_lt; eauto).
      unfold gc_write. apply minv_add_lic.
      eapply (backward_barrier_minv (Some pid)); eauto. discriminate.
    + (* KStruct *)
      destruct (Nat.eqb i 1).
      * match type of E with (match ?v with _ => _ end) = _ => destruct v as [x|] end.
        -- destruct (slot_empty o 1); inversion E; subst; cbn [actx]; auto. apply store_after_minv; auto.
        -- inversion E; subst; auto.
      * inversion E; subst. cbn [actx]. apply store_after_minv; auto.
  - (* MStoreW *)
    destruct (rg c p) as [pid|] eqn:RP; [|inversion E; subst; auto].
    pose proof (rg_ok _ _ _ I RP) as [o [G [L NC]]]. rewrite G in E.
    pose proof (gc_write_minv c pid o I M G) as GW.
    destruct (okind o); inversion E; subst; cbn [actx]; auto; apply store_weak_after_minv; auto.
  - (* MOnceInit *)
    destruct (rg c p) as [pid|] eqn:RP; [|inversion E; subst; auto].
    destruct (rg c c0) as [cid|]; [|inversion E; subst; auto].
    pose proof (rg_ok _ _ _ I RP) as [o [G [L NC]]]. rewrite G in E.
    pose proof (gc_write_minv c pid o I M G) as GW.
    destruct (okind o); try (inversion E; subst; auto; fail).
    destruct (slot_empty o 0); inversion E; subst; cbn [actx]; auto. apply store_after_minv; auto.
  - destruct (root_mutable k); [|inversion E; subst; auto].
    destruct (Nat.ltb i (length (rootS c))); inversion E; subst; cbn [actx]; auto. apply (minv_same c); auto.
  - destruct (root_mutable k); [|inversion E; subst; auto].
    destruct (Nat.ltb i (length (rootW c))); inversion E; subst; cbn [actx]; auto. apply (minv_same c); auto.
  - destruct (rg c r) as [x|]; [|inversion E; subst; auto].
    destruct (get c x) as [o|]; [|inversion E; subst; cbn [actx]; apply (minv_same c); auto].
    destruct (okind o); inversion E; subst; cbn [actx]; auto.
  - destruct (wrg c w0) as [x|] eqn:WX; [|inversion E; subst; auto].
    destruct (upgrade c x) as [c1 b] eqn:EU.
    assert (c1 = c) by (pose proof (upgrade_state c x (proj1 (wrg_ok _ _ _ I WX))) as H; rewrite EU in H; exact H). subst c1.
    inversion E; subst. cbn [actx]. apply RGM.
  - destruct (wrg c w0) as [x|] eqn:WX; [|inversion E; subst; auto].
    destruct (wrg_ok _ _ _ I WX) as [[o G] _]. unfold is_dropped in E. rewrite G in E. inversion E; subst; auto.
  - (* MBarrierB *)
    destruct (rgE c p) as [pid|] eqn:RP; [|inversion E; subst; auto]. apply rgE_rg in RP.
    destruct (rg_allocated _ _ _ I RP) as [po [G _]].
    destruct c0 as [r|].
    + destruct (rgE c r) as [cid|] eqn:RC; [|inversion E; subst; auto]. apply rgE_rg in RC.
      destruct (rg_allocated _ _ _ I RC) as [co [Gc _]].
      inversion E; subst. cbn [actx]. apply minv_add_lic.
      eapply backward_barrier_minv; eauto. intros x Hx. inversion Hx; subst. eexists; eauto.
    + inversion E; subst. cbn [actx]. eapply gc_write_minv; eauto.
  - destruct (rgE c p) as [pid|] eqn:RP; [|inversion E; subst; auto]. apply rgE_rg in RP.
    destruct (wrg c w0) as [x|] eqn:WX; [|inversion E; subst; auto].
    destruct (rg_allocated _ _ _ I RP) as [po [G _]].
    inversion E; subst. cbn [actx]. apply minv_add_lic.
    eapply backward_barrier_weak_minv; eauto. apply (proj1 (wrg_ok _ _ _ I WX)).
  - destruct (rgE c c0) as [cid|] eqn:RC; [|inversion E; subst; auto]. apply rgE_rg in RC.
    destruct (rg_allocated _ _ _ I RC) as [co [Gc Lc]].
    destruct p as [pr|].
    + destruct (rgE c pr) as [pid|]; [|inversion E; subst; auto].
      inversion E; subst. cbn [actx]. apply minv_add_lic. eapply forward_barrier_minv; eauto.
    + inversion E; subst. cbn [actx]. apply minv_add_lic. eapply forward_barrier_minv; eauto.
  - destruct (wrg c w0) as [x|] eqn:WX; [|inversion E; subst; auto].
    destruct (proj1 (wrg_ok _ _ _ I WX)) as [xo Gx].
    destruct p as [pr|].
    + destruct (rgE c pr) as [pid|]; [|inversion E; subst; auto].
      inversion E; subst. cbn [actx]. apply minv_add_lic. eapply forward_barrier_weak_minv; eauto.
    + inversion E; subst. cbn [actx]. apply minv_add_lic. eapply forward_barrier_weak_minv; eauto.
  - destruct (rg c p) as [pid|] eqn:RP; [|inversion E; subst; auto].
    destruct (rg c c0) as [cid|]; [|inversion E; subst; auto].
    destruct (get c pid) as [o|] eqn:G; [|inversion E; subst; cbn [actx]; apply (minv_same c); auto].
    destruct (okind o); try (inversion E; subst; auto; fail).
    destruct (_ || _ || _); inversion E; subst; cbn [actx]; auto. eapply store_strong_minv; eauto.
  - destruct (rg c p) as [pid|] eqn:RP; [|inversion E; subst; auto].
    destruct (wrg c w0) as [x|]; [|inversion E; subst; auto].
    destruct (get c pid) as [o|] eqn:G; [|inversion E; subst; cbn [actx]; apply (minv_same c); auto].
    destruct (okind o); try (inversion E; subst; auto; fail).
    destruct (_ || _ || _ || _ || _); inversion E; subst; cbn [actx]; auto. eapply store_weak_minv; eauto.
  - (* MStash *)
    destruct (rg c s) as [sid|] eqn:RS; [|inversion E; subst; auto].
    destruct (rg c c0) as [cid|] eqn:RC; [|inversion E; subst; auto].
    destruct (nth_error (handles w) h) as [[hd|]|]; try (inversion E; subst; auto; fail).
    pose proof (rg_ok _ _ _ I RS) as [so [G [L NC]]]. rewrite G in E.
    destruct (sets_get sets sid) as [sl|]; [|inversion E; subst; auto].
    destruct (okind so); try (inversion E; subst; auto; fail).
    destruct (live so && ntr so && negb _); [|inversion E; subst; auto].
    destruct (rg_allocated _ _ _ I RC) as [co [Gc _]].
    assert (M1 : MInv (add_lic (backward_barrier c sid (Some cid)) (LPair sid cid))).
    { apply minv_add_lic. eapply backward_barrier_minv; eauto. intros x Hx. inversion Hx; subst. eexists; eauto. }
    destruct (slots_add sl) as [[sl' idx] grew].
    destruct (get (add_lic (backward_barrier c sid (Some cid)) (LPair sid cid)) sid) as [so1|] eqn:G1; [|inversion E; subst; auto].
    inversion E; subst. cbn [actx]. eapply put_minv; eauto.
  - destruct (rg c s) as [sid|]; [|inversion E; subst; auto].
    destruct (nth_error (handles w) h) as [[hd|]|]; try (inversion E; subst; auto; fail).
    destruct (get c sid) as [so|]; [|inversion E; subst; cbn [actx]; apply (minv_same c); auto].
    destruct (okind so); try (inversion E; subst; auto; fail).
    destruct (live so); [|inversion E; subst; auto].
    destruct (_ && _); [|inversion E; subst; auto].
    match type of E with (if ?b then _ else _) = _ => destruct b end; inversion E; subst; cbn [actx]; auto.
  - destruct (is_finalize k); [|inversion E; subst; auto].
    destruct (rgE c r) as [x|] eqn:RX; [|inversion E; subst; auto]. apply rgE_rg in RX.
    destruct (rg_allocated _ _ _ I RX) as [o [G _]]. unfold is_dead in E. rewrite G in E. inversion E; subst; auto.
  - destruct (is_finalize k); [|inversion E; subst; auto].
    destruct (wrg c w0) as [x|] eqn:WX; [|inversion E; subst; auto].
    destruct (wrg_ok _ _ _ I WX) as [[o G] _]. unfold is_dead in E. rewrite G in E. inversion E; subst; auto.
  - destruct (is_finalize k); [|inversion E; subst; auto].
    destruct (rgE c r) as [x|] eqn:RX; [|inversion E; subst; auto]. apply rgE_rg in RX.
    destruct (rg_allocated _ _ _ I RX) as [o [G _]]. inversion E; subst. cbn [actx]. eapply resurrect_minv; eauto.
  - destruct (is_finalize k); [|inversion E; subst; auto].
    destruct (wrg c w0) as [x|] eqn:WX; [|inversion E; subst; auto].
    destruct (wrg_ok _ _ _ I WX) as [[o G] _]. rewrite G in E.
    destruct (live o); inversion E; subst; cbn [actx]; auto.
    apply minv_set_rg. eapply resurrect_minv; eauto.
  - inversion E; subst; cbn [actx]; auto.
  - inversion E; subst; cbn [actx]; auto.
  - inversion E; subst; cbn [actx]; auto.
  - destruct (rg c r1), (rg c r2); inversion E; subst; auto.
  - (* MAllocWith *)
    match type of E with context [init_obj ?kk ?ss ?ww] => destruct (init_obj kk ss ww) as [o|] eqn:IO end; [|inversion E; subst; auto].
    assert (CW : col o = White) by (destruct k0; cbn in IO; try discriminate; inversion IO; reflexivity).
    destruct (link c o) as [c1 i] eqn:EL.
    pose proof (link_minv c o I M CW) as M1. rewrite EL in M1. cbn [fst] in M1.
    inversion E; subst. cbn [actx]. apply (minv_same c1); auto.
Qed.
