(** * [micro]: every mutator micro-op preserves [Inv] and leaves phase / root flag alone. *)
From GA Require Import Model.Spec Proofs.HeapLemmas Proofs.Inv Proofs.Recolor Proofs.InvMicro Proofs.InvStore
     Proofs.InvMark Proofs.InvSweep Proofs.InvLoop Proofs.InvBarrier Proofs.InvOps.
Local Open Scope nat_scope.

Ltac keep_case E := inversion E; subst; split; [assumption|apply stable_refl].

Lemma stable_set_rg c r v : stable c (set_rg c r v).
Proof. split; reflexivity. Qed.
Lemma stable_set_wrg c r v : stable c (set_wrg c r v).
Proof. split; reflexivity. Qed.
Lemma stable_add_lic c l : stable c (add_lic c l).
Proof. split; reflexivity. Qed.

Lemma rg_allocated c r x : Inv None c -> rg c r = Some x -> exists o, get c x = Some o /\ live o = true.
Proof. intros I H. apply ok_strong_get. eapply rg_ok; eauto. Qed.

Lemma micro_inv w ar k m ar' hs out :
  Inv None (actx ar) -> cb_ok k (actx ar) ->
  micro w ar k m = (ar', hs, out) ->
  Inv None (actx ar') /\ stable (actx ar) (actx ar').
Proof.
  intros I CB E. destruct ar as [c uid sets]. cbn [actx auid asets] in *.
  destruct m; cbn [micro actx auid asets] in E.
  - (* MAlloc *)
    destruct (link c (norm_obj k0 ns nw)) as [c1 i] eqn:EL.
    destruct (norm_obj_props k0 ns nw) as [P1 [P2 [P3 [P4 P5]]]].
    destruct (inv_link c (norm_obj k0 ns nw) I P1 P2 (fun t H => False_ind _ (P3 t H)) (fun t H => False_ind _ (P4 t H)) P5) as [I1 OK1].
    rewrite EL in I1, OK1. cbn [fst snd] in I1, OK1.
    inversion E; subst. cbn [actx]. split.
    + apply inv_set_rg; auto. intros t Ht. inversion Ht; subst. auto.
    + assert (c1 = fst (link c (norm_obj k0 ns nw))) by (rewrite EL; reflexivity). subst c1. split; reflexivity.
  - (* MLoadRoot *)
    inversion E; subst. cbn [actx]. split; [|apply stable_set_rg].
    apply inv_set_rg; auto. intros t Ht. apply (i_root _ _ I). eapply opt_join_nth_in; eauto.
  - (* MLoadRootW *)
    inversion E; subst. cbn [actx]. split; [|apply stable_set_wrg].
    apply inv_set_wrg; auto. intros t Ht. apply (i_root _ _ I). eapply opt_join_nth_in; eauto.
  - (* MLoad *)
    destruct (rg c p) as [pid|] eqn:RP; [|keep_case E].
    pose proof (rg_ok _ _ _ I RP) as OKP. destruct OKP as [o [G [L NC]]]. rewrite G in E.
    destruct (okind o); try (keep_case E); rewrite L in E; inversion E; subst; cbn [actx];
      (split; [|apply stable_set_rg]; apply inv_set_rg; auto; intros t Ht;
       apply (i_obj _ _ I pid o G L NC); eapply opt_join_nth_in; eauto).
  - (* MLoadW *)
    destruct (rg c p) as [pid|] eqn:RP; [|keep_case E].
    pose proof (rg_ok _ _ _ I RP) as OKP. destruct OKP as [o [G [L NC]]]. rewrite G, L in E.
    inversion E; subst; cbn [actx]. split; [|apply stable_set_wrg]. apply inv_set_wrg; auto; intros t Ht.
    apply (i_obj _ _ I pid o G L NC); eapply opt_join_nth_in; eauto.
  - (* MStore *)
    destruct (rg c p) as [pid|] eqn:RP; [|keep_case E].
    pose proof (rg_ok _ _ _ I RP) as OKP. destruct OKP as [o [G [L NC]]]. rewrite G in E.
    set (v := match c0 with Some r => rg c r | None => None end) in *.
    assert (HV : forall x, v = Some x -> exists r', rg c r' = Some x).
    { intros x Hx. unfold v in Hx. destruct c0; [eauto|discriminate]. }
    assert (WS : forall j, Inv None (store_after (gc_write c pid) pid j v) /\ stable c (store_after (gc_write c pid) pid j v)).
    { intros j. destruct (write_store_inv c p pid o j v I RP G HV) as [A [B _]]. auto. }
    assert (GW : Inv None (gc_write c pid) /\ stable c (gc_write c pid)).
    { destruct (gc_write_inv c pid o I G) as [A [B _]]. auto. }
    destruct (okind o).
    + inversion E; subst. apply WS.
    + inversion E; subst. apply GW.
    + keep_case E.
    + inversion E; subst. apply WS.
    + (* KOnce: store, then barrier *)
      destruct v as [x|] eqn:EV; [|keep_case E].
      destruct (slot_empty o 0) eqn:SE; [|inversion E; subst; split; [auto|apply stable_refl]].
      inversion E; subst. cbn [actx]. clear E.
      destruct (HV x eq_refl) as [r' Hr'].
      pose proof (rg_ok _ _ _ I Hr') as OKX.
      (* the store, with the tri-colour obligation for pid postponed *)
      unfold store_strong.
      destruct (Nat.ltb_spec 0 (length (strong o))) as [LT|GE].
      2:{ destruct (gc_write_inv c pid o I G) as [A [B _]]. auto. }
      set (o' := with_strong o (set_nth (strong o) 0 (Some x))).
      assert (R : reslot c (put c pid o') pid o o') by (constructor; auto).
      assert (NT : ntr o = true).
      { destruct (ntr o) eqn:N; auto. destruct (i_ntr _ _ I pid o G N) as [ES _]. rewrite ES in LT. cbn in LT. lia. }
      assert (I1 : Inv (Some pid) (put c pid o')).
      { eapply (inv_reslot None (Some pid) c _ pid o o' I R).
        - rewrite NT. discriminate.
        - intros _ _. destruct (i_obj _ _ I pid o G L NC) as [A B]. split; cbn; auto.
          intros t Ht. apply in_set_nth in Ht. destruct Ht as [Et|Ht]; auto. inversion Et; subst; auto.
        - intros _ _. left; auto.
        - intros q _ _. discriminate. }
      set (c1 := put c pid o') in *.
      assert (G1 : get c1 pid = Some o') by (unfold c1; apply get_put_eq; eapply get_some_lt; eauto).
      (* now the barrier *)
      unfold gc_write, backward_barrier. change (ph c1) with (ph c).
      destruct (ph c) eqn:P.
      * split; [|split; reflexivity]. apply inv_add_lic; [|apply lic_ok_not_mark; cbn; rewrite P; discriminate].
        apply (inv_unexempt' pid); auto. change (ph c1) with (ph c). rewrite P. discriminate.
      * rewrite G1. cbn [col ntr with_strong o']. rewrite NT.
        destruct (color_eqb (col o) Black) eqn:CBk; cbn [andb].
        -- apply color_eqb_eq in CBk.
           destruct (make_gray_again_inv (Some pid) c1 pid o' I1 P G1 CBk (or_intror eq_refl)) as [I2 [F2 _]].
           split.
           ++ apply inv_add_lic; auto. intros _. cbn.
              intros o2 G2 [B2 _].
              assert (In pid (gray (make_gray_again c1 pid) ++ gray_again (make_gray_again c1 pid))).
              { unfold make_gray_again. cbn. destruct (N.eqb _ 0); cbn; rewrite in_app_iff; right; left; auto. }
              apply (i_gray _ _ I2) in H. destruct H as [o3 [G3 C3]]. congruence.
           ++ eapply stable_trans; [|apply stable_add_lic]. apply frame_stable in F2.
              destruct F2 as [A B]. split; [rewrite A|rewrite B]; reflexivity.
        -- split; [|split; reflexivity]. apply inv_add_lic.
           ++ apply (inv_unexempt' pid); auto. intros _ o2 G2 B2. rewrite G1 in G2. inversion G2; subst o2.
              cbn in B2. rewrite B2 in CBk. discriminate.
           ++ intros _. cbn. intros o2 G2 [B2 _]. change (get (put c pid o') pid) with (get c1 pid) in G2.
              rewrite G1 in G2. inversion G2; subst o2. cbn in B2. rewrite B2 in CBk. discriminate.
      * split; [|split; reflexivity]. apply inv_add_lic; [|apply lic_ok_not_mark; cbn; rewrite P; discriminate].
        apply (inv_unexempt' pid); auto. change (ph c1) with (ph c). rewrite P. discriminate.
    + (* KStruct *)
      destruct (Nat.eqb i 1).
      * destruct v as [x|] eqn:EV.
        -- destruct (slot_empty o 1); inversion E; subst; [apply WS|apply GW].
        -- inversion E; subst. apply GW.
      * inversion E; subst. apply WS.
  - (* MStoreW *)
    destruct (rg c p) as [pid|] eqn:RP; [|keep_case E].
    pose proof (rg_ok _ _ _ I RP) as OKP. destruct OKP as [o [G [L NC]]]. rewrite G in E.
    set (v := match w0 with Some r => wrg c r | None => None end) in *.
    assert (HV : forall x, v = Some x -> exists r', wrg c r' = Some x).
    { intros x Hx. unfold v in Hx. destruct w0; [eauto|discriminate]. }
    destruct (okind o); try (keep_case E); inversion E; subst; cbn [actx];
      destruct (write_store_weak_inv c p pid o i v I RP G HV) as [A [B _]]; auto.
  - (* MOnceInit *)
    destruct (rg c p) as [pid|] eqn:RP; [|keep_case E].
    destruct (rg c c0) as [cid|] eqn:RC; [|keep_case E].
    pose proof (rg_ok _ _ _ I RP) as OKP. destruct OKP as [o [G [L NC]]]. rewrite G in E.
    destruct (okind o); try (keep_case E).
    destruct (slot_empty o 0); [|inversion E; subst; split; [auto|apply stable_refl]].
    inversion E; subst. cbn [actx].
    destruct (write_store_inv c p pid o 0 (Some cid) I RP G) as [A [B _]]; auto.
    intros x Hx. inversion Hx; subst. eauto.
  - (* MRootSet *)
    destruct CB as [CB1 CB2].
    destruct (root_mutable k) eqn:RM; [|keep_case E].
    destruct (Nat.ltb i (length (rootS c))); [|keep_case E].
    inversion E; subst. cbn [actx]. split; [|split; reflexivity].
    apply inv_set_root; auto. destruct (i_root _ _ I) as [A B]. split; auto.
    intros t Ht. apply in_set_nth in Ht. destruct Ht as [Et|Ht]; auto.
    destruct c0 as [r|]; [|discriminate]. eapply rg_ok; eauto.
  - (* MRootSetW *)
    destruct CB as [CB1 CB2].
    destruct (root_mutable k) eqn:RM; [|keep_case E].
    destruct (Nat.ltb i (length (rootW c))); [|keep_case E].
    inversion E; subst. cbn [actx]. split; [|split; reflexivity].
    apply inv_set_root; auto. destruct (i_root _ _ I) as [A B]. split; auto.
    intros t Ht. apply in_set_nth in Ht. destruct Ht as [Et|Ht]; auto.
    destruct w0 as [r|]; [|discriminate]. eapply wrg_ok; eauto.
  - (* MDowngrade *)
    destruct (rg c r) as [x|] eqn:RX; [|keep_case E].
    pose proof (rg_ok _ _ _ I RX) as OKX. destruct (ok_strong_get _ _ OKX) as [o [G L]]. rewrite G in E.
    destruct (okind o); try (keep_case E); inversion E; subst; cbn [actx];
      (split; [|apply stable_set_wrg]; apply inv_set_wrg; auto; intros t Ht; inversion Ht; subst;
       apply ok_strong_weak; auto).
  - (* MUpgrade *)
    destruct (wrg c w0) as [x|] eqn:WX; [|keep_case E].
    pose proof (wrg_ok _ _ _ I WX) as OKX.
    destruct (upgrade c x) as [c1 b] eqn:EU.
    assert (c1 = c) by (pose proof (upgrade_state c x (proj1 OKX)) as H; rewrite EU in H; exact H). subst c1.
    inversion E; subst. cbn [actx]. split; [|apply stable_set_rg].
    apply inv_set_rg; auto. intros t Ht. destruct b; [|discriminate]. inversion Ht; subst.
    destruct (upgrade_ok c t I OKX) as [A _]; auto. rewrite EU. reflexivity.
  - (* MIsDropped *)
    destruct (wrg c w0) as [x|] eqn:WX; [|keep_case E].
    destruct (wrg_ok _ _ _ I WX) as [[o G] _]. unfold is_dropped in E. rewrite G in E.
    inversion E; subst. split; [auto|apply stable_refl].
  - (* MBarrierB *)
    destruct (rgE c p) as [pid|] eqn:RP; [|keep_case E]. apply rgE_rg in RP.
    destruct (rg_allocated _ _ _ I RP) as [po [G _]].
    destruct c0 as [r|].
    + destruct (rgE c r) as [cid|] eqn:RC; [|keep_case E]. apply rgE_rg in RC.
      destruct (rg_allocated _ _ _ I RC) as [co [Gc _]].
      destruct (backward_barrier_inv_none c pid po (Some cid) I G) as [I1 [F1 [L1 _]]].
      { intros x Hx. inversion Hx; subst. eexists; eauto. }
      inversion E; subst. cbn [actx]. split; [apply inv_add_lic; auto|].
      eapply stable_trans; [apply frame_stable; eauto|apply stable_add_lic].
    + inversion E; subst. cbn [actx]. destruct (gc_write_inv c pid po I G) as [A [B _]]. auto.
  - (* MBarrierBW *)
    destruct (rgE c p) as [pid|] eqn:RP; [|keep_case E]. apply rgE_rg in RP.
    destruct (wrg c w0) as [x|] eqn:WX; [|keep_case E].
    destruct (rg_allocated _ _ _ I RP) as [po [G _]].
    destruct (backward_barrier_weak_inv c pid po x I G (proj1 (wrg_ok _ _ _ I WX))) as [I1 [F1 [L1 _]]].
    inversion E; subst. cbn [actx]. split; [apply inv_add_lic; auto|].
    eapply stable_trans; [apply frame_stable; eauto|apply stable_add_lic].
  - (* MBarrierF *)
    destruct (rgE c c0) as [cid|] eqn:RC; [|keep_case E]. apply rgE_rg in RC.
    destruct (rg_allocated _ _ _ I RC) as [co [Gc Lc]].
    destruct p as [pr|].
    + destruct (rgE c pr) as [pid|] eqn:RP; [|keep_case E]. apply rgE_rg in RP.
      destruct (rg_allocated _ _ _ I RP) as [po [G _]].
      destruct (forward_barrier_inv c (Some pid) cid co I Gc Lc) as [I1 [F1 [L1 _]]].
      { intros q Hq. inversion Hq; subst. eexists; eauto. }
      inversion E; subst. cbn [actx]. split; [apply inv_add_lic; auto|].
      eapply stable_trans; [apply frame_stable; eauto|apply stable_add_lic].
    + destruct (forward_barrier_inv c None cid co I Gc Lc) as [I1 [F1 [L1 _]]]; [discriminate|].
      inversion E; subst. cbn [actx]. split; [apply inv_add_lic; auto|].
      eapply stable_trans; [apply frame_stable; eauto|apply stable_add_lic].
  - (* MBarrierFW *)
    destruct (wrg c w0) as [x|] eqn:WX; [|keep_case E].
    pose proof (proj1 (wrg_ok _ _ _ I WX)) as AX.
    destruct p as [pr|].
    + destruct (rgE c pr) as [pid|] eqn:RP; [|keep_case E]. apply rgE_rg in RP.
      destruct (rg_allocated _ _ _ I RP) as [po [G _]].
      destruct (forward_barrier_weak_inv c (Some pid) x I AX) as [I1 [F1 [L1 _]]].
      { intros q Hq. inversion Hq; subst. eexists; eauto. }
      inversion E; subst. cbn [actx]. split; [apply inv_add_lic; auto|].
      eapply stable_trans; [apply frame_stable; eauto|apply stable_add_lic].
    + destruct (forward_barrier_weak_inv c None x I AX) as [I1 [F1 [L1 _]]]; [discriminate|].
      inversion E; subst. cbn [actx]. split; [apply inv_add_lic; auto|].
      eapply stable_trans; [apply frame_stable; eauto|apply stable_add_lic].
  - (* MRawStore *)
    destruct (rg c p) as [pid|] eqn:RP; [|keep_case E].
    destruct (rg c c0) as [cid|] eqn:RC; [|keep_case E].
    pose proof (rg_ok _ _ _ I RP) as OKP. destruct (ok_strong_get _ _ OKP) as [o [G L]]. rewrite G in E.
    destruct (okind o); try (keep_case E).
    destruct (has_lic c (LParent pid) || has_lic c (LChild cid) || has_lic c (LPair pid cid)) eqn:HL;
      [|inversion E; subst; split; [auto|apply stable_refl]].
    inversion E; subst. cbn [actx].
    destruct (store_strong_inv c pid o i (Some cid) I G OKP) as [A [B _]]; auto.
    + intros x Hx. inversion Hx; subst. eapply rg_ok; eauto.
    + intros HM. apply orb_true_iff in HL. destruct HL as [HL|HL]; [apply orb_true_iff in HL; destruct HL as [HL|HL]|].
      * left. apply (has_lic_ok _ _ I HL HM).
      * right. intros x Hx. inversion Hx; subst. apply (has_lic_ok _ _ I HL HM).
      * destruct (has_lic_ok _ _ I HL HM) as [U|T]; [left; auto|right]. intros x Hx. inversion Hx; subst. auto.
  - (* MRawStoreW *)
    destruct (rg c p) as [pid|] eqn:RP; [|keep_case E].
    destruct (wrg c w0) as [x|] eqn:WX; [|keep_case E].
    pose proof (rg_ok _ _ _ I RP) as OKP. destruct (ok_strong_get _ _ OKP) as [o [G L]]. rewrite G in E.
    destruct (okind o); try (keep_case E).
    destruct (has_lic c (LParent pid) || has_lic c (LChildW x) || has_lic c (LPairW pid x)
              || has_lic c (LChild x) || has_lic c (LPair pid x)) eqn:HL;
      [|inversion E; subst; split; [auto|apply stable_refl]].
    inversion E; subst. cbn [actx].
    destruct (store_weak_inv c pid o i (Some x) I G OKP) as [A [B _]]; auto.
    + intros y Hy. inversion Hy; subst. eapply wrg_ok; eauto.
    + intros HM. repeat (apply orb_true_iff in HL; destruct HL as [HL|HL]).
      * left. apply (has_lic_ok _ _ I HL HM).
      * right. intros y Hy. inversion Hy; subst. apply (has_lic_ok _ _ I HL HM).
      * destruct (has_lic_ok _ _ I HL HM) as [U|T]; [left; auto|right]. intros y Hy. inversion Hy; subst. auto.
      * right. intros y Hy. inversion Hy; subst. apply tstrong_tweak. apply (has_lic_ok _ _ I HL HM).
      * destruct (has_lic_ok _ _ I HL HM) as [U|T]; [left; auto|right]. intros y Hy. inversion Hy; subst.
        apply tstrong_tweak; auto.
  - (* MStash *)
    destruct (rg c s) as [sid|] eqn:RS; [|keep_case E].
    destruct (rg c c0) as [cid|] eqn:RC; [|keep_case E].
    destruct (nth_error (handles w) h) as [[hd|]|] eqn:NH; try (keep_case E).
    pose proof (rg_ok _ _ _ I RS) as OKS. destruct (ok_strong_get _ _ OKS) as [so [G L]]. rewrite G in E.
    destruct (sets_get sets sid) as [sl|]; [|keep_case E].
    destruct (okind so); try (keep_case E).
    destruct (live so && ntr so && negb _) eqn:T; [|keep_case E].
    apply andb_true_iff in T. destruct T as [T _]. apply andb_true_iff in T. destruct T as [_ NT].
    destruct (rg_allocated _ _ _ I RC) as [co [Gc Lc]].
    destruct (backward_barrier_inv_none c sid so (Some cid) I G) as [I1 [F1 [L1 [_ [_ S1]]]]].
    { intros x Hx. inversion Hx; subst. eexists; eauto. }
    set (c1 := add_lic (backward_barrier c sid (Some cid)) (LPair sid cid)) in *.
    assert (I1' : Inv None c1) by (apply inv_add_lic; auto).
    assert (ST1 : stable c c1).
    { eapply stable_trans; [apply frame_stable; eauto|apply stable_add_lic]. }
    assert (RG1 : forall r, rg c1 r = rg c r).
    { intros r. unfold rg, c1. cbn. rewrite (f_regs _ _ F1). reflexivity. }
    destruct (slots_add sl) as [[sl' idx] grew].
    destruct (get c1 sid) as [so1|] eqn:G1; [|keep_case E].
    inversion E; subst. cbn [actx]. clear E.
    assert (OKS1 : ok_strong c1 sid) by (eapply rg_ok; eauto; rewrite RG1; eauto).
    assert (OKC1 : ok_strong c1 cid) by (eapply rg_ok; eauto; rewrite RG1; eauto).
    assert (NT1 : ntr so1 = true).
    { specialize (S1 sid). rewrite G in S1. change (get (backward_barrier c sid (Some cid)) sid) with (get c1 sid) in S1.
      rewrite G1 in S1. destruct S1 as [_ [_ [_ [N _]]]]. congruence. }
    set (st := if grew then strong so1 ++ [Some cid] else set_nth (strong so1) idx (Some cid)).
    set (o' := with_strong so1 st).
    assert (R : reslot c1 (put c1 sid o') sid so1 o') by (constructor; auto).
    assert (INST : forall t, In (Some t) st -> t = cid \/ In (Some t) (strong so1)).
    { intros t Ht. unfold st in Ht. destruct grew.
      - rewrite in_app_iff in Ht. destruct Ht as [Ht|[Ht|[]]]; auto. inversion Ht; auto.
      - apply in_set_nth in Ht. destruct Ht as [Ht|Ht]; auto. inversion Ht; auto. }
    split; [|eapply stable_trans; [eauto|split; reflexivity]].
    eapply (inv_reslot None None c1 _ sid so1 o' I1' R).
    + rewrite NT1. discriminate.
    + intros L1' NC1. destruct (i_obj _ _ I1' sid so1 G1 L1' NC1) as [A B]. split; cbn; auto.
      intros t Ht. destruct (INST t Ht) as [->|Ht']; auto.
    + intros HM B. right. destruct (i_tri _ _ I1' HM sid so1 G1 B ltac:(discriminate)) as [A B']. split; cbn; auto.
      intros t Ht. destruct (INST t Ht) as [->|Ht']; auto.
      assert (LK : lic_ok c1 (LPair sid cid)).
      { pose proof (i_lics _ _ I1') as FL. unfold c1 in FL. cbn in FL. inversion FL; subst. auto. }
      destruct (LK HM) as [U|T]; auto. exfalso. apply (U so1 G1). auto.
    + auto.
  - (* MFetch *)
    destruct (rg c s) as [sid|] eqn:RS; [|keep_case E].
    destruct (nth_error (handles w) h) as [[hd|]|] eqn:NH; try (keep_case E).
    pose proof (rg_ok _ _ _ I RS) as OKS. destruct OKS as [so [G [L NC]]]. rewrite G in E.
    destruct (okind so); try (keep_case E). rewrite L in E.
    destruct (Nat.eqb (h_uid hd) uid && Nat.eqb (h_set hd) sid) eqn:OK;
      [|inversion E; subst; cbn [actx]; split; [auto|apply stable_refl]].
    match type of E with (if ?b then _ else _) = _ => destruct b eqn:EX end; inversion E; subst; cbn [actx]; [|split; [auto|apply stable_refl]].
    split; [|apply stable_set_rg]. apply inv_set_rg; auto. intros t Ht. inversion Ht; subst.
    apply existsb_exists in EX. destruct EX as [[y|] [Hin Hy]]; [|discriminate]. apply Nat.eqb_eq in Hy. subst y.
    apply (i_obj _ _ I sid so G L NC). exact Hin.
  - (* MIsDead *)
    destruct (is_finalize k); [|keep_case E].
    destruct (rgE c r) as [x|] eqn:RX; [|keep_case E]. apply rgE_rg in RX.
    destruct (rg_allocated _ _ _ I RX) as [o [G _]]. unfold is_dead in E. rewrite G in E.
    inversion E; subst. split; [auto|apply stable_refl].
  - (* MIsDeadW *)
    destruct (is_finalize k); [|keep_case E].
    destruct (wrg c w0) as [x|] eqn:WX; [|keep_case E].
    destruct (wrg_ok _ _ _ I WX) as [[o G] _]. unfold is_dead in E. rewrite G in E.
    inversion E; subst. split; [auto|apply stable_refl].
  - (* MResurrect *)
    destruct CB as [_ CB2].
    destruct (is_finalize k) eqn:FK; [|keep_case E].
    destruct (rgE c r) as [x|] eqn:RX; [|keep_case E]. apply rgE_rg in RX.
    destruct (rg_allocated _ _ _ I RX) as [o [G L]].
    destruct (resurrect_inv c x o I (CB2 eq_refl) G L) as [I1 [F1 _]].
    inversion E; subst. cbn [actx]. split; [auto|apply frame_stable; auto].
  - (* MResurrectW *)
    destruct CB as [_ CB2].
    destruct (is_finalize k) eqn:FK; [|keep_case E].
    destruct (wrg c w0) as [x|] eqn:WX; [|keep_case E].
    destruct (wrg_ok _ _ _ I WX) as [[o G] _]. rewrite G in E.
    destruct (live o) eqn:L; inversion E; subst; cbn [actx].
    + destruct (resurrect_inv c x o I (CB2 eq_refl) G L) as [I1 [F1 M1]].
      split; [|eapply stable_trans; [apply frame_stable; eauto|apply stable_set_rg]].
      apply inv_set_rg; auto. intros t Ht. inversion Ht; subst.
      specialize (M1 t). rewrite G in M1. destruct (get (resurrect c t) t) as [o1|] eqn:G1; [|contradiction].
      exists o1. split; auto. split; [destruct M1 as [_ [_ [L1 _]]]; congruence|].
      eapply not_condemned_nosweep; eauto. rewrite (f_ph _ _ F1), (CB2 eq_refl). discriminate.
    + split; [|apply stable_set_rg]. apply inv_set_rg; auto. intros t Ht; discriminate.
  - (* MMove *)
    inversion E; subst. cbn [actx]. split; [|apply stable_set_rg]. apply inv_set_rg; auto.
    intros t Ht. eapply rg_ok; eauto.
  - (* MClear *)
    inversion E; subst. cbn [actx]. split; [|apply stable_set_rg]. apply inv_set_rg; auto. intros t Ht; discriminate.
  - (* MClearW *)
    inversion E; subst. cbn [actx]. split; [|apply stable_set_wrg]. apply inv_set_wrg; auto. intros t Ht; discriminate.
  - (* MPtrEq *)
    destruct (rg c r1), (rg c r2); inversion E; subst; split; auto using stable_refl.
  - (* MAllocWith *)
    match type of E with context [init_obj ?kk ?ss ?ww] => destruct (init_obj kk ss ww) as [o|] eqn:IO end; [|keep_case E].
    destruct (init_obj_props _ _ _ _ IO) as [P1 [P2 [P3 [_ [_ [P4 P5]]]]]].
    destruct (link c o) as [c1 i] eqn:EL.
    assert (HS : forall t, In (Some t) (strong o) -> ok_strong c t).
    { intros t Ht. apply P4, in_map_rg in Ht. destruct Ht as [r' Hr]. eapply rg_ok; eauto. }
    assert (HW : forall t, In (Some t) (weak o) -> ok_weak c t).
    { intros t Ht. apply P5, in_map_wrg in Ht. destruct Ht as [r' Hr]. eapply wrg_ok; eauto. }
    destruct (inv_link c o I P1 P2 HS HW ltac:(intros N; rewrite P3 in N; discriminate)) as [I1 OK1].
    rewrite EL in I1, OK1. cbn [fst snd] in I1, OK1.
    inversion E; subst. cbn [actx]. split.
    + apply inv_set_rg; auto. intros t Ht. inversion Ht; subst. auto.
    + assert (c1 = fst (link c o)) by (rewrite EL; reflexivity). subst c1. split; reflexivity.
Qed.
