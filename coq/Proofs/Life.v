(** * Lifetime accounting (C04): the life state of every id and the event history of an arena. *)
From GA Require Import Model.Spec Proofs.HeapLemmas Proofs.Once.
Local Open Scope nat_scope.

(** (number of destructor runs, number of releases) that the history of an arena must show for id [x] *)
Definition lstate (c : ctx) (x : id) : nat * nat :=
  match get c x with
  | Some o => if live o then (0, 0) else (1, 0)
  | None => if Nat.ltb x (length (heap c)) then (1, 1) else (0, 0)
  end.

Definition HistOK (c : ctx) (H : list event) : Prop :=
  forall x, count (EvDrop x) H = fst (lstate c x) /\ count (EvFree x) H = snd (lstate c x).

(** operations that neither destruct nor release anything leave every life state alone *)
Definition LS (c c' : ctx) : Prop := forall x, lstate c' x = lstate c x.

Lemma ls_refl c : LS c c.
Proof. intros x; reflexivity. Qed.
Lemma ls_trans a b c : LS a b -> LS b c -> LS a c.
Proof. intros H1 H2 x. rewrite H2. apply H1. Qed.
Lemma ls_same_heap c c' : heap c' = heap c -> LS c c'.
Proof. intros H x. unfold lstate, get. rewrite H. reflexivity. Qed.
Lemma ls_heap_of c c1 c' : LS c c1 -> heap c' = heap c1 -> LS c c'.
Proof. intros K H. eapply ls_trans; [exact K|apply ls_same_heap; auto]. Qed.

Lemma ls_put c p o o' : get c p = Some o -> live o' = live o -> LS c (put c p o').
Proof.
  intros G L x. unfold lstate. rewrite (get_put c p x o' o G).
  assert (EL : length (heap (put c p o')) = length (heap c)) by (unfold put; cbn; apply hset_length).
  rewrite EL. destruct (Nat.eqb_spec p x) as [->|N]; [rewrite G, L; reflexivity|reflexivity].
Qed.

Lemma ls_recolor c x k : LS c (recolor c x k).
Proof. unfold recolor. destruct (get c x) as [o|] eqn:G; [eapply ls_put; eauto|apply ls_same_heap; reflexivity]. Qed.

Lemma ls_make_gray_again c p : LS c (make_gray_again c p).
Proof.
  unfold make_gray_again. apply (ls_heap_of c (recolor c p Gray)); [apply ls_recolor|]. destruct (N.eqb _ 0); reflexivity.
Qed.

Lemma ls_trace c t : LS c (trace c t).
Proof.
  unfold trace. destruct (get c t) as [o|]; [|apply ls_same_heap; reflexivity].
  destruct (col o); try apply ls_refl; destruct (ntr o);
    first [apply (ls_heap_of c (recolor c t Gray)); [apply ls_recolor|reflexivity]
          |apply (ls_heap_of c (recolor c t Black)); [apply ls_recolor|reflexivity]].
Qed.

Lemma ls_trace_weak c t : LS c (trace_weak c t).
Proof.
  unfold trace_weak. destruct (get c t) as [o|]; [|apply ls_same_heap; reflexivity].
  destruct (col o); try apply ls_refl. apply (ls_heap_of c (recolor c t WhiteWeak)); [apply ls_recolor|reflexivity].
Qed.

Lemma ls_backward_barrier c p ch : LS c (backward_barrier c p ch).
Proof.
  unfold backward_barrier. destruct (ph c); try apply ls_refl.
  destruct (get c p) as [po|]; [|apply ls_same_heap; reflexivity].
  destruct (color_eqb (col po) Black && ntr po); try apply ls_refl.
  destruct ch as [x|]; [|apply ls_make_gray_again].
  destruct (get c x) as [xo|]; [|apply ls_same_heap; reflexivity].
  destruct (is_whiteish (col xo)); [apply ls_make_gray_again|apply ls_refl].
Qed.

Lemma ls_backward_barrier_weak c p x : LS c (backward_barrier_weak c p x).
Proof.
  unfold backward_barrier_weak. destruct (ph c); try apply ls_refl.
  destruct (get c p) as [po|]; [|apply ls_same_heap; reflexivity].
  destruct (color_eqb (col po) Black && ntr po); try apply ls_refl.
  destruct (get c x) as [xo|]; [|apply ls_same_heap; reflexivity].
  destruct (color_eqb (col xo) White); [apply ls_make_gray_again|apply ls_refl].
Qed.

Lemma ls_forward_barrier c p x : LS c (forward_barrier c p x).
Proof.
  unfold forward_barrier. destruct (ph c); try apply ls_refl.
  destruct (parent_black c p) as [[|]|]; [apply ls_trace|apply ls_refl|apply ls_same_heap; reflexivity].
Qed.

Lemma ls_forward_barrier_weak c p x : LS c (forward_barrier_weak c p x).
Proof.
  unfold forward_barrier_weak. destruct (ph c); try apply ls_refl.
  destruct (parent_black c p) as [[|]|]; [apply ls_trace_weak|apply ls_refl|apply ls_same_heap; reflexivity].
Qed.

Lemma ls_gc_write c p : LS c (gc_write c p).
Proof. unfold gc_write. apply (ls_heap_of c (backward_barrier c p None)); [apply ls_backward_barrier|reflexivity]. Qed.

Lemma ls_resurrect c x : LS c (resurrect c x).
Proof.
  unfold resurrect. destruct (get c x) as [o|]; [|apply ls_same_heap; reflexivity].
  destruct (is_whiteish (col o)); [|apply ls_refl].
  destruct (col o); apply (ls_heap_of c (recolor c x Gray)); try apply ls_recolor; reflexivity.
Qed.

Lemma ls_store_strong c p o i v : get c p = Some o -> LS c (store_strong c p o i v).
Proof. intros G. unfold store_strong. destruct (Nat.ltb _ _); [|apply ls_refl]. eapply ls_put; eauto. Qed.
Lemma ls_store_weak c p o i v : get c p = Some o -> LS c (store_weak c p o i v).
Proof. intros G. unfold store_weak. destruct (Nat.ltb _ _); [|apply ls_refl]. eapply ls_put; eauto. Qed.
Lemma ls_store_after c0 c p i v : LS c0 c -> LS c0 (store_after c p i v).
Proof.
  intros K. unfold store_after. destruct (get c p) as [o1|] eqn:G1; [|exact K].
  eapply ls_trans; [exact K|]. apply ls_store_strong; auto.
Qed.
Lemma ls_store_weak_after c0 c p i v : LS c0 c -> LS c0 (store_weak_after c p i v).
Proof.
  intros K. unfold store_weak_after. destruct (get c p) as [o1|] eqn:G1; [|exact K].
  eapply ls_trans; [exact K|]. apply ls_store_weak; auto.
Qed.

(** a fresh allocation: the new id had no history and is live *)
Lemma ls_link c o : live o = true -> LS c (fst (link c o)).
Proof.
  intros L x. unfold link, halloc. cbn [fst]. unfold lstate, get. cbn [heap set_met set_lists set_heap].
  rewrite app_length. cbn [length].
  destruct (Nat.lt_ge_cases x (length (heap c))) as [LT|GE].
  - rewrite hget_app_old by auto. destruct (hget (heap c) x); auto.
    destruct (Nat.ltb_spec x (length (heap c))); destruct (Nat.ltb_spec x (length (heap c) + 1)); auto; lia.
  - rewrite (hget_oob (heap c) x) by auto. destruct (Nat.ltb_spec x (length (heap c))); [lia|].
    destruct (Nat.eq_dec x (length (heap c))) as [->|NE].
    + rewrite hget_app_new, L. reflexivity.
    + rewrite hget_oob by (rewrite app_length; cbn; lia). destruct (Nat.ltb_spec x (length (heap c) + 1)); [lia|reflexivity].
Qed.

Lemma ls_upgrade c x : LS c (fst (upgrade c x)).
Proof.
  unfold upgrade. destruct (get c x) as [o|]; [|apply ls_same_heap; reflexivity].
  destruct (negb (live o)); [apply ls_refl|]. destruct (_ && _); apply ls_refl.
Qed.
Lemma ls_is_dropped c x : LS c (fst (is_dropped c x)).
Proof. unfold is_dropped. destruct (get c x); [apply ls_refl|apply ls_same_heap; reflexivity]. Qed.
Lemma ls_is_dead c x : LS c (fst (is_dead c x)).
Proof. unfold is_dead. destruct (get c x); [apply ls_refl|apply ls_same_heap; reflexivity]. Qed.

Lemma norm_obj_live k ns nw : live (norm_obj k ns nw) = true.
Proof. destruct k; reflexivity. Qed.

Ltac fin E := inversion E; subst; clear E; cbn [actx].

(** ** every micro-op (stash and allocation included) leaves every life state alone *)
Lemma micro_ls w ar k m ar' hs out : micro w ar k m = (ar', hs, out) -> LS (actx ar) (actx ar').
Proof.
  intros E. destruct ar as [c uid sets]. cbn [actx auid asets] in *.
  assert (KH : forall c', heap c' = heap c -> LS c c') by (intros; apply ls_same_heap; auto).
  destruct m; cbn [micro actx auid asets] in E.
  - (* MAlloc *)
    pose proof (ls_link c (norm_obj k0 ns nw) (norm_obj_live k0 ns nw)) as K.
    destruct (link c (norm_obj k0 ns nw)) as [c1 i]. cbn [fst] in K. fin E. apply (ls_heap_of c c1); auto.
  - fin E. apply KH; reflexivity.
  - fin E. apply KH; reflexivity.
  - destruct (rg c p) as [pid|]; [|fin E; apply ls_refl].
    destruct (get c pid) as [o|]; [|fin E; apply KH; reflexivity].
    destruct (okind o); fin E; try apply ls_refl; destruct (live o); apply KH; reflexivity.
  - destruct (rg c p) as [pid|]; [|fin E; apply ls_refl].
    destruct (get c pid) as [o|]; [|fin E; apply KH; reflexivity].
    fin E. destruct (live o); apply KH; reflexivity.
  - (* MStore *)
    destruct (rg c p) as [pid|]; [|fin E; apply ls_refl].
    destruct (get c pid) as [o|] eqn:G; [|fin E; apply KH; reflexivity].
    destruct (okind o) eqn:K.
    + fin E. apply ls_store_after, ls_gc_write.
    + fin E. apply ls_gc_write.
    + fin E. apply ls_refl.
    + fin E. apply ls_store_after, ls_gc_write.
    + destruct (match c0 with Some r => rg c r | None => None end) as [v|]; [|fin E; apply ls_refl].
      destruct (slot_empty o 0); [|fin E; apply ls_refl].
      fin E. eapply ls_trans; [apply ls_store_strong; eauto|apply ls_gc_write].
    + destruct (Nat.eqb i 1).
      * destruct (match c0 with Some r => rg c r | None => None end) as [v|]; [|fin E; apply ls_gc_write].
        destruct (slot_empty o 1); [|fin E; apply ls_gc_write].
        fin E. apply ls_store_after, ls_gc_write.
      * fin E. apply ls_store_after, ls_gc_write.
  - destruct (rg c p) as [pid|]; [|fin E; apply ls_refl].
    destruct (get c pid) as [o|] eqn:G; [|fin E; apply KH; reflexivity].
    destruct (okind o) eqn:K; fin E; try apply ls_refl; apply ls_store_weak_after, ls_gc_write.
  - destruct (rg c p) as [pid|]; [|fin E; apply ls_refl].
    destruct (rg c c0) as [cid|]; [|fin E; apply ls_refl].
    destruct (get c pid) as [o|] eqn:G; [|fin E; apply KH; reflexivity].
    destruct (okind o) eqn:K; try (fin E; apply ls_refl).
    destruct (slot_empty o 0); [|fin E; apply ls_refl].
    fin E. apply ls_store_after, ls_gc_write.
  - destruct (root_mutable k); [|fin E; apply ls_refl].
    destruct (Nat.ltb i (length (rootS c))); fin E; [apply KH; reflexivity|apply ls_refl].
  - destruct (root_mutable k); [|fin E; apply ls_refl].
    destruct (Nat.ltb i (length (rootW c))); fin E; [apply KH; reflexivity|apply ls_refl].
  - destruct (rg c r) as [x|]; [|fin E; apply ls_refl].
    destruct (get c x) as [o|]; [|fin E; apply KH; reflexivity].
    destruct (okind o); fin E; try apply ls_refl; apply KH; reflexivity.
  - destruct (wrg c w0) as [x|]; [|fin E; apply ls_refl].
    destruct (upgrade c x) as [c1 b] eqn:U. fin E.
    apply (ls_heap_of c c1); [|reflexivity]. pose proof (ls_upgrade c x) as H. rewrite U in H. exact H.
  - destruct (wrg c w0) as [x|]; [|fin E; apply ls_refl].
    destruct (is_dropped c x) as [c1 b] eqn:U. fin E. pose proof (ls_is_dropped c x) as H. rewrite U in H. exact H.
  - destruct (rgE c p) as [pid|]; [|fin E; apply ls_refl].
    destruct c0 as [r|]; [|fin E; apply ls_gc_write].
    destruct (rgE c r) as [cid|]; [|fin E; apply ls_refl].
    fin E. apply (ls_heap_of c (backward_barrier c pid (Some cid))); [apply ls_backward_barrier|reflexivity].
  - destruct (rgE c p) as [pid|]; [|fin E; apply ls_refl].
    destruct (wrg c w0) as [x|]; [|fin E; apply ls_refl].
    fin E. apply (ls_heap_of c (backward_barrier_weak c pid x)); [apply ls_backward_barrier_weak|reflexivity].
  - destruct (rgE c c0) as [cid|]; [|fin E; apply ls_refl].
    destruct p as [pr|].
    + destruct (rgE c pr) as [pid|]; [|fin E; apply ls_refl].
      fin E. apply (ls_heap_of c (forward_barrier c (Some pid) cid)); [apply ls_forward_barrier|reflexivity].
    + fin E. apply (ls_heap_of c (forward_barrier c None cid)); [apply ls_forward_barrier|reflexivity].
  - destruct (wrg c w0) as [x|]; [|fin E; apply ls_refl].
    destruct p as [pr|].
    + destruct (rgE c pr) as [pid|]; [|fin E; apply ls_refl].
      fin E. apply (ls_heap_of c (forward_barrier_weak c (Some pid) x)); [apply ls_forward_barrier_weak|reflexivity].
    + fin E. apply (ls_heap_of c (forward_barrier_weak c None x)); [apply ls_forward_barrier_weak|reflexivity].
  - destruct (rg c p) as [pid|]; [|fin E; apply ls_refl].
    destruct (rg c c0) as [cid|]; [|fin E; apply ls_refl].
    destruct (get c pid) as [o|] eqn:G; [|fin E; apply KH; reflexivity].
    destruct (okind o) eqn:K; try (fin E; apply ls_refl).
    destruct (_ || _); fin E; [apply ls_store_strong; auto|apply ls_refl].
  - destruct (rg c p) as [pid|]; [|fin E; apply ls_refl].
    destruct (wrg c w0) as [x|]; [|fin E; apply ls_refl].
    destruct (get c pid) as [o|] eqn:G; [|fin E; apply KH; reflexivity].
    destruct (okind o) eqn:K; try (fin E; apply ls_refl).
    destruct (_ || _); fin E; [apply ls_store_weak; auto|apply ls_refl].
  - (* MStash *)
    destruct (rg c s) as [sid|]; [|fin E; apply ls_refl].
    destruct (rg c c0) as [cid|]; [|fin E; apply ls_refl].
    destruct (nth_error (handles w) h) as [[hd0|]|]; try (fin E; apply ls_refl).
    destruct (get c sid) as [so|] eqn:G; [|fin E; apply ls_refl].
    destruct (sets_get sets sid) as [sl|]; [|fin E; apply ls_refl].
    destruct (okind so); try (fin E; apply ls_refl).
    destruct (live so && ntr so && negb _); [|fin E; apply ls_refl].
    set (c1 := add_lic (backward_barrier c sid (Some cid)) (LPair sid cid)) in *.
    assert (K1 : LS c c1) by (apply (ls_heap_of c (backward_barrier c sid (Some cid))); [apply ls_backward_barrier|reflexivity]).
    destruct (slots_add sl) as [[sl' idx] grew].
    destruct (get c1 sid) as [so1|] eqn:G1; [|fin E; apply ls_refl].
    fin E. eapply ls_trans; [exact K1|]. eapply ls_put; eauto.
  - (* MFetch *)
    destruct (rg c s) as [sid|]; [|fin E; apply ls_refl].
    destruct (nth_error (handles w) h) as [[hd|]|]; try (fin E; apply ls_refl).
    destruct (get c sid) as [so|]; [|fin E; apply KH; reflexivity].
    destruct (okind so); try (fin E; apply ls_refl).
    destruct (live so); [|fin E; apply ls_refl].
    destruct (_ && _); [|fin E; apply ls_refl].
    destruct (existsb _ _); fin E; [apply KH; reflexivity|apply ls_refl].
  - destruct (is_finalize k); [|fin E; apply ls_refl].
    destruct (rgE c r) as [x|]; [|fin E; apply ls_refl].
    destruct (is_dead c x) as [c1 b] eqn:U. fin E. pose proof (ls_is_dead c x) as H. rewrite U in H. exact H.
  - destruct (is_finalize k); [|fin E; apply ls_refl].
    destruct (wrg c w0) as [x|]; [|fin E; apply ls_refl].
    destruct (is_dead c x) as [c1 b] eqn:U. fin E. pose proof (ls_is_dead c x) as H. rewrite U in H. exact H.
  - destruct (is_finalize k); [|fin E; apply ls_refl].
    destruct (rgE c r) as [x|]; [|fin E; apply ls_refl].
    fin E. apply ls_resurrect.
  - destruct (is_finalize k); [|fin E; apply ls_refl].
    destruct (wrg c w0) as [x|]; [|fin E; apply ls_refl].
    destruct (get c x) as [o|]; [|fin E; apply KH; reflexivity].
    destruct (live o); fin E; [apply (ls_heap_of c (resurrect c x)); [apply ls_resurrect|reflexivity]|apply KH; reflexivity].
  - fin E. apply KH; reflexivity.
  - fin E. apply KH; reflexivity.
  - fin E. apply KH; reflexivity.
  - destruct (rg c r1) as [x|]; [|fin E; apply ls_refl].
    destruct (rg c r2) as [y|]; fin E; apply ls_refl.
  - (* MAllocWith *)
    match type of E with context [init_obj ?kk ?ss ?ww] => destruct (init_obj kk ss ww) as [o|] eqn:IO end; [|fin E; apply ls_refl].
    assert (LV : live o = true) by (destruct k0; cbn in IO; try discriminate; inversion IO; reflexivity).
    pose proof (ls_link c o LV) as K.
    destruct (link c o) as [c1 i]. cbn [fst] in K. fin E. apply (ls_heap_of c c1); auto.
Qed.

Lemma histok_ls c c' H : LS c c' -> HistOK c H -> HistOK c' H.
Proof. intros L HK x. rewrite (L x). apply HK. Qed.
