(** * The world-level invariant: every API operation preserves it; so it holds after every
    prefix of every operation sequence (including faulted ones). *)
From GA Require Import Model.Spec Proofs.HeapLemmas Proofs.Inv Proofs.Recolor Proofs.InvMicro Proofs.InvStore
     Proofs.InvMark Proofs.InvSweep Proofs.InvLoop Proofs.InvBarrier Proofs.InvOps Proofs.InvMicroOps.
Local Open Scope nat_scope.

Definition rootish (k : cbkind) : bool :=
  match k with CMutateRoot | CMapRoot | CTryMapRoot | CNew | CTryNew => true | _ => false end.

Definition active (w : world) (a : nat) : option (cbkind * bool) :=
  match cur w with
  | Some (a', k, e) => if Nat.eqb a a' then Some (k, e) else None
  | None => None
  end.

Definition AInv (act : option (cbkind * bool)) (c : ctx) : Prop :=
  Inv None c /\
  match act with
  | Some (k, true) => cb_ok k c /\ (rootish k = true -> ph c = Mark -> rnt c = true)
  | Some (k, false) => quiescent c /\ is_finalize k = true
  | None => quiescent c
  end.

Definition WInv (w : world) : Prop :=
  forall a ar, get_arena w a = Some ar -> AInv (active w a) (actx ar).

Lemma get_arena_put w a v b :
  a < length (arenas w) ->
  get_arena (put_arena w a v) b = if Nat.eqb a b then v else get_arena w b.
Proof.
  intros H. unfold get_arena, put_arena. cbn. destruct (Nat.eqb_spec a b); subst.
  - rewrite nth_error_set_nth_eq by auto. destruct v; reflexivity.
  - rewrite nth_error_set_nth_neq by auto. reflexivity.
Qed.

Lemma get_arena_lt w a ar : get_arena w a = Some ar -> a < length (arenas w).
Proof.
  unfold get_arena, opt_join. destruct (nth_error (arenas w) a) eqn:E; [|discriminate].
  intros _. apply nth_error_Some. congruence.
Qed.

Lemma winv_init : WInv world_init.
Proof.
  intros a ar H. unfold get_arena, world_init in H. cbn in H.
  destruct a as [|[|[|a]]]; cbn in H; try discriminate. destruct a; discriminate.
Qed.

Lemma quiescent_clear c : quiescent (clear_cb c).
Proof.
  unfold quiescent, clear_cb. cbn. repeat split; auto; intros t H; apply (in_repeat_none NREGS) in H; auto.
Qed.

Lemma inv_clear_cb c : Inv None c -> Inv None (clear_cb c).
Proof.
  intros I. unfold clear_cb. apply inv_set_lics_nil. apply inv_set_wregs; [apply inv_set_regs; auto|];
    intros t H; apply (in_repeat_none NREGS) in H; contradiction.
Qed.

Lemma in_firstn {A} (x : A) n l : In x (firstn n l) -> In x l.
Proof.
  revert n; induction l as [|a l IH]; intros [|n] H; cbn in *; auto; try contradiction.
  destruct H; auto. right. eapply IH; eauto.
Qed.

Lemma in_first_n_opt l n t : In (Some t) (first_n_opt l n) -> In (Some t) l.
Proof.
  unfold first_n_opt. intros H. apply in_firstn in H. rewrite in_app_iff in H. destruct H; auto.
  apply repeat_spec in H. discriminate.
Qed.

Lemma quiescent_stable_fields c c' :
  regs c' = regs c -> wregs c' = wregs c -> lics c' = lics c -> quiescent c -> quiescent c'.
Proof. intros R W L [A [B C]]. unfold quiescent. rewrite R, W, L. auto. Qed.

(** do_collection with a stop at FullyMarked never destructs or releases anything *)
Lemma loop_body_mark_no_events hs c f c1 evs k f' :
  loop_body FullyMarked hs c f = (c1, evs, k, f') -> evs = [].
Proof.
  unfold loop_body. destruct (ph c).
  - intros E; inversion E; auto.
  - destruct (mark_one c _) as [[c2 r] u]. destruct r; cbn; intros E; inversion E; auto.
  - cbn. intros E; inversion E; auto.
Qed.

Lemma loop_mark_no_events dec fuel : forall ru hs c f c' evs oc,
  loop dec fuel ru FullyMarked hs c f = (c', evs, oc) -> evs = [].
Proof.
  induction fuel as [|n IH]; intros ru hs c f c' evs oc E; cbn [loop] in E.
  - inversion E; auto.
  - destruct (loop_body FullyMarked hs c f) as [[[c1 ev1] k] f1] eqn:EB.
    apply loop_body_mark_no_events in EB. subst ev1.
    destruct k.
    + destruct ru.
      * destruct (dec c1); [|inversion E; auto].
        destruct (loop dec n PayDebt FullyMarked has_slept c1 f1) as [[c2 ev2] r] eqn:EL. inversion E; subst.
        apply IH in EL. subst. reflexivity.
      * destruct (loop dec n RunStop FullyMarked has_slept c1 f1) as [[c2 ev2] r] eqn:EL. inversion E; subst.
        apply IH in EL. subst. reflexivity.
    + inversion E; auto.
    + inversion E; auto.
    + inversion E; auto.
Qed.

Lemma do_collection_mark_no_events dec c ru f c' evs oc :
  do_collection dec c ru FullyMarked f = (c', evs, oc) -> evs = [].
Proof.
  unfold do_collection. destruct ru.
  - destruct (dec c); [apply loop_mark_no_events|intros E; inversion E; auto].
  - apply loop_mark_no_events.
Qed.

(** ODropH's slot release *)
Lemma inv_vacate c s so idx :
  Inv None c -> get c s = Some so ->
  Inv None (put c s (with_strong so (set_nth (strong so) idx None))).
Proof.
  intros I G. set (o' := with_strong so (set_nth (strong so) idx None)).
  assert (R : reslot c (put c s o') s so o') by (constructor; auto).
  assert (SUB : forall t, In (Some t) (set_nth (strong so) idx None) -> In (Some t) (strong so)).
  { intros t Ht. apply in_set_nth in Ht. destruct Ht; [discriminate|auto]. }
  eapply (inv_reslot None None c _ s so o' I R).
  - intros N. destruct (i_ntr _ _ I s so G N) as [ES EW]. cbn. rewrite ES, EW. cbn. destruct idx; auto.
  - intros L NC. destruct (i_obj _ _ I s so G L NC) as [A B]. split; cbn; auto.
  - intros HM B. right. destruct (i_tri _ _ I HM s so G B ltac:(discriminate)) as [A B']. split; cbn; auto.
  - auto.
Qed.

Lemma in_combine_nth_error (l : list (option arena)) ai v :
  In (ai, v) (combine (seq 0 (length l)) l) -> opt_join (nth_error l ai) = v.
Proof.
  assert (H : forall s, In (ai, v) (combine (seq s (length l)) l) -> s <= ai /\ opt_join (nth_error l (ai - s)) = v).
  { induction l as [|x l IH]; intros s Hin; cbn in Hin; [contradiction|].
    destruct Hin as [E|Hin].
    - inversion E; subst. rewrite Nat.sub_diag. cbn. split; auto. destruct v; reflexivity.
    - apply IH in Hin. destruct Hin as [LE EQ]. split; [lia|].
      replace (ai - s) with (S (ai - S s)) by lia. exact EQ. }
  intros Hin. apply H in Hin. destruct Hin as [_ E]. rewrite Nat.sub_0_r in E. exact E.
Qed.

Lemma ainv_set_met act c m : AInv act c -> AInv act (set_met c m).
Proof.
  intros [I H]. split; [apply inv_set_met; auto|]. destruct act as [[k [|]]|]; auto.
Qed.

Ltac end_tac WI :=
  match goal with |- WInv (fst (match cur ?w with _ => _ end)) => idtac end;
  match goal with w : world |- _ =>
  destruct (cur w) as [[[a k] ent]|] eqn:CU; [|exact WI];
  destruct (get_arena w a) as [ar|] eqn:GA;
    [|intros b arb Hb; change (get_arena w b = Some arb) in Hb; unfold active; cbn;
      destruct (Nat.eqb_spec b a) as [EB|NB]; [subst; congruence|];
      pose proof (WI b arb Hb) as WB; unfold active in WB; rewrite CU in WB;
      destruct (Nat.eqb_spec b a); [congruence|exact WB]];
  pose proof (get_arena_lt _ _ _ GA) as LT;
  pose proof (WI a ar GA) as WA; unfold active in WA; rewrite CU, Nat.eqb_refl in WA; destruct WA as [I H];
  assert (OTHER : forall b arb, a <> b -> get_arena w b = Some arb -> AInv None (actx arb));
    [intros b arb NE Hb; pose proof (WI b arb Hb) as WB; unfold active in WB; rewrite CU in WB;
     destruct (Nat.eqb_spec b a); [congruence|exact WB]|];
  destruct k; cbn [fst];
  first
    [ (* the arena is destroyed *)
      destruct (drop_arena_effect (actx ar)) as [evs tot]; cbn [fst];
      intros b arb Hb; unfold set_cur in Hb;
      match type of Hb with get_arena ?W b = _ => change (get_arena W b) with (get_arena (put_arena w a None) b) in Hb end;
      rewrite get_arena_put in Hb by auto;
      destruct (Nat.eqb_spec a b); [discriminate|]; unfold active, set_cur; cbn [cur]; eapply OTHER; eauto
    | (* the callback ends; registers and licences are dropped *)
      cbn [fst]; intros b arb Hb; unfold set_cur in Hb;
      match type of Hb with get_arena (mkWorld (arenas (put_arena _ _ ?V)) _ _ _) b = _ =>
        change (get_arena (put_arena w a V) b = Some arb) in Hb end;
      rewrite get_arena_put in Hb by auto;
      unfold active, set_cur; cbn [cur];
      destruct (Nat.eqb_spec a b); [|eapply OTHER; eauto];
      inversion Hb; subst; cbn [actx];
      split; [apply inv_clear_cb|apply quiescent_clear];
      auto;
      try (destruct ent;
        [apply inv_set_root; auto;
              [split; intros t Ht; apply in_first_n_opt in Ht; apply (i_regs _ _ I); auto
              |apply (proj2 H); reflexivity]
        |destruct H as [_ HF]; discriminate]) ]
  end.

Ltac met_tac WI :=
  match goal with w : world, a : nat |- _ =>
  cbv zeta;
  destruct (cur w) as [[[a' k'] e']|]; [destruct (Nat.eqb a a')|]; try exact WI;
  (destruct (get_arena w a) as [ar|] eqn:GA; [|exact WI]; cbn;
  pose proof (get_arena_lt _ _ _ GA) as LT;
  intros b arb Hb; rewrite get_arena_put in Hb by auto;
  match goal with |- AInv (active ?W b) _ => assert (ACT : active W b = active w b) by reflexivity; rewrite ACT end;
  destruct (Nat.eqb_spec a b); [subst; inversion Hb; subst; cbn; apply ainv_set_met; apply (WI _ _ GA)|apply WI; auto])
  end.

Theorem step_inv w o : WInv w -> WInv (fst (step w o)).
Proof.
  intros WI. destruct o; cbn [step].
  - (* OBegin *)
    destruct (cur w) as [[[a' k'] e']|] eqn:CU; [exact WI|].
    assert (NOACT : forall b, active w b = None) by (intros b; unfold active; rewrite CU; reflexivity).
    assert (OTHER : forall (w' : world) b ar', get_arena w b = Some ar' -> active w' b = None -> AInv (active w' b) (actx ar')).
    { intros w' b ar' Hb Eb. specialize (WI b ar' Hb). rewrite NOACT in WI. rewrite Eb. exact WI. }
    assert (NEWCASE : match nth_error (arenas w) a with
       | Some None => WInv (mkWorld (set_nth (arenas w) a (Some (mkArena ctx_new (nuid w) []))) (S (nuid w)) (handles w) (Some (a, k, true)))
       | _ => True end -> rootish k = true -> is_finalize k = false -> root_mutable k = false ->
       WInv (fst (match nth_error (arenas w) a with
        | Some None => (mkWorld (set_nth (arenas w) a (Some (mkArena ctx_new (nuid w) []))) (S (nuid w)) (handles w) (Some (a, k, true)), mkResult [1%Z] [])
        | _ => (w, mkResult SKIP []) end))).
    { intros H _ _ _. destruct (nth_error (arenas w) a) as [[?|]|]; auto. }
    assert (NEW : forall kk, rootish kk = true -> is_finalize kk = false -> root_mutable kk = false ->
       match nth_error (arenas w) a with
       | Some None => WInv (mkWorld (set_nth (arenas w) a (Some (mkArena ctx_new (nuid w) []))) (S (nuid w)) (handles w) (Some (a, kk, true)))
       | _ => True end).
    { intros kk RK FK MK. destruct (nth_error (arenas w) a) as [[?|]|] eqn:NA; auto.
      assert (LT : a < length (arenas w)) by (apply nth_error_Some; congruence).
      intros b arb Hb. unfold get_arena in Hb. cbn in Hb. unfold active. cbn.
      destruct (Nat.eqb_spec b a); subst.
      - rewrite nth_error_set_nth_eq in Hb by auto. cbn in Hb. inversion Hb; subst. cbn.
        split; [apply inv_init|]. split; [split; [rewrite MK; discriminate|rewrite FK; discriminate]|discriminate].
      - rewrite nth_error_set_nth_neq in Hb by auto.
        specialize (WI b arb Hb). rewrite NOACT in WI. exact WI. }
    destruct k.
    + specialize (NEW CNew eq_refl eq_refl eq_refl). destruct (nth_error (arenas w) a) as [[?|]|]; auto.
    + specialize (NEW CTryNew eq_refl eq_refl eq_refl). destruct (nth_error (arenas w) a) as [[?|]|]; auto.
    + (* CMutate *)
      destruct (get_arena w a) as [ar|] eqn:GA; [|exact WI]. cbn.
      intros b arb Hb. unfold set_cur in Hb. change (get_arena _ b) with (get_arena w b) in Hb.
      unfold active. cbn. destruct (Nat.eqb_spec b a); subst.
      * rewrite GA in Hb. inversion Hb; subst. specialize (WI a arb GA). rewrite NOACT in WI. destruct WI as [I Q].
        split; auto. split; [split; discriminate|discriminate].
      * specialize (WI b arb Hb). rewrite NOACT in WI. exact WI.
    + (* CMutateRoot *)
      destruct (get_arena w a) as [ar|] eqn:GA; [|exact WI]. cbn.
      pose proof (get_arena_lt _ _ _ GA) as LT.
      intros b arb Hb. unfold set_cur in Hb.
      change (get_arena _ b) with (get_arena (put_arena w a (Some (mkArena (root_barrier (actx ar)) (auid ar) (asets ar)))) b) in Hb.
      rewrite get_arena_put in Hb by auto. unfold active. cbn. rewrite Nat.eqb_sym.
      destruct (Nat.eqb_spec a b); subst.
      * inversion Hb; subst. cbn. specialize (WI b ar GA). rewrite NOACT in WI. destruct WI as [I Q].
        destruct (inv_root_barrier None _ I) as [I1 R1]. split; auto.
        split; [split; [intros _; auto|discriminate]|intros _; auto].
      * specialize (WI b arb Hb). rewrite NOACT in WI. exact WI.
    + (* CMapRoot *)
      destruct (get_arena w a) as [ar|] eqn:GA; [|exact WI]. cbn.
      pose proof (get_arena_lt _ _ _ GA) as LT.
      intros b arb Hb. unfold set_cur in Hb.
      match type of Hb with get_arena ?W b = _ => change (get_arena W b) with (get_arena (put_arena w a (Some (mkArena (set_root (set_wregs (set_regs (root_barrier (actx ar)) (first_n_opt (rootS (root_barrier (actx ar))) NREGS)) (first_n_opt (rootW (root_barrier (actx ar))) NREGS)) (repeat None NROOT) (repeat None NROOT)) (auid ar) (asets ar)))) b) in Hb end.
      rewrite get_arena_put in Hb by auto. unfold active. cbn. rewrite Nat.eqb_sym.
      destruct (Nat.eqb_spec a b); subst.
      * inversion Hb; subst. cbn. specialize (WI b ar GA). rewrite NOACT in WI. destruct WI as [I Q].
        destruct (inv_root_barrier None _ I) as [I1 R1].
        assert (I2 : Inv None (set_wregs (set_regs (root_barrier (actx ar)) (first_n_opt (rootS (root_barrier (actx ar))) NREGS)) (first_n_opt (rootW (root_barrier (actx ar))) NREGS))).
        { apply inv_set_wregs; [apply inv_set_regs; auto|].
          - intros t Ht. apply in_first_n_opt in Ht. apply (i_root _ _ I1); auto.
          - intros t Ht. apply in_first_n_opt in Ht. cbn in Ht. apply (i_root _ _ I1); auto. }
        split.
        -- apply inv_set_root; auto. split; intros t Ht; apply (in_repeat_none NROOT) in Ht; contradiction.
        -- split; [split; discriminate|]. intros _. cbn. auto.
      * specialize (WI b arb Hb). rewrite NOACT in WI. exact WI.
    + (* CTryMapRoot *)
      destruct (get_arena w a) as [ar|] eqn:GA; [|exact WI]. cbn.
      pose proof (get_arena_lt _ _ _ GA) as LT.
      intros b arb Hb. unfold set_cur in Hb.
      match type of Hb with get_arena ?W b = _ => change (get_arena W b) with (get_arena (put_arena w a (Some (mkArena (set_root (set_wregs (set_regs (root_barrier (actx ar)) (first_n_opt (rootS (root_barrier (actx ar))) NREGS)) (first_n_opt (rootW (root_barrier (actx ar))) NREGS)) (repeat None NROOT) (repeat None NROOT)) (auid ar) (asets ar)))) b) in Hb end.
      rewrite get_arena_put in Hb by auto. unfold active. cbn. rewrite Nat.eqb_sym.
      destruct (Nat.eqb_spec a b); subst.
      * inversion Hb; subst. cbn. specialize (WI b ar GA). rewrite NOACT in WI. destruct WI as [I Q].
        destruct (inv_root_barrier None _ I) as [I1 R1].
        assert (I2 : Inv None (set_wregs (set_regs (root_barrier (actx ar)) (first_n_opt (rootS (root_barrier (actx ar))) NREGS)) (first_n_opt (rootW (root_barrier (actx ar))) NREGS))).
        { apply inv_set_wregs; [apply inv_set_regs; auto|].
          - intros t Ht. apply in_first_n_opt in Ht. apply (i_root _ _ I1); auto.
          - intros t Ht. apply in_first_n_opt in Ht. cbn in Ht. apply (i_root _ _ I1); auto. }
        split.
        -- apply inv_set_root; auto. split; intros t Ht; apply (in_repeat_none NROOT) in Ht; contradiction.
        -- split; [split; discriminate|]. intros _. cbn. auto.
      * specialize (WI b arb Hb). rewrite NOACT in WI. exact WI.
    + (* CFinalize *)
      destruct (get_arena w a) as [ar|] eqn:GA; [|exact WI].
      destruct (do_collection dec_debt (actx ar) _ FullyMarked None) as [[c1 evs] oc] eqn:DC. cbn.
      pose proof (get_arena_lt _ _ _ GA) as LT.
      pose proof (WI a ar GA) as WA. rewrite NOACT in WA. destruct WA as [I Q].
      destruct (do_collection_inv _ _ _ _ _ _ _ _ I Q DC) as [I1 [Q1 _]].
      intros b arb Hb. unfold set_cur in Hb.
      match type of Hb with get_arena ?W b = _ => change (get_arena W b) with (get_arena (put_arena w a (Some (mkArena c1 (auid ar) (asets ar)))) b) in Hb end.
      rewrite get_arena_put in Hb by auto. unfold active. cbn. rewrite Nat.eqb_sym.
      destruct (Nat.eqb_spec a b); subst.
      * inversion Hb; subst. cbn. split; auto. destruct (is_marked c1) eqn:IM; [|split; auto].
        split; [split; [discriminate|]|discriminate]. intros _. unfold is_marked in IM.
        apply andb_true_iff in IM. destruct IM as [IM _]. apply phase_eqb_eq in IM. auto.
      * specialize (WI b arb Hb). rewrite NOACT in WI. exact WI.
  - (* OMicro *)
    destruct (cur w) as [[[a k] e]|] eqn:CU; [|exact WI]. destruct e; [|exact WI].
    destruct (get_arena w a) as [ar|] eqn:GA; [|exact WI].
    destruct (micro w ar k m) as [[ar' hs] out] eqn:EM. cbn.
    pose proof (get_arena_lt _ _ _ GA) as LT.
    pose proof (WI a ar GA) as WA. unfold active in WA. rewrite CU, Nat.eqb_refl in WA. destruct WA as [I [CB RT]].
    destruct (micro_inv _ _ _ _ _ _ _ I CB EM) as [I1 S1].
    intros b arb Hb. unfold set_handles in Hb.
    match type of Hb with get_arena ?W b = _ => change (get_arena W b) with (get_arena (put_arena w a (Some ar')) b) in Hb end.
    rewrite get_arena_put in Hb by auto.
    assert (ACT : active (set_handles (put_arena w a (Some ar')) hs) b = active w b).
    { unfold active. cbn. reflexivity. }
    rewrite ACT. destruct (Nat.eqb_spec a b); subst.
    + inversion Hb; subst. unfold active. rewrite CU, Nat.eqb_refl. split; auto.
      split; [eapply cb_ok_stable; eauto|]. destruct S1 as [P1 R1]. rewrite P1, R1. auto.
    + apply WI; auto.
  - (* OEnd *) end_tac WI.
  - (* OEndErr *) end_tac WI.
  - (* OPanic *) end_tac WI.
  - (* OCollect *)
    destruct (cur w) as [[[a' k'] e']|] eqn:CU; [exact WI|].
    destruct (get_arena w a) as [ar|] eqn:GA; [|exact WI].
    destruct (how_params how) as [ru st].
    destruct (do_collection dec_debt (actx ar) ru st fault) as [[c1 evs] oc] eqn:DC. cbn.
    pose proof (get_arena_lt _ _ _ GA) as LT.
    assert (NOACT : forall b, active w b = None) by (intros b; unfold active; rewrite CU; reflexivity).
    pose proof (WI a ar GA) as WA. rewrite NOACT in WA. destruct WA as [I Q].
    destruct (do_collection_inv _ _ _ _ _ _ _ _ I Q DC) as [I1 [Q1 _]].
    intros b arb Hb. rewrite get_arena_put in Hb by auto.
    assert (ACT : active (put_arena w a (Some (mkArena c1 (auid ar) (asets ar)))) b = None)
      by (unfold active; cbn; rewrite CU; reflexivity).
    rewrite ACT. destruct (Nat.eqb_spec a b); subst.
    + inversion Hb; subst. split; auto.
    + specialize (WI b arb Hb). rewrite NOACT in WI. exact WI.
  - (* OStartSweep *)
    destruct (cur w) as [[[a' k'] e']|] eqn:CU; [exact WI|].
    destruct (get_arena w a) as [ar|] eqn:GA; [|exact WI].
    destruct (do_collection dec_debt (actx ar) _ FullyMarked None) as [[c1 evs] oc] eqn:DC.
    pose proof (get_arena_lt _ _ _ GA) as LT.
    assert (NOACT : forall b, active w b = None) by (intros b; unfold active; rewrite CU; reflexivity).
    pose proof (WI a ar GA) as WA. rewrite NOACT in WA. destruct WA as [I Q].
    destruct (do_collection_inv _ _ _ _ _ _ _ _ I Q DC) as [I1 [Q1 _]].
    assert (FIN : forall c2, Inv None c2 -> quiescent c2 -> WInv (put_arena w a (Some (mkArena c2 (auid ar) (asets ar))))).
    { intros c2 I2 Q2 b arb Hb. rewrite get_arena_put in Hb by auto.
      assert (ACT : active (put_arena w a (Some (mkArena c2 (auid ar) (asets ar)))) b = None)
        by (unfold active; cbn; rewrite CU; reflexivity).
      rewrite ACT. destruct (Nat.eqb_spec a b); subst.
      - inversion Hb; subst. split; auto.
      - specialize (WI b arb Hb). rewrite NOACT in WI. exact WI. }
    destruct (is_marked c1).
    + destruct (do_collection dec_debt c1 RunStop AtSweep None) as [[c2 evs2] oc2] eqn:DC2. cbn.
      destruct (do_collection_inv _ _ _ _ _ _ _ _ I1 Q1 DC2) as [I2 [Q2 _]]. apply FIN; auto.
    + cbn. apply FIN; auto.
  - (* ODropArena *)
    destruct (cur w) as [[[a' k'] e']|] eqn:CU; [exact WI|].
    destruct (get_arena w a) as [ar|] eqn:GA; [|exact WI].
    destruct (drop_arena_effect (actx ar)) as [evs tot]. cbn.
    pose proof (get_arena_lt _ _ _ GA) as LT.
    intros b arb Hb. rewrite get_arena_put in Hb by auto.
    destruct (Nat.eqb_spec a b); subst; [discriminate|].
    assert (ACT : active (put_arena w a None) b = active w b) by reflexivity. rewrite ACT. apply WI; auto.
  - (* OAdjustDebt *)
    met_tac WI.
  - (* OSetPacing *)
    met_tac WI.
  - (* OCloneH *)
    destruct (nth_error (handles w) h') as [[?|]|]; try exact WI.
    destruct (nth_error (handles w) h) as [[hd|]|]; try exact WI.
    set (w1 := set_handles w (set_nth (handles w) h' (Some hd))).
    assert (W1 : WInv w1) by (intros b arb Hb; apply (WI b arb Hb)).
    destruct (find _ _) as [[ai [ar|]]|] eqn:FD; try exact W1.
    assert (GA : get_arena w ai = Some ar).
    { apply find_some in FD. destruct FD as [Hin _]. apply in_combine_nth_error in Hin. exact Hin. }
    destruct (get (actx ar) (h_set hd)) as [so|]; try exact W1.
    destruct (sets_get (asets ar) (h_set hd)) as [sl|]; try exact W1.
    destruct (live so); try exact W1. cbn.
    pose proof (get_arena_lt _ _ _ GA) as LT.
    intros b arb Hb. 
    match type of Hb with get_arena (put_arena _ _ ?V) b = _ => change (get_arena (put_arena w1 ai V) b) with (get_arena (put_arena w ai V) b) in Hb end.
    rewrite get_arena_put in Hb by auto.
    match goal with |- AInv (active ?W b) _ => assert (ACT : active W b = active w b) by reflexivity; rewrite ACT end.
    destruct (Nat.eqb_spec ai b); subst.
    + inversion Hb; subst. cbn. apply (WI b ar GA).
    + apply WI; auto.
  - (* ODropH *)
    destruct (nth_error (handles w) h) as [[hd|]|]; try exact WI.
    set (w1 := set_handles w (set_nth (handles w) h None)).
    assert (W1 : WInv w1) by (intros b arb Hb; apply (WI b arb Hb)).
    destruct (find _ _) as [[ai [ar|]]|] eqn:FD; try exact W1.
    assert (GA : get_arena w ai = Some ar).
    { apply find_some in FD. destruct FD as [Hin _]. apply in_combine_nth_error in Hin. exact Hin. }
    destruct (get (actx ar) (h_set hd)) as [so|] eqn:GS; try exact W1.
    destruct (sets_get (asets ar) (h_set hd)) as [sl|]; try exact W1.
    destruct (live so); try exact W1.
    destruct (slots_dec sl (h_idx hd)) as [sl' vac]. cbn.
    pose proof (get_arena_lt _ _ _ GA) as LT.
    intros b arb Hb.
    match type of Hb with get_arena (put_arena _ _ ?V) b = _ => change (get_arena (put_arena w1 ai V) b) with (get_arena (put_arena w ai V) b) in Hb end.
    rewrite get_arena_put in Hb by auto.
    match goal with |- AInv (active ?W b) _ => assert (ACT : active W b = active w b) by reflexivity; rewrite ACT end.
    destruct (Nat.eqb_spec ai b); subst.
    + inversion Hb; subst. cbn. destruct (WI b ar GA) as [I H]. destruct vac; [|split; auto].
      split; [apply inv_vacate; auto|].
      destruct (active w b) as [[k [|]]|]; auto.
    + apply WI; auto.
Qed.

Lemma winv_run ops : forall w, WInv w -> WInv (run w ops).
Proof.
  induction ops as [|o ops IH]; intros w WI; cbn; auto. apply IH. apply step_inv; auto.
Qed.

Theorem winv_reachable ops : WInv (run world_init ops).
Proof. apply winv_run, winv_init. Qed.
