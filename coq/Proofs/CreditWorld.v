(** * Work credits (C09), part 5: the counting invariant in every reachable world, and the bound. *)
From Coq Require Import Lqa.
From GA Require Import Model.Spec Proofs.HeapLemmas Proofs.Inv Proofs.InvStore Proofs.InvLoop Proofs.InvOps
     Proofs.InvMicroOps Proofs.InvWorld Proofs.MInv Proofs.MInvCollect Proofs.MInvOps Proofs.MInvWorld Proofs.MetricsLemmas Proofs.Safety.
From GA Require Import Proofs.Credit Proofs.CreditMark Proofs.CreditCollect Proofs.CreditOps.
Local Open Scope nat_scope.

Definition WCInv (w : world) : Prop := forall a ar, get_arena w a = Some ar -> CInv (actx ar).

Lemma cinv_new : CInv ctx_new.
Proof. constructor; cbn; intros H; try discriminate. repeat split. Qed.

Lemma wcinv_init : WCInv world_init.
Proof.
  intros a ar H. unfold get_arena, world_init in H. cbn in H.
  destruct a as [|[|[|a]]]; cbn in H; try discriminate. destruct a; discriminate.
Qed.

Lemma cinv_met_only c m :
  marked m = marked (met c) -> traced m = traced (met c) -> dropped m = dropped (met c) -> freed m = freed (met c) ->
  remembered m = remembered (met c) -> CInv c -> CInv (set_met c m).
Proof. intros A B C D E. apply cinv_cs. apply cs_same; auto. Qed.

Lemma cinv_root_barrier c : CInv c -> CInv (root_barrier c).
Proof.
  intros M. unfold root_barrier. destruct (ph c) eqn:P; auto. apply (cinv_same c); auto.
Qed.

Lemma cinv_vacate c s so idx :
  get c s = Some so -> CInv c -> CInv (put c s (with_strong so (set_nth (strong so) idx None))).
Proof. intros G M. eapply put_cinv; eauto. Qed.

Lemma wcinv_put w a c' ar :
  WCInv w -> get_arena w a = Some ar -> CInv c' -> forall s, WCInv (put_arena w a (Some (mkArena c' (auid ar) s))).
Proof.
  intros WM GA M s b arb Hb. rewrite get_arena_put in Hb by (eapply get_arena_lt; eauto).
  destruct (Nat.eqb_spec a b); subst; [inversion Hb; subst; auto|apply (WM b arb Hb)].
Qed.

Lemma wcinv_same_arenas (w w' : world) : (forall b, get_arena w' b = get_arena w b) -> WCInv w -> WCInv w'.
Proof. intros H WM b arb Hb. rewrite H in Hb. apply (WM b arb Hb). Qed.

Lemma wcinv_remove w a : WCInv w -> a < length (arenas w) -> WCInv (put_arena w a None).
Proof.
  intros WM LT b arb Hb. rewrite get_arena_put in Hb by auto.
  destruct (Nat.eqb_spec a b); [discriminate|apply (WM b arb Hb)].
Qed.

Ltac end_cinv WM :=
  match goal with w : world |- _ =>
  destruct (cur w) as [[[a k] ent]|] eqn:CU; [|exact WM];
  destruct (get_arena w a) as [ar|] eqn:GA; [|apply (wcinv_same_arenas w); [reflexivity|exact WM]];
  destruct k; cbn [fst];
  first
    [ destruct (drop_arena_effect (actx ar)) as [evs tot]; cbn [fst];
      apply (wcinv_same_arenas (put_arena w a None)); [reflexivity|];
      apply wcinv_remove; [exact WM|eapply get_arena_lt; eauto]
    | cbn [fst];
      match goal with |- WCInv (set_cur (put_arena w a (Some (mkArena ?C _ _))) _) =>
        apply (wcinv_same_arenas (put_arena w a (Some (mkArena C (auid ar) (asets ar))))); [reflexivity|];
        apply wcinv_put; auto; apply (cinv_same (actx ar)); try reflexivity; apply (WM a ar GA) end ]
  end.

Theorem step_cinv w o : WInv w -> WCInv w -> WCInv (fst (step w o)).
Proof.
  intros WI WM. destruct o; cbn [step].
  - (* OBegin *)
    destruct (cur w) as [[[a' k'] e']|] eqn:CU; [exact WM|].
    assert (NOACT : forall b, active w b = None) by (intros b; unfold active; rewrite CU; reflexivity).
    assert (NEW : forall kk, match nth_error (arenas w) a with
       | Some None => WCInv (mkWorld (set_nth (arenas w) a (Some (mkArena ctx_new (nuid w) []))) (S (nuid w)) (handles w) (Some (a, kk, true)))
       | _ => True end).
    { intros kk. destruct (nth_error (arenas w) a) as [[?|]|] eqn:NA; auto.
      assert (LT : a < length (arenas w)) by (apply nth_error_Some; congruence).
      intros b arb Hb. unfold get_arena in Hb. cbn in Hb. destruct (Nat.eqb_spec b a); subst.
      - rewrite nth_error_set_nth_eq in Hb by auto. cbn in Hb. inversion Hb; subst. apply cinv_new.
      - rewrite nth_error_set_nth_neq in Hb by auto. apply (WM b arb Hb). }
    destruct k.
    + specialize (NEW CNew). destruct (nth_error (arenas w) a) as [[?|]|]; auto.
    + specialize (NEW CTryNew). destruct (nth_error (arenas w) a) as [[?|]|]; auto.
    + destruct (get_arena w a) as [ar|] eqn:GA; [|exact WM]. cbn. apply (wcinv_same_arenas w); auto.
    + destruct (get_arena w a) as [ar|] eqn:GA; [|exact WM]. cbn.
      apply (wcinv_same_arenas (put_arena w a (Some (mkArena (root_barrier (actx ar)) (auid ar) (asets ar))))); [reflexivity|].
      apply wcinv_put; auto. apply cinv_root_barrier. apply (WM a ar GA).
    + destruct (get_arena w a) as [ar|] eqn:GA; [|exact WM]. cbn.
      match goal with |- WCInv (set_cur (put_arena w a (Some (mkArena ?C _ _))) _) =>
        apply (wcinv_same_arenas (put_arena w a (Some (mkArena C (auid ar) (asets ar))))); [reflexivity|]; apply wcinv_put; auto;
        apply (cinv_same (root_barrier (actx ar))); try reflexivity; apply cinv_root_barrier; apply (WM a ar GA) end.
    + destruct (get_arena w a) as [ar|] eqn:GA; [|exact WM]. cbn.
      match goal with |- WCInv (set_cur (put_arena w a (Some (mkArena ?C _ _))) _) =>
        apply (wcinv_same_arenas (put_arena w a (Some (mkArena C (auid ar) (asets ar))))); [reflexivity|]; apply wcinv_put; auto;
        apply (cinv_same (root_barrier (actx ar))); try reflexivity; apply cinv_root_barrier; apply (WM a ar GA) end.
    + destruct (get_arena w a) as [ar|] eqn:GA; [|exact WM].
      destruct (do_collection dec_debt (actx ar) _ FullyMarked None) as [[c1 evs] oc] eqn:DC. cbn.
      pose proof (WI a ar GA) as WA. rewrite NOACT in WA. destruct WA as [I Q].
      apply (wcinv_same_arenas (put_arena w a (Some (mkArena c1 (auid ar) (asets ar))))); [reflexivity|].
      apply wcinv_put; auto. eapply do_collection_cinv; eauto.
  - (* OMicro *)
    destruct (cur w) as [[[a k] e]|] eqn:CU; [|exact WM]. destruct e; [|exact WM].
    destruct (get_arena w a) as [ar|] eqn:GA; [|exact WM].
    destruct (micro w ar k m) as [[ar' hs] out] eqn:EM. cbn.
    pose proof (WI a ar GA) as WA. unfold active in WA. rewrite CU, Nat.eqb_refl in WA. destruct WA as [I [CB RT]].
    pose proof (micro_cinv _ _ _ _ _ _ _ I CB (WM a ar GA) EM) as M1.
    apply (wcinv_same_arenas (put_arena w a (Some ar'))); [reflexivity|].
    intros b arb Hb. rewrite get_arena_put in Hb by (eapply get_arena_lt; eauto).
    destruct (Nat.eqb_spec a b); subst; [inversion Hb; subst; auto|apply (WM b arb Hb)].
  - (* OEnd *) end_cinv WM.
  - end_cinv WM.
  - end_cinv WM.
  - (* OCollect *)
    destruct (cur w) as [[[a' k'] e']|] eqn:CU; [exact WM|].
    destruct (get_arena w a) as [ar|] eqn:GA; [|exact WM].
    destruct (how_params how) as [ru st].
    destruct (do_collection dec_debt (actx ar) ru st fault) as [[c1 evs] oc] eqn:DC. cbn.
    pose proof (WI a ar GA) as WA. unfold active in WA. rewrite CU in WA. destruct WA as [I Q].
    apply wcinv_put; auto. eapply do_collection_cinv; eauto.
  - (* OStartSweep *)
    destruct (cur w) as [[[a' k'] e']|] eqn:CU; [exact WM|].
    destruct (get_arena w a) as [ar|] eqn:GA; [|exact WM].
    destruct (do_collection dec_debt (actx ar) _ FullyMarked None) as [[c1 evs] oc] eqn:DC.
    pose proof (WI a ar GA) as WA. unfold active in WA. rewrite CU in WA. destruct WA as [I Q].
    destruct (do_collection_inv _ _ _ _ _ _ _ _ I Q DC) as [I1 [Q1 _]].
    pose proof (do_collection_cinv _ _ _ _ _ _ _ _ I Q (WM a ar GA) DC) as M1.
    destruct (is_marked c1).
    + destruct (do_collection dec_debt c1 RunStop AtSweep None) as [[c2 evs2] oc2] eqn:DC2. cbn.
      apply wcinv_put; auto. eapply do_collection_cinv; eauto.
    + cbn. apply wcinv_put; auto.
  - (* ODropArena *)
    destruct (cur w); [exact WM|]. destruct (get_arena w a) as [ar|] eqn:GA; [|exact WM].
    destruct (drop_arena_effect (actx ar)). cbn. apply wcinv_remove; auto. eapply get_arena_lt; eauto.
  - (* OAdjustDebt *)
    cbv zeta. destruct (cur w) as [[[a' k'] e']|]; [destruct (Nat.eqb a a')|]; try exact WM;
      (destruct (get_arena w a) as [ar|] eqn:GA; [|exact WM]; cbn; apply wcinv_put; auto;
       apply cinv_met_only; try reflexivity; apply (WM a ar GA)).
  - cbv zeta. destruct (cur w) as [[[a' k'] e']|]; [destruct (Nat.eqb a a')|]; try exact WM;
      (destruct (get_arena w a) as [ar|] eqn:GA; [|exact WM]; cbn; apply wcinv_put; auto;
       apply cinv_met_only; try reflexivity; apply (WM a ar GA)).
  - (* OCloneH *)
    destruct (nth_error (handles w) h') as [[?|]|]; try exact WM.
    destruct (nth_error (handles w) h) as [[hd|]|]; try exact WM.
    set (w1 := set_handles w (set_nth (handles w) h' (Some hd))).
    assert (W1 : WCInv w1) by (apply (wcinv_same_arenas w); auto).
    destruct (find _ _) as [[ai [ar|]]|] eqn:FD; try exact W1.
    assert (GA : get_arena w ai = Some ar).
    { apply find_some in FD. destruct FD as [Hin _]. apply in_combine_nth_error in Hin. exact Hin. }
    destruct (get (actx ar) (h_set hd)) as [so|]; try exact W1.
    destruct (sets_get (asets ar) (h_set hd)) as [sl|]; try exact W1.
    destruct (live so); try exact W1. cbn.
    intros b arb Hb.
    match type of Hb with get_arena (put_arena _ _ ?V) b = _ => change (get_arena (put_arena w1 ai V) b) with (get_arena (put_arena w ai V) b) in Hb end.
    rewrite get_arena_put in Hb by (eapply get_arena_lt; eauto).
    destruct (Nat.eqb_spec ai b); subst; [inversion Hb; subst; cbn; apply (WM b ar GA)|apply (WM b arb Hb)].
  - (* ODropH *)
    destruct (nth_error (handles w) h) as [[hd|]|]; try exact WM.
    set (w1 := set_handles w (set_nth (handles w) h None)).
    assert (W1 : WCInv w1) by (apply (wcinv_same_arenas w); auto).
    destruct (find _ _) as [[ai [ar|]]|] eqn:FD; try exact W1.
    assert (GA : get_arena w ai = Some ar).
    { apply find_some in FD. destruct FD as [Hin _]. apply in_combine_nth_error in Hin. exact Hin. }
    destruct (get (actx ar) (h_set hd)) as [so|] eqn:GS; try exact W1.
    destruct (sets_get (asets ar) (h_set hd)) as [sl|]; try exact W1.
    destruct (live so); try exact W1.
    destruct (slots_dec sl (h_idx hd)) as [sl' vac]. cbn.
    intros b arb Hb.
    match type of Hb with get_arena (put_arena _ _ ?V) b = _ => change (get_arena (put_arena w1 ai V) b) with (get_arena (put_arena w ai V) b) in Hb end.
    rewrite get_arena_put in Hb by (eapply get_arena_lt; eauto).
    destruct (Nat.eqb_spec ai b); subst; [|apply (WM b arb Hb)].
    inversion Hb; subst. cbn. destruct vac; [apply cinv_vacate; auto|]; apply (WM b ar GA).
Qed.

Lemma both_run ops : forall w, WInv w -> WCInv w -> WInv (run w ops) /\ WCInv (run w ops).
Proof.
  induction ops as [|o ops IH]; intros w WI WM; cbn; auto.
  apply IH; [apply step_inv; auto|apply step_cinv; auto].
Qed.

Theorem wcinv_reachable ops : WCInv (run world_init ops).
Proof. apply (both_run ops world_init winv_init wcinv_init). Qed.

(** the Gc count equals the number of allocated, not yet released blocks *)

(** ** the bound: credits of the running cycle never exceed rho x (objects of the cycle) *)
Local Open Scope Q_scope.

Definition paths_ok (p : pacing) (rho : Q) : Prop :=
  0 <= mark_f p /\ 0 <= trace_f p /\ 0 <= keep_f p /\ 0 <= drop_f p /\ 0 <= free_f p
  /\ mark_f p + trace_f p + keep_f p <= rho      (* a survivor: marked, traced, kept *)
  /\ mark_f p + drop_f p + keep_f p <= rho       (* a weakly held value: marked, destructed, shell kept *)
  /\ drop_f p + free_f p <= rho.                 (* garbage: destructed, released *)

Lemma QofN_add a b : QofN (a + b) == QofN a + QofN b.
Proof. unfold QofN. rewrite N2Z.inj_add, inject_Z_plus. reflexivity. Qed.
Lemma QofN_mono a b : (a <= b)%N -> QofN a <= QofN b.
Proof. intros H. unfold QofN. rewrite <- Zle_Qle. lia. Qed.
Lemma QofN_nonneg a : 0 <= QofN a.
Proof. unfold QofN. change 0 with (inject_Z 0). rewrite <- Zle_Qle. lia. Qed.
Lemma QofN_nat_le a b : (a <= b)%nat -> QofN (N.of_nat a) <= QofN (N.of_nat b).
Proof. intros H. apply QofN_mono. lia. Qed.
Lemma QofN_nat_add a b : QofN (N.of_nat (a + b)) == QofN (N.of_nat a) + QofN (N.of_nat b).
Proof. rewrite Nat2N.inj_add. apply QofN_add. Qed.

Theorem credit_bound c rho :
  Inv None c -> MInv c -> CInv c -> paths_ok (pac (met c)) rho ->
  cycle_credits (met c) <= rho * QofN (total (met c) + freed (met c)).
Proof.
  intros I M C [Pm [Pt [Pk [Pd [Pf [S1 [S2 S3]]]]]]].
  assert (R0 : 0 <= rho) by lra.
  unfold cycle_credits. rewrite QofN_add. rewrite (m_total _ M).
  set (mk := mark_f (pac (met c))) in *. set (tr := trace_f (pac (met c))) in *. set (kp := keep_f (pac (met c))) in *.
  set (dr := drop_f (pac (met c))) in *. set (fr := free_f (pac (met c))) in *.
  pose proof (QofN_nonneg (freed (met c))) as NF.
  destruct (ph c) eqn:P.
  - destruct (ci_sleep _ C P) as [A1 [A2 [A3 [A4 A5]]]]. rewrite A1, A2, A3, A4, A5.
    pose proof (QofN_nonneg (N.of_nat (length (all c)))) as NA.
    change (QofN 0) with 0. nra.
  - destruct (ci_mark _ C P) as [A1 [A2 [A3 [A4 A5]]]]. rewrite A1, A3, A4, A5.
    set (a := cntP is_nonwhite c (all c)) in *.
    pose proof (QofN_mono _ _ A2) as T1.
    pose proof (QofN_nat_le _ _ (black_le_nonwhite c (all c))) as T2. fold a in T2.
    pose proof (QofN_nat_le _ _ (cntP_le is_nonwhite c (all c))) as T3. fold a in T3.
    pose proof (QofN_nonneg (N.of_nat a)) as NA. pose proof (QofN_nonneg (traced (met c))) as NT.
    change (QofN 0) with 0.
    set (qa := QofN (N.of_nat a)) in *. set (qt := QofN (traced (met c))) in *.
    set (qb := QofN (N.of_nat (cntP is_black c (all c)))) in *. set (ql := QofN (N.of_nat (length (all c)))) in *.
    assert (H1 : qt * tr <= qa * tr) by nra.
    assert (H2 : qa * mk + qa * tr <= qa * rho) by nra.
    assert (H3 : qa * rho <= ql * rho) by nra.
    nra.
  - destruct (ci_sweep _ C P) as [kb [kw [A1 [A2 [A3 [A4 A5]]]]]].
    set (a := cntP is_nonwhite c (unsw c)) in *. set (b := cntP is_black c (unsw c)) in *.
    assert (LA : length (all c) = (length (pre c) + length (unsw c))%nat) by (unfold all; apply app_length).
    rewrite LA, A2, A1. rewrite !QofN_add, !QofN_nat_add.
    pose proof (QofN_mono _ _ A3) as T1. rewrite QofN_nat_add in T1.
    pose proof (QofN_mono _ _ A4) as T4. rewrite QofN_add in T4.
    pose proof (QofN_nat_le _ _ (black_le_nonwhite c (unsw c))) as T2. fold a b in T2.
    pose proof (QofN_nat_le _ _ (cntP_le is_nonwhite c (unsw c))) as T3. fold a in T3.
    pose proof (QofN_nat_le _ _ A5) as T5. rewrite QofN_nat_add in T5.
    set (qa := QofN (N.of_nat a)) in *. set (qb := QofN (N.of_nat b)) in *.
    set (qkb := QofN (N.of_nat kb)) in *. set (qkw := QofN (N.of_nat kw)) in *.
    set (qt := QofN (traced (met c))) in *. set (qd := QofN (dropped (met c))) in *. set (qf := QofN (freed (met c))) in *.
    set (qp := QofN (N.of_nat (length (pre c)))) in *. set (qu := QofN (N.of_nat (length (unsw c)))) in *.
    assert (N1 : 0 <= qa) by apply QofN_nonneg. assert (N2 : 0 <= qb) by apply QofN_nonneg.
    assert (N3 : 0 <= qkb) by apply QofN_nonneg. assert (N4 : 0 <= qkw) by apply QofN_nonneg.
    assert (N5 : 0 <= qt) by apply QofN_nonneg. assert (N6 : 0 <= qd) by apply QofN_nonneg.
    assert (H1 : qt * tr <= (qb + qkb) * tr) by nra.
    assert (H2 : qd * dr <= (qf + qkw) * dr) by nra.
    assert (H3 : qb * tr <= qa * tr) by nra.
    assert (H4 : qkb * (mk + tr + kp) <= qkb * rho) by nra.
    assert (H5 : qkw * (mk + dr + kp) <= qkw * rho) by nra.
    assert (H6 : qf * (dr + fr) <= qf * rho) by nra.
    assert (H7 : qa * (mk + tr) <= qa * rho) by nra.
    assert (H8 : (qkb + qkw + qa) * rho <= (qp + qu) * rho) by nra.
    nra.
Qed.

Theorem credit_bound_reachable ops a ar rho :
  get_arena (run world_init ops) a = Some ar ->
  paths_ok (pac (met (actx ar))) rho ->
  cycle_credits (met (actx ar)) <= rho * QofN (total (met (actx ar)) + freed (met (actx ar))).
Proof.
  intros GA P. apply credit_bound; auto.
  - exact (reachable_inv ops a ar GA).
  - exact (wminv_reachable ops a ar GA).
  - exact (wcinv_reachable ops a ar GA).
Qed.

(** a debt-driven call that returns with the cycle unfinished has paid its debt, so the debits of the
    cycle are covered by its credits, hence by rho x (objects of the cycle) *)
Theorem paid_debt_bounds_debits c rho :
  Inv None c -> MInv c -> CInv c -> paths_ok (pac (met c)) rho ->
  debt_pos (met c) = false -> total (met c) <> 0%N ->
  cycle_debits (met c) <= rho * QofN (total (met c) + freed (met c)).
Proof.
  intros I M C P DP T. pose proof (credit_bound c rho I M C P) as CB.
  assert (R0 : 0 <= rho) by (destruct P as [? [? [? [? [? [? [? ?]]]]]]]; lra).
  pose proof (QofN_nonneg (total (met c) + freed (met c))) as NN.
  unfold debt_pos, Qpos_b, allocation_debt in DP. apply N.eqb_neq in T. rewrite T in DP.
  destruct (Qle_bool (cycle_debits (met c)) 0) eqn:E1.
  - apply Qle_bool_iff in E1. nra.
  - apply negb_false_iff in DP. apply Qle_bool_iff in DP.
    pose proof (Qmax_ge_l (cycle_debits (met c) - cycle_credits (met c)) 0). lra.
Qed.

(** the progress bound (N1, general form): a cycle that woke with [H] objects and debits [d0], in which
    [A] allocations were made since (so that it has seen [H + A] objects and its debits are [d0 + A]),
    and whose debt is paid although it is unfinished, satisfies A (1 - rho) <= rho H - d0.  For a cycle
    woken by debt (d0 > 0) and rho < 1 this is the documented A < rho H / (1 - rho). *)
Theorem progress_bound c rho (H A d0 : Q) :
  Inv None c -> MInv c -> CInv c -> paths_ok (pac (met c)) rho ->
  debt_pos (met c) = false -> total (met c) <> 0%N ->
  QofN (total (met c) + freed (met c)) == H + A -> cycle_debits (met c) == d0 + A ->
  A * (1 - rho) <= rho * H - d0.
Proof.
  intros I M C P DP T EO ED. pose proof (paid_debt_bounds_debits c rho I M C P DP T) as B.
  rewrite EO, ED in B. lra.
Qed.
