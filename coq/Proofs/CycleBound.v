(** * The progress bound for the states of one collection cycle (C09). *)
From Coq Require Import Lqa.
From GA Require Import Model.Spec Proofs.HeapLemmas Proofs.Inv Proofs.MInv Proofs.MetricsLemmas Proofs.Credit Proofs.CreditWorld.
From GA Require Import Proofs.CycleFrame.
Local Open Scope Q_scope.

(** states of the cycle that started in [c0]: mutator operations, collector steps that do not roll the
    cycle over, and anything that leaves the metrics alone (entering / leaving callbacks, root barriers) *)
Inductive in_cycle (c0 : ctx) : ctx -> Prop :=
| ic_start : in_cycle c0 c0
| ic_micro w ar k m ar' hs out :
    in_cycle c0 (actx ar) -> micro w ar k m = (ar', hs, out) -> in_cycle c0 (actx ar')
| ic_collect c st hs f c1 evs k f' :
    in_cycle c0 c -> Inv None c -> MInv c -> loop_body st hs c f = (c1, evs, k, f') -> ph c1 <> Sleep -> in_cycle c0 c1
| ic_same_met c c' : in_cycle c0 c -> met c' = met c -> in_cycle c0 c'.

Lemma in_cycle_cyc c0 c : in_cycle c0 c -> cyc_step (met c0) (met c).
Proof.
  induction 1 as [|w ar k m ar' hs out H IH E|c st hs f c1 evs k f' H IH I M E NS|c c' H IH EM].
  - apply cyc_refl.
  - eapply cyc_trans; [exact IH|eapply micro_cyc; eauto].
  - eapply cyc_trans; [exact IH|eapply loop_body_cyc; eauto].
  - rewrite EM. exact IH.
Qed.

(** The progress bound, without bookkeeping hypotheses: let the cycle have started in [c0] (nothing released
    yet) with H = total objects and debits d0; in any later state [c] of the same cycle in which the debt is
    paid, with A allocations made since, A (1 - rho) <= rho H - d0. *)
Theorem progress_bound_cycle c0 c rho :
  freed (met c0) = 0%N -> in_cycle c0 c ->
  Inv None c -> MInv c -> CInv c -> paths_ok (pac (met c)) rho ->
  debt_pos (met c) = false -> total (met c) <> 0%N ->
  let H := QofN (total (met c0)) in
  let A := QofN (Metrics.allocated (met c)) - QofN (Metrics.allocated (met c0)) in
  let d0 := cycle_debits (met c0) in
  A * (1 - rho) <= rho * H - d0.
Proof.
  intros F0 IC I M C P DP T H A d0.
  destruct (in_cycle_cyc _ _ IC) as [J [PA [W AR]] LE].
  apply (progress_bound c rho H A d0 I M C P DP T).
  - unfold cycJ in J. rewrite F0 in J. cbn in J.
    unfold H, A, QofN. rewrite N2Z.inj_add, inject_Z_plus.
    assert (EZ : (Z.of_N (total (met c)) + Z.of_N (freed (met c)) =
                  Z.of_N (total (met c0)) + (Z.of_N (Metrics.allocated (met c)) - Z.of_N (Metrics.allocated (met c0))))%Z) by lia.
    rewrite <- inject_Z_plus, EZ, inject_Z_plus. unfold Zminus. rewrite inject_Z_plus, inject_Z_opp. ring.
  - unfold d0, A, cycle_debits. rewrite W, AR. ring.
Qed.
