(** * Monotonicity of the allocation debt under mutator operations (C10). *)
From Coq Require Import Lqa.
From GA Require Import Model.Metrics Proofs.MetricsLemmas.
Local Open Scope Q_scope.

Lemma QofN_succ n : QofN (n + 1) == QofN n + 1.
Proof. unfold QofN. rewrite N2Z.inj_add. rewrite inject_Z_plus. reflexivity. Qed.

Lemma QofN_le a b : (a <= b)%N -> QofN a <= QofN b.
Proof. intros H. unfold QofN. rewrite <- Zle_Qle. lia. Qed.

(** the debt as a function of debits and credits *)
Definition debt_of (tot : N) (deb cre : Q) : Q :=
  if N.eqb tot 0 then 0 else if Qle_bool deb 0 then 0 else Qmax (deb - cre) 0.

Lemma debt_of_eq m : allocation_debt m = debt_of (total m) (cycle_debits m) (cycle_credits m).
Proof. reflexivity. Qed.

Lemma debt_of_nonneg t d c : 0 <= debt_of t d c.
Proof. unfold debt_of. destruct (N.eqb t 0); [lra|]. destruct (Qle_bool d 0); [lra|]. apply Qmax_ge_r. Qed.

(** more debits, fewer credits, same non-emptiness: no less debt *)
Lemma debt_of_mono t d c d' c' : d <= d' -> c' <= c -> debt_of t d c <= debt_of t d' c'.
Proof.
  intros HD HC. unfold debt_of. destruct (N.eqb t 0); [lra|]. unfold Qmax.
  destruct (Qle_bool d 0) eqn:E1; destruct (Qle_bool d' 0) eqn:E2;
    destruct (Qle_bool (d - c) 0) eqn:E3; destruct (Qle_bool (d' - c') 0) eqn:E4; qb; lra.
Qed.

(** an arena that becomes non-empty *)
Lemma debt_of_nonempty t t' d c d' c' : t = 0%N -> 0 <= debt_of t' d' c' -> debt_of t d c <= debt_of t' d' c'.
Proof. intros -> H. unfold debt_of at 1. cbn. exact H. Qed.

Lemma debt_allocated_mono m : allocation_debt m <= allocation_debt (mark_gc_allocated m).
Proof.
  rewrite !debt_of_eq. unfold cycle_debits, cycle_credits, mark_gc_allocated.
  cbn [pac total wakeup artificial allocated dropped freed marked traced remembered].
  destruct (N.eqb (total m) 0) eqn:T.
  - apply N.eqb_eq in T. apply debt_of_nonempty; auto. apply debt_of_nonneg.
  - assert (T' : N.eqb (total m + 1) 0 = false) by (apply N.eqb_neq; lia).
    unfold debt_of. rewrite T, T'. fold (debt_of 1 (QofN (allocated m) - wakeup m + artificial m)).
    pose proof (QofN_succ (allocated m)) as S.
    set (cr := QofN (marked m) * mark_f (pac m) + _ + _ + _ + _).
    unfold Qmax.
    destruct (Qle_bool (QofN (allocated m) - wakeup m + artificial m) 0) eqn:E1;
      destruct (Qle_bool (QofN (allocated m + 1) - wakeup m + artificial m) 0) eqn:E2;
      destruct (Qle_bool (QofN (allocated m) - wakeup m + artificial m - cr) 0) eqn:E3;
      destruct (Qle_bool (QofN (allocated m + 1) - wakeup m + artificial m - cr) 0) eqn:E4; qb; lra.
Qed.

Lemma debt_untraced_mono m : 0 <= trace_f (pac m) -> allocation_debt m <= allocation_debt (mark_gc_untraced m).
Proof.
  intros F. rewrite !debt_of_eq. unfold mark_gc_untraced. cbn [total]. apply debt_of_mono.
  - unfold cycle_debits. cbn. lra.
  - unfold cycle_credits. cbn [pac total wakeup artificial allocated dropped freed marked traced remembered].
    assert (L : QofN (traced m - 1) <= QofN (traced m)) by (apply QofN_le; lia). nra.
Qed.

(** first marking (forward barrier, resurrect): the one credit a mutator operation can earn *)
Lemma debt_marked_bound m : 0 <= mark_f (pac m) -> allocation_debt m - mark_f (pac m) <= allocation_debt (mark_gc_marked m).
Proof.
  intros F. rewrite !debt_of_eq. unfold cycle_debits, cycle_credits, mark_gc_marked, debt_of.
  cbn [pac total wakeup artificial allocated dropped freed marked traced remembered].
  destruct (N.eqb (total m) 0); [lra|].
  pose proof (QofN_succ (marked m)) as S.
  set (d := QofN (allocated m) - wakeup m + artificial m).
  set (rest := QofN (traced m) * trace_f (pac m) + QofN (remembered m) * keep_f (pac m) + QofN (dropped m) * drop_f (pac m) + QofN (freed m) * free_f (pac m)).
  assert (E : QofN (marked m + 1) * mark_f (pac m) == QofN (marked m) * mark_f (pac m) + mark_f (pac m)) by (rewrite S; ring).
  unfold Qmax.
  destruct (Qle_bool d 0) eqn:E1; [lra|].
  destruct (Qle_bool (d - (QofN (marked m) * mark_f (pac m) + QofN (traced m) * trace_f (pac m) + QofN (remembered m) * keep_f (pac m) + QofN (dropped m) * drop_f (pac m) + QofN (freed m) * free_f (pac m))) 0) eqn:E3;
    destruct (Qle_bool (d - (QofN (marked m + 1) * mark_f (pac m) + QofN (traced m) * trace_f (pac m) + QofN (remembered m) * keep_f (pac m) + QofN (dropped m) * drop_f (pac m) + QofN (freed m) * free_f (pac m))) 0) eqn:E4; qb; lra.
Qed.

(** metrics moves that a mutator operation outside the first-marking class can make *)
Inductive mstep (m : metrics) : metrics -> Prop :=
| ms_refl : mstep m m
| ms_alloc m' : mstep m m' -> mstep m (mark_gc_allocated m')
| ms_untr m' : mstep m m' -> mstep m (mark_gc_untraced m').

Lemma mstep_pac m m' : mstep m m' -> pac m' = pac m.
Proof. induction 1; auto. Qed.

Lemma mstep_trans a b c : mstep a b -> mstep b c -> mstep a c.
Proof. intros H1 H2. induction H2; auto; constructor; auto. Qed.

Lemma mstep_debt m m' : 0 <= trace_f (pac m) -> mstep m m' -> allocation_debt m <= allocation_debt m'.
Proof.
  intros F H. induction H as [|m' H IH|m' H IH]; [lra| |].
  - pose proof (debt_allocated_mono m'). lra.
  - pose proof (debt_untraced_mono m'). rewrite (mstep_pac _ _ H) in *. lra.
Qed.
