(** * src/metrics.rs over exact rationals: sign, the empty arena, adjust_debt, the roll-over. *)
From Coq Require Import Lqa.
From GA Require Import Model.Metrics.
Local Open Scope Q_scope.

Lemma Qmax_spec a b : (a <= b -> Qmax a b == b) /\ (b < a -> Qmax a b == a).
Proof.
  unfold Qmax. destruct (Qle_bool a b) eqn:E.
  - split; intros; [reflexivity|]. apply Qle_bool_iff in E. lra.
  - split; intros H; [|reflexivity]. apply Qle_bool_iff in H. congruence.
Qed.

Lemma Qmax_ge_r a b : b <= Qmax a b.
Proof. unfold Qmax. destruct (Qle_bool a b) eqn:E; [lra|]. assert (~ a <= b) by (rewrite <- Qle_bool_iff; congruence). lra. Qed.

Lemma Qmax_ge_l a b : a <= Qmax a b.
Proof. unfold Qmax. destruct (Qle_bool a b) eqn:E; [apply Qle_bool_iff in E; auto|lra]. Qed.

(** allocation_debt is never negative *)
Lemma debt_nonneg m : 0 <= allocation_debt m.
Proof.
  unfold allocation_debt. destruct (N.eqb (total m) 0); [lra|].
  destruct (Qle_bool (cycle_debits m) 0); [lra|]. apply Qmax_ge_r.
Qed.

(** ... and is zero for an arena holding no allocations *)
Lemma debt_zero_empty m : total m = 0%N -> allocation_debt m = 0.
Proof. intros H. unfold allocation_debt. rewrite H. reflexivity. Qed.

Ltac qb :=
  repeat match goal with
  | H : Qle_bool ?a ?b = true |- _ => apply Qle_bool_iff in H
  | H : Qle_bool ?a ?b = false |- _ =>
      let H' := fresh in assert (H' : ~ a <= b) by (rewrite <- Qle_bool_iff; congruence); clear H
  end.

(** while positive, the debt grows by exactly [x] after adjust_debt(x), x >= 0 *)
Lemma adjust_debt_adds m x :
  0 < allocation_debt m -> 0 <= x -> allocation_debt (adjust_debt m x) == allocation_debt m + x.
Proof.
  unfold allocation_debt, adjust_debt, cycle_debits, cycle_credits.
  cbn [pac total wakeup artificial allocated dropped freed marked traced remembered].
  destruct (N.eqb (total m) 0); [intros H; lra|].
  generalize (QofN (marked m) * mark_f (pac m) + QofN (traced m) * trace_f (pac m)
            + QofN (remembered m) * keep_f (pac m) + QofN (dropped m) * drop_f (pac m)
            + QofN (freed m) * free_f (pac m)). intros C.
  assert (EQ : Qred (artificial m + x) == artificial m + x) by apply Qred_correct.
  generalize dependent (Qred (artificial m + x)). intros A' EQ.
  generalize (QofN (allocated m) - wakeup m). intros B.
  unfold Qmax.
  destruct (Qle_bool (B + artificial m) 0) eqn:E1; [intros H; lra|].
  destruct (Qle_bool (B + A') 0) eqn:E2;
    destruct (Qle_bool (B + artificial m - C) 0) eqn:E3;
    destruct (Qle_bool (B + A' - C) 0) eqn:E4; qb; intros HP HX; lra.
Qed.

(** after a roll-over that resets the debt, no debt is owed until allocations exceed the wake-up
    amount, which is at least [min_sleep] *)
Lemma finish_cycle_reset_zero m : allocation_debt (finish_cycle m true) == 0.
Proof.
  unfold allocation_debt, finish_cycle, cycle_debits.
  cbn [pac total wakeup artificial allocated dropped freed marked traced remembered].
  destruct (N.eqb (total m) 0); [reflexivity|].
  set (W := Qred (Qmax (QofN (remembered m) * sleep_f (pac m)) (QofN (min_sleep (pac m))))).
  assert (HW : 0 <= W).
  { unfold W. rewrite Qred_correct. eapply Qle_trans; [|apply Qmax_ge_r].
    unfold QofN. change 0 with (inject_Z 0). rewrite <- Zle_Qle. apply N2Z.is_nonneg. }
  destruct (Qle_bool (QofN 0 - W + 0) 0) eqn:E; [reflexivity|].
  exfalso. assert (~ QofN 0 - W + 0 <= 0) by (rewrite <- Qle_bool_iff; congruence).
  assert (Z0 : QofN 0 == 0) by reflexivity. rewrite Z0 in H. lra.
Qed.

Lemma wakeup_after_cycle m b :
  wakeup (finish_cycle m b) == Qmax (QofN (remembered m) * sleep_f (pac m)) (QofN (min_sleep (pac m))).
Proof. unfold finish_cycle. cbn [wakeup]. apply Qred_correct. Qed.

(** while asleep after such a roll-over: debt is zero as long as allocations since then do not
    exceed the wake-up amount, and equals the excess once they do *)
Lemma sleeping_debt m :
  artificial m == 0 -> marked m = 0%N -> traced m = 0%N -> remembered m = 0%N -> dropped m = 0%N -> freed m = 0%N ->
  total m <> 0%N ->
  (QofN (allocated m) <= wakeup m -> allocation_debt m == 0)
  /\ (wakeup m < QofN (allocated m) -> allocation_debt m == QofN (allocated m) - wakeup m).
Proof.
  intros A M T R D F NZ.
  assert (HC : cycle_credits m == 0).
  { unfold cycle_credits. rewrite M, T, R, D, F. unfold QofN. cbn [Z.of_N]. ring. }
  unfold allocation_debt, cycle_debits. apply N.eqb_neq in NZ. rewrite NZ.
  generalize dependent (cycle_credits m). intros C HC.
  generalize (QofN (allocated m)). intros a. unfold Qmax.
  split; intros H;
    destruct (Qle_bool (a - wakeup m + artificial m) 0) eqn:E1;
    destruct (Qle_bool (a - wakeup m + artificial m - C) 0) eqn:E2; qb; lra.
Qed.
