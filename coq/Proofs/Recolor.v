(** * Recolouring one object during [Mark]: how every clause of [Inv] reacts.
    Most micro-steps (trace, trace_weak, make_gray_again, resurrect, the blackening in mark_one)
    are a recolouring of one object plus a queue / counter update. *)
From GA Require Import Model.Spec Proofs.HeapLemmas Proofs.Inv.
Local Open Scope nat_scope.

Record recol (c c' : ctx) (x : id) (o : obj) (k : color) : Prop := mkRecol {
  rc_get : get c x = Some o;
  rc_heap : heap c' = hset (heap c) x (Some (with_col o k));
  rc_ph : ph c' = ph c;
  rc_pre : pre c' = pre c;
  rc_unsw : unsw c' = unsw c;
  rc_rnt : rnt c' = rnt c;
  rc_rootS : rootS c' = rootS c;
  rc_rootW : rootW c' = rootW c;
  rc_regs : regs c' = regs c;
  rc_wregs : wregs c' = wregs c;
  rc_lics : lics c' = lics c;
  rc_ub : ub c' = ub c
}.

Lemma recol_get c c' x o k y :
  recol c c' x o k -> get c' y = if Nat.eqb x y then Some (with_col o k) else get c y.
Proof.
  intros R. unfold get. rewrite (rc_heap _ _ _ _ _ R).
  destruct (Nat.eqb_spec x y); subst.
  - apply hget_hset_eq. eapply hget_some_lt. exact (rc_get _ _ _ _ _ R).
  - apply hget_hset_neq; assumption.
Qed.

Lemma recol_get_inv c c' x o k y o' :
  recol c c' x o k -> get c' y = Some o' ->
  exists o0, get c y = Some o0 /\ live o' = live o0 /\ ntr o' = ntr o0 /\ strong o' = strong o0
             /\ weak o' = weak o0 /\ okind o' = okind o0
             /\ ((y = x /\ o0 = o /\ col o' = k) \/ (y <> x /\ o' = o0)).
Proof.
  intros R G. rewrite (recol_get _ _ _ _ _ y R) in G.
  destruct (Nat.eqb_spec x y); subst.
  - inversion G; subst. exists o. rewrite (rc_get _ _ _ _ _ R). cbn. repeat split; auto.
  - exists o'. repeat split; auto.
Qed.

Lemma recol_allocated c c' x o k y : recol c c' x o k -> (allocated c' y <-> allocated c y).
Proof.
  intros R. unfold allocated. rewrite (recol_get _ _ _ _ _ y R).
  destruct (Nat.eqb_spec x y); subst.
  - split; intros _; eauto. exists o. exact (rc_get _ _ _ _ _ R).
  - tauto.
Qed.

Lemma recol_all c c' x o k : recol c c' x o k -> all c' = all c.
Proof. intros R. unfold all. rewrite (rc_pre _ _ _ _ _ R), (rc_unsw _ _ _ _ _ R). reflexivity. Qed.

(** The monotone colour changes that keep "is a marked target" facts. *)
Definition target_safe (k0 k : color) : Prop := (dark k0 -> dark k) /\ (k0 <> White -> k <> White).

Lemma recol_tstrong c c' x o k t :
  recol c c' x o k -> target_safe (col o) k -> tstrong c t -> tstrong c' t.
Proof.
  intros R [TS _] [o0 [G D]]. unfold tstrong. rewrite (recol_get _ _ _ _ _ t R).
  destruct (Nat.eqb_spec x t); subst.
  - exists (with_col o k). split; auto. cbn. apply TS. rewrite (rc_get _ _ _ _ _ R) in G. inversion G; subst. auto.
  - exists o0. auto.
Qed.

Lemma recol_tweak c c' x o k t :
  recol c c' x o k -> target_safe (col o) k -> tweak c t -> tweak c' t.
Proof.
  intros R [_ TS] [o0 [G D]]. unfold tweak. rewrite (recol_get _ _ _ _ _ t R).
  destruct (Nat.eqb_spec x t); subst.
  - exists (with_col o k). split; auto. cbn. apply TS. rewrite (rc_get _ _ _ _ _ R) in G. inversion G; subst. auto.
  - exists o0. auto.
Qed.

Lemma recol_unblack c c' x o k p :
  recol c c' x o k -> (k = Black -> ntr o = false) -> unblack c p -> unblack c' p.
Proof.
  intros R HK U o' G. rewrite (recol_get _ _ _ _ _ p R) in G.
  destruct (Nat.eqb_spec x p); subst.
  - inversion G; subst. cbn. intros [B N]. rewrite (HK B) in N. discriminate.
  - apply U; auto.
Qed.

(** In a phase other than [Sweep] the safety predicates do not depend on colours. *)
Lemma recol_ok_strong e c c' x o k t :
  Inv e c -> ph c <> Sweep -> recol c c' x o k -> ok_strong c t -> ok_strong c' t.
Proof.
  intros I HP R [o0 [G [L N]]]. unfold ok_strong. rewrite (recol_get _ _ _ _ _ t R).
  assert (NC : ~ condemned c' t).
  { intros [Hin _]. rewrite (rc_unsw _ _ _ _ _ R), (i_unsw _ _ I HP) in Hin. contradiction. }
  destruct (Nat.eqb_spec x t); subst.
  - exists (with_col o k). rewrite (rc_get _ _ _ _ _ R) in G. inversion G; subst. cbn. auto.
  - exists o0. auto.
Qed.

Lemma recol_ok_weak e c c' x o k t :
  Inv e c -> ph c <> Sweep -> recol c c' x o k -> ok_weak c t -> ok_weak c' t.
Proof.
  intros I HP R [A N]. split.
  - apply (recol_allocated _ _ _ _ _ t R); auto.
  - intros [Hin _]. rewrite (rc_unsw _ _ _ _ _ R), (i_unsw _ _ I HP) in Hin. contradiction.
Qed.

Lemma recol_slots_ok e c c' x o k s w :
  Inv e c -> ph c <> Sweep -> recol c c' x o k -> slots_ok c s w -> slots_ok c' s w.
Proof.
  intros I HP R [S W]. split; intros t Ht.
  - eapply recol_ok_strong; eauto.
  - eapply recol_ok_weak; eauto.
Qed.

Lemma recol_slots_marked c c' x o k s w :
  recol c c' x o k -> target_safe (col o) k -> slots_marked c s w -> slots_marked c' s w.
Proof.
  intros R TS [S W]. split; intros t Ht.
  - eapply recol_tstrong; eauto.
  - eapply recol_tweak; eauto.
Qed.

Lemma recol_lic_ok c c' x o k l :
  recol c c' x o k -> target_safe (col o) k -> (k = Black -> ntr o = false) ->
  lic_ok c l -> lic_ok c' l.
Proof.
  intros R TS HK L HM. rewrite (rc_ph _ _ _ _ _ R) in HM. specialize (L HM).
  destruct l; cbn in *.
  - eapply recol_unblack; eauto.
  - eapply recol_tstrong; eauto.
  - eapply recol_tweak; eauto.
  - destruct L; [left; eapply recol_unblack|right; eapply recol_tstrong]; eauto.
  - destruct L; [left; eapply recol_unblack|right; eapply recol_tweak]; eauto.
Qed.

(** ** The main recolouring lemma (phase [Mark]). *)
Lemma inv_recol_mark e e' c c' x o k :
  Inv e c -> recol c c' x o k -> ph c = Mark ->
  (* queues *)
  (forall y, In y (gray c' ++ gray_again c') <->
             ((y = x /\ k = Gray) \/ (y <> x /\ In y (gray c ++ gray_again c)))) ->
  NoDup (gray c' ++ gray_again c') ->
  (* new dark colours need a live value *)
  (dark k -> live o = true) ->
  target_safe (col o) k ->
  (* the recoloured object as a source of edges *)
  (k = Black -> e' = Some x \/ (strong o = [] /\ weak o = [])) ->
  (forall p, Some p <> e' -> p <> x -> Some p <> e) ->
  (* licences (only present inside callbacks, where nothing traced becomes black) *)
  (lics c = [] \/ (k = Black -> ntr o = false)) ->
  Inv e' c'.
Proof.
  intros I R HM HQ HND HL TS HB HE HLic.
  assert (HPS : ph c <> Sweep) by (rewrite HM; discriminate).
  constructor.
  - rewrite (recol_all _ _ _ _ _ R). apply (i_nodup _ _ I).
  - intros y. rewrite (recol_all _ _ _ _ _ R), (recol_allocated _ _ _ _ _ y R). apply (i_all _ _ I).
  - intros _. rewrite (rc_unsw _ _ _ _ _ R). apply (i_unsw _ _ I HPS).
  - rewrite (rc_ph _ _ _ _ _ R), HM. discriminate.
  - intros y. rewrite HQ. rewrite (recol_get _ _ _ _ _ y R).
    destruct (Nat.eqb_spec x y); subst.
    + split.
      * intros [[_ K]|[N _]]; [|congruence]. exists (with_col o k). auto.
      * intros [o' [G C]]. inversion G; subst. cbn in C. left; auto.
    + rewrite (i_gray _ _ I y). split.
      * intros [[E _]|[_ H]]; [congruence|auto].
      * intros H. right. split; auto.
  - exact HND.
  - rewrite (rc_ph _ _ _ _ _ R), HM. congruence.
  - intros _. exact Logic.I.
  - intros y o' G D. destruct (recol_get_inv _ _ _ _ _ _ _ R G) as [o0 [G0 [L0 [_ [_ [_ [_ Hc]]]]]]].
    rewrite L0. destruct Hc as [[-> [-> C]]|[N ->]].
    + apply HL. rewrite <- C. exact D.
    + eapply (i_dark_live _ _ I); eauto.
  - intros y o' G N. destruct (recol_get_inv _ _ _ _ _ _ _ R G) as [o0 [G0 [_ [N0 [S0 [W0 _]]]]]].
    rewrite S0, W0. eapply (i_ntr _ _ I); eauto; congruence.
  - rewrite (rc_ph _ _ _ _ _ R), HM. discriminate.
  - intros p o' G L NC. destruct (recol_get_inv _ _ _ _ _ _ _ R G) as [o0 [G0 [L0 [_ [S0 [W0 _]]]]]].
    rewrite S0, W0. eapply recol_slots_ok; eauto.
    apply (i_obj _ _ I p o0 G0); [congruence|eapply not_condemned_nosweep; eauto].
  - rewrite (rc_rootS _ _ _ _ _ R), (rc_rootW _ _ _ _ _ R). eapply recol_slots_ok; eauto. apply (i_root _ _ I).
  - rewrite (rc_regs _ _ _ _ _ R), (rc_wregs _ _ _ _ _ R). eapply recol_slots_ok; eauto. apply (i_regs _ _ I).
  - intros _ p o' G B NE. destruct (recol_get_inv _ _ _ _ _ _ _ R G) as [o0 [G0 [_ [_ [S0 [W0 [_ Hc]]]]]]].
    rewrite S0, W0. destruct Hc as [[-> [-> C]]|[N ->]].
    + rewrite B in C. destruct (HB (eq_sym C)) as [E|[ES EW]].
      * congruence.
      * rewrite ES, EW. split; intros t [].
    + eapply recol_slots_marked; eauto. eapply (i_tri _ _ I); eauto.
  - intros _ HR. rewrite (rc_rnt _ _ _ _ _ R) in HR.
    rewrite (rc_rootS _ _ _ _ _ R), (rc_rootW _ _ _ _ _ R). eapply recol_slots_marked; eauto.
    apply (i_tri_root _ _ I); auto.
  - rewrite (rc_lics _ _ _ _ _ R). destruct HLic as [E|HK].
    + rewrite E. constructor.
    + eapply Forall_impl; [|apply (i_lics _ _ I)]. intros l. eapply recol_lic_ok; eauto.
  - rewrite (rc_ub _ _ _ _ _ R). apply (i_ub _ _ I).
Qed.
