(** * Resurrection holds for the cycle (C07): an object that is marked (gray or black) -- in particular
    one that was just resurrected -- is not destructed by the rest of this cycle, and when marking
    completes everything strongly reachable from it is marked as well, hence kept. *)
From GA Require Import Model.Spec Proofs.HeapLemmas Proofs.Inv Proofs.Recolor Proofs.InvMicro Proofs.InvStore
     Proofs.InvMark Proofs.InvSweep Proofs.InvLoop Proofs.Phases Proofs.Final.
Local Open Scope nat_scope.

(** strong paths from [x] *)
Inductive reach_from (c : ctx) (x : id) : id -> Prop :=
| rf_self : reach_from c x x
| rf_step p o y : reach_from c x p -> get c p = Some o -> In (Some y) (strong o) -> reach_from c x y.

(** when marking is complete, the closure of a black object is black *)
Theorem closure_black c x o :
  Inv None c -> ph c = Mark -> gray_remaining c = false -> get c x = Some o -> col o = Black ->
  forall y, reach_from c x y -> exists oy, get c y = Some oy /\ col oy = Black.
Proof.
  intros I HM GR G B y R. induction R as [|p op y Rp IH Gp Hin]; [eauto|].
  destruct IH as [op' [Gp' Bp]]. rewrite Gp in Gp'. inversion Gp'; subst op'.
  eapply marked_closure; eauto.
Qed.

(** "safe for this cycle": marked while marking; while sweeping either already passed by the cursor or
    black in the part still to be swept *)
Definition safe_in_cycle (c : ctx) (x : id) : Prop :=
  match ph c with
  | Mark => exists o, get c x = Some o /\ dark (col o)
  | Sweep => In x (pre c) \/ (In x (unsw c) /\ exists o, get c x = Some o /\ col o = Black)
  | Sleep => True
  end.

(** one sweep step emits no event for a safe object and keeps it safe *)
Lemma sweep_one_safe c c' evs r x :
  Inv None c -> ph c = Sweep -> safe_in_cycle c x -> sweep_one c = (c', evs, r) ->
  (forall ev, In ev evs -> ev_id ev <> x) /\ (ph c' = Sweep -> safe_in_cycle c' x).
Proof.
  intros I HS S E. unfold safe_in_cycle in S. rewrite HS in S.
  pose proof (sweep_one_ph _ _ _ _ E) as P'. unfold sweep_one in E.
  destruct (unsw c) as [|y rest] eqn:HU.
  { inversion E; subst. split; [intros ev []|]. intros _. unfold safe_in_cycle. rewrite HS, HU. exact S. }
  assert (ND := i_nodup _ _ I). unfold all in ND. rewrite HU in ND. apply nodup_mid in ND. destruct ND as [NP [NR _]].
  destruct (get c y) as [o|] eqn:G.
  2:{ exfalso. assert (allocated c y) by (apply (i_all _ _ I); unfold all; rewrite HU, in_app_iff; right; left; auto).
      destruct H; congruence. }
  assert (XY : col o <> Black -> x <> y).
  { intros NB ->. destruct S as [S|[_ [ox [Gx Bx]]]]; [contradiction|]. rewrite G in Gx. inversion Gx; subst. contradiction. }
  assert (KEEP : forall c2, ph c2 = Sweep -> pre c2 = pre c ++ [y] -> unsw c2 = rest ->
            (forall z, z <> y -> get c2 z = get c z) -> safe_in_cycle c2 x).
  { intros c2 P2 EP EU GO. unfold safe_in_cycle. rewrite P2, EP, EU.
    destruct (Nat.eq_dec x y) as [->|NE]; [left; rewrite in_app_iff; right; left; auto|].
    destruct S as [S|[Hin [ox [Gx Bx]]]]; [left; rewrite in_app_iff; auto|].
    right. destruct Hin as [->|Hin]; [contradiction|]. split; auto. exists ox. rewrite GO by auto. auto. }
  destruct (col o) eqn:CO; inversion E; subst; clear E.
  - (* White: released -- it is not x *)
    assert (NE : x <> y) by (apply XY; discriminate).
    split.
    + intros ev Hin. destruct (live o); cbn in Hin; intuition (subst; cbn; auto).
    + intros _. match goal with |- safe_in_cycle ?C x => set (cn := C) in * end.
      assert (EP : pre cn = pre c) by (unfold cn, free_total; destruct (N.eqb _ 0); destruct (live o); reflexivity).
      assert (EU : unsw cn = rest) by (unfold cn, free_total; destruct (N.eqb _ 0); destruct (live o); reflexivity).
      assert (GO : forall z, z <> y -> get cn z = get c z).
      { intros z NZ. unfold cn, get, free_total. destruct (N.eqb _ 0); destruct (live o); cbn; rewrite hget_hset_neq by auto; reflexivity. }
      unfold safe_in_cycle. rewrite P', HS, EP, EU. destruct S as [S|[Hin [ox [Gx Bx]]]]; [left; auto|].
      right. destruct Hin as [->|Hin]; [contradiction|]. split; auto. exists ox. rewrite GO by auto. auto.
  - (* WhiteWeak: destructed, shell kept -- it is not x *)
    assert (NE : x <> y) by (apply XY; discriminate).
    split.
    + intros ev Hin. destruct (live o); cbn in Hin; intuition (subst; cbn; auto).
    + intros _. apply KEEP; [rewrite P'; exact HS|destruct (live o); reflexivity|destruct (live o); reflexivity|].
      intros z NZ. destruct (live o); cbn; unfold get; cbn; rewrite hget_hset_neq by auto; reflexivity.
  - exfalso. eapply (i_gray_mark _ _ I); eauto; rewrite HS; discriminate.
  - (* Black: kept, no event *)
    split; [intros ev []|]. intros _. apply KEEP; [rewrite P'; exact HS|reflexivity|reflexivity|].
    intros z NZ. unfold get. cbn. rewrite hget_hset_neq by auto. reflexivity.
Qed.

(** ** marking never un-marks: a dark object stays dark through every marking step *)
Definition DP (c c' : ctx) : Prop :=
  forall x o, get c x = Some o -> dark (col o) -> exists o', get c' x = Some o' /\ dark (col o').

Lemma dp_refl c : DP c c.
Proof. intros x o G D. eauto. Qed.
Lemma dp_trans a b c : DP a b -> DP b c -> DP a c.
Proof. intros H1 H2 x o G D. destruct (H1 x o G D) as [o1 [G1 D1]]. eauto. Qed.
Lemma dp_same_heap c c' : heap c' = heap c -> DP c c'.
Proof. intros H x o G D. exists o. unfold get in *. rewrite H. auto. Qed.
Lemma dp_heap_of c c1 c' : DP c c1 -> heap c' = heap c1 -> DP c c'.
Proof. intros K H. eapply dp_trans; [exact K|apply dp_same_heap; auto]. Qed.

(** recolouring [x] to [k] keeps dark objects dark if [k] is dark or [x] was not dark *)
Lemma dp_recolor c x k : (dark k \/ forall o, get c x = Some o -> ~ dark (col o)) -> DP c (recolor c x k).
Proof.
  intros HK y o G D. unfold recolor. destruct (get c x) as [ox|] eqn:Gx; [|exists o; unfold get in *; cbn; auto].
  rewrite (get_put c x y _ ox Gx). destruct (Nat.eqb_spec x y) as [->|N]; [|eauto].
  rewrite Gx in G. inversion G; subst. exists (with_col o k). split; auto. cbn.
  destruct HK as [HK|HK]; auto. exfalso. eapply HK; eauto.
Qed.

Lemma dp_make_gray_again c p : DP c (make_gray_again c p).
Proof.
  unfold make_gray_again. apply (dp_heap_of c (recolor c p Gray)); [apply dp_recolor; left; left; reflexivity|].
  destruct (N.eqb _ 0); reflexivity.
Qed.

Lemma dp_trace c t : DP c (trace c t).
Proof.
  unfold trace. destruct (get c t) as [o|] eqn:G; [|apply dp_same_heap; reflexivity].
  destruct (col o) eqn:CO; try apply dp_refl; destruct (ntr o);
    first [apply (dp_heap_of c (recolor c t Gray)); [apply dp_recolor; left; left; reflexivity|reflexivity]
          |apply (dp_heap_of c (recolor c t Black)); [apply dp_recolor; left; right; reflexivity|reflexivity]].
Qed.

Lemma dp_trace_weak c t : DP c (trace_weak c t).
Proof.
  unfold trace_weak. destruct (get c t) as [o|] eqn:G; [|apply dp_same_heap; reflexivity].
  destruct (col o) eqn:CO; try apply dp_refl.
  apply (dp_heap_of c (recolor c t WhiteWeak)); [|reflexivity].
  apply dp_recolor. right. intros o' G' [D|D]; rewrite G in G'; inversion G'; subst; congruence.
Qed.

Lemma dp_trace_edges es : forall c, DP c (trace_edges c es).
Proof.
  induction es as [|e es IH]; intros c; [apply dp_refl|]. cbn [trace_edges fold_left].
  eapply dp_trans; [|apply IH]. destruct e; cbn; [apply dp_trace|apply dp_trace_weak].
Qed.

Lemma dp_mark_one c f c' r u : mark_one c f = (c', r, u) -> DP c c'.
Proof.
  unfold mark_one.
  assert (POP : forall x c1, heap c1 = heap c ->
    (let c2 := set_met c1 (mark_gc_traced (met c1)) in
     let c3 := recolor c2 x Black in
     match get c3 x with
     | None => (c3, MContinue, false)
     | Some o =>
       let c4 := if live o then c3 else set_ub c3 in
       match f with
       | Some j => if can_panic (okind o) then (make_gray_again (trace_edges c4 (firstn j (edges o))) x, MPanic, true)
                   else (trace_edges c4 (edges o), MContinue, false)
       | None => (trace_edges c4 (edges o), MContinue, false)
       end
     end) = (c', r, u) -> DP c c').
  { intros x c1 H1. cbv zeta.
    assert (K3 : DP c (recolor (set_met c1 (mark_gc_traced (met c1))) x Black)).
    { eapply dp_trans; [apply (dp_same_heap c (set_met c1 (mark_gc_traced (met c1)))); exact H1|apply dp_recolor; left; right; reflexivity]. }
    destruct (get _ x) as [o|]; [|intros E; inversion E; subst; exact K3].
    set (c4 := if live o then _ else _).
    assert (K4 : DP c c4).
    { unfold c4. destruct (live o); [exact K3|eapply dp_trans; [exact K3|apply dp_same_heap; reflexivity]]. }
    destruct f as [j|].
    - destruct (can_panic (okind o)); intros E; inversion E; subst.
      + eapply dp_trans; [exact K4|]. eapply dp_trans; [apply dp_trace_edges|apply dp_make_gray_again].
      + eapply dp_trans; [exact K4|apply dp_trace_edges].
    - intros E; inversion E; subst. eapply dp_trans; [exact K4|apply dp_trace_edges]. }
  destruct (gray c) as [|x g].
  - destruct (gray_again c) as [|x g].
    + destruct (rnt c); [|intros E; inversion E; subst; apply dp_refl].
      destruct f; intros E; inversion E; subst.
      * apply dp_trace_edges.
      * apply (dp_heap_of c (trace_edges c (edges_of (rootS c) (rootW c)))); [apply dp_trace_edges|reflexivity].
    + apply POP. reflexivity.
  - apply POP. reflexivity.
Qed.

(** one iteration of the driver loop: no event for a safe object, which stays safe *)
Lemma loop_body_safe st hs c f c1 evs k f' x :
  Inv None c -> quiescent c -> ph c <> Sleep -> safe_in_cycle c x -> loop_body st hs c f = (c1, evs, k, f') ->
  (forall ev, In ev evs -> ev_id ev <> x) /\ safe_in_cycle c1 x.
Proof.
  intros I Q NS S E. unfold loop_body in E. destruct (ph c) eqn:P; [contradiction| |].
  - (* Mark *)
    destruct (mark_one c _) as [[c2 r] u] eqn:EM.
    pose proof (dp_mark_one _ _ _ _ _ EM) as K2. pose proof (mark_one_ph _ _ _ _ _ EM) as P2.
    unfold safe_in_cycle in S. rewrite P in S. destruct S as [o [G D]]. destruct (K2 x o G D) as [o2 [G2 D2]].
    assert (S2 : safe_in_cycle c2 x) by (unfold safe_in_cycle; rewrite P2, P; eauto).
    destruct r.
    + inversion E; subst. split; [intros ev []|auto].
    + destruct (mark_one_break _ _ _ _ _ EM eq_refl) as [-> GR].
      destruct (stop_le st FullyMarked); inversion E; subst; (split; [intros ev []|auto]).
      (* marking is complete: no gray object is left, so x is black, and it lies in the list to sweep *)
      unfold safe_in_cycle. cbn [ph set_ph set_lists pre unsw]. right. split.
      * apply (i_all _ _ I). eexists; eauto.
      * apply gray_remaining_false in GR. destruct GR as [G1' [G2' _]]. exists o2. split; [exact G2|].
        exact (dark_black_if_no_gray c o2 x I G1' G2' G2 D2).
    + inversion E; subst. split; [intros ev []|auto].
  - (* Sweep *)
    destruct (stop_le st AtSweep); [inversion E; subst; split; [intros ev []|unfold safe_in_cycle; rewrite P; unfold safe_in_cycle in S; rewrite P in S; auto]|].
    destruct (sweep_one c) as [[c2 evs2] r] eqn:ES.
    destruct (sweep_one_safe _ _ _ _ x I P S ES) as [EV S2]. pose proof (sweep_one_ph _ _ _ _ ES) as P2.
    destruct r.
    + inversion E; subst. split; [exact EV|apply S2; rewrite P2; auto].
    + assert (SL : forall b, safe_in_cycle (set_ph (set_rnt (set_met c2 (finish_cycle (met c2) b)) true) Sleep) x) by (intros b; unfold safe_in_cycle; cbn; exact Logic.I).
      destruct st; [| |inversion E; subst; split; [exact EV|apply SL]|]; destruct hs; inversion E; subst; (split; [exact EV|apply SL]).
Qed.

Definition stops_in_cycle (st : stop) : bool := match st with Full => false | _ => true end.

(** the driver loop, for every call that cannot run into the next cycle (everything but collect_debt) *)
Lemma loop_safe dec fuel x : forall ru st hs c f c' evs oc,
  stops_in_cycle st = true -> Inv None c -> quiescent c -> ph c <> Sleep -> safe_in_cycle c x ->
  loop dec fuel ru st hs c f = (c', evs, oc) -> forall ev, In ev evs -> ev_id ev <> x.
Proof.
  induction fuel as [|n IH]; intros ru st hs c f c' evs oc ST I Q NS S E; cbn [loop] in E.
  - inversion E; subst. intros ev [].
  - destruct (loop_body st hs c f) as [[[c1 ev1] k] f1] eqn:EB.
    destruct (loop_body_inv _ _ _ _ _ _ _ _ I Q EB) as [I1 [S1 _]].
    assert (Q1 : quiescent c1) by (eapply same_cb_quiescent; eauto).
    destruct (loop_body_safe _ _ _ _ _ _ _ _ x I Q NS S EB) as [EV1 SF1].
    (* a continuing iteration never ends in Sleep when the call stops within the cycle *)
    assert (CONT : forall hs' ru', k = CCont hs' ->
              (let '(c2, ev2, r) := loop dec n ru' st hs' c1 f1 in (c2, ev1 ++ ev2, r)) = (c', evs, oc) ->
              forall ev, In ev evs -> ev_id ev <> x).
    { intros hs' ru' EK EE. subst k. destruct (loop dec n ru' st hs' c1 f1) as [[c2 ev2] r] eqn:EL. inversion EE; subst.
      intros ev Hin. rewrite in_app_iff in Hin. destruct Hin as [H|H]; [apply EV1; auto|].
      assert (NS1 : ph c1 <> Sleep).
      { unfold loop_body in EB. destruct (ph c) eqn:P; [contradiction| |].
        - destruct (mark_one c _) as [[cm r'] u] eqn:EM. pose proof (mark_one_ph _ _ _ _ _ EM) as PM.
          destruct r'; [inversion EB; subst; rewrite PM, P; discriminate| |inversion EB].
          destruct (stop_le st FullyMarked); inversion EB; subst; cbn; discriminate.
        - destruct (stop_le st AtSweep) eqn:SL; [inversion EB|].
          destruct (sweep_one c) as [[cs evs2] r'] eqn:ES. pose proof (sweep_one_ph _ _ _ _ ES) as PS.
          destruct r'; [inversion EB; subst; rewrite PS, P; discriminate|].
          destruct st; try discriminate ST; try discriminate SL; inversion EB. }
      eapply (IH ru' st hs' c1 f1); eauto. }
    destruct k as [hs'| | |]; try (inversion E; subst; exact EV1).
    destruct ru.
    + destruct (dec c1); [apply (CONT hs' PayDebt eq_refl E)|inversion E; subst; exact EV1].
    + apply (CONT hs' RunStop eq_refl E).
Qed.

(** ** The theorems *)
(** A marked object -- e.g. one that has just been resurrected -- is not destructed or released by any
    collection call that stays within the cycle (everything but collect_debt, which may run on into the
    next cycle), whatever its increments, debt oracle and stopping point. *)
Theorem marked_survives_cycle dec c ru st c' evs oc x o :
  Inv None c -> quiescent c -> ph c = Mark -> get c x = Some o -> dark (col o) -> stops_in_cycle st = true ->
  do_collection dec c ru st None = (c', evs, oc) -> forall ev, In ev evs -> ev_id ev <> x.
Proof.
  intros I Q HM G D ST E.
  assert (S : safe_in_cycle c x) by (unfold safe_in_cycle; rewrite HM; eauto).
  assert (NS : ph c <> Sleep) by (rewrite HM; discriminate).
  unfold do_collection in E. destruct ru.
  - destruct (dec c); [eapply loop_safe; eauto|inversion E; subst; intros ev []].
  - eapply loop_safe; eauto.
Qed.

(** ... and once marking is complete the same holds for everything strongly reachable from it *)
Theorem marked_closure_survives_cycle dec c ru st c' evs oc x o y :
  Inv None c -> quiescent c -> is_marked c = true -> get c x = Some o -> col o = Black -> reach_from c x y ->
  stops_in_cycle st = true ->
  do_collection dec c ru st None = (c', evs, oc) -> forall ev, In ev evs -> ev_id ev <> y.
Proof.
  intros I Q IM G B R ST E. unfold is_marked in IM. apply andb_true_iff in IM. destruct IM as [PM GR].
  apply phase_eqb_eq in PM. apply negb_true_iff in GR.
  destruct (closure_black c x o I PM GR G B y R) as [oy [Gy By]].
  eapply (marked_survives_cycle dec c ru st c' evs oc y oy); eauto. rewrite By. right. reflexivity.
Qed.
