(** * The pointer-level list surgery of context.rs implements the list operations of Collector.v.

    [Rep sw p pre unsw]: following [next] from [all] visits exactly [pre ++ unsw] (no repetition) and
    ends at a null pointer; while sweeping, [sweep] is the head of [unsw] and [sweep_prev] the last
    element of [pre]; otherwise both are null. Every pointer operation of Model/Pointer.v preserves
    [Rep] against the corresponding list operation -- for EVERY list, so a bug in [link]'s
    [sweep_prev] fix-up or in [sweep_one]'s unlink is inside the proofs, not behind an abstraction. *)
From GA Require Import Model.Spec Model.Pointer Proofs.HeapLemmas Proofs.Inv Proofs.InvStore.
Local Open Scope nat_scope.

Fixpoint seg (n : id -> option id) (h : option id) (l : list id) (m : option id) : Prop :=
  match l with
  | [] => h = m
  | x :: t => h = Some x /\ seg n (n x) t m
  end.

Lemma seg_app n h l1 l2 m : seg n h (l1 ++ l2) m <-> exists k, seg n h l1 k /\ seg n k l2 m.
Proof.
  revert h. induction l1 as [|x t IH]; intros h; cbn.
  - split.
    + intros H. exists h. auto.
    + intros [k [-> H]]. exact H.
  - split.
    + intros [E H]. apply IH in H. destruct H as [k [A B]]. exists k. auto.
    + intros [k [[E A] B]]. split; auto. apply IH. eauto.
Qed.

Lemma upd_same f x v : upd f x v x = v.
Proof. unfold upd. rewrite Nat.eqb_refl. reflexivity. Qed.
Lemma upd_other f x v y : y <> x -> upd f x v y = f y.
Proof. intros H. unfold upd. destruct (Nat.eqb_spec y x); congruence. Qed.

Lemma seg_upd n q v h l m : ~ In q l -> (seg (upd n q v) h l m <-> seg n h l m).
Proof.
  revert h. induction l as [|x t IH]; intros h NI; cbn; [tauto|].
  rewrite upd_other by (intros ->; apply NI; left; reflexivity).
  rewrite IH by (intros H; apply NI; right; exact H). tauto.
Qed.

Lemma seg_hd n h l : seg n h l None -> h = hd_opt l.
Proof. destruct l; cbn; [auto|]. intros [E _]. exact E. Qed.

Lemma last_opt_snoc {A} (l : list A) x : last_opt (l ++ [x]) = Some x.
Proof. unfold last_opt. rewrite rev_app_distr. reflexivity. Qed.
Lemma last_opt_none {A} (l : list A) : last_opt l = None -> l = [].
Proof.
  unfold last_opt. destruct (rev l) eqn:R; [|discriminate]. intros _.
  rewrite <- (rev_involutive l), R. reflexivity.
Qed.
Lemma last_opt_some {A} (l : list A) x : last_opt l = Some x -> exists l', l = l' ++ [x].
Proof.
  unfold last_opt. destruct (rev l) as [|y r] eqn:R; [discriminate|]. intros E. inversion E; subst.
  exists (rev r). rewrite <- (rev_involutive l), R. reflexivity.
Qed.

Definition Rep (sw : bool) (p : plist) (pre unsw : list id) : Prop :=
  NoDup (pre ++ unsw)
  /\ seg (nxt p) (p_all p) (pre ++ unsw) None
  /\ (if sw then p_sweep p = hd_opt unsw /\ p_prev p = last_opt pre
      else p_sweep p = None /\ p_prev p = None /\ unsw = []).

Lemma rep_new : Rep false pl_new [] [].
Proof. repeat split; cbn; auto. constructor. Qed.

(** while sweeping, the cursor heads a null-terminated chain over exactly the unswept part *)
Lemma rep_sweep_chain p pre unsw : Rep true p pre unsw -> seg (nxt p) (p_sweep p) unsw None.
Proof.
  intros [_ [SG [CS _]]]. apply seg_app in SG. destruct SG as [k [_ S2]].
  rewrite CS, <- (seg_hd _ _ _ S2). exact S2.
Qed.

(** ** Context::link *)
Theorem plink_rep sw p pre unsw i :
  Rep sw p pre unsw -> ~ In i (pre ++ unsw) -> Rep sw (plink sw p i) (i :: pre) unsw.
Proof.
  intros [ND [SG C]] NI. split; [|split].
  - cbn. constructor; auto.
  - cbn. split; [reflexivity|]. rewrite upd_same. apply seg_upd; auto.
  - destruct sw.
    + destruct C as [CS CP]. cbn. split; [exact CS|]. rewrite CP.
      destruct (last_opt pre) as [q|] eqn:LP.
      * apply last_opt_some in LP. destruct LP as [pre' ->].
        change (i :: pre' ++ [q]) with ((i :: pre') ++ [q]). rewrite last_opt_snoc. reflexivity.
      * apply last_opt_none in LP. subst. reflexivity.
    + destruct C as [CS [CP U]]. cbn. auto.
Qed.

(** ** Mark -> Sweep *)
Theorem penter_rep p pre : Rep false p pre [] -> Rep true (penter_sweep p) [] pre.
Proof.
  intros [ND [SG [CS [CP _]]]]. rewrite app_nil_r in ND, SG. split; [|split]; cbn; auto.
  split; [apply (seg_hd _ _ _ SG)|exact CP].
Qed.

(** ** Context::sweep_one with an object under the cursor *)
Theorem psweep_rep arm p pre x rest :
  Rep true p pre (x :: rest) -> arm x <> PGray ->
  Rep true (fst (psweep_one arm p)) (match arm x with PFree => pre | _ => pre ++ [x] end) rest
  /\ snd (psweep_one arm p) = Some (x, arm x).
Proof.
  intros [ND [SG [CS CP]]] NG. cbn in CS. unfold psweep_one. rewrite CS.
  apply seg_app in SG. destruct SG as [k [S1 S2]]. cbn in S2. destruct S2 as [-> S2].
  pose proof (seg_hd _ _ _ S2) as NX.
  destruct (arm x) eqn:A; [| |contradiction].
  - (* White: unlink *)
    rewrite CP. destruct (last_opt pre) as [q|] eqn:LP.
    + apply last_opt_some in LP. destruct LP as [pre' ->]. cbn [fst snd]. split; [|reflexivity].
      apply seg_app in S1. destruct S1 as [k [S0 SQ]]. cbn in SQ. destruct SQ as [-> SQ].
      assert (ND1 : NoDup (pre' ++ q :: x :: rest)) by (rewrite <- app_assoc in ND; exact ND).
      assert (Q1 : ~ In q pre').
      { pose proof (NoDup_remove_2 _ _ _ ND1) as H. intros Hi. apply H. apply in_or_app. left. exact Hi. }
      assert (ND2 : NoDup ((pre' ++ [q]) ++ rest)) by (apply NoDup_remove_1 with (a := x); exact ND).
      assert (Q2 : ~ In q rest).
      { rewrite <- app_assoc in ND2. cbn in ND2. pose proof (NoDup_remove_2 _ _ _ ND2) as H.
        intros Hi. apply H. apply in_or_app. right. exact Hi. }
      split; [|split].
      * exact ND2.
      * cbn [nxt p_all]. rewrite <- app_assoc. cbn [app]. apply seg_app. exists (Some q). split.
        -- apply seg_upd; auto.
        -- cbn. split; [reflexivity|]. rewrite upd_same. apply seg_upd; auto.
      * cbn. split; [exact NX|]. rewrite last_opt_snoc. reflexivity.
    + apply last_opt_none in LP. subst pre. cbn in S1. cbn [fst snd]. split; [|reflexivity].
      cbn in ND. apply NoDup_cons_iff in ND. destruct ND as [_ ND].
      split; [|split]; cbn; auto.
  - (* WhiteWeak / Black: keep, advance sweep_prev *)
    cbn [fst snd]. split; [|reflexivity]. split; [|split].
    + rewrite <- app_assoc. exact ND.
    + cbn [nxt p_all]. rewrite <- app_assoc. apply seg_app. exists (Some x). split; auto. cbn. auto.
    + cbn. split; [exact NX|]. rewrite last_opt_snoc. reflexivity.
Qed.

(** ** Context::sweep_one at the end of the list *)
Theorem psweep_end_rep arm p pre :
  Rep true p pre [] -> Rep false (fst (psweep_one arm p)) pre [] /\ snd (psweep_one arm p) = None.
Proof.
  intros [ND [SG [CS CP]]]. cbn in CS. unfold psweep_one. rewrite CS. cbn. repeat split; auto.
Qed.

(** ** DropAll visits exactly the list, each object once *)
Lemma pwalk_seg n h l fuel : seg n h l None -> length l <= fuel -> pwalk fuel n h = l.
Proof.
  revert h fuel. induction l as [|x t IH]; intros h fuel S L; cbn in S.
  - subst. destruct fuel; reflexivity.
  - destruct S as [-> S]. destruct fuel as [|f]; [cbn in L; lia|]. cbn. f_equal. apply IH; auto. cbn in L. lia.
Qed.

Theorem pwalk_rep sw p pre unsw fuel :
  Rep sw p pre unsw -> length (pre ++ unsw) <= fuel -> pwalk fuel (nxt p) (p_all p) = pre ++ unsw.
Proof. intros [_ [SG _]] L. apply pwalk_seg; auto. Qed.

(** ** Any sequence of the collector's list events: the pointer level tracks the list level *)
Theorem psteps_rep evs : forall sw p pre unsw,
  Rep sw p pre unsw -> lrun_ok (sw, pre, unsw) evs ->
  let '(sw1, pre1, unsw1) := fold_left lstep evs (sw, pre, unsw) in
  let '(sw2, p2) := fold_left pstep evs (sw, p) in
  sw2 = sw1 /\ Rep sw1 p2 pre1 unsw1.
Proof.
  induction evs as [|e t IH]; intros sw p pre unsw R OK.
  - cbn. auto.
  - cbn [fold_left]. destruct OK as [OKe OKt]. destruct e as [i| |a].
    + (* link *)
      cbn in OKe. cbn [lstep pstep] in *. apply IH; auto. apply plink_rep; auto.
    + (* enter sweep *)
      cbn in OKe. subst sw. cbn [lstep pstep] in *. destruct R as [ND [SG [CS [CP U]]]]. subst unsw.
      rewrite app_nil_r in *. apply IH; auto. apply penter_rep. repeat split; auto; rewrite app_nil_r; auto.
    + (* sweep_one *)
      cbn in OKe. destruct OKe as [-> NG]. cbn [lstep pstep] in *.
      destruct unsw as [|x rest].
      * destruct (psweep_end_rep (fun _ => a) p pre R) as [R' _].
        destruct R as [_ [_ [CS _]]]. cbn in CS. rewrite CS. apply IH; auto.
      * destruct (psweep_rep (fun _ => a) p pre x rest R (NG ltac:(discriminate))) as [R' _].
        destruct R as [_ [_ [CS _]]]. cbn in CS. rewrite CS.
        destruct a; apply IH; auto.
Qed.

(** ** Connection with Collector.v: its functions perform exactly these list events *)
Definition sweeping (c : ctx) : bool := phase_eqb (ph c) Sweep.

Definition arm_in (c : ctx) (x : id) : parm :=
  match color_of c x with Some k => arm_of_color k | None => PGray end.

Theorem link_refines c o p :
  Inv None c -> Rep (sweeping c) p (pre c) (unsw c) ->
  Rep (sweeping (fst (link c o))) (plink (sweeping c) p (snd (link c o)))
      (pre (fst (link c o))) (unsw (fst (link c o))).
Proof.
  intros I R. change (sweeping (fst (link c o))) with (sweeping c).
  change (pre (fst (link c o))) with (snd (link c o) :: pre c).
  change (unsw (fst (link c o))) with (unsw c).
  apply plink_rep; auto. rewrite link_id. apply (not_allocated_new _ _ I).
Qed.

Theorem enter_sweep_refines c p :
  Rep false p (pre c) (unsw c) ->
  Rep true (penter_sweep p) (pre (set_lists (set_ph c Sweep) [] (all c))) (unsw (set_lists (set_ph c Sweep) [] (all c))).
Proof.
  intros R. cbn [pre unsw set_lists]. destruct R as [ND [SG [CS [CP U]]]].
  unfold all. rewrite U, app_nil_r in *. apply penter_rep. repeat split; auto; rewrite ?app_nil_r; auto.
Qed.

Theorem sweep_one_refines c p c' evs r :
  Inv None c -> ph c = Sweep -> Rep true p (pre c) (unsw c) -> sweep_one c = (c', evs, r) ->
  let p' := fst (psweep_one (arm_in c) p) in
  match r with
  | SContinue => Rep true p' (pre c') (unsw c')
  | SBreak => Rep false p' (pre c') (unsw c') /\ unsw c' = []
  end.
Proof.
  intros I PS R E. unfold sweep_one in E. destruct (unsw c) as [|x rest] eqn:U.
  - injection E as <- <- <-. cbn zeta. rewrite U. split; [|reflexivity]. apply (psweep_end_rep (arm_in c) p (pre c) R).
  - assert (AL : allocated c x).
    { apply (i_all _ _ I). unfold all. rewrite U. apply in_or_app. right. left. reflexivity. }
    destruct AL as [o G]. rewrite G in E.
    assert (NGr : col o <> Gray).
    { apply (i_gray_mark _ _ I) with (x := x); auto. rewrite PS. discriminate. }
    assert (A : arm_in c x = arm_of_color (col o)) by (unfold arm_in, color_of; rewrite G; reflexivity).
    assert (NG : arm_in c x <> PGray) by (rewrite A; destruct (col o); cbn; congruence).
    destruct (psweep_rep (arm_in c) p (pre c) x rest R NG) as [R' _]. rewrite A in R'.
    destruct (col o) eqn:CO; cbn [arm_of_color] in R'; try contradiction; inversion E; subst; cbn zeta;
      cbn [pre unsw set_lists free_total set_met set_heap set_uflow put]; try exact R'.
    all: unfold free_total; repeat (match goal with |- context [if ?b then _ else _] => destruct b end); cbn; exact R'.
Qed.

Theorem drop_all_walk sw c p :
  Rep sw p (pre c) (unsw c) -> pwalk (length (all c)) (nxt p) (p_all p) = all c.
Proof. intros R. apply (pwalk_rep sw p (pre c) (unsw c)); auto. Qed.
