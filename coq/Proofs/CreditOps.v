(** * Work credits (C09), part 4: every mutator micro-op keeps the counting invariant. *)
From GA Require Import Model.Spec Proofs.HeapLemmas Proofs.Inv Proofs.Recolor Proofs.InvMicro Proofs.InvStore
     Proofs.InvMark Proofs.InvSweep Proofs.InvLoop Proofs.InvBarrier Proofs.InvOps Proofs.InvMicroOps Proofs.InvWorld
     Proofs.Phases Proofs.MInv.
From GA Require Import Proofs.Credit Proofs.CreditMark Proofs.CreditCollect.
Local Open Scope nat_scope.

Lemma cinv_same c c' :
  heap c' = heap c -> pre c' = pre c -> unsw c' = unsw c -> met c' = met c -> uflow c' = uflow c -> ph c' = ph c ->
  CInv c -> CInv c'.
Proof. intros H P U M F PH. apply cinv_cs. apply cs_same; auto; rewrite M; reflexivity. Qed.

Lemma cinv_add_lic c l : CInv c -> CInv (add_lic c l).
Proof. apply cinv_same; reflexivity. Qed.
Lemma cinv_set_rg c r v : CInv c -> CInv (set_rg c r v).
Proof. apply cinv_same; reflexivity. Qed.
Lemma cinv_set_wrg c r v : CInv c -> CInv (set_wrg c r v).
Proof. apply cinv_same; reflexivity. Qed.

Lemma put_cinv c p o o' :
  get c p = Some o -> col o' = col o -> ntr o' = ntr o -> CInv c -> CInv (put c p o').
Proof.
  intros G C N. apply cinv_cs. constructor; try reflexivity.
  intros y _. unfold colp. rewrite (get_put c p y o' o G).
  destruct (Nat.eqb_spec p y); subst; auto. rewrite G, C. auto.
Qed.

Lemma store_strong_cinv c p o i v : get c p = Some o -> CInv c -> CInv (store_strong c p o i v).
Proof. intros G M. unfold store_strong. destruct (Nat.ltb _ _); auto. eapply put_cinv; eauto. Qed.
Lemma store_weak_cinv c p o i v : get c p = Some o -> CInv c -> CInv (store_weak c p o i v).
Proof. intros G M. unfold store_weak. destruct (Nat.ltb _ _); auto. eapply put_cinv; eauto. Qed.
Lemma store_after_cinv c p i v : CInv c -> CInv (store_after c p i v).
Proof. intros M. unfold store_after. destruct (get c p) eqn:G; auto. eapply store_strong_cinv; eauto. Qed.
Lemma store_weak_after_cinv c p i v : CInv c -> CInv (store_weak_after c p i v).
Proof. intros M. unfold store_weak_after. destruct (get c p) eqn:G; auto. eapply store_weak_cinv; eauto. Qed.

Lemma backward_barrier_cinv e c p po ch :
  Inv e c -> CInv c -> get c p = Some po -> (forall x, ch = Some x -> allocated c x) ->
  CInv (backward_barrier c p ch).
Proof.
  intros I M G HA. unfold backward_barrier. destruct (ph c) eqn:P; auto. rewrite G.
  destruct (color_eqb (col po) Black) eqn:CB; cbn [andb]; auto. apply color_eqb_eq in CB.
  destruct (ntr po) eqn:N; auto.
  destruct ch as [x|]; [|eapply make_gray_again_cinv; eauto].
  destruct (HA x eq_refl) as [xo Gx]. rewrite Gx. destruct (is_whiteish (col xo)); auto.
  eapply make_gray_again_cinv; eauto.
Qed.

Lemma backward_barrier_weak_cinv c p po x :
  Inv None c -> CInv c -> get c p = Some po -> allocated c x -> CInv (backward_barrier_weak c p x).
Proof.
  intros I M G [xo Gx]. unfold backward_barrier_weak. destruct (ph c) eqn:P; auto. rewrite G.
  destruct (color_eqb (col po) Black) eqn:CB; cbn [andb]; auto. apply color_eqb_eq in CB.
  destruct (ntr po) eqn:N; auto. rewrite Gx. destruct (color_eqb (col xo) White); auto.
  eapply make_gray_again_cinv; eauto.
Qed.

Lemma forward_barrier_cinv c p x xo :
  Inv None c -> CInv c -> get c x = Some xo -> CInv (forward_barrier c p x).
Proof.
  intros I M G. unfold forward_barrier. destruct (ph c) eqn:P; auto.
  destruct (parent_black c p) as [[|]|]; auto; [eapply trace_cinv; eauto|apply (cinv_same c); auto].
Qed.

Lemma forward_barrier_weak_cinv c p x xo :
  Inv None c -> CInv c -> get c x = Some xo -> CInv (forward_barrier_weak c p x).
Proof.
  intros I M G. unfold forward_barrier_weak. destruct (ph c) eqn:P; auto.
  destruct (parent_black c p) as [[|]|]; auto; [eapply trace_weak_cinv; eauto|apply (cinv_same c); auto].
Qed.

Lemma gc_write_cinv c p po : Inv None c -> CInv c -> get c p = Some po -> CInv (gc_write c p).
Proof.
  intros I M G. unfold gc_write. apply cinv_add_lic. eapply (backward_barrier_cinv None c p po None); eauto; discriminate.
Qed.

(** a fresh allocation is white: it is not counted as marked, and in the sweep phase it joins the
    already-swept prefix *)
Lemma link_cinv c o : Inv None c -> CInv c -> col o = White -> CInv (fst (link c o)).
Proof.
  intros I [C1 C2 C3] CW.
  assert (NEW : forall P, P White = false -> colp P (fst (link c o)) (length (heap c)) = false).
  { intros P PW. unfold colp. rewrite get_link_new, CW. exact PW. }
  assert (OLD : forall P l, (forall y, In y l -> In y (all c)) -> cntP P (fst (link c o)) l = cntP P c l).
  { intros P l HL. apply cntP_same. intros y Hy. rewrite get_link.
    destruct (Nat.eqb_spec y (length (heap c))); auto. subst. exfalso. eapply not_allocated_new; eauto. }
  set (c' := fst (link c o)) in *.
  assert (EP : ph c' = ph c) by reflexivity.
  assert (EA : all c' = length (heap c) :: all c) by reflexivity.
  assert (EU : unsw c' = unsw c) by reflexivity.
  assert (EPR : pre c' = length (heap c) :: pre c) by reflexivity.
  assert (E1 : marked (met c') = marked (met c)) by reflexivity.
  assert (E2 : traced (met c') = traced (met c)) by reflexivity.
  assert (E3 : dropped (met c') = dropped (met c)) by reflexivity.
  assert (E4 : freed (met c') = freed (met c)) by reflexivity.
  assert (E5 : remembered (met c') = remembered (met c)) by reflexivity.
  constructor; rewrite EP, E1, E2, E3, E4, E5.
  - exact C1.
  - intros HM. destruct (C2 HM) as [M [T [D [F R]]]].
    rewrite EA, !cntP_cons, !NEW by reflexivity. cbn [b2n plus]. rewrite !OLD by auto. auto.
  - intros HS. destruct (C3 HS) as [kb [kw [A1 [A2 [A3 [A4 A5]]]]]]. exists kb, kw.
    rewrite EU, EPR. rewrite !OLD by (intros y Hy; unfold all; rewrite in_app_iff; auto). cbn [length]. repeat split; auto.
Qed.

(** ** every micro-op *)
Lemma micro_cinv w ar k m ar' hs out :
  Inv None (actx ar) -> cb_ok k (actx ar) -> CInv (actx ar) ->
  micro w ar k m = (ar', hs, out) -> CInv (actx ar').
Proof.
  intros I CB M E. destruct ar as [c uid sets]. cbn [actx auid asets] in *.
  assert (RGM : forall r v, CInv (set_rg c r v)) by (intros; apply (cinv_same c); auto).
  assert (WRGM : forall r v, CInv (set_wrg c r v)) by (intros; apply (cinv_same c); auto).
  destruct m; cbn [micro actx auid asets] in E.
  - destruct (link c (norm_obj k0 ns nw)) as [c1 i] eqn:EL.
    destruct (norm_obj_props k0 ns nw) as [P1 _].
    pose proof (link_cinv c (norm_obj k0 ns nw) I M P1) as M1. rewrite EL in M1. cbn [fst] in M1.
    inversion E; subst. cbn [actx]. apply (cinv_same c1); auto.
  - inversion E; subst; cbn [actx]; auto.
  - inversion E; subst; cbn [actx]; auto.
  - destruct (rg c p) as [pid|]; [|inversion E; subst; auto].
    destruct (get c pid) as [o|]; [|inversion E; subst; cbn [actx]; apply (cinv_same c); auto].
    destruct (okind o); inversion E; subst; cbn [actx]; auto; destruct (live o); apply (cinv_same c); auto.
  - destruct (rg c p) as [pid|]; [|inversion E; subst; auto].
    destruct (get c pid) as [o|]; [|inversion E; subst; cbn [actx]; apply (cinv_same c); auto].
    inversion E; subst; cbn [actx]. destruct (live o); apply (cinv_same c); auto.
  - (* MStore *)
    destruct (rg c p) as [pid|] eqn:RP; [|inversion E; subst; auto].
    pose proof (rg_ok _ _ _ I RP) as [o [G [L NC]]]. rewrite G in E.
    pose proof (gc_write_cinv c pid o I M G) as GW.
    destruct (okind o).
    + inversion E; subst. cbn [actx]. apply store_after_cinv; auto.
    + inversion E; subst. auto.
    + inversion E; subst; auto.
    + inversion E; subst. cbn [actx]. apply store_after_cinv; auto.
    + match type of E with (match ?v with _ => _ end) = _ => destruct v as [x|] eqn:EV end; [|inversion E; subst; auto].
      destruct (slot_empty o 0); [|inversion E; subst; auto].
      inversion E; subst. cbn [actx].
      (* store, then barrier: the intermediate state satisfies the invariant with the tri-colour
         obligation for pid postponed, which is all the barrier's metric argument needs *)
      unfold store_strong. destruct (Nat.ltb_spec 0 (length (strong o))) as [LT|GE]; [|auto].
      set (o' := with_strong o (set_nth (strong o) 0 (Some x))).
      assert (R : reslot c (put c pid o') pid o o') by (constructor; auto).
      assert (NT : ntr o = true).
      { destruct (ntr o) eqn:N; auto. destruct (i_ntr _ _ I pid o G N) as [ES _]. rewrite ES in LT. cbn in LT. lia. }
      assert (OKX : ok_strong c x).
      { destruct c0 as [r0|]; [|discriminate]. eapply rg_ok; eauto. }
      assert (I1 : Inv (Some pid) (put c pid o')).
      { eapply (inv_reslot None (Some pid) c _ pid o o' I R).
        - rewrite NT. discriminate.
        - intros _ _. destruct (i_obj _ _ I pid o G L NC) as [A B]. split; cbn; auto.
          intros t Ht. apply in_set_nth in Ht. destruct Ht as [Et|Ht]; auto. inversion Et; subst; auto.
        - intros _ _. left; auto.
        - intros q _ _. discriminate. }
      assert (M1 : CInv (put c pid o')) by (eapply put_cinv; eauto).
      assert (G1 : get (put c pid o') pid = Some o') by (apply get_put_eq; eapply get_some_lt; eauto).
      unfold gc_write. apply cinv_add_lic.
      eapply (backward_barrier_cinv (Some pid)); eauto. discriminate.
    + (* KStruct *)
      destruct (Nat.eqb i 1).
      * match type of E with (match ?v with _ => _ end) = _ => destruct v as [x|] end.
        -- destruct (slot_empty o 1); inversion E; subst; cbn [actx]; auto. apply store_after_cinv; auto.
        -- inversion E; subst; auto.
      * inversion E; subst. cbn [actx]. apply store_after_cinv; auto.
  - (* MStoreW *)
    destruct (rg c p) as [pid|] eqn:RP; [|inversion E; subst; auto].
    pose proof (rg_ok _ _ _ I RP) as [o [G [L NC]]]. rewrite G in E.
    pose proof (gc_write_cinv c pid o I M G) as GW.
    destruct (okind o); inversion E; subst; cbn [actx]; auto; apply store_weak_after_cinv; auto.
  - (* MOnceInit *)
    destruct (rg c p) as [pid|] eqn:RP; [|inversion E; subst; auto].
    destruct (rg c c0) as [cid|]; [|inversion E; subst; auto].
    pose proof (rg_ok _ _ _ I RP) as [o [G [L NC]]]. rewrite G in E.
    pose proof (gc_write_cinv c pid o I M G) as GW.
    destruct (okind o); try (inversion E; subst; auto; fail).
    destruct (slot_empty o 0); inversion E; subst; cbn [actx]; auto. apply store_after_cinv; auto.
  - destruct (root_mutable k); [|inversion E; subst; auto].
    destruct (Nat.ltb i (length (rootS c))); inversion E; subst; cbn [actx]; auto. apply (cinv_same c); auto.
  - destruct (root_mutable k); [|inversion E; subst; auto].
    destruct (Nat.ltb i (length (rootW c))); inversion E; subst; cbn [actx]; auto. apply (cinv_same c); auto.
  - destruct (rg c r) as [x|]; [|inversion E; subst; auto].
    destruct (get c x) as [o|]; [|inversion E; subst; cbn [actx]; apply (cinv_same c); auto].
    destruct (okind o); inversion E; subst; cbn [actx]; auto.
  - destruct (wrg c w0) as [x|] eqn:WX; [|inversion E; subst; auto].
    destruct (upgrade c x) as [c1 b] eqn:EU.
    assert (c1 = c) by (pose proof (upgrade_state c x (proj1 (wrg_ok _ _ _ I WX))) as H; rewrite EU in H; exact H). subst c1.
    inversion E; subst. cbn [actx]. apply RGM.
  - destruct (wrg c w0) as [x|] eqn:WX; [|inversion E; subst; auto].
    destruct (wrg_ok _ _ _ I WX) as [[o G] _]. unfold is_dropped in E. rewrite G in E. inversion E; subst; auto.
  - (* MBarrierB *)
    destruct (rgE c p) as [pid|] eqn:RP; [|inversion E; subst; auto]. apply rgE_rg in RP.
    destruct (rg_allocated _ _ _ I RP) as [po [G _]].
    destruct c0 as [r|].
    + destruct (rgE c r) as [cid|] eqn:RC; [|inversion E; subst; auto]. apply rgE_rg in RC.
      destruct (rg_allocated _ _ _ I RC) as [co [Gc _]].
      inversion E; subst. cbn [actx]. apply cinv_add_lic.
      eapply backward_barrier_cinv; eauto. intros x Hx. inversion Hx; subst. eexists; eauto.
    + inversion E; subst. cbn [actx]. eapply gc_write_cinv; eauto.
  - destruct (rgE c p) as [pid|] eqn:RP; [|inversion E; subst; auto]. apply rgE_rg in RP.
    destruct (wrg c w0) as [x|] eqn:WX; [|inversion E; subst; auto].
    destruct (rg_allocated _ _ _ I RP) as [po [G _]].
    inversion E; subst. cbn [actx]. apply cinv_add_lic.
    eapply backward_barrier_weak_cinv; eauto. apply (proj1 (wrg_ok _ _ _ I WX)).
  - destruct (rgE c c0) as [cid|] eqn:RC; [|inversion E; subst; auto]. apply rgE_rg in RC.
    destruct (rg_allocated _ _ _ I RC) as [co [Gc Lc]].
    destruct p as [pr|].
    + destruct (rgE c pr) as [pid|]; [|inversion E; subst; auto].
      inversion E; subst. cbn [actx]. apply cinv_add_lic. eapply forward_barrier_cinv; eauto.
    + inversion E; subst. cbn [actx]. apply cinv_add_lic. eapply forward_barrier_cinv; eauto.
  - destruct (wrg c w0) as [x|] eqn:WX; [|inversion E; subst; auto].
    destruct (proj1 (wrg_ok _ _ _ I WX)) as [xo Gx].
    destruct p as [pr|].
    + destruct (rgE c pr) as [pid|]; [|inversion E; subst; auto].
      inversion E; subst. cbn [actx]. apply cinv_add_lic. eapply forward_barrier_weak_cinv; eauto.
    + inversion E; subst. cbn [actx]. apply cinv_add_lic. eapply forward_barrier_weak_cinv; eauto.
  - destruct (rg c p) as [pid|] eqn:RP; [|inversion E; subst; auto].
    destruct (rg c c0) as [cid|]; [|inversion E; subst; auto].
    destruct (get c pid) as [o|] eqn:G; [|inversion E; subst; cbn [actx]; apply (cinv_same c); auto].
    destruct (okind o); try (inversion E; subst; auto; fail).
    destruct (_ || _ || _); inversion E; subst; cbn [actx]; auto. eapply store_strong_cinv; eauto.
  - destruct (rg c p) as [pid|] eqn:RP; [|inversion E; subst; auto].
    destruct (wrg c w0) as [x|]; [|inversion E; subst; auto].
    destruct (get c pid) as [o|] eqn:G; [|inversion E; subst; cbn [actx]; apply (cinv_same c); auto].
    destruct (okind o); try (inversion E; subst; auto; fail).
    destruct (_ || _ || _ || _ || _); inversion E; subst; cbn [actx]; auto. eapply store_weak_cinv; eauto.
  - (* MStash *)
    destruct (rg c s) as [sid|] eqn:RS; [|inversion E; subst; auto].
    destruct (rg c c0) as [cid|] eqn:RC; [|inversion E; subst; auto].
    destruct (nth_error (handles w) h) as [[hd|]|]; try (inversion E; subst; auto; fail).
    pose proof (rg_ok _ _ _ I RS) as [so [G [L NC]]]. rewrite G in E.
    destruct (sets_get sets sid) as [sl|]; [|inversion E; subst; auto].
    destruct (okind so); try (inversion E; subst; auto; fail).
    destruct (live so && ntr so && negb _); [|inversion E; subst; auto].
    destruct (rg_allocated _ _ _ I RC) as [co [Gc _]].
    assert (M1 : CInv (add_lic (backward_barrier c sid (Some cid)) (LPair sid cid))).
    { apply cinv_add_lic. eapply backward_barrier_cinv; eauto. intros x Hx. inversion Hx; subst. eexists; eauto. }
    destruct (slots_add sl) as [[sl' idx] grew].
    destruct (get (add_lic (backward_barrier c sid (Some cid)) (LPair sid cid)) sid) as [so1|] eqn:G1; [|inversion E; subst; auto].
    inversion E; subst. cbn [actx]. eapply put_cinv; eauto.
  - destruct (rg c s) as [sid|]; [|inversion E; subst; auto].
    destruct (nth_error (handles w) h) as [[hd|]|]; try (inversion E; subst; auto; fail).
    destruct (get c sid) as [so|]; [|inversion E; subst; cbn [actx]; apply (cinv_same c); auto].
    destruct (okind so); try (inversion E; subst; auto; fail).
    destruct (live so); [|inversion E; subst; auto].
    destruct (_ && _); [|inversion E; subst; auto].
    match type of E with (if ?b then _ else _) = _ => destruct b end; inversion E; subst; cbn [actx]; auto.
  - destruct (is_finalize k); [|inversion E; subst; auto].
    destruct (rgE c r) as [x|] eqn:RX; [|inversion E; subst; auto]. apply rgE_rg in RX.
    destruct (rg_allocated _ _ _ I RX) as [o [G _]]. unfold is_dead in E. rewrite G in E. inversion E; subst; auto.
  - destruct (is_finalize k); [|inversion E; subst; auto].
    destruct (wrg c w0) as [x|] eqn:WX; [|inversion E; subst; auto].
    destruct (wrg_ok _ _ _ I WX) as [[o G] _]. unfold is_dead in E. rewrite G in E. inversion E; subst; auto.
  - destruct (is_finalize k) eqn:FK; [|inversion E; subst; auto].
    assert (HM : ph c = Mark) by (apply (proj2 CB); auto).
    destruct (rgE c r) as [x|] eqn:RX; [|inversion E; subst; auto]. apply rgE_rg in RX.
    destruct (rg_allocated _ _ _ I RX) as [o [G _]]. inversion E; subst. cbn [actx]. eapply resurrect_cinv; eauto.
  - destruct (is_finalize k) eqn:FK; [|inversion E; subst; auto].
    assert (HM : ph c = Mark) by (apply (proj2 CB); auto).
    destruct (wrg c w0) as [x|] eqn:WX; [|inversion E; subst; auto].
    destruct (wrg_ok _ _ _ I WX) as [[o G] _]. rewrite G in E.
    destruct (live o); inversion E; subst; cbn [actx]; auto.
    apply cinv_set_rg. eapply resurrect_cinv; eauto.
  - inversion E; subst; cbn [actx]; auto.
  - inversion E; subst; cbn [actx]; auto.
  - inversion E; subst; cbn [actx]; auto.
  - destruct (rg c r1), (rg c r2); inversion E; subst; auto.
  - (* MAllocWith *)
    match type of E with context [init_obj ?kk ?ss ?ww] => destruct (init_obj kk ss ww) as [o|] eqn:IO end; [|inversion E; subst; auto].
    assert (CW : col o = White) by (destruct k0; cbn in IO; try discriminate; inversion IO; reflexivity).
    destruct (link c o) as [c1 i] eqn:EL.
    pose proof (link_cinv c o I M CW) as M1. rewrite EL in M1. cbn [fst] in M1.
    inversion E; subst. cbn [actx]. apply (cinv_same c1); auto.
Qed.
