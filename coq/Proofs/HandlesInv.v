(** * The DynamicRootSet / handle invariant (C14), part 3: the world-level invariant and its
    preservation by every API operation. *)
From GA Require Import Model.Spec Proofs.HeapLemmas Proofs.InvWorld.
From GA Require Import Proofs.Slots Proofs.HandlesKW Proofs.HandlesCollect.
Local Open Scope nat_scope.

Record sets_ok (hs : list (option handle)) (ar : arena) : Prop := mkSetsOk {
  sk_slots : forall sid sl so, sets_get (asets ar) sid = Some sl -> get (actx ar) sid = Some so ->
               live so = true -> okind so = KSet -> slot_ok hs (auid ar) sid sl (strong so);
  sk_dom : forall sid sl, sets_get (asets ar) sid = Some sl -> sid < length (heap (actx ar));
  sk_all : forall sid so, get (actx ar) sid = Some so -> okind so = KSet -> exists sl, sets_get (asets ar) sid = Some sl;
  sk_bound : forall h hd, nth_error hs h = Some (Some hd) -> h_uid hd = auid ar -> h_set hd < length (heap (actx ar))
}.

Record HInv (w : world) : Prop := mkHInv {
  hi_sets : forall a ar, get_arena w a = Some ar -> sets_ok (handles w) ar;
  hi_uid_lt : forall a ar, get_arena w a = Some ar -> auid ar < nuid w;
  hi_uid_inj : forall a b ar br, get_arena w a = Some ar -> get_arena w b = Some br -> auid ar = auid br -> a = b;
  hi_h_lt : forall h hd, nth_error (handles w) h = Some (Some hd) -> h_uid hd < nuid w
}.

Lemma sets_get_put l s v s' : sets_get (sets_put l s v) s' = if Nat.eqb s s' then Some v else sets_get l s'.
Proof.
  unfold sets_get, sets_put. cbn [find fst]. destruct (Nat.eqb_spec s s') as [->|N]; [reflexivity|].
  cbn [snd]. induction l as [|[a b] l IH]; cbn [filter find fst]; auto.
  destruct (Nat.eqb_spec a s) as [->|N2]; cbn [negb].
  - destruct (Nat.eqb_spec s s'); [contradiction|]. exact IH.
  - cbn [find fst]. destruct (Nat.eqb a s'); auto.
Qed.

(** an arena whose context moved along [KW], with the same tables and handles *)
Lemma sets_ok_kw hs ar c' :
  sets_ok hs ar -> KW (actx ar) c' -> sets_ok hs (mkArena c' (auid ar) (asets ar)).
Proof.
  intros [S D AL B] [LE K]. constructor; cbn [actx auid asets].
  - intros sid sl so' SG G L KS.
    destruct (K sid so' G) as [so [G0 [K0 [V0 S0]]]].
    rewrite S0 by congruence. apply (S sid sl so); auto. congruence.
  - intros sid sl SG. specialize (D sid sl SG). lia.
  - intros sid so' G KS. destruct (K sid so' G) as [so [G0 [K0 _]]]. apply (AL sid so G0). congruence.
  - intros h hd H U. specialize (B h hd H U). lia.
Qed.

Lemma hinv_set_cur w v : HInv w -> HInv (set_cur w v).
Proof. intros [A B C D]. constructor; auto. Qed.

Lemma hinv_put w a ar ar' :
  HInv w -> get_arena w a = Some ar -> auid ar' = auid ar -> sets_ok (handles w) ar' ->
  HInv (put_arena w a (Some ar')).
Proof.
  intros [A B C D] GA U S. pose proof (get_arena_lt _ _ _ GA) as LT. constructor.
  - intros b br Hb. rewrite get_arena_put in Hb by auto. destruct (Nat.eqb_spec a b); [inversion Hb; subst; exact S|].
    apply (A b br Hb).
  - intros b br Hb. rewrite get_arena_put in Hb by auto. destruct (Nat.eqb_spec a b); [inversion Hb; subst|]; cbn.
    + rewrite U. apply (B _ _ GA).
    + apply (B b br Hb).
  - intros b1 b2 r1 r2 H1 H2 E. rewrite get_arena_put in H1, H2 by auto.
    destruct (Nat.eqb_spec a b1), (Nat.eqb_spec a b2); subst; auto.
    + inversion H1; subst. rewrite U in E. apply (C _ _ _ _ GA H2 E).
    + inversion H2; subst. rewrite U in E. apply (C _ _ _ _ H1 GA E).
    + apply (C _ _ _ _ H1 H2 E).
  - exact D.
Qed.

Lemma hinv_put_kw w a ar c' :
  HInv w -> get_arena w a = Some ar -> KW (actx ar) c' ->
  HInv (put_arena w a (Some (mkArena c' (auid ar) (asets ar)))).
Proof.
  intros H GA K. apply (hinv_put w a ar); auto. apply sets_ok_kw; auto. apply (hi_sets _ H a ar GA).
Qed.

Lemma hinv_remove w a ar : HInv w -> get_arena w a = Some ar -> HInv (put_arena w a None).
Proof.
  intros [A B C D] GA. pose proof (get_arena_lt _ _ _ GA) as LT. constructor.
  - intros b br Hb. rewrite get_arena_put in Hb by auto. destruct (Nat.eqb_spec a b); [discriminate|]. apply (A b br Hb).
  - intros b br Hb. rewrite get_arena_put in Hb by auto. destruct (Nat.eqb_spec a b); [discriminate|]. apply (B b br Hb).
  - intros b1 b2 r1 r2 H1 H2 E. rewrite get_arena_put in H1, H2 by auto.
    destruct (Nat.eqb_spec a b1), (Nat.eqb_spec a b2); try discriminate. apply (C _ _ _ _ H1 H2 E).
  - exact D.
Qed.

Lemma hinv_init : HInv world_init.
Proof.
  constructor.
  - intros a ar H. unfold get_arena, world_init in H. cbn in H. destruct a as [|[|[|a]]]; cbn in H; try discriminate. destruct a; discriminate.
  - intros a ar H. unfold get_arena, world_init in H. cbn in H. destruct a as [|[|[|a]]]; cbn in H; try discriminate. destruct a; discriminate.
  - intros a b ar br H. unfold get_arena, world_init in H. cbn in H. destruct a as [|[|[|a]]]; cbn in H; try discriminate. destruct a; discriminate.
  - intros h hd H. unfold world_init in H. cbn in H.
    destruct h as [|[|[|[|[|[|h]]]]]]; cbn in H; try discriminate. destruct h; discriminate.
Qed.

(** ** locating the arena a handle belongs to *)
Definition uid_match (u : nat) (p : nat * option arena) : bool :=
  match snd p with Some ar => Nat.eqb (auid ar) u | None => false end.

Lemma in_combine_seq {A} (l : list A) : forall s b v, nth_error l b = Some v -> In (s + b, v) (combine (seq s (length l)) l).
Proof.
  induction l as [|x l IH]; intros s [|b] v H; cbn in *; try discriminate.
  - inversion H; subst. left. rewrite Nat.add_0_r. reflexivity.
  - right. replace (s + S b) with (S s + b) by lia. apply IH. exact H.
Qed.

Lemma find_arena_sound w u ai ar :
  find (uid_match u) (combine (seq 0 (length (arenas w))) (arenas w)) = Some (ai, Some ar) ->
  get_arena w ai = Some ar /\ auid ar = u.
Proof.
  intros F. apply find_some in F. destruct F as [Hin M]. apply in_combine_nth_error in Hin.
  split; [exact Hin|]. unfold uid_match in M. cbn in M. apply Nat.eqb_eq in M. exact M.
Qed.

Lemma find_arena_complete w u b br :
  HInv w -> get_arena w b = Some br -> auid br = u ->
  find (uid_match u) (combine (seq 0 (length (arenas w))) (arenas w)) = Some (b, Some br).
Proof.
  intros H GA U.
  assert (Hin : In (b, Some br) (combine (seq 0 (length (arenas w))) (arenas w))).
  { unfold get_arena, opt_join in GA. destruct (nth_error (arenas w) b) as [[x|]|] eqn:E; try discriminate.
    inversion GA; subst. apply (in_combine_seq (arenas w) 0 b (Some br) E). }
  destruct (find (uid_match u) _) as [[ai [ar|]]|] eqn:F.
  - destruct (find_arena_sound _ _ _ _ F) as [GA2 U2].
    assert (ai = b) by (apply (hi_uid_inj _ H ai b ar br GA2 GA); congruence). subst. congruence.
  - apply find_some in F. destruct F as [_ M]. discriminate.
  - exfalso. pose proof (find_none _ _ F _ Hin) as M. unfold uid_match in M. cbn in M. rewrite U, Nat.eqb_refl in M. discriminate.
Qed.

Lemma hm_other u s hd : (h_uid hd <> u \/ h_set hd <> s) -> forall i, hm u s i (Some hd) = false.
Proof.
  intros N i. cbn. destruct N as [N|N]; apply Nat.eqb_neq in N; rewrite N; [reflexivity|rewrite andb_false_r; reflexivity].
Qed.

(** a new arena *)
Lemma hinv_new w a k :
  HInv w -> nth_error (arenas w) a = Some None ->
  HInv (mkWorld (set_nth (arenas w) a (Some (mkArena ctx_new (nuid w) []))) (S (nuid w)) (handles w) k).
Proof.
  intros [A B C D] NA. assert (LT : a < length (arenas w)) by (apply nth_error_Some; congruence).
  assert (GP : forall b, get_arena (mkWorld (set_nth (arenas w) a (Some (mkArena ctx_new (nuid w) []))) (S (nuid w)) (handles w) k) b
               = if Nat.eqb a b then Some (mkArena ctx_new (nuid w) []) else get_arena w b).
  { intros b. unfold get_arena. cbn. destruct (Nat.eqb_spec a b); subst.
    - rewrite nth_error_set_nth_eq by auto. reflexivity.
    - rewrite nth_error_set_nth_neq by auto. reflexivity. }
  constructor.
  - intros b br Hb. rewrite GP in Hb. destruct (Nat.eqb_spec a b); [|apply (A b br Hb)].
    inversion Hb; subst. cbn [handles]. constructor; cbn [actx auid asets].
    + intros sid sl so SG. discriminate.
    + intros sid sl SG. discriminate.
    + intros sid so G. unfold get, ctx_new in G. cbn in G. destruct sid; discriminate.
    + intros h hd H U. specialize (D h hd H). lia.
  - intros b br Hb. rewrite GP in Hb. cbn [nuid]. destruct (Nat.eqb_spec a b); [inversion Hb; subst; cbn; lia|].
    specialize (B b br Hb). lia.
  - intros b1 b2 r1 r2 H1 H2 E. rewrite GP in H1, H2.
    destruct (Nat.eqb_spec a b1), (Nat.eqb_spec a b2); subst; auto.
    + inversion H1; subst. cbn in E. specialize (B _ _ H2). lia.
    + inversion H2; subst. cbn in E. specialize (B _ _ H1). lia.
    + apply (C _ _ _ _ H1 H2 E).
  - intros h hd H. cbn in H. specialize (D h hd H). cbn. lia.
Qed.

(** ** allocation: a fresh set gets an empty table, which is right because no handle names it yet *)
Lemma micro_alloc_sets w ar k r kd ns nw ar' hs out :
  micro w ar k (MAlloc r kd ns nw) = (ar', hs, out) -> sets_ok (handles w) ar ->
  auid ar' = auid ar /\ hs = handles w /\ sets_ok (handles w) ar'.
Proof.
  intros E [S D AL B]. destruct ar as [c uid sets]. cbn [actx auid asets] in *.
  cbn [micro actx auid asets] in E. unfold link, halloc in E. cbn in E. inversion E; subst; clear E.
  cbn [auid]. split; [reflexivity|split; [reflexivity|]].
  set (i := length (heap c)).
  assert (GO : forall y, y < i -> hget (heap c ++ [Some (norm_obj kd ns nw)]) y = get c y) by (intros y Hy; apply hget_app_old; auto).
  assert (GN : hget (heap c ++ [Some (norm_obj kd ns nw)]) i = Some (norm_obj kd ns nw)) by apply hget_app_new.
  assert (OLD : forall sid sl so, sets_get sets sid = Some sl -> hget (heap c ++ [Some (norm_obj kd ns nw)]) sid = Some so ->
                  live so = true -> okind so = KSet -> slot_ok (handles w) uid sid sl (strong so)).
  { intros sid sl so SG G L KS. rewrite GO in G by (apply (D sid sl SG)). apply (S sid sl so); auto. }
  constructor; cbn [actx auid asets]; unfold get; cbn [heap set_rg set_regs set_met set_lists set_heap].
  - intros sid sl so SG G L KS. destruct kd; try (apply (OLD sid sl so); auto; fail).
    rewrite sets_get_put in SG. destruct (Nat.eqb_spec i sid) as [<-|NE]; [|apply (OLD sid sl so); auto].
    inversion SG; subst. rewrite GN in G. inversion G; subst. cbn.
    apply slot_ok_empty. intros h hd H U SE. specialize (B h hd H U). lia.
  - intros sid sl SG. rewrite app_length. cbn [length].
    destruct kd; try (specialize (D sid sl SG); lia).
    rewrite sets_get_put in SG. destruct (Nat.eqb_spec i sid) as [<-|NE]; [unfold i; lia|specialize (D sid sl SG); lia].
  - intros sid so G KS. destruct (Nat.lt_ge_cases sid i) as [LT|GE].
    + rewrite GO in G by auto. destruct (AL sid so G KS) as [sl SG].
      destruct kd; eauto. exists sl. rewrite sets_get_put. destruct (Nat.eqb_spec i sid); [lia|auto].
    + destruct (Nat.eq_dec sid i) as [->|NE].
      * rewrite GN in G. inversion G; subst. destruct kd; try discriminate KS. eexists. rewrite sets_get_put, Nat.eqb_refl. reflexivity.
      * rewrite hget_oob in G by (rewrite app_length; cbn; unfold i in *; lia). discriminate.
  - intros h hd H U. rewrite app_length. specialize (B h hd H U). lia.
Qed.

(** an object born with contents is never a set: the tables are untouched *)
Lemma micro_allocwith_sets w ar k r kd cs ws ar' hs out :
  micro w ar k (MAllocWith r kd cs ws) = (ar', hs, out) -> sets_ok (handles w) ar ->
  auid ar' = auid ar /\ hs = handles w /\ sets_ok (handles w) ar'.
Proof.
  intros E SO. destruct ar as [c uid sets]. cbn [actx auid asets] in *.
  cbn [micro actx auid asets] in E.
  match type of E with context [init_obj ?kk ?ss ?ww] => destruct (init_obj kk ss ww) as [o|] eqn:IO end.
  2:{ inversion E; subst. split; [reflexivity|split; [reflexivity|exact SO]]. }
  destruct SO as [S D AL B]. cbn [actx auid asets] in *.
  assert (NK : okind o <> KSet). { destruct kd; cbn in IO; try discriminate; inversion IO; subst; cbn; discriminate. }
  unfold link, halloc in E. cbn in E. inversion E; subst; clear E.
  cbn [auid]. split; [reflexivity|split; [reflexivity|]].
  set (i := length (heap c)).
  assert (GO : forall y, y < i -> hget (heap c ++ [Some o]) y = get c y) by (intros y Hy; apply hget_app_old; auto).
  assert (GN : hget (heap c ++ [Some o]) i = Some o) by apply hget_app_new.
  constructor; cbn [actx auid asets]; unfold get; cbn [heap set_rg set_regs set_met set_lists set_heap].
  - intros sid sl so SG G L KS. rewrite GO in G by (apply (D sid sl SG)). apply (S sid sl so); auto.
  - intros sid sl SG. rewrite app_length. cbn [length]. specialize (D sid sl SG); lia.
  - intros sid so G KS. destruct (Nat.lt_ge_cases sid i) as [LT|GE].
    + rewrite GO in G by auto. apply (AL sid so G KS).
    + destruct (Nat.eq_dec sid i) as [->|NE].
      * rewrite GN in G. inversion G; subst. contradiction.
      * rewrite hget_oob in G by (rewrite app_length; cbn; unfold i in *; lia). discriminate.
  - intros h hd H U. rewrite app_length. specialize (B h hd H U). lia.
Qed.

(** updating one arena together with the handle table *)
Lemma hinv_put_h w a ar ar' hs' :
  HInv w -> get_arena w a = Some ar -> auid ar' = auid ar ->
  (forall b br, get_arena w b = Some br -> b <> a -> sets_ok hs' br) -> sets_ok hs' ar' ->
  (forall h hd, nth_error hs' h = Some (Some hd) -> h_uid hd < nuid w) ->
  HInv (set_handles (put_arena w a (Some ar')) hs').
Proof.
  intros [A B C D] GA U OTH S HL. pose proof (get_arena_lt _ _ _ GA) as LT.
  assert (GP : forall b, get_arena (set_handles (put_arena w a (Some ar')) hs') b = if Nat.eqb a b then Some ar' else get_arena w b).
  { intros b. change (get_arena (set_handles (put_arena w a (Some ar')) hs') b) with (get_arena (put_arena w a (Some ar')) b).
    apply get_arena_put; auto. }
  constructor.
  - intros b br Hb. rewrite GP in Hb. cbn [handles set_handles]. destruct (Nat.eqb_spec a b); [inversion Hb; subst; exact S|].
    apply (OTH b br Hb). auto.
  - intros b br Hb. rewrite GP in Hb. destruct (Nat.eqb_spec a b); [inversion Hb; subst|]; cbn.
    + rewrite U. apply (B _ _ GA).
    + apply (B b br Hb).
  - intros b1 b2 r1 r2 H1 H2 E. rewrite GP in H1, H2.
    destruct (Nat.eqb_spec a b1), (Nat.eqb_spec a b2); subst; auto.
    + inversion H1; subst. rewrite U in E. apply (C _ _ _ _ GA H2 E).
    + inversion H2; subst. rewrite U in E. apply (C _ _ _ _ H1 GA E).
    + apply (C _ _ _ _ H1 H2 E).
  - exact HL.
Qed.

(** replacing one entry of the handle table by a handle that does not belong to arena [br] (or by nothing) *)
Lemma sets_ok_other_handle hs br h v old :
  sets_ok hs br -> nth_error hs h = Some old ->
  (forall hd, old = Some hd -> h_uid hd <> auid br) -> (forall hd, v = Some hd -> h_uid hd <> auid br) ->
  sets_ok (set_nth hs h v) br.
Proof.
  intros [S D AL B] HO NO NV.
  assert (FO : forall s i, hm (auid br) s i old = false).
  { intros s i. destruct old as [hd|]; [|reflexivity]. apply hm_other. left. apply NO. reflexivity. }
  assert (FV : forall s i, hm (auid br) s i v = false).
  { intros s i. destruct v as [hd|]; [|reflexivity]. apply hm_other. left. apply NV. reflexivity. }
  assert (HL : h < length hs) by (apply nth_error_Some; congruence).
  constructor.
  - intros sid sl so SG G L KS. eapply slot_ok_other_handle; eauto.
  - exact D.
  - exact AL.
  - intros h0 hd H0 U. destruct (Nat.eq_dec h h0) as [->|NE].
    + rewrite nth_error_set_nth_eq in H0 by auto. inversion H0; subst. exfalso. eapply NV; eauto.
    + rewrite nth_error_set_nth_neq in H0 by auto. apply (B h0 hd H0 U).
Qed.

Lemma hinv_keep w a ar : HInv w -> get_arena w a = Some ar -> HInv (set_handles (put_arena w a (Some ar)) (handles w)).
Proof.
  intros H GA. apply (hinv_put_h w a ar ar (handles w)); auto.
  - intros b br Hb _. apply (hi_sets _ H b br Hb).
  - apply (hi_sets _ H a ar GA).
  - apply (hi_h_lt _ H).
Qed.

(** ** stash *)
Lemma micro_stash_hinv w a ar k h s cr ar' hs out :
  HInv w -> get_arena w a = Some ar -> micro w ar k (MStash h s cr) = (ar', hs, out) ->
  HInv (set_handles (put_arena w a (Some ar')) hs).
Proof.
  intros H GA E. pose proof (hi_sets _ H a ar GA) as SK. destruct SK as [S D AL B].
  destruct ar as [c uid sets]. cbn [actx auid asets] in *. cbn [micro actx auid asets] in E.
  assert (KEEP : (ar', hs, out) = (mkArena c uid sets, handles w, SKIP) -> HInv (set_handles (put_arena w a (Some ar')) hs)).
  { intros EE. inversion EE; subst. apply hinv_keep; auto. }
  destruct (rg c s) as [sid|]; [|apply KEEP; auto].
  destruct (rg c cr) as [cid|]; [|apply KEEP; auto].
  destruct (nth_error (handles w) h) as [[hd0|]|] eqn:NH; try (apply KEEP; auto; fail).
  destruct (get c sid) as [so|] eqn:G; [|apply KEEP; auto].
  destruct (sets_get sets sid) as [sl|] eqn:SG; [|apply KEEP; auto].
  destruct (okind so) eqn:KS; try (apply KEEP; auto; fail).
  destruct (live so && ntr so && negb _) eqn:CND; [|apply KEEP; auto].
  apply andb_true_iff in CND. destruct CND as [CND _]. apply andb_true_iff in CND. destruct CND as [LV _].
  set (c1 := add_lic (backward_barrier c sid (Some cid)) (LPair sid cid)) in *.
  assert (K1 : KW c c1) by (apply (kw_heap_of c (backward_barrier c sid (Some cid))); [apply kw_backward_barrier|reflexivity]).
  pose proof (slot_ok_stash (handles w) uid sid sl (strong so) h cid (S sid sl so SG G LV KS) NH) as ST.
  destruct (slots_add sl) as [[sl' idx] grew].
  destruct (get c1 sid) as [so1|] eqn:G1; [|apply KEEP; auto].
  destruct K1 as [LE1 K1].
  destruct (K1 sid so1 G1) as [so0 [G0 [KD0 [_ ST0]]]]. rewrite G in G0. inversion G0; subst so0.
  rewrite <- ST0 in ST by auto.
  inversion E; subst; clear E.
  set (st := if grew then strong so1 ++ [Some cid] else set_nth (strong so1) idx (Some cid)) in *.
  set (hs' := set_nth (handles w) h (Some (mkHandle uid sid idx cid))).
  assert (HL : h < length (handles w)) by (apply nth_error_Some; congruence).
  assert (LC2 : length (heap (put c1 sid (with_strong so1 st))) = length (heap c1)) by (unfold put; cbn; apply hset_length).
  apply (hinv_put_h w a (mkArena c uid sets)); auto.
  - (* other arenas *)
    intros b br Hb NE. apply (sets_ok_other_handle (handles w) br h _ None (hi_sets _ H b br Hb) NH); [discriminate|].
    intros hd EQ. inversion EQ; subst. cbn. intros EU. apply NE. symmetry.
    apply (hi_uid_inj _ H a b (mkArena c uid sets) br GA Hb). cbn. auto.
  - (* this arena *)
    constructor; cbn [actx auid asets].
    + intros sid' sl2 so2 SG2 G2 L2 KS2. rewrite sets_get_put in SG2.
      rewrite (get_put c1 sid sid' _ so1 G1) in G2.
      destruct (Nat.eqb_spec sid sid') as [<-|NE].
      * inversion SG2; subst. inversion G2; subst. cbn [strong with_strong]. exact ST.
      * destruct (K1 sid' so2 G2) as [so3 [G3 [KD3 [LV3 ST3]]]].
        rewrite ST3 by congruence.
        apply (slot_ok_other_handle (handles w) uid sid' sl2 (strong so3) h _ None); auto.
        -- apply (S sid' sl2 so3); auto. congruence.
        -- intros i. apply hm_other. right. cbn. auto.
    + intros sid' sl2 SG2. rewrite LC2. rewrite sets_get_put in SG2. destruct (Nat.eqb_spec sid sid') as [<-|NE].
      * pose proof (get_some_lt _ _ _ G). lia.
      * specialize (D sid' sl2 SG2). lia.
    + intros sid' so2 G2 KS2. rewrite sets_get_put. destruct (Nat.eqb_spec sid sid') as [<-|NE]; [eauto|].
      rewrite (get_put c1 sid sid' _ so1 G1) in G2. destruct (Nat.eqb_spec sid sid'); [contradiction|].
      destruct (K1 sid' so2 G2) as [so3 [G3 [KD3 _]]]. apply (AL sid' so3 G3). congruence.
    + intros h0 hd H0 U. rewrite LC2. unfold hs' in H0. destruct (Nat.eq_dec h h0) as [->|NE].
      * rewrite nth_error_set_nth_eq in H0 by auto. inversion H0; subst. cbn [h_set]. pose proof (get_some_lt _ _ _ G). lia.
      * rewrite nth_error_set_nth_neq in H0 by auto. specialize (B h0 hd H0 U). lia.
  - intros h0 hd H0. unfold hs' in H0. destruct (Nat.eq_dec h h0) as [->|NE].
    + rewrite nth_error_set_nth_eq in H0 by auto. inversion H0; subst. cbn. apply (hi_uid_lt _ H a _ GA).
    + rewrite nth_error_set_nth_neq in H0 by auto. apply (hi_h_lt _ H h0 hd H0).
Qed.

(** ** handle clone / drop *)
Lemma hinv_handles_only w hs' :
  HInv w -> (forall b br, get_arena w b = Some br -> sets_ok hs' br) ->
  (forall h hd, nth_error hs' h = Some (Some hd) -> h_uid hd < nuid w) -> HInv (set_handles w hs').
Proof. intros [A B C D] S HL. constructor; auto. Qed.

Lemma clone_idle hs h' h hd br :
  sets_ok hs br -> nth_error hs h' = Some None -> nth_error hs h = Some (Some hd) ->
  (h_uid hd = auid br -> forall sl so, sets_get (asets br) (h_set hd) = Some sl -> get (actx br) (h_set hd) = Some so ->
     live so = true -> False) ->
  sets_ok (set_nth hs h' (Some hd)) br.
Proof.
  intros [S D AL B] HN HH IDLE. assert (HL : h' < length hs) by (apply nth_error_Some; congruence).
  constructor.
  - intros sid sl so SG G L KS.
    destruct (Nat.eq_dec (h_uid hd) (auid br)) as [EU|NU]; [destruct (Nat.eq_dec (h_set hd) sid) as [ES|NS]|].
    + exfalso. subst sid. eapply IDLE; eauto.
    + apply (slot_ok_other_handle hs (auid br) sid sl (strong so) h' (Some hd) None (S sid sl so SG G L KS) HN (fun _ => eq_refl)).
      apply hm_other. auto.
    + apply (slot_ok_other_handle hs (auid br) sid sl (strong so) h' (Some hd) None (S sid sl so SG G L KS) HN (fun _ => eq_refl)).
      apply hm_other. auto.
  - exact D.
  - exact AL.
  - intros h0 hd0 H0 U. destruct (Nat.eq_dec h' h0) as [->|NE].
    + rewrite nth_error_set_nth_eq in H0 by auto. inversion H0; subst. apply (B h hd0 HH U).
    + rewrite nth_error_set_nth_neq in H0 by auto. apply (B h0 hd0 H0 U).
Qed.

Lemma clone_inc hs h' h hd br sl :
  sets_ok hs br -> nth_error hs h' = Some None -> nth_error hs h = Some (Some hd) ->
  h_uid hd = auid br -> sets_get (asets br) (h_set hd) = Some sl ->
  sets_ok (set_nth hs h' (Some hd)) (mkArena (actx br) (auid br) (sets_put (asets br) (h_set hd) (slots_inc sl (h_idx hd)))).
Proof.
  intros [S D AL B] HN HH EU SG0. assert (HL : h' < length hs) by (apply nth_error_Some; congruence).
  constructor; cbn [actx auid asets].
  - intros sid sl2 so SG G L KS. rewrite sets_get_put in SG. destruct (Nat.eqb_spec (h_set hd) sid) as [<-|NS].
    + inversion SG; subst. eapply slot_ok_clone; eauto.
    + apply (slot_ok_other_handle hs (auid br) sid sl2 (strong so) h' (Some hd) None (S sid sl2 so SG G L KS) HN (fun _ => eq_refl)).
      apply hm_other. auto.
  - intros sid sl2 SG. rewrite sets_get_put in SG. destruct (Nat.eqb_spec (h_set hd) sid) as [<-|NS]; eauto.
  - intros sid so G KS. rewrite sets_get_put. destruct (Nat.eqb_spec (h_set hd) sid); eauto.
  - intros h0 hd0 H0 U. destruct (Nat.eq_dec h' h0) as [->|NE].
    + rewrite nth_error_set_nth_eq in H0 by auto. inversion H0; subst. apply (B h hd0 HH U).
    + rewrite nth_error_set_nth_neq in H0 by auto. apply (B h0 hd0 H0 U).
Qed.

Lemma drop_idle hs h hd br :
  sets_ok hs br -> nth_error hs h = Some (Some hd) ->
  (h_uid hd = auid br -> forall sl so, sets_get (asets br) (h_set hd) = Some sl -> get (actx br) (h_set hd) = Some so ->
     live so = true -> False) ->
  sets_ok (set_nth hs h None) br.
Proof.
  intros [S D AL B] HH IDLE. assert (HL : h < length hs) by (apply nth_error_Some; congruence).
  constructor.
  - intros sid sl so SG G L KS.
    destruct (Nat.eq_dec (h_uid hd) (auid br)) as [EU|NU]; [destruct (Nat.eq_dec (h_set hd) sid) as [ES|NS]|].
    + exfalso. subst sid. eapply IDLE; eauto.
    + apply (slot_ok_other_handle hs (auid br) sid sl (strong so) h None (Some hd) (S sid sl so SG G L KS) HH); [|reflexivity].
      apply hm_other. auto.
    + apply (slot_ok_other_handle hs (auid br) sid sl (strong so) h None (Some hd) (S sid sl so SG G L KS) HH); [|reflexivity].
      apply hm_other. auto.
  - exact D.
  - exact AL.
  - intros h0 hd0 H0 U. destruct (Nat.eq_dec h h0) as [->|NE].
    + rewrite nth_error_set_nth_eq in H0 by auto. discriminate.
    + rewrite nth_error_set_nth_neq in H0 by auto. apply (B h0 hd0 H0 U).
Qed.

Lemma drop_dec hs h hd br sl so :
  sets_ok hs br -> nth_error hs h = Some (Some hd) -> h_uid hd = auid br ->
  sets_get (asets br) (h_set hd) = Some sl -> get (actx br) (h_set hd) = Some so -> live so = true ->
  let '(sl', vac) := slots_dec sl (h_idx hd) in
  sets_ok (set_nth hs h None)
          (mkArena (if vac then put (actx br) (h_set hd) (with_strong so (set_nth (strong so) (h_idx hd) None)) else actx br)
                   (auid br) (sets_put (asets br) (h_set hd) sl')).
Proof.
  intros [S D AL B] HH EU SG0 G0 L0. assert (HL : h < length hs) by (apply nth_error_Some; congruence).
  pose proof (fun KS => slot_ok_drop hs (auid br) (h_set hd) sl (strong so) h hd (S _ _ _ SG0 G0 L0 KS) HH EU eq_refl) as DR.
  destruct (slots_dec sl (h_idx hd)) as [sl' vac].
  set (c' := if vac then put (actx br) (h_set hd) (with_strong so (set_nth (strong so) (h_idx hd) None)) else actx br).
  assert (LC : length (heap c') = length (heap (actx br))) by (unfold c'; destruct vac; [unfold put; cbn; apply hset_length|reflexivity]).
  assert (GS : get c' (h_set hd) = Some (if vac then with_strong so (set_nth (strong so) (h_idx hd) None) else so)).
  { unfold c'. destruct vac; [apply get_put_eq; eapply get_some_lt; eauto|exact G0]. }
  assert (GO : forall y, y <> h_set hd -> get c' y = get (actx br) y).
  { intros y NY. unfold c'. destruct vac; [apply get_put_neq; auto|reflexivity]. }
  constructor; cbn [actx auid asets].
  - intros sid sl2 so2 SG G L KS. rewrite sets_get_put in SG. destruct (Nat.eqb_spec (h_set hd) sid) as [<-|NS].
    + inversion SG; subst. rewrite GS in G. inversion G; subst.
      assert (KS0 : okind so = KSet) by (destruct vac; exact KS).
      specialize (DR KS0). destruct vac; exact DR.
    + rewrite GO in G by auto.
      apply (slot_ok_other_handle hs (auid br) sid sl2 (strong so2) h None (Some hd) (S sid sl2 so2 SG G L KS) HH); [|reflexivity].
      apply hm_other. auto.
  - intros sid sl2 SG. rewrite LC. rewrite sets_get_put in SG. destruct (Nat.eqb_spec (h_set hd) sid) as [<-|NS]; eauto.
  - intros sid so2 G KS. rewrite sets_get_put. destruct (Nat.eqb_spec (h_set hd) sid) as [<-|NS]; [eauto|].
    rewrite GO in G by auto. eauto.
  - intros h0 hd0 H0 U. rewrite LC. destruct (Nat.eq_dec h h0) as [->|NE].
    + rewrite nth_error_set_nth_eq in H0 by auto. discriminate.
    + rewrite nth_error_set_nth_neq in H0 by auto. apply (B h0 hd0 H0 U).
Qed.

(** ** every API operation preserves the handle invariant *)
Lemma is_stash_cases m : is_stash m = true -> exists h s c, m = MStash h s c.
Proof. destruct m; try discriminate. eauto. Qed.

Lemma micro_hinv w a ar k m ar' hs out :
  HInv w -> get_arena w a = Some ar -> micro w ar k m = (ar', hs, out) ->
  HInv (set_handles (put_arena w a (Some ar')) hs).
Proof.
  intros H GA E. destruct (is_stash m) eqn:IS.
  - destruct (is_stash_cases m IS) as [h [s [c ->]]]. eapply micro_stash_hinv; eauto.
  - assert (OTH : forall b br, get_arena w b = Some br -> b <> a -> sets_ok (handles w) br) by (intros b br Hb _; apply (hi_sets _ H b br Hb)).
    destruct m; try discriminate IS;
      try (destruct (micro_sets w ar k _ ar' hs out IS eq_refl E) as [U [K [-> SA]]];
           apply (hinv_put_h w a ar ar' (handles w) H GA U OTH); [|apply (hi_h_lt _ H)];
           destruct ar' as [c' u' s']; cbn [actx auid asets] in *; subst u' s';
           apply sets_ok_kw; [apply (hi_sets _ H a ar GA)|exact K]; fail).
    all: match type of E with
         | micro _ _ _ (MAlloc ?r ?kd ?ns ?nw) = _ =>
           destruct (micro_alloc_sets w ar k r kd ns nw ar' hs out E (hi_sets _ H a ar GA)) as [U [-> S']]
         | micro _ _ _ (MAllocWith ?r ?kd ?cs ?ws) = _ =>
           destruct (micro_allocwith_sets w ar k r kd cs ws ar' hs out E (hi_sets _ H a ar GA)) as [U [-> S']]
         end; apply (hinv_put_h w a ar ar' (handles w) H GA U OTH S'); apply (hi_h_lt _ H).
Qed.

Lemma root_barrier_heap c : heap (root_barrier c) = heap c.
Proof. unfold root_barrier. destruct (ph c); reflexivity. Qed.

Theorem step_hinv w o : HInv w -> HInv (fst (step w o)).
Proof.
  intros H. destruct o; cbn [step].
  - (* OBegin *)
    destruct (cur w) as [x|]; [exact H|].
    destruct k.
    + destruct (nth_error (arenas w) a) as [[x|]|] eqn:NA; try exact H. cbn [fst]. apply hinv_new; auto.
    + destruct (nth_error (arenas w) a) as [[x|]|] eqn:NA; try exact H. cbn [fst]. apply hinv_new; auto.
    + destruct (get_arena w a) as [ar|] eqn:GA; [|exact H]. cbn [fst]. apply hinv_set_cur; auto.
    + destruct (get_arena w a) as [ar|] eqn:GA; [|exact H]. cbn [fst]. apply hinv_set_cur. apply hinv_put_kw; auto.
      apply kw_same_heap. apply root_barrier_heap.
    + destruct (get_arena w a) as [ar|] eqn:GA; [|exact H]. cbn [fst]. apply hinv_set_cur. apply hinv_put_kw; auto.
      apply kw_same_heap. cbn. apply root_barrier_heap.
    + destruct (get_arena w a) as [ar|] eqn:GA; [|exact H]. cbn [fst]. apply hinv_set_cur. apply hinv_put_kw; auto.
      apply kw_same_heap. cbn. apply root_barrier_heap.
    + destruct (get_arena w a) as [ar|] eqn:GA; [|exact H].
      destruct (do_collection dec_debt (actx ar) _ FullyMarked None) as [[c1 evs] oc] eqn:DC. cbn [fst].
      apply hinv_set_cur. apply hinv_put_kw; auto. eapply kw_do_collection; eauto.
  - (* OMicro *)
    destruct (cur w) as [[[a k] [|]]|]; try exact H.
    destruct (get_arena w a) as [ar|] eqn:GA; [|exact H].
    destruct (micro w ar k m) as [[ar' hs] out] eqn:EM. cbn [fst]. eapply micro_hinv; eauto.
  - (* OEnd *)
    destruct (cur w) as [[[a k] ent]|]; [|exact H].
    destruct (get_arena w a) as [ar|] eqn:GA; [|cbn [fst]; apply hinv_set_cur; auto].
    destruct k; cbn [fst]; apply hinv_set_cur; apply hinv_put_kw; auto; apply kw_same_heap; reflexivity.
  - (* OEndErr *)
    destruct (cur w) as [[[a k] ent]|]; [|exact H].
    destruct (get_arena w a) as [ar|] eqn:GA; [|cbn [fst]; apply hinv_set_cur; auto].
    destruct k; try (cbn [fst]; apply hinv_set_cur; apply hinv_put_kw; auto; apply kw_same_heap; reflexivity);
      destruct (drop_arena_effect (actx ar)); cbn [fst]; apply hinv_set_cur; eapply hinv_remove; eauto.
  - (* OPanic *)
    destruct (cur w) as [[[a k] ent]|]; [|exact H].
    destruct (get_arena w a) as [ar|] eqn:GA; [|cbn [fst]; apply hinv_set_cur; auto].
    destruct k; try (cbn [fst]; apply hinv_set_cur; apply hinv_put_kw; auto; apply kw_same_heap; reflexivity);
      destruct (drop_arena_effect (actx ar)); cbn [fst]; apply hinv_set_cur; eapply hinv_remove; eauto.
  - (* OCollect *)
    destruct (cur w); [exact H|]. destruct (get_arena w a) as [ar|] eqn:GA; [|exact H].
    destruct (how_params how) as [ru st].
    destruct (do_collection dec_debt (actx ar) ru st fault) as [[c1 evs] oc] eqn:DC. cbn [fst].
    apply hinv_put_kw; auto. eapply kw_do_collection; eauto.
  - (* OStartSweep *)
    destruct (cur w); [exact H|]. destruct (get_arena w a) as [ar|] eqn:GA; [|exact H].
    destruct (do_collection dec_debt (actx ar) _ FullyMarked None) as [[c1 evs1] oc] eqn:DC.
    pose proof (kw_do_collection _ _ _ _ _ _ _ _ DC) as K1.
    destruct (is_marked c1).
    + destruct (do_collection dec_debt c1 RunStop AtSweep None) as [[c2 evs] oc2] eqn:DC2. cbn [fst].
      apply hinv_put_kw; auto. eapply kw_trans; [exact K1|]. eapply kw_do_collection; eauto.
    + cbn [fst]. apply hinv_put_kw; auto.
  - (* ODropArena *)
    destruct (cur w); [exact H|]. destruct (get_arena w a) as [ar|] eqn:GA; [|exact H].
    destruct (drop_arena_effect (actx ar)). cbn [fst]. eapply hinv_remove; eauto.
  - (* OAdjustDebt *)
    destruct (match cur w with None => true | Some (a', _, _) => Nat.eqb a a' end); [|exact H].
    destruct (get_arena w a) as [ar|] eqn:GA; [|exact H]. cbn [fst]. apply hinv_put_kw; auto. apply kw_same_heap; reflexivity.
  - (* OSetPacing *)
    destruct (match cur w with None => true | Some (a', _, _) => Nat.eqb a a' end); [|exact H].
    destruct (get_arena w a) as [ar|] eqn:GA; [|exact H]. cbn [fst]. apply hinv_put_kw; auto. apply kw_same_heap; reflexivity.
  - (* OCloneH *)
    destruct (nth_error (handles w) h') as [[x|]|] eqn:HN; try exact H.
    destruct (nth_error (handles w) h) as [[hd|]|] eqn:HH; try exact H.
    set (hs' := set_nth (handles w) h' (Some hd)).
    assert (HLT : forall h0 hd0, nth_error hs' h0 = Some (Some hd0) -> h_uid hd0 < nuid w).
    { intros h0 hd0 H0. unfold hs' in H0. assert (h' < length (handles w)) by (apply nth_error_Some; congruence).
      destruct (Nat.eq_dec h' h0) as [->|NE].
      - rewrite nth_error_set_nth_eq in H0 by auto. inversion H0; subst. apply (hi_h_lt _ H h hd0 HH).
      - rewrite nth_error_set_nth_neq in H0 by auto. apply (hi_h_lt _ H h0 hd0 H0). }
    change (fun p : nat * option arena => match snd p with Some ar => Nat.eqb (auid ar) (h_uid hd) | None => false end) with (uid_match (h_uid hd)).
    (* when no table is incremented, no arena has a live set with a table at the handle's set id *)
    assert (IDLE : (forall b br, get_arena w b = Some br -> h_uid hd = auid br ->
                      forall sl so, sets_get (asets br) (h_set hd) = Some sl -> get (actx br) (h_set hd) = Some so -> live so = true -> False) ->
                   HInv (set_handles w hs')).
    { intros NO. apply hinv_handles_only; auto. intros b br Hb. apply (clone_idle (handles w) h' h hd br (hi_sets _ H b br Hb) HN HH).
      intros EU. apply (NO b br Hb EU). }
    destruct (find (uid_match (h_uid hd)) _) as [[ai [ar|]]|] eqn:FD.
    + destruct (find_arena_sound _ _ _ _ FD) as [GA EU].
      assert (ONLY : forall b br, get_arena w b = Some br -> h_uid hd = auid br -> b = ai /\ br = ar).
      { intros b br Hb EB. pose proof (find_arena_complete w (h_uid hd) b br H Hb (eq_sym EB)) as F2.
        rewrite FD in F2. inversion F2; subst. auto. }
      destruct (get (actx ar) (h_set hd)) as [so|] eqn:GS;
        [|cbn [fst]; apply IDLE; intros b br Hb EB sl so SG G L; destruct (ONLY b br Hb EB) as [-> ->]; congruence].
      destruct (sets_get (asets ar) (h_set hd)) as [sl|] eqn:SG;
        [|cbn [fst]; apply IDLE; intros b br Hb EB sl so' SG' G L; destruct (ONLY b br Hb EB) as [-> ->]; congruence].
      destruct (live so) eqn:LV;
        [|cbn [fst]; apply IDLE; intros b br Hb EB sl' so' SG' G L; destruct (ONLY b br Hb EB) as [-> ->]; congruence].
      cbn [fst].
      change (put_arena (set_handles w hs') ai ?v) with (set_handles (put_arena w ai v) hs').
      apply (hinv_put_h w ai ar); auto.
      * intros b br Hb NE. apply (clone_idle (handles w) h' h hd br (hi_sets _ H b br Hb) HN HH).
        intros EB. destruct (ONLY b br Hb EB). contradiction.
      * apply (clone_inc (handles w) h' h hd ar sl (hi_sets _ H ai ar GA) HN HH (eq_sym EU) SG).
    + apply find_some in FD. destruct FD as [_ M]. discriminate.
    + cbn [fst]. apply IDLE. intros b br Hb EB.
      pose proof (find_arena_complete w (h_uid hd) b br H Hb (eq_sym EB)) as F2. rewrite FD in F2. discriminate.
  - (* ODropH *)
    destruct (nth_error (handles w) h) as [[hd|]|] eqn:HH; try exact H.
    set (hs' := set_nth (handles w) h None).
    assert (HLT : forall h0 hd0, nth_error hs' h0 = Some (Some hd0) -> h_uid hd0 < nuid w).
    { intros h0 hd0 H0. unfold hs' in H0. assert (h < length (handles w)) by (apply nth_error_Some; congruence).
      destruct (Nat.eq_dec h h0) as [->|NE].
      - rewrite nth_error_set_nth_eq in H0 by auto. discriminate.
      - rewrite nth_error_set_nth_neq in H0 by auto. apply (hi_h_lt _ H h0 hd0 H0). }
    change (fun p : nat * option arena => match snd p with Some ar => Nat.eqb (auid ar) (h_uid hd) | None => false end) with (uid_match (h_uid hd)).
    assert (IDLE : (forall b br, get_arena w b = Some br -> h_uid hd = auid br ->
                      forall sl so, sets_get (asets br) (h_set hd) = Some sl -> get (actx br) (h_set hd) = Some so -> live so = true -> False) ->
                   HInv (set_handles w hs')).
    { intros NO. apply hinv_handles_only; auto. intros b br Hb. apply (drop_idle (handles w) h hd br (hi_sets _ H b br Hb) HH).
      intros EU. apply (NO b br Hb EU). }
    destruct (find (uid_match (h_uid hd)) _) as [[ai [ar|]]|] eqn:FD.
    + destruct (find_arena_sound _ _ _ _ FD) as [GA EU].
      assert (ONLY : forall b br, get_arena w b = Some br -> h_uid hd = auid br -> b = ai /\ br = ar).
      { intros b br Hb EB. pose proof (find_arena_complete w (h_uid hd) b br H Hb (eq_sym EB)) as F2.
        rewrite FD in F2. inversion F2; subst. auto. }
      destruct (get (actx ar) (h_set hd)) as [so|] eqn:GS;
        [|cbn [fst]; apply IDLE; intros b br Hb EB sl so SG G L; destruct (ONLY b br Hb EB) as [-> ->]; congruence].
      destruct (sets_get (asets ar) (h_set hd)) as [sl|] eqn:SG;
        [|cbn [fst]; apply IDLE; intros b br Hb EB sl so' SG' G L; destruct (ONLY b br Hb EB) as [-> ->]; congruence].
      destruct (live so) eqn:LV;
        [|cbn [fst]; apply IDLE; intros b br Hb EB sl' so' SG' G L; destruct (ONLY b br Hb EB) as [-> ->]; congruence].
      pose proof (drop_dec (handles w) h hd ar sl so (hi_sets _ H ai ar GA) HH (eq_sym EU) SG GS LV) as DD.
      destruct (slots_dec sl (h_idx hd)) as [sl' vac]. cbn [fst].
      change (put_arena (set_handles w hs') ai ?v) with (set_handles (put_arena w ai v) hs').
      apply (hinv_put_h w ai ar); auto.
      intros b br Hb NE. apply (drop_idle (handles w) h hd br (hi_sets _ H b br Hb) HH).
      intros EB. destruct (ONLY b br Hb EB). contradiction.
    + apply find_some in FD. destruct FD as [_ M]. discriminate.
    + cbn [fst]. apply IDLE. intros b br Hb EB.
      pose proof (find_arena_complete w (h_uid hd) b br H Hb (eq_sym EB)) as F2. rewrite FD in F2. discriminate.
Qed.

Theorem hinv_reachable ops : HInv (run world_init ops).
Proof.
  assert (G : forall w, HInv w -> HInv (run w ops)).
  { induction ops as [|o ops IH]; intros w H; cbn; auto. apply IH. apply step_hinv; auto. }
  apply G. apply hinv_init.
Qed.
