(** * The DynamicRootSet / handle invariant (C14), part 4: what a client of the API can rely on. *)
From GA Require Import Model.Spec Proofs.HeapLemmas Proofs.InvWorld.
From GA Require Import Proofs.Slots Proofs.HandlesKW Proofs.HandlesCollect Proofs.HandlesInv.
Local Open Scope nat_scope.

Section Reachable.
  Variable ops : list op.
  Let w := run world_init ops.

  (** every live handle whose arena and set still exist names a slot of the set that holds exactly the
      object the handle was created for -- whatever happened in between (collections in any phase,
      other stashes, slot reuse after frees, clones and drops of other handles, other arenas) *)
  Theorem handle_resolves a ar h hd so :
    get_arena w a = Some ar -> nth_error (handles w) h = Some (Some hd) -> h_uid hd = auid ar ->
    get (actx ar) (h_set hd) = Some so -> live so = true -> okind so = KSet ->
    nth_error (strong so) (h_idx hd) = Some (Some (h_ptr hd)).
  Proof.
    intros GA HH EU G L KS. pose proof (hinv_reachable ops) as H. fold w in H.
    destruct (hi_sets _ H a ar GA) as [S D AL B]. destruct (AL _ so G KS) as [sl SG].
    apply (so_hd _ _ _ _ _ (S _ sl so SG G L KS) h hd HH EU eq_refl).
  Qed.

  (** so fetch through a live handle of this set returns the very object that was stashed (never the
      model's "dangling" answer 9, never another object) *)
  Theorem fetch_returns_stashed a ar k r s h hd sid so :
    get_arena w a = Some ar -> nth_error (handles w) h = Some (Some hd) ->
    rg (actx ar) s = Some sid -> get (actx ar) sid = Some so -> okind so = KSet -> live so = true ->
    h_uid hd = auid ar -> h_set hd = sid ->
    micro w ar k (MFetch r s h)
    = (mkArena (set_rg (actx ar) r (Some (h_ptr hd))) (auid ar) (asets ar), handles w,
       [1%Z; Z.of_nat (h_ptr hd); Z.of_nat sid]).
  Proof.
    intros GA HH RS G KS L EU ES. subst sid.
    pose proof (handle_resolves a ar h hd so GA HH EU G L KS) as R.
    destruct ar as [c uid sets]. cbn [actx auid asets] in *. cbn [micro actx auid asets].
    rewrite RS, HH, G, KS, L, EU, !Nat.eqb_refl. cbn [andb].
    assert (EX : existsb (fun s0 => match s0 with Some y => Nat.eqb y (h_ptr hd) | None => false end) (strong so) = true).
    { apply existsb_exists. exists (Some (h_ptr hd)). split; [eapply nth_error_In; eauto|apply Nat.eqb_refl]. }
    rewrite EX. reflexivity.
  Qed.

  (** conversely a live set holds nothing but the targets of live handles: once the last handle of an
      object is dropped the set no longer references it (and C02 then reclaims it unless something
      else does) *)
  Theorem set_holds_only_handle_targets a ar sid so i x :
    get_arena w a = Some ar -> get (actx ar) sid = Some so -> live so = true -> okind so = KSet ->
    nth_error (strong so) i = Some (Some x) ->
    exists h hd, nth_error (handles w) h = Some (Some hd) /\ h_uid hd = auid ar /\ h_set hd = sid
                 /\ h_idx hd = i /\ h_ptr hd = x.
  Proof.
    intros GA G L KS NX. pose proof (hinv_reachable ops) as H. fold w in H.
    destruct (hi_sets _ H a ar GA) as [S D AL B]. destruct (AL _ so G KS) as [sl SG].
    pose proof (S _ sl so SG G L KS) as OK.
    assert (IL : i < length (smeta sl)) by (rewrite (so_len _ _ _ _ _ OK); apply nth_error_Some; congruence).
    destruct (nth_error (smeta sl) i) as [[nx|rc]|] eqn:E.
    - destruct (so_vac _ _ _ _ _ OK _ _ E) as [V _]. congruence.
    - pose proof (so_occ _ _ _ _ _ OK _ _ E) as CNT. unfold hcount in CNT.
      destruct (filter (hm (auid ar) sid i) (handles w)) as [|y t] eqn:F; [cbn in CNT; lia|].
      assert (Hin : In y (filter (hm (auid ar) sid i) (handles w))) by (rewrite F; left; auto).
      apply filter_In in Hin. destruct Hin as [Hin HM]. destruct y as [hd|]; [|discriminate].
      apply hm_true in HM. destruct HM as [U [SS I]]. apply In_nth_error in Hin. destruct Hin as [h Hh].
      exists h, hd. repeat (split; auto).
      destruct (so_hd _ _ _ _ _ OK h hd Hh U SS) as [_ R]. rewrite I in R. congruence.
    - apply nth_error_None in E. lia.
  Qed.

  (** the reference count of a slot is the number of live handles naming it, minus one *)
  Theorem refcount_exact a ar sid sl so i rc :
    get_arena w a = Some ar -> sets_get (asets ar) sid = Some sl -> get (actx ar) sid = Some so ->
    live so = true -> okind so = KSet -> nth_error (smeta sl) i = Some (SOcc rc) ->
    hcount (handles w) (auid ar) sid i = N.to_nat rc + 1.
  Proof.
    intros GA SG G L KS E. pose proof (hinv_reachable ops) as H. fold w in H.
    destruct (hi_sets _ H a ar GA) as [S _ _ _]. apply (so_occ _ _ _ _ _ (S _ sl so SG G L KS) _ _ E).
  Qed.
End Reachable.
