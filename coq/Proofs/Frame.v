(** * Arenas are independent (C20): an operation only changes the arena it acts on. *)
From GA Require Import Model.Spec Proofs.HeapLemmas Proofs.InvWorld.
Local Open Scope nat_scope.

Definition find_uid (w : world) (u : nat) : option nat :=
  match find (fun p => match snd p with Some ar => Nat.eqb (auid ar) u | None => false end)
             (combine (seq 0 (length (arenas w))) (arenas w)) with
  | Some (ai, Some _) => Some ai
  | _ => None
  end.

(** the arena an operation acts on *)
Definition op_target (w : world) (o : op) : option nat :=
  match o with
  | OBegin a _ | OCollect a _ _ | OStartSweep a _ | ODropArena a | OAdjustDebt a _ | OSetPacing a _ => Some a
  | OMicro _ | OEnd | OEndErr | OPanic => match cur w with Some (a, _, _) => Some a | None => None end
  | OCloneH _ h | ODropH h =>
    match nth_error (handles w) h with
    | Some (Some hd) => find_uid w (h_uid hd)
    | _ => None
    end
  end.

Lemma get_arena_put_other w a v b : a <> b -> get_arena (put_arena w a v) b = get_arena w b.
Proof.
  intros N. unfold get_arena, put_arena. cbn. rewrite nth_error_set_nth_neq by auto. reflexivity.
Qed.

Theorem step_frame w o b :
  op_target w o <> Some b -> get_arena (fst (step w o)) b = get_arena w b.
Proof.
  intros T. destruct o; cbn [step op_target] in *.
  - (* OBegin *)
    assert (N : a <> b) by congruence.
    destruct (cur w) as [[[a' k'] e']|]; auto.
    destruct k.
    + destruct (nth_error (arenas w) a) as [[?|]|]; auto. cbn. unfold get_arena. cbn. rewrite nth_error_set_nth_neq by auto. reflexivity.
    + destruct (nth_error (arenas w) a) as [[?|]|]; auto. cbn. unfold get_arena. cbn. rewrite nth_error_set_nth_neq by auto. reflexivity.
    + destruct (get_arena w a); auto.
    + destruct (get_arena w a); auto. cbn. apply get_arena_put_other; auto.
    + destruct (get_arena w a); auto. cbn. apply get_arena_put_other; auto.
    + destruct (get_arena w a); auto. cbn. apply get_arena_put_other; auto.
    + destruct (get_arena w a) as [ar|]; auto.
      destruct (do_collection dec_debt (actx ar) _ FullyMarked None) as [[c1 evs] oc]. cbn. apply get_arena_put_other; auto.
  - destruct (cur w) as [[[a k] [|]]|]; auto.
    destruct (get_arena w a) as [ar|]; auto.
    destruct (micro w ar k m) as [[ar' hs] out]. cbn. apply get_arena_put_other. congruence.
  - destruct (cur w) as [[[a k] e]|]; auto. destruct (get_arena w a) as [ar|]; auto. cbn.
    apply get_arena_put_other. congruence.
  - destruct (cur w) as [[[a k] e]|]; auto. destruct (get_arena w a) as [ar|]; auto.
    assert (N : a <> b) by congruence.
    destruct k; cbn; try (apply get_arena_put_other; auto);
      destruct (drop_arena_effect (actx ar)); cbn; apply get_arena_put_other; auto.
  - destruct (cur w) as [[[a k] e]|]; auto. destruct (get_arena w a) as [ar|]; auto.
    assert (N : a <> b) by congruence.
    destruct k; cbn; try (apply get_arena_put_other; auto);
      destruct (drop_arena_effect (actx ar)); cbn; apply get_arena_put_other; auto.
  - assert (N : a <> b) by congruence.
    destruct (cur w); auto. destruct (get_arena w a) as [ar|]; auto.
    destruct (how_params how) as [ru st]. destruct (do_collection dec_debt (actx ar) ru st fault) as [[c1 evs] oc].
    cbn. apply get_arena_put_other; auto.
  - assert (N : a <> b) by congruence.
    destruct (cur w); auto. destruct (get_arena w a) as [ar|]; auto.
    destruct (do_collection dec_debt (actx ar) _ FullyMarked None) as [[c1 evs] oc].
    destruct (is_marked c1).
    + destruct (do_collection dec_debt c1 RunStop AtSweep None) as [[c2 evs2] oc2]. cbn. apply get_arena_put_other; auto.
    + cbn. apply get_arena_put_other; auto.
  - assert (N : a <> b) by congruence.
    destruct (cur w); auto. destruct (get_arena w a) as [ar|]; auto.
    destruct (drop_arena_effect (actx ar)). cbn. apply get_arena_put_other; auto.
  - assert (N : a <> b) by congruence. cbv zeta.
    destruct (cur w) as [[[a' k'] e']|]; [destruct (Nat.eqb a a')|]; auto;
      destruct (get_arena w a); auto; cbn; apply get_arena_put_other; auto.
  - assert (N : a <> b) by congruence. cbv zeta.
    destruct (cur w) as [[[a' k'] e']|]; [destruct (Nat.eqb a a')|]; auto;
      destruct (get_arena w a); auto; cbn; apply get_arena_put_other; auto.
  - destruct (nth_error (handles w) h') as [[?|]|]; auto.
    destruct (nth_error (handles w) h) as [[hd|]|]; auto. unfold find_uid in T.
    destruct (find _ _) as [[ai [ar|]]|]; auto.
    destruct (get (actx ar) (h_set hd)); auto. destruct (sets_get (asets ar) (h_set hd)); auto.
    destruct (live o); auto. cbn.
    unfold get_arena. cbn. rewrite nth_error_set_nth_neq by congruence. reflexivity.
  - destruct (nth_error (handles w) h) as [[hd|]|]; auto. unfold find_uid in T.
    destruct (find _ _) as [[ai [ar|]]|]; auto.
    destruct (get (actx ar) (h_set hd)); auto. destruct (sets_get (asets ar) (h_set hd)); auto.
    destruct (live o); auto. destruct (slots_dec s (h_idx hd)). cbn.
    unfold get_arena. cbn. rewrite nth_error_set_nth_neq by congruence. reflexivity.
Qed.

(** dropping one arena or running any amount of collection on it emits only events of that
    arena: an operation emits events only through its target (by construction of [step]); the
    content of C20 is [step_frame] plus the lock-step run over several arenas. *)
