(** * C02 at the API level. *)
From GA Require Import Model.Spec Proofs.HeapLemmas Proofs.Inv Proofs.InvSweep Proofs.Exact Proofs.InvWorld Proofs.Safety.
Local Open Scope nat_scope.

Theorem exact_two_cycles_world :
  forall ops a ar w1 r1 w2 r2 ar2,
    cur (run world_init ops) = None ->
    get_arena (run world_init ops) a = Some ar ->
    step (run world_init ops) (OCollect a HFinishCycle None) = (w1, r1) ->
    step w1 (OCollect a HFinishCycle None) = (w2, r2) ->
    get_arena w2 a = Some ar2 ->
    (forall x, (exists o, get (actx ar2) x = Some o /\ live o = true) <-> reach (actx ar) x)
    /\ (forall x o, get (actx ar2) x = Some o -> live o = false -> wreach (actx ar) x).
Proof.
  intros ops a ar w1 r1 w2 r2 ar2 CU GA S1 S2 GA2.
  pose proof (reachable_inv ops a ar GA) as I. pose proof (reachable_quiescent ops a ar CU GA) as Q.
  cbn [step] in S1. rewrite CU, GA in S1. cbn [how_params] in S1.
  destruct (do_collection dec_debt (actx ar) RunStop FinishCycle None) as [[c1 e1] o1] eqn:D1.
  inversion S1; subst; clear S1.
  assert (LT : a < length (arenas (run world_init ops))) by (eapply get_arena_lt; eauto).
  cbn [step] in S2. cbn [cur put_arena] in S2. rewrite CU in S2.
  rewrite get_arena_put, Nat.eqb_refl in S2 by auto. cbn [how_params actx] in S2.
  destruct (do_collection dec_debt c1 RunStop FinishCycle None) as [[c2 e2] o2] eqn:D2.
  inversion S2; subst; clear S2.
  rewrite get_arena_put in GA2 by (cbn; rewrite Proofs.HeapLemmas.set_nth_length; auto). rewrite Nat.eqb_refl in GA2.
  inversion GA2; subst. cbn [actx]. eapply exact_two_cycles; eauto.
Qed.

Theorem shell_release :
  forall dec c c' evs oc x o,
    Inv None c -> quiescent c -> ph c = Sleep ->
    do_collection dec c RunStop FinishCycle None = (c', evs, oc) ->
    get c x = Some o -> live o = false -> ~ wreach c x -> get c' x = None.
Proof.
  intros dec c c' evs oc x o I Q P E G L NW.
  destruct (exact_cycle dec c c' evs oc I Q P E) as [A B].
  destruct (get c' x) as [o'|] eqn:G'; auto. exfalso.
  destruct (live o') eqn:L'.
  - assert (R : reach c x) by (apply A; eauto).
    destruct (reach_ok _ _ I R) as [o2 [G2 [L2 _]]]. congruence.
  - apply NW. eapply B; eauto.
Qed.
