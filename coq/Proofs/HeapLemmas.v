(** * Basic laws of the heap, list helpers and field setters. *)
From GA Require Import Model.Spec.
Local Open Scope nat_scope.

Lemma set_nth_length {A} (l : list A) n x : length (set_nth l n x) = length l.
Proof. revert n; induction l as [|h t IH]; intros [|n]; cbn; auto. Qed.

Lemma nth_error_set_nth_eq {A} (l : list A) n x :
  n < length l -> nth_error (set_nth l n x) n = Some x.
Proof. revert n; induction l as [|h t IH]; intros [|n] H; cbn in *; try lia; auto. apply IH; lia. Qed.

Lemma nth_error_set_nth_neq {A} (l : list A) n m x :
  n <> m -> nth_error (set_nth l n x) m = nth_error l m.
Proof.
  revert n m; induction l as [|h t IH]; intros [|n] [|m] H; cbn; auto; try congruence.
Qed.

Lemma set_nth_oob {A} (l : list A) n x : length l <= n -> set_nth l n x = l.
Proof. revert n; induction l as [|h t IH]; intros [|n] H; cbn in *; auto; try lia. f_equal; apply IH; lia. Qed.

Lemma in_set_nth {A} (l : list A) n x y : In y (set_nth l n x) -> y = x \/ In y l.
Proof.
  revert n; induction l as [|h t IH]; intros [|n] H; cbn in *; auto.
  - destruct H; auto.
  - destruct H as [H|H]; auto. destruct (IH _ H); auto.
Qed.

Lemma hget_some_lt h i o : hget h i = Some o -> i < length h.
Proof.
  unfold hget, opt_join. destruct (nth_error h i) eqn:E; try discriminate.
  intros _. apply nth_error_Some. congruence.
Qed.

Lemma hget_hset_eq h i v : i < length h -> hget (hset h i v) i = v.
Proof. intros H. unfold hget, hset. rewrite nth_error_set_nth_eq by assumption. destruct v; reflexivity. Qed.

Lemma hget_hset_neq h i j v : i <> j -> hget (hset h i v) j = hget h j.
Proof. intros H. unfold hget, hset. rewrite nth_error_set_nth_neq by assumption. reflexivity. Qed.

Lemma hset_length h i v : length (hset h i v) = length h.
Proof. apply set_nth_length. Qed.

Lemma hget_app_old h o j : j < length h -> hget (h ++ [Some o]) j = hget h j.
Proof. intros H. unfold hget. rewrite nth_error_app1 by assumption. reflexivity. Qed.

Lemma hget_app_new h o : hget (h ++ [Some o]) (length h) = Some o.
Proof. unfold hget. rewrite nth_error_app2 by lia. rewrite Nat.sub_diag. reflexivity. Qed.

Lemma hget_oob h j : length h <= j -> hget h j = None.
Proof. intros H. unfold hget. apply nth_error_None in H. rewrite H. reflexivity. Qed.

Lemma in_somes {A} (l : list (option A)) x : In x (somes l) <-> In (Some x) l.
Proof.
  induction l as [|[y|] t IH]; cbn; try tauto.
  - rewrite IH. split; intros [H|H]; auto; left; congruence.
  - rewrite IH. split; intros H; auto. destruct H; [discriminate|auto].
Qed.

Lemma in_edges_strong o t : In (Strong t) (edges o) <-> In (Some t) (strong o).
Proof.
  unfold edges, edges_of. rewrite in_app_iff, !in_map_iff. split.
  - intros [[x [E H]]|[x [E H]]]; inversion E; subst. apply in_somes; auto.
  - intros H. left. exists t. split; auto. apply in_somes; auto.
Qed.

Lemma in_edges_weak o t : In (Weak t) (edges o) <-> In (Some t) (weak o).
Proof.
  unfold edges, edges_of. rewrite in_app_iff, !in_map_iff. split.
  - intros [[x [E H]]|[x [E H]]]; inversion E; subst. apply in_somes; auto.
  - intros H. right. exists t. split; auto. apply in_somes; auto.
Qed.

Lemma mem_nat_in x l : mem_nat x l = true <-> In x l.
Proof.
  induction l as [|y t IH]; cbn; [split; [discriminate|tauto]|].
  destruct (Nat.eqb_spec x y); subst; [tauto|]. rewrite IH. split; auto. intros [H|H]; auto. congruence.
Qed.

Lemma color_eqb_eq a b : color_eqb a b = true <-> a = b.
Proof. destruct a, b; cbn; split; congruence. Qed.

Lemma phase_eqb_eq a b : phase_eqb a b = true <-> a = b.
Proof. destruct a, b; cbn; split; congruence. Qed.

Lemma last_opt_app {A} (l : list A) x : last_opt (l ++ [x]) = Some x.
Proof. unfold last_opt. rewrite rev_app_distr. reflexivity. Qed.

(** ** get / put *)
Lemma get_put_eq c i o : i < length (heap c) -> get (put c i o) i = Some o.
Proof. intros H. unfold get, put. cbn. apply hget_hset_eq; assumption. Qed.

Lemma get_put_neq c i j o : i <> j -> get (put c i o) j = get c j.
Proof. intros H. unfold get, put. cbn. apply hget_hset_neq; assumption. Qed.

Lemma get_some_lt c i o : get c i = Some o -> i < length (heap c).
Proof. apply hget_some_lt. Qed.

Lemma get_put c i j o o0 :
  get c i = Some o0 ->
  get (put c i o) j = if Nat.eqb i j then Some o else get c j.
Proof.
  intros H. destruct (Nat.eqb_spec i j); subst.
  - apply get_put_eq. eapply get_some_lt; eauto.
  - apply get_put_neq; assumption.
Qed.

(** recolor on an allocated object *)
Lemma get_recolor c i k j o0 :
  get c i = Some o0 ->
  get (recolor c i k) j = if Nat.eqb i j then Some (with_col o0 k) else get c j.
Proof. intros H. unfold recolor. rewrite H. apply (get_put c i j _ o0 H). Qed.
