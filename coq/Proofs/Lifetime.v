(** * Lifetime accounting (C04), part 3: the history of every arena of every reachable world. *)
From GA Require Import Model.Spec Proofs.HeapLemmas Proofs.Inv Proofs.InvSweep Proofs.Once Proofs.InvWorld Proofs.Frame Proofs.Safety.
From GA Require Import Proofs.Life Proofs.LifeCollect.
Local Open Scope nat_scope.

Definition hist := nat -> list event.
Definition hupd (H : hist) (a : nat) (l : list event) : hist := fun b => if Nat.eqb a b then l else H b.

(** the operation creates arena [a] (in a free slot, outside callbacks) *)
Definition creates (w : world) (o : op) : option nat :=
  match o with
  | OBegin a (CNew | CTryNew) =>
    match cur w, nth_error (arenas w) a with None, Some None => Some a | _, _ => None end
  | _ => None
  end.

(** ghost: the events of each arena since it was created *)
Definition hist_step (w : world) (o : op) (H : hist) : hist :=
  match creates w o with
  | Some a => hupd H a []
  | None => match op_target w o with
            | Some a => hupd H a (H a ++ r_events (snd (step w o)))
            | None => H
            end
  end.

Fixpoint hist_run (w : world) (H : hist) (ops : list op) : world * hist :=
  match ops with
  | [] => (w, H)
  | o :: t => hist_run (fst (step w o)) (hist_step w o H) t
  end.

Definition GH (w : world) (H : hist) : Prop := forall a ar, get_arena w a = Some ar -> HistOK (actx ar) (H a).

Lemma histok_new : HistOK ctx_new [].
Proof. intros x. unfold lstate, get, ctx_new. cbn. destruct x; split; reflexivity. Qed.

Lemma get_arena_put_same w a ar v : get_arena w a = Some ar -> get_arena (put_arena w a v) a = v.
Proof. intros GA. rewrite get_arena_put by (eapply get_arena_lt; eauto). rewrite Nat.eqb_refl. reflexivity. Qed.

Lemma root_barrier_heap c : heap (root_barrier c) = heap c.
Proof. unfold root_barrier. destruct (ph c); reflexivity. Qed.

Ltac unset :=
  repeat match goal with
         | |- context [get_arena (set_cur ?X ?v) ?a] => change (get_arena (set_cur X v) a) with (get_arena X a)
         end.

(** what an operation does to the arena it targets *)
Lemma step_target w o a ar :
  creates w o = None -> op_target w o = Some a -> get_arena w a = Some ar ->
  match get_arena (fst (step w o)) a with
  | Some ar' => forall Ha, HistOK (actx ar) Ha -> HistOK (actx ar') (Ha ++ r_events (snd (step w o)))
  | None => r_events (snd (step w o)) = fst (drop_arena_effect (actx ar))
  end.
Proof.
  intros CR T GA.
  assert (SAME : forall Ha, HistOK (actx ar) Ha -> HistOK (actx ar) (Ha ++ [])) by (intros Ha HK; rewrite app_nil_r; auto).
  assert (NOP : match get_arena w a with
                | Some ar' => forall Ha, HistOK (actx ar) Ha -> HistOK (actx ar') (Ha ++ [])
                | None => [] = fst (drop_arena_effect (actx ar)) end) by (rewrite GA; exact SAME).
  assert (PUT : forall ar1 evs, (forall Ha, HistOK (actx ar) Ha -> HistOK (actx ar1) (Ha ++ evs)) ->
                 forall w0, arenas w0 = arenas w ->
                 match get_arena (put_arena w0 a (Some ar1)) a with
                 | Some ar' => forall Ha, HistOK (actx ar) Ha -> HistOK (actx ar') (Ha ++ evs)
                 | None => evs = fst (drop_arena_effect (actx ar)) end).
  { intros ar1 evs HC w0 EA. assert (GA0 : get_arena w0 a = Some ar) by (unfold get_arena; rewrite EA; exact GA).
    rewrite (get_arena_put_same w0 a ar _ GA0). exact HC. }
  assert (LSP : forall c', LS (actx ar) c' -> forall Ha, HistOK (actx ar) Ha -> HistOK c' (Ha ++ [])).
  { intros c' L Ha HK. rewrite app_nil_r. eapply histok_ls; eauto. }
  destruct o; cbn [step op_target] in *.
  - (* OBegin *)
    inversion T; subst a0. destruct (cur w) as [x|] eqn:CU; [exact NOP|].
    destruct k.
    + cbn [creates] in CR. rewrite CU in CR. destruct (nth_error (arenas w) a) as [[x|]|] eqn:NA; try exact NOP. discriminate.
    + cbn [creates] in CR. rewrite CU in CR. destruct (nth_error (arenas w) a) as [[x|]|] eqn:NA; try exact NOP. discriminate.
    + rewrite GA. cbn [fst snd r_events]. unset. exact NOP.
    + rewrite GA. cbn [fst snd r_events]. unset. apply (PUT _ []); [|reflexivity]. apply LSP. apply ls_same_heap. apply root_barrier_heap.
    + rewrite GA. cbn [fst snd r_events]. unset. apply (PUT _ []); [|reflexivity]. apply LSP. apply ls_same_heap. cbn. apply root_barrier_heap.
    + rewrite GA. cbn [fst snd r_events]. unset. apply (PUT _ []); [|reflexivity]. apply LSP. apply ls_same_heap. cbn. apply root_barrier_heap.
    + rewrite GA. destruct (do_collection dec_debt (actx ar) _ FullyMarked None) as [[c1 evs] oc] eqn:DC.
      cbn [fst snd r_events]. unset. apply (PUT (mkArena c1 (auid ar) (asets ar)) evs (fun Ha HK => do_collection_hist _ _ _ _ _ _ _ _ _ HK DC) w eq_refl).
  - (* OMicro *)
    destruct (cur w) as [[[a0 k] ent]|]; [|discriminate T]. inversion T; subst a0. destruct ent; [|exact NOP]. rewrite GA.
    destruct (micro w ar k m) as [[ar' hs] out] eqn:EM. cbn [fst snd r_events].
    change (get_arena (set_handles (put_arena w a (Some ar')) hs) a) with (get_arena (put_arena w a (Some ar')) a).
    rewrite (get_arena_put_same w a ar _ GA). apply LSP. eapply micro_ls; eauto.
  - (* OEnd *)
    destruct (cur w) as [[[a0 k] ent]|]; try discriminate T. inversion T; subst a0. rewrite GA.
    destruct k; cbn [fst snd r_events]; unset; (apply (PUT _ []); [|reflexivity]); apply LSP; apply ls_same_heap; reflexivity.
  - (* OEndErr *)
    destruct (cur w) as [[[a0 k] ent]|]; try discriminate T. inversion T; subst a0. rewrite GA.
    destruct k; try (cbn [fst snd r_events]; unset; (apply (PUT _ []); [|reflexivity]); apply LSP; apply ls_same_heap; reflexivity);
      destruct (drop_arena_effect (actx ar)) as [evs tot] eqn:DE; cbn [fst snd r_events]; unset;
      rewrite (get_arena_put_same w a ar _ GA); reflexivity.
  - (* OPanic *)
    destruct (cur w) as [[[a0 k] ent]|]; try discriminate T. inversion T; subst a0. rewrite GA.
    destruct k; try (cbn [fst snd r_events]; unset; (apply (PUT _ []); [|reflexivity]); apply LSP; apply ls_same_heap; reflexivity);
      destruct (drop_arena_effect (actx ar)) as [evs tot] eqn:DE; cbn [fst snd r_events]; unset;
      rewrite (get_arena_put_same w a ar _ GA); reflexivity.
  - (* OCollect *)
    inversion T; subst a0. destruct (cur w); [exact NOP|]. rewrite GA.
    destruct (how_params how) as [ru st].
    destruct (do_collection dec_debt (actx ar) ru st fault) as [[c1 evs] oc] eqn:DC. cbn [fst snd r_events].
    apply (PUT (mkArena c1 (auid ar) (asets ar)) evs (fun Ha HK => do_collection_hist _ _ _ _ _ _ _ _ _ HK DC) w eq_refl).
  - (* OStartSweep *)
    inversion T; subst a0. destruct (cur w); [exact NOP|]. rewrite GA.
    destruct (do_collection dec_debt (actx ar) _ FullyMarked None) as [[c1 evs1] oc] eqn:DC.
    destruct (is_marked c1).
    + destruct (do_collection dec_debt c1 RunStop AtSweep None) as [[c2 evs] oc2] eqn:DC2. cbn [fst snd r_events].
      apply (PUT (mkArena c2 (auid ar) (asets ar)) (evs1 ++ evs)); [|reflexivity]. cbn [actx]. intros Ha HK. rewrite app_assoc.
      eapply do_collection_hist; [|exact DC2]. eapply do_collection_hist; eauto.
    + cbn [fst snd r_events]. apply (PUT (mkArena c1 (auid ar) (asets ar)) evs1 (fun Ha HK => do_collection_hist _ _ _ _ _ _ _ _ _ HK DC) w eq_refl).
  - (* ODropArena *)
    inversion T; subst a0. destruct (cur w); [exact NOP|]. rewrite GA.
    destruct (drop_arena_effect (actx ar)) as [evs tot] eqn:DE. cbn [fst snd r_events].
    rewrite (get_arena_put_same w a ar _ GA). reflexivity.
  - (* OAdjustDebt *)
    inversion T; subst a0.
    destruct (match cur w with None => true | Some (a', _, _) => Nat.eqb a a' end); [|exact NOP].
    rewrite GA. cbn [fst snd r_events]. (apply (PUT _ []); [|reflexivity]); apply LSP; apply ls_same_heap; reflexivity.
  - (* OSetPacing *)
    inversion T; subst a0.
    destruct (match cur w with None => true | Some (a', _, _) => Nat.eqb a a' end); [|exact NOP].
    rewrite GA. cbn [fst snd r_events]. (apply (PUT _ []); [|reflexivity]); apply LSP; apply ls_same_heap; reflexivity.
  - (* OCloneH *)
    destruct (nth_error (handles w) h') as [[x|]|]; try exact NOP.
    destruct (nth_error (handles w) h) as [[hd|]|] eqn:HH; try exact NOP.
    unfold find_uid in T.
    destruct (find _ _) as [[ai [br|]]|] eqn:FD; try discriminate T. inversion T; subst ai.
    assert (br = ar).
    { apply find_some in FD. destruct FD as [Hin _]. apply in_combine_nth_error in Hin. change (get_arena w a = Some br) in Hin. congruence. }
    subst br.
    assert (W1 : forall hs', match get_arena (set_handles w hs') a with
                | Some ar' => forall Ha, HistOK (actx ar) Ha -> HistOK (actx ar') (Ha ++ [])
                | None => [] = fst (drop_arena_effect (actx ar)) end).
    { intros hs'. change (get_arena (set_handles w hs') a) with (get_arena w a). exact NOP. }
    destruct (get (actx ar) (h_set hd)) as [so|]; [|cbn [fst snd r_events]; apply W1].
    destruct (sets_get (asets ar) (h_set hd)) as [sl|]; [|cbn [fst snd r_events]; apply W1].
    destruct (live so); [|cbn [fst snd r_events]; apply W1].
    cbn [fst snd r_events].
    match goal with |- match get_arena (put_arena _ _ (Some ?A)) _ with _ => _ end => apply (PUT A []); [cbn [actx]; exact SAME|reflexivity] end.
  - (* ODropH *)
    destruct (nth_error (handles w) h) as [[hd|]|] eqn:HH; try exact NOP.
    unfold find_uid in T.
    destruct (find _ _) as [[ai [br|]]|] eqn:FD; try discriminate T. inversion T; subst ai.
    assert (br = ar).
    { apply find_some in FD. destruct FD as [Hin _]. apply in_combine_nth_error in Hin. change (get_arena w a = Some br) in Hin. congruence. }
    subst br.
    assert (W1 : forall hs', match get_arena (set_handles w hs') a with
                | Some ar' => forall Ha, HistOK (actx ar) Ha -> HistOK (actx ar') (Ha ++ [])
                | None => [] = fst (drop_arena_effect (actx ar)) end).
    { intros hs'. change (get_arena (set_handles w hs') a) with (get_arena w a). exact NOP. }
    destruct (get (actx ar) (h_set hd)) as [so|] eqn:GS; [|cbn [fst snd r_events]; apply W1].
    destruct (sets_get (asets ar) (h_set hd)) as [sl|]; [|cbn [fst snd r_events]; apply W1].
    destruct (live so); [|cbn [fst snd r_events]; apply W1].
    destruct (slots_dec sl (h_idx hd)) as [sl' vac]. cbn [fst snd r_events].
    match goal with |- match get_arena (put_arena _ _ (Some ?A)) _ with _ => _ end => apply (PUT A []); [cbn [actx]|reflexivity] end.
    destruct vac; [|exact SAME]. apply LSP. eapply ls_put; eauto.
Qed.

Lemma find_uid_arena w u ai : find_uid w u = Some ai -> exists ar, get_arena w ai = Some ar.
Proof.
  unfold find_uid. destruct (find _ _) as [[i [ar|]]|] eqn:FD; try discriminate. intros E; inversion E; subst.
  apply find_some in FD. destruct FD as [Hin _]. apply in_combine_nth_error in Hin. exists ar. exact Hin.
Qed.

Lemma option_eq_dec_nat (x y : option nat) : {x = y} + {x <> y}.
Proof. decide equality. apply Nat.eq_dec. Qed.

(** an arena slot stays empty unless the operation creates an arena there *)
Lemma step_absent w o b : creates w o <> Some b -> get_arena w b = None -> get_arena (fst (step w o)) b = None.
Proof.
  intros CR GA. destruct (option_eq_dec_nat (op_target w o) (Some b)) as [T|T]; [|rewrite step_frame; auto].
  destruct o; cbn [step op_target creates] in *.
  - inversion T; subst a. destruct (cur w) as [x|] eqn:CU; [exact GA|].
    destruct k; try (rewrite GA; exact GA).
    + destruct (nth_error (arenas w) b) as [[x|]|] eqn:NA; try exact GA. exfalso. apply CR. reflexivity.
    + destruct (nth_error (arenas w) b) as [[x|]|] eqn:NA; try exact GA. exfalso. apply CR. reflexivity.
  - destruct (cur w) as [[[a0 k] ent]|]; [|discriminate T]. inversion T; subst a0. destruct ent; [|exact GA]. rewrite GA. exact GA.
  - destruct (cur w) as [[[a0 k] ent]|]; [|discriminate T]. inversion T; subst a0. rewrite GA. exact GA.
  - destruct (cur w) as [[[a0 k] ent]|]; [|discriminate T]. inversion T; subst a0. rewrite GA. exact GA.
  - destruct (cur w) as [[[a0 k] ent]|]; [|discriminate T]. inversion T; subst a0. rewrite GA. exact GA.
  - inversion T; subst a. rewrite GA. destruct (cur w); exact GA.
  - inversion T; subst a. rewrite GA. destruct (cur w); exact GA.
  - inversion T; subst a. rewrite GA. destruct (cur w); exact GA.
  - inversion T; subst a. rewrite GA. destruct (match cur w with None => true | Some (a', _, _) => Nat.eqb b a' end); exact GA.
  - inversion T; subst a. rewrite GA. destruct (match cur w with None => true | Some (a', _, _) => Nat.eqb b a' end); exact GA.
  - destruct (nth_error (handles w) h) as [[hd|]|]; try discriminate T.
    destruct (find_uid_arena _ _ _ T) as [ar G]. congruence.
  - destruct (nth_error (handles w) h) as [[hd|]|]; try discriminate T.
    destruct (find_uid_arena _ _ _ T) as [ar G]. congruence.
Qed.

Lemma creates_target w o a : creates w o = Some a -> op_target w o = Some a /\ nth_error (arenas w) a = Some None.
Proof.
  destruct o; cbn [creates op_target]; try discriminate.
  destruct k; try discriminate; destruct (cur w); try discriminate;
    destruct (nth_error (arenas w) a0) as [[x|]|] eqn:NA; try discriminate; intros E; inversion E; subst; auto.
Qed.

Lemma creates_new w o a : creates w o = Some a -> exists k, get_arena (fst (step w o)) a = Some (mkArena ctx_new (nuid w) []) /\ o = OBegin a k.
Proof.
  destruct o; cbn [creates]; try discriminate.
  assert (G : forall kk, nth_error (arenas w) a0 = Some None ->
            get_arena (mkWorld (set_nth (arenas w) a0 (Some (mkArena ctx_new (nuid w) []))) (S (nuid w)) (handles w) (Some (a0, kk, true))) a0
            = Some (mkArena ctx_new (nuid w) [])).
  { intros kk NA. unfold get_arena. cbn. rewrite nth_error_set_nth_eq by (apply nth_error_Some; congruence). reflexivity. }
  destruct k; try discriminate; destruct (cur w) eqn:CU; try discriminate;
    destruct (nth_error (arenas w) a0) as [[x|]|] eqn:NA; try discriminate; intros E; inversion E; subst;
    eexists; (split; [|reflexivity]); cbn [step]; rewrite CU, NA; cbn [fst]; apply G; auto.
Qed.

(** the ghost histories stay consistent with every arena *)
Theorem step_gh w o H : GH w H -> GH (fst (step w o)) (hist_step w o H).
Proof.
  intros G b br' Hb. unfold hist_step.
  destruct (creates w o) as [a|] eqn:CR.
  - destruct (creates_target _ _ _ CR) as [T NA]. unfold hupd. destruct (Nat.eqb_spec a b) as [->|NE].
    + destruct (creates_new _ _ _ CR) as [k [GN _]]. rewrite GN in Hb. inversion Hb; subst. cbn. apply histok_new.
    + rewrite step_frame in Hb by congruence. apply (G b br' Hb).
  - destruct (op_target w o) as [a|] eqn:T.
    + unfold hupd. destruct (Nat.eqb_spec a b) as [->|NE].
      * destruct (get_arena w b) as [ar|] eqn:GA.
        -- pose proof (step_target w o b ar CR T GA) as ST. rewrite Hb in ST. apply ST. apply (G b ar GA).
        -- rewrite (step_absent w o b) in Hb by (auto; congruence). discriminate.
      * rewrite step_frame in Hb by congruence. apply (G b br' Hb).
    + rewrite step_frame in Hb by congruence. apply (G b br' Hb).
Qed.

Lemma hist_run_fst ops : forall w H, fst (hist_run w H ops) = run w ops.
Proof. induction ops as [|o ops IH]; intros w H; [reflexivity|]. cbn [hist_run]. rewrite IH. reflexivity. Qed.

Lemma hist_run_gh ops : forall w H, GH w H -> GH (fst (hist_run w H ops)) (snd (hist_run w H ops)).
Proof. induction ops as [|o ops IH]; intros w H G; cbn; auto. apply IH. apply step_gh; auto. Qed.

Definition hist0 : hist := fun _ => [].

Lemma gh_init : GH world_init hist0.
Proof. intros a ar Ha. unfold get_arena, world_init in Ha. cbn in Ha. destruct a as [|[|[|a]]]; cbn in Ha; try discriminate. destruct a; discriminate. Qed.

(** ** the lifetime theorem: whenever an arena of a reachable world disappears -- dropped explicitly, or
    destroyed by a failing / panicking constructor or root map -- in whatever phase it is, the events
    of its whole life contain, for every id it ever allocated, exactly one destructor run and exactly
    one release, and nothing for any other id. *)
Theorem lifetime_exactly_once ops o a ar x :
  let w := fst (hist_run world_init hist0 ops) in
  let H := snd (hist_run world_init hist0 ops) in
  get_arena w a = Some ar -> get_arena (fst (step w o)) a = None ->
  count (EvDrop x) (hist_step w o H a) = (if Nat.ltb x (length (heap (actx ar))) then 1 else 0)
  /\ count (EvFree x) (hist_step w o H a) = (if Nat.ltb x (length (heap (actx ar))) then 1 else 0).
Proof.
  intros w H GA GN.
  assert (GHw : GH w H) by (apply hist_run_gh, gh_init).
  assert (EW : w = run world_init ops) by apply hist_run_fst.
  assert (I : Inv None (actx ar)) by (apply (reachable_inv ops a ar); rewrite <- EW; exact GA).
  assert (T : op_target w o = Some a).
  { destruct (option_eq_dec_nat (op_target w o) (Some a)) as [T|T]; auto. rewrite step_frame in GN by auto. congruence. }
  assert (CR : creates w o = None).
  { destruct (creates w o) as [a'|] eqn:CR; auto. destruct (creates_target _ _ _ CR) as [T' NA].
    rewrite T in T'. inversion T'; subst a'. unfold get_arena in GA. rewrite NA in GA. discriminate. }
  unfold hist_step. rewrite CR, T. unfold hupd. rewrite Nat.eqb_refl.
  pose proof (step_target w o a ar CR T GA) as ST. rewrite GN in ST. rewrite ST.
  apply drop_completes; auto.
Qed.

(** until then the history is consistent with the heap: live values have no event, shells exactly one
    destructor run and no release, released blocks exactly one of each *)
Theorem lifetime_consistent ops a ar :
  let w := fst (hist_run world_init hist0 ops) in
  let H := snd (hist_run world_init hist0 ops) in
  get_arena w a = Some ar -> HistOK (actx ar) (H a).
Proof. intros w H GA. exact (hist_run_gh ops world_init hist0 gh_init a ar GA). Qed.
