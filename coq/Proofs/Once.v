(** * Destruct-once / release-once discipline of sweep_one and of dropping the arena (C04). *)
From GA Require Import Model.Spec Proofs.HeapLemmas Proofs.Inv Proofs.InvSweep.
Local Open Scope nat_scope.

Definition event_eqb (a b : event) : bool :=
  match a, b with
  | EvDrop x, EvDrop y | EvFree x, EvFree y => Nat.eqb x y
  | _, _ => false
  end.

Definition count (e : event) (l : list event) : nat := length (filter (event_eqb e) l).

Lemma count_app e l1 l2 : count e (l1 ++ l2) = count e l1 + count e l2.
Proof. unfold count. rewrite filter_app, app_length. reflexivity. Qed.

Lemma count_notin_drop_all h l e :
  ~ In (ev_id e) l -> count e (drop_all_events h l) = 0.
Proof.
  induction l as [|y t IH]; intros N; cbn [drop_all_events]; auto.
  rewrite count_app, IH by (intros H; apply N; right; auto).
  assert (y <> ev_id e) by (intros ->; apply N; left; auto).
  unfold count. destruct (hget h y) as [o|]; [destruct (live o)|]; destruct e; cbn in H; cbn;
    repeat match goal with |- context [Nat.eqb ?a ?b] => destruct (Nat.eqb_spec a b); try congruence end; auto.
Qed.

(** Dropping the arena: every block on the list is released exactly once; a value is destructed
    exactly once iff it had not been destructed before (live), and before its block is released. *)
Theorem drop_all_once h l x :
  NoDup l -> In x l ->
  count (EvFree x) (drop_all_events h l) = 1
  /\ count (EvDrop x) (drop_all_events h l) = (match hget h x with Some o => if live o then 1 else 0 | None => 0 end).
Proof.
  induction l as [|y t IH]; intros ND Hin; [destruct Hin|].
  inversion ND as [|? ? NI ND']; subst. cbn [drop_all_events]. rewrite !count_app.
  destruct Hin as [->|Hin].
  - rewrite !count_notin_drop_all by (cbn; auto). unfold count.
    destruct (hget h x) as [o|]; [destruct (live o)|]; cbn; rewrite ?Nat.eqb_refl; cbn; auto.
  - assert (y <> x) by (intros ->; contradiction).
    destruct (IH ND' Hin) as [A B]. rewrite A, B. unfold count.
    destruct (hget h y) as [o|]; [destruct (live o)|]; cbn;
      repeat match goal with |- context [Nat.eqb ?a ?b] => destruct (Nat.eqb_spec a b); try congruence end; auto.
Qed.

(** In every reachable arena the list holds exactly the allocated blocks, once each; so dropping
    it releases every allocation exactly once and brings the Gc count to zero when it was exact. *)
Theorem drop_arena_once c x :
  Inv None c -> allocated c x ->
  count (EvFree x) (fst (drop_arena_effect c)) = 1
  /\ count (EvDrop x) (fst (drop_arena_effect c)) = (match get c x with Some o => if live o then 1 else 0 | None => 0 end).
Proof.
  intros I A. unfold drop_arena_effect. cbn [fst]. apply drop_all_once.
  - apply (i_nodup _ _ I).
  - apply (i_all _ _ I); auto.
Qed.

Theorem drop_arena_only_allocated c e :
  Inv None c -> In e (fst (drop_arena_effect c)) -> allocated c (ev_id e).
Proof.
  intros I. unfold drop_arena_effect. cbn [fst].
  assert (H : forall l, (forall y, In y l -> allocated c y) -> In e (drop_all_events (heap c) l) -> allocated c (ev_id e)).
  { induction l as [|y t IH]; intros HA Hin; cbn in Hin; [destruct Hin|].
    rewrite in_app_iff in Hin. destruct Hin as [Hin|Hin]; [|apply IH; auto; intros; apply HA; right; auto].
    assert (ev_id e = y).
    { destruct (hget (heap c) y) as [o|]; [destruct (live o)|]; cbn in Hin; intuition (subst; reflexivity). }
    rewrite H. apply HA. left; auto. }
  apply H. intros y Hy. apply (i_all _ _ I); auto.
Qed.

(** sweep_one: a value is destructed only if it had not been destructed, and is then gone or a
    shell; a block is released only after its value is destructed, and is gone afterwards *)
Theorem sweep_one_discipline c c' evs r x :
  Inv None c -> ph c = Sweep -> sweep_one c = (c', evs, r) ->
  (In (EvDrop x) evs ->
     (exists o, get c x = Some o /\ live o = true)
     /\ (get c' x = None \/ exists o', get c' x = Some o' /\ live o' = false))
  /\ (In (EvFree x) evs -> allocated c x /\ get c' x = None)
  /\ count (EvDrop x) evs <= 1 /\ count (EvFree x) evs <= 1.
Proof.
  intros I HS E. unfold sweep_one in E.
  destruct (unsw c) as [|y rest] eqn:HU.
  { inversion E; subst. cbn. repeat split; try contradiction; auto. }
  destruct (get c y) as [o|] eqn:G.
  2:{ inversion E; subst. cbn. repeat split; try contradiction; auto. }
  assert (GY : forall c2, heap c2 = hset (heap c) y None -> get c2 y = None).
  { intros c2 H. unfold get. rewrite H. apply hget_hset_eq. eapply hget_some_lt. apply G. }
  destruct (col o) eqn:C; inversion E; subst; clear E.
  - (* White *)
    match goal with |- (_ -> _ /\ (get ?CC x = None \/ _)) /\ _ => set (c' := CC) end.
    assert (G' : get c' y = None).
    { apply GY. unfold c', free_total. destruct (N.eqb _ 0); destruct (live o); reflexivity. }
    destruct (live o) eqn:L; cbn [app].
    + split; [|split; [|split]].
      * intros [Hd|[Hd|[]]]; inversion Hd; subst. split; eauto.
      * intros [Hd|[Hd|[]]]; inversion Hd; subst. split; [eexists; eauto|auto].
      * unfold count. cbn. destruct (Nat.eqb x y); cbn; lia.
      * unfold count. cbn. destruct (Nat.eqb x y); cbn; lia.
    + split; [|split; [|split]].
      * intros [Hd|[]]; inversion Hd.
      * intros [Hd|[]]; inversion Hd; subst. split; [eexists; eauto|auto].
      * unfold count. cbn. lia.
      * unfold count. cbn. destruct (Nat.eqb x y); cbn; lia.
  - (* WhiteWeak *)
    destruct (live o) eqn:L.
    + split; [|split; [|split]].
      * intros [Hd|[]]. inversion Hd; subst. split; eauto. right.
        exists (with_live (with_col o White) false). split; auto.
        unfold get. cbn. apply hget_hset_eq. eapply hget_some_lt. apply G.
      * intros [Hd|[]]; inversion Hd.
      * unfold count. cbn. destruct (Nat.eqb x y); cbn; lia.
      * unfold count. cbn. lia.
    + split; [intros []|split; [intros []|split; unfold count; cbn; lia]].
  - split; [intros []|split; [intros []|split; unfold count; cbn; lia]].
  - split; [intros []|split; [intros []|split; unfold count; cbn; lia]].
Qed.

(** no operation of the collector ever sets the live flag of an existing object back to true or
    re-uses an id: ids are handed out by [link] only, as [length (heap c)] *)
Theorem link_fresh c o : snd (link c o) = length (heap c) /\ get c (length (heap c)) = None.
Proof. split; [reflexivity|]. unfold get. apply hget_oob. lia. Qed.
