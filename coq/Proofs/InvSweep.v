(** * [Inv] through Context::sweep_one and the phase transitions of do_collection. *)
From GA Require Import Model.Spec Proofs.HeapLemmas Proofs.Inv Proofs.Recolor Proofs.InvMicro Proofs.InvStore Proofs.InvMark.
Local Open Scope nat_scope.

(** fields that sweeping never touches *)
Record sw_frame (c c' : ctx) : Prop := mkSwFrame {
  sf_ph : ph c' = ph c; sf_rnt : rnt c' = rnt c; sf_gray : gray c' = gray c; sf_ga : gray_again c' = gray_again c;
  sf_rootS : rootS c' = rootS c; sf_rootW : rootW c' = rootW c; sf_regs : regs c' = regs c;
  sf_wregs : wregs c' = wregs c; sf_lics : lics c' = lics c; sf_ub : ub c' = ub c
}.

Lemma nodup_mid {A} (l1 l2 : list A) x :
  NoDup (l1 ++ x :: l2) -> ~ In x l1 /\ ~ In x l2 /\ NoDup (l1 ++ l2).
Proof.
  intros H. pose proof (NoDup_remove_1 _ _ _ H). pose proof (NoDup_remove_2 _ _ _ H) as N.
  rewrite in_app_iff in N. tauto.
Qed.

Section SweepStep.
  Variables (c c' : ctx) (x : id) (o : obj) (rest : list id).
  Hypothesis I : Inv None c.
  Hypothesis HS : ph c = Sweep.
  Hypothesis HU : unsw c = x :: rest.
  Hypothesis G : get c x = Some o.
  Hypothesis F : sw_frame c c'.
  Hypothesis HU' : unsw c' = rest.

  Let ND := i_nodup _ _ I.

  Lemma sw_x_not_pre : ~ In x (pre c).
  Proof. unfold all in ND. rewrite HU in ND. apply nodup_mid in ND. tauto. Qed.
  Lemma sw_x_not_rest : ~ In x rest.
  Proof. unfold all in ND. rewrite HU in ND. apply nodup_mid in ND. tauto. Qed.
  Lemma sw_nodup_rest : NoDup (pre c ++ rest).
  Proof. unfold all in ND. rewrite HU in ND. apply nodup_mid in ND. tauto. Qed.

  Lemma sw_no_gray y oy : get c y = Some oy -> col oy <> Gray.
  Proof. intros H. eapply (i_gray_mark _ _ I); eauto. rewrite HS; discriminate. Qed.

  Lemma sw_queues_empty y : ~ In y (gray c ++ gray_again c).
  Proof. intros H. apply (i_gray _ _ I) in H. destruct H as [oy [Gy C]]. eapply sw_no_gray; eauto. Qed.

  (** *** the object is released *)
  Section Free.
    Hypothesis HW : col o = White.
    Hypothesis HG : forall y, get c' y = if Nat.eqb x y then None else get c y.
    Hypothesis HP : pre c' = pre c.

    Lemma fr_condemned q : condemned c' q -> q <> x /\ condemned c q.
    Proof.
      intros [Hin [oq [Gq W]]]. rewrite HU' in Hin. rewrite HG in Gq.
      destruct (Nat.eqb_spec x q); [discriminate|]. split; auto. split; [rewrite HU; right; auto|eauto].
    Qed.
    Lemma fr_doomed q : doomed c' q -> q <> x /\ doomed c q.
    Proof.
      intros [Hin [oq [Gq W]]]. rewrite HU' in Hin. rewrite HG in Gq.
      destruct (Nat.eqb_spec x q); [discriminate|]. split; auto. split; [rewrite HU; right; auto|eauto].
    Qed.
    Lemma fr_x_condemned : condemned c x.
    Proof. split; [rewrite HU; left; auto|]. exists o. split; auto. rewrite HW. reflexivity. Qed.
    Lemma fr_x_doomed : doomed c x.
    Proof. split; [rewrite HU; left; auto|]. exists o. split; auto. Qed.

    Lemma fr_ok_strong t : ok_strong c t -> ok_strong c' t.
    Proof.
      intros [ot [Gt [L N]]]. assert (t <> x) by (intros E; subst t; apply N, fr_x_condemned).
      exists ot. rewrite HG. destruct (Nat.eqb_spec x t); [congruence|]. repeat split; auto.
      intros C. apply fr_condemned in C. tauto.
    Qed.
    Lemma fr_ok_weak t : ok_weak c t -> ok_weak c' t.
    Proof.
      intros [[ot Gt] N]. assert (t <> x) by (intros E; subst t; apply N, fr_x_doomed).
      split.
      - exists ot. rewrite HG. destruct (Nat.eqb_spec x t); [congruence|]. auto.
      - intros C. apply fr_doomed in C. tauto.
    Qed.
    Lemma fr_slots_ok s w : slots_ok c s w -> slots_ok c' s w.
    Proof. intros [A B]. split; intros t Ht; [apply fr_ok_strong|apply fr_ok_weak]; auto. Qed.

    Lemma inv_sweep_free : Inv None c'.
    Proof.
      assert (GN : forall y oy, get c' y = Some oy -> y <> x /\ get c y = Some oy).
      { intros y oy H. rewrite HG in H. destruct (Nat.eqb_spec x y); [discriminate|]. auto. }
      constructor.
      - unfold all. rewrite HP, HU'. apply sw_nodup_rest.
      - intros y. unfold all, allocated. rewrite HP, HU', HG. pose proof (i_all _ _ I y) as A.
        unfold all in A. rewrite HU in A. pose proof sw_x_not_pre. pose proof sw_x_not_rest.
        rewrite in_app_iff in *. cbn [In] in A. destruct (Nat.eqb_spec x y) as [EX|EX]; [subst y|].
        + split; [tauto|]. intros [? ?]; discriminate.
        + rewrite <- A. tauto.
      - rewrite (sf_ph _ _ F), HS. congruence.
      - rewrite (sf_ph _ _ F), HS. discriminate.
      - intros y. rewrite (sf_gray _ _ F), (sf_ga _ _ F). split.
        + intros H. exfalso. eapply sw_queues_empty; eauto.
        + intros [oy [Gy C]]. apply GN in Gy. destruct Gy as [_ Gy]. exfalso. eapply sw_no_gray; eauto.
      - rewrite (sf_gray _ _ F), (sf_ga _ _ F). apply (i_gray_nd _ _ I).
      - intros _ y oy Gy. apply GN in Gy. destruct Gy as [_ Gy]. eapply sw_no_gray; eauto.
      - auto.
      - intros y oy Gy D. apply GN in Gy. destruct Gy as [_ Gy]. eapply (i_dark_live _ _ I); eauto.
      - intros y oy Gy N. apply GN in Gy. destruct Gy as [_ Gy]. eapply (i_ntr _ _ I); eauto.
      - intros _ y oy Hin Gy. rewrite HP in Hin. apply GN in Gy. destruct Gy as [_ Gy].
        eapply (i_pre_white _ _ I); eauto.
      - intros q oq Gq L NC. apply GN in Gq. destruct Gq as [NQ Gq]. apply fr_slots_ok.
        eapply (i_obj _ _ I); eauto. intros [Hin [oq' [Gq' W]]]. apply NC. split.
        + rewrite HU', HU in *. destruct Hin; [congruence|auto].
        + exists oq'. rewrite HG. destruct (Nat.eqb_spec x q); [congruence|]. auto.
      - rewrite (sf_rootS _ _ F), (sf_rootW _ _ F). apply fr_slots_ok. apply (i_root _ _ I).
      - rewrite (sf_regs _ _ F), (sf_wregs _ _ F). apply fr_slots_ok. apply (i_regs _ _ I).
      - rewrite (sf_ph _ _ F), HS. discriminate.
      - rewrite (sf_ph _ _ F), HS. discriminate.
      - rewrite (sf_lics _ _ F). eapply Forall_impl; [|apply (i_lics _ _ I)].
        intros l _ HM. rewrite (sf_ph _ _ F), HS in HM. discriminate.
      - rewrite (sf_ub _ _ F). apply (i_ub _ _ I).
    Qed.

    Lemma sweep_free_reach t : reach c t -> ok_strong c t -> True.
    Proof. auto. Qed.
  End Free.

  (** *** the object is kept (its colour reset; a weakly marked one loses its value) *)
  Section Keep.
    Variable lv : bool.
    Hypothesis HC : col o = WhiteWeak /\ lv = false \/ col o = Black /\ lv = live o.
    Let o' := with_live (with_col o White) lv.
    Hypothesis HG : forall y, get c' y = if Nat.eqb x y then Some o' else get c y.
    Hypothesis HP : pre c' = pre c ++ [x].

    Lemma kp_condemned q : condemned c' q -> q <> x /\ condemned c q.
    Proof.
      intros [Hin [oq [Gq W]]]. rewrite HU' in Hin.
      assert (q <> x) by (intros E; subst q; apply sw_x_not_rest; auto).
      rewrite HG in Gq. destruct (Nat.eqb_spec x q); [congruence|]. split; auto.
      split; [rewrite HU; right; auto|eauto].
    Qed.
    Lemma kp_doomed q : doomed c' q -> q <> x /\ doomed c q.
    Proof.
      intros [Hin [oq [Gq W]]]. rewrite HU' in Hin.
      assert (q <> x) by (intros E; subst q; apply sw_x_not_rest; auto).
      rewrite HG in Gq. destruct (Nat.eqb_spec x q); [congruence|]. split; auto.
      split; [rewrite HU; right; auto|eauto].
    Qed.

    Lemma kp_ok_strong t : ok_strong c t -> ok_strong c' t.
    Proof.
      intros [ot [Gt [L N]]]. unfold ok_strong. rewrite HG. destruct (Nat.eqb_spec x t) as [EX|EX]; [subst t|].
      - rewrite G in Gt. inversion Gt; subst ot. exists o'. split; auto. split.
        + unfold o'. cbn. destruct HC as [[C _]|[_ ->]]; auto.
          exfalso. apply N. split; [rewrite HU; left; auto|]. exists o. rewrite C. auto.
        + intros C. apply kp_condemned in C. tauto.
      - exists ot. repeat split; auto. intros C. apply kp_condemned in C. tauto.
    Qed.
    Lemma kp_ok_weak t : ok_weak c t -> ok_weak c' t.
    Proof.
      intros [[ot Gt] N]. split.
      - unfold allocated. rewrite HG. destruct (Nat.eqb_spec x t); eauto.
      - intros C. apply kp_doomed in C. tauto.
    Qed.
    Lemma kp_slots_ok s w : slots_ok c s w -> slots_ok c' s w.
    Proof. intros [A B]. split; intros t Ht; [apply kp_ok_strong|apply kp_ok_weak]; auto. Qed.

    Lemma inv_sweep_keep : Inv None c'.
    Proof.
      assert (GN : forall y oy, get c' y = Some oy ->
                   (y = x /\ oy = o') \/ (y <> x /\ get c y = Some oy)).
      { intros y oy H. rewrite HG in H. destruct (Nat.eqb_spec x y) as [EX|EX]; [subst y|].
        - inversion H; auto.
        - right; auto. }
      assert (EA : all c' = all c).
      { unfold all. rewrite HP, HU', HU, <- app_assoc. reflexivity. }
      constructor.
      - rewrite EA. exact ND.
      - intros y. rewrite EA, (i_all _ _ I y). unfold allocated. rewrite HG.
        destruct (Nat.eqb_spec x y) as [EX|EX]; [subst y|tauto]. split; eauto.
      - rewrite (sf_ph _ _ F), HS. congruence.
      - rewrite (sf_ph _ _ F), HS. discriminate.
      - intros y. rewrite (sf_gray _ _ F), (sf_ga _ _ F). split.
        + intros H. exfalso. eapply sw_queues_empty; eauto.
        + intros [oy [Gy C]]. destruct (GN _ _ Gy) as [[_ ->]|[_ Gy']].
          * discriminate.
          * exfalso. eapply sw_no_gray; eauto.
      - rewrite (sf_gray _ _ F), (sf_ga _ _ F). apply (i_gray_nd _ _ I).
      - intros _ y oy Gy. destruct (GN _ _ Gy) as [[_ ->]|[_ Gy']]; [discriminate|]. eapply sw_no_gray; eauto.
      - auto.
      - intros y oy Gy D. destruct (GN _ _ Gy) as [[_ ->]|[_ Gy']].
        + destruct D; discriminate.
        + eapply (i_dark_live _ _ I); eauto.
      - intros y oy Gy N. destruct (GN _ _ Gy) as [[_ ->]|[_ Gy']].
        + unfold o' in *. cbn in *. apply (i_ntr _ _ I x o G N).
        + eapply (i_ntr _ _ I); eauto.
      - intros _ y oy Hin Gy. rewrite HP, in_app_iff in Hin. destruct (GN _ _ Gy) as [[_ ->]|[NX Gy']]; [reflexivity|].
        destruct Hin as [Hin|[E|[]]]; [|congruence]. eapply (i_pre_white _ _ I); eauto.
      - intros q oq Gq L NC. apply kp_slots_ok. destruct (GN _ _ Gq) as [[-> ->]|[NX Gq']].
        + unfold o' in L |- *. cbn in L |- *. destruct HC as [[_ E]|[B E]]; subst lv; [discriminate|].
          eapply (i_obj _ _ I); eauto. intros [_ [ox [Gx W]]]. rewrite G in Gx. inversion Gx; subst ox.
          rewrite B in W. discriminate.
        + eapply (i_obj _ _ I); eauto. intros [Hin [oq' [Gq'' W]]]. apply NC. split.
          * rewrite HU', HU in *. destruct Hin; [congruence|auto].
          * exists oq'. rewrite HG. destruct (Nat.eqb_spec x q); [congruence|]. auto.
      - rewrite (sf_rootS _ _ F), (sf_rootW _ _ F). apply kp_slots_ok. apply (i_root _ _ I).
      - rewrite (sf_regs _ _ F), (sf_wregs _ _ F). apply kp_slots_ok. apply (i_regs _ _ I).
      - rewrite (sf_ph _ _ F), HS. discriminate.
      - rewrite (sf_ph _ _ F), HS. discriminate.
      - rewrite (sf_lics _ _ F). eapply Forall_impl; [|apply (i_lics _ _ I)].
        intros l _ HM. rewrite (sf_ph _ _ F), HS in HM. discriminate.
      - rewrite (sf_ub _ _ F). apply (i_ub _ _ I).
    Qed.
  End Keep.
End SweepStep.

(** ** reachable objects are safe *)
Lemma reach_ok c t : Inv None c -> reach c t -> ok_strong c t.
Proof.
  intros I H. induction H as [x Hx|p o x Hp IH G Hin].
  - apply (i_root _ _ I); auto.
  - destruct IH as [op [Gp [L N]]]. rewrite G in Gp. inversion Gp; subst.
    apply (i_obj _ _ I p op G L N); auto.
Qed.

Lemma reach_transfer c c' t :
  Inv None c -> rootS c' = rootS c ->
  (forall p op, ok_strong c p -> get c p = Some op -> exists op', get c' p = Some op' /\ strong op' = strong op) ->
  reach c t -> reach c' t.
Proof.
  intros I ER H R. induction R as [x Hx|p o x Hp IH G Hin].
  - apply reach_root. rewrite ER; auto.
  - destruct (H p o (reach_ok _ _ I Hp) G) as [o' [G' S']]. eapply reach_step; eauto. rewrite S'; auto.
Qed.

Definition ev_id (e : event) : id := match e with EvDrop x | EvFree x => x end.

(** ** sweep_one *)
Lemma sweep_one_inv c c' evs r :
  Inv None c -> ph c = Sweep -> sweep_one c = (c', evs, r) ->
  Inv None c' /\ ph c' = Sweep /\ regs c' = regs c /\ wregs c' = wregs c /\ lics c' = lics c
  /\ rootS c' = rootS c /\ rootW c' = rootW c
  /\ (forall ev, In ev evs -> condemned c (ev_id ev))
  /\ (forall t, reach c t -> reach c' t)
  /\ (r = SBreak -> c' = c /\ unsw c = []).
Proof.
  intros I HS E. unfold sweep_one in E.
  destruct (unsw c) as [|x rest] eqn:HU.
  { inversion E; subst. do 7 (split; [auto|]). split; [intros ev0 []|]. split; auto. }
  assert (AX : allocated c x).
  { apply (i_all _ _ I). unfold all. rewrite HU, in_app_iff. right; left; auto. }
  destruct AX as [o G]. rewrite G in E.
  assert (CX : forall k, col o = k -> is_whiteish k = true -> condemned c x).
  { intros k C W. split; [rewrite HU; left; auto|]. exists o. rewrite C. auto. }
  destruct (col o) eqn:C.
  - (* White: released *)
    inversion E; subst; clear E.
    set (c' := free_total _).
    assert (F : sw_frame c c').
    { unfold c'. unfold free_total. destruct (N.eqb _ 0); destruct (live o); constructor; reflexivity. }
    assert (HG : forall y, get c' y = if Nat.eqb x y then None else get c y).
    { intros y. unfold c'. unfold free_total, get. destruct (N.eqb _ 0); destruct (live o); cbn;
        (destruct (Nat.eqb_spec x y); [subst; apply hget_hset_eq; eapply hget_some_lt; apply G|apply hget_hset_neq; auto]). }
    assert (HU' : unsw c' = rest).
    { unfold c'. unfold free_total. destruct (N.eqb _ 0); destruct (live o); reflexivity. }
    assert (HP : pre c' = pre c).
    { unfold c'. unfold free_total. destruct (N.eqb _ 0); destruct (live o); reflexivity. }
    split; [eapply (inv_sweep_free c c' x o rest); eauto|].
    split; [rewrite (sf_ph _ _ F); auto|].
    split; [apply (sf_regs _ _ F)|]. split; [apply (sf_wregs _ _ F)|]. split; [apply (sf_lics _ _ F)|].
    split; [apply (sf_rootS _ _ F)|]. split; [apply (sf_rootW _ _ F)|].
    split; [|split; [|discriminate]].
    + intros ev Hin. assert (ev_id ev = x).
      { rewrite in_app_iff in Hin. destruct Hin as [Hin|[Hin|[]]].
        - destruct (live o); [destruct Hin as [Hin|[]]; rewrite <- Hin; reflexivity|destruct Hin].
        - rewrite <- Hin; reflexivity. }
      rewrite H. eapply CX; eauto.
    + intros t. apply reach_transfer; [exact I|apply (sf_rootS _ _ F)|].
      intros p op [op' [Gp [L N]]] Gp'. exists op. split; auto. rewrite HG.
      destruct (Nat.eqb_spec x p) as [EX|EX]; auto. subst p. exfalso. apply N. eapply CX; eauto.
  - (* WhiteWeak: value destructed, block kept *)
    inversion E; subst; clear E.
    set (c' := set_met _ _).
    set (o' := with_live (with_col o White) false).
    assert (F : sw_frame c c').
    { unfold c'. destruct (live o); constructor; reflexivity. }
    assert (HG : forall y, get c' y = if Nat.eqb x y then Some o' else get c y).
    { intros y. unfold c'. unfold get. destruct (live o); cbn;
        (destruct (Nat.eqb_spec x y); [subst; apply hget_hset_eq; eapply hget_some_lt; apply G|apply hget_hset_neq; auto]). }
    assert (HU' : unsw c' = rest) by (unfold c'; destruct (live o); reflexivity).
    assert (HP : pre c' = pre c ++ [x]) by (unfold c'; destruct (live o); reflexivity).
    split; [eapply (inv_sweep_keep c c' x o rest I HS HU G F HU' false); eauto|].
    split; [rewrite (sf_ph _ _ F); auto|].
    split; [apply (sf_regs _ _ F)|]. split; [apply (sf_wregs _ _ F)|]. split; [apply (sf_lics _ _ F)|].
    split; [apply (sf_rootS _ _ F)|]. split; [apply (sf_rootW _ _ F)|].
    split; [|split; [|discriminate]].
    + intros ev Hin. assert (ev_id ev = x).
      { destruct (live o); [destruct Hin as [Hin|[]]; rewrite <- Hin; reflexivity|destruct Hin]. }
      rewrite H. eapply CX; eauto.
    + intros t. apply reach_transfer; [exact I|apply (sf_rootS _ _ F)|].
      intros p op [op' [Gp [L N]]] Gp'. rewrite HG.
      destruct (Nat.eqb_spec x p) as [EX|EX]; eauto. subst p. exfalso. apply N. eapply CX; eauto.
  - (* Gray: unreachable by the invariant *)
    exfalso. eapply (i_gray_mark _ _ I); eauto. rewrite HS; discriminate.
  - (* Black: kept, colour reset *)
    inversion E; subst; clear E.
    set (c' := set_met _ _).
    assert (EO : with_col o White = with_live (with_col o White) (live o)) by (destruct o; reflexivity).
    assert (F : sw_frame c c') by (unfold c'; constructor; reflexivity).
    assert (HG : forall y, get c' y = if Nat.eqb x y then Some (with_live (with_col o White) (live o)) else get c y).
    { intros y. rewrite <- EO. unfold c'. unfold get. cbn.
      destruct (Nat.eqb_spec x y); [subst; apply hget_hset_eq; eapply hget_some_lt; apply G|apply hget_hset_neq; auto]. }
    assert (HU' : unsw c' = rest) by reflexivity.
    assert (HP : pre c' = pre c ++ [x]) by reflexivity.
    split; [eapply (inv_sweep_keep c c' x o rest I HS HU G F HU' (live o)); eauto|].
    split; [rewrite (sf_ph _ _ F); auto|].
    split; [apply (sf_regs _ _ F)|]. split; [apply (sf_wregs _ _ F)|]. split; [apply (sf_lics _ _ F)|].
    split; [apply (sf_rootS _ _ F)|]. split; [apply (sf_rootW _ _ F)|].
    split; [|split; [|discriminate]].
    + intros ev [].
    + intros t. apply reach_transfer; [exact I|apply (sf_rootS _ _ F)|].
      intros p op _ Gp'. rewrite HG. destruct (Nat.eqb_spec x p) as [EX|EX]; eauto. subst p.
      rewrite G in Gp'. inversion Gp' as [EO']. rewrite <- EO'. eexists; split; eauto.
Qed.

(** ** phase transitions *)
Lemma inv_enter_sweep c :
  Inv None c -> quiescent c -> ph c = Mark -> gray_remaining c = false ->
  Inv None (set_lists (set_ph c Sweep) [] (all c)).
Proof.
  intros I [QR [QW QL]] HM GR. apply gray_remaining_false in GR. destruct GR as [G1 [G2 G3]].
  assert (NG : forall y oy, get c y = Some oy -> col oy <> Gray).
  { intros y oy Gy C. assert (In y (gray c ++ gray_again c)) by (apply (i_gray _ _ I); eauto).
    rewrite G1, G2 in H. destruct H. }
  set (c' := set_lists _ _ _).
  assert (GE : forall y, get c' y = get c y) by reflexivity.
  assert (OKS : forall t, tstrong c t -> ok_strong c' t).
  { intros t [ot [Gt D]]. exists ot. rewrite GE. split; auto. split; [eapply (i_dark_live _ _ I); eauto|].
    intros [_ [ot' [Gt' W]]]. rewrite GE, Gt in Gt'. inversion Gt'; subst. destruct D as [D|D]; rewrite D in W; discriminate. }
  assert (OKW : forall t, tweak c t -> ok_weak c' t).
  { intros t [ot [Gt D]]. split; [exists ot; auto|].
    intros [_ [ot' [Gt' W]]]. rewrite GE, Gt in Gt'. inversion Gt'; subst. contradiction. }
  assert (MK : forall s w, slots_marked c s w -> slots_ok c' s w).
  { intros s w [A B]. split; intros t Ht; auto. }
  constructor.
  - unfold all. cbn. apply (i_nodup _ _ I).
  - intros y. unfold all. cbn. apply (i_all _ _ I).
  - cbn. congruence.
  - cbn. discriminate.
  - intros y. cbn. apply (i_gray _ _ I).
  - cbn. apply (i_gray_nd _ _ I).
  - intros _ y oy Gy. eapply NG; eauto.
  - auto.
  - intros y oy Gy. apply (i_dark_live _ _ I y oy Gy).
  - intros y oy Gy. apply (i_ntr _ _ I y oy Gy).
  - cbn. intros _ y oy [].
  - intros q oq Gq L NC. rewrite GE in Gq. apply MK. apply (i_tri _ _ I HM q oq Gq); [|discriminate].
    destruct (col oq) eqn:C; auto.
    + exfalso. apply NC. split; [cbn; apply (i_all _ _ I); eexists; eauto|]. exists oq. rewrite GE, C. auto.
    + exfalso. apply NC. split; [cbn; apply (i_all _ _ I); eexists; eauto|]. exists oq. rewrite GE, C. auto.
    + exfalso. eapply NG; eauto.
  - cbn. apply MK. apply (i_tri_root _ _ I HM G3).
  - cbn. split; intros t Ht; exfalso; [eapply QR|eapply QW]; eauto.
  - cbn. discriminate.
  - cbn. discriminate.
  - cbn. rewrite QL. constructor.
  - cbn. apply (i_ub _ _ I).
Qed.

Lemma inv_sleep_to_mark c : Inv None c -> quiescent c -> ph c = Sleep -> Inv None (set_ph c Mark).
Proof.
  intros I [QR [QW QL]] HS. destruct (i_sleep _ _ I HS) as [AW [G1 [G2 R]]].
  assert (NS : ph c <> Sweep) by (rewrite HS; discriminate).
  assert (GE : forall y, get (set_ph c Mark) y = get c y) by reflexivity.
  assert (CE : forall y, condemned (set_ph c Mark) y <-> condemned c y) by (intros; reflexivity).
  constructor.
  - apply (i_nodup _ _ I).
  - apply (i_all _ _ I).
  - cbn. intros _. apply (i_unsw _ _ I NS).
  - cbn. discriminate.
  - apply (i_gray _ _ I).
  - apply (i_gray_nd _ _ I).
  - cbn. congruence.
  - auto.
  - apply (i_dark_live _ _ I).
  - apply (i_ntr _ _ I).
  - cbn. discriminate.
  - apply (i_obj _ _ I).
  - apply (i_root _ _ I).
  - apply (i_regs _ _ I).
  - cbn. intros _ p o G B. rewrite (AW _ _ G) in B. discriminate.
  - cbn. rewrite R. discriminate.
  - cbn. rewrite QL. constructor.
  - apply (i_ub _ _ I).
Qed.

Lemma inv_to_sleep c m :
  Inv None c -> ph c = Sweep -> unsw c = [] ->
  Inv None (set_ph (set_rnt (set_met c m) true) Sleep).
Proof.
  intros I HS HU.
  assert (NG : forall y oy, get c y = Some oy -> col oy <> Gray).
  { intros y oy Gy. eapply (i_gray_mark _ _ I); eauto. rewrite HS; discriminate. }
  assert (QE : gray c = [] /\ gray_again c = []).
  { destruct (gray c ++ gray_again c) as [|y l] eqn:E.
    - apply app_eq_nil in E. auto.
    - exfalso. assert (In y (gray c ++ gray_again c)) by (rewrite E; left; auto).
      apply (i_gray _ _ I) in H. destruct H as [oy [Gy C]]. eapply NG; eauto. }
  destruct QE as [Q1 Q2].
  assert (AW : forall y oy, get c y = Some oy -> col oy = White).
  { intros y oy Gy. eapply (i_pre_white _ _ I HS); eauto.
    assert (In y (all c)) by (apply (i_all _ _ I); eexists; eauto).
    unfold all in H. rewrite HU, app_nil_r in H. auto. }
  constructor.
  - apply (i_nodup _ _ I).
  - apply (i_all _ _ I).
  - cbn. auto.
  - cbn. intros _. repeat split; auto.
  - apply (i_gray _ _ I).
  - apply (i_gray_nd _ _ I).
  - cbn. intros _. apply NG.
  - auto.
  - apply (i_dark_live _ _ I).
  - apply (i_ntr _ _ I).
  - cbn. discriminate.
  - apply (i_obj _ _ I).
  - apply (i_root _ _ I).
  - apply (i_regs _ _ I).
  - cbn. discriminate.
  - cbn. discriminate.
  - cbn. eapply Forall_impl; [|apply (i_lics _ _ I)]. intros l _ HM. discriminate.
  - apply (i_ub _ _ I).
Qed.
