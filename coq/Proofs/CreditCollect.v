(** * Work credits (C09), part 3: collection steps keep the counting invariant. *)
From GA Require Import Model.Spec Proofs.HeapLemmas Proofs.Inv Proofs.Recolor Proofs.InvMicro Proofs.InvStore
     Proofs.InvMark Proofs.InvSweep Proofs.InvLoop Proofs.Phases Proofs.MInv.
From GA Require Import Proofs.Credit Proofs.CreditMark.
Local Open Scope nat_scope.

Lemma trace_edge_cinv e c ed : Inv e c -> CInv c -> ph c = Mark -> edge_ok c ed -> CInv (trace_edge c ed).
Proof.
  intros I C HM H. destruct ed as [t|t]; cbn in *.
  - destruct H as [o [G _]]. eapply trace_cinv; eauto.
  - destruct H as [o G]. eapply trace_weak_cinv; eauto.
Qed.

Lemma trace_edges_cinv es : forall e c, Inv e c -> CInv c -> ph c = Mark -> Forall (edge_ok c) es -> CInv (trace_edges c es).
Proof.
  induction es as [|ed es IH]; intros e c I C HM F; [exact C|].
  inversion F as [|? ? Hd Tl]; subst. cbn [trace_edges fold_left].
  destruct (trace_edge_inv e c ed I HM Hd) as [I1 [_ [Mo1 Fr1]]].
  change (fold_left trace_edge es (trace_edge c ed)) with (trace_edges (trace_edge c ed) es).
  apply (IH e); auto.
  - eapply trace_edge_cinv; eauto.
  - rewrite (f_ph _ _ Fr1); auto.
  - eapply Forall_impl; [|exact Tl]. intros a. apply mono_edge_ok; auto.
Qed.

Lemma mark_one_cinv c fault c' r used :
  Inv None c -> quiescent c -> CInv c -> ph c = Mark -> mark_one c fault = (c', r, used) -> CInv c'.
Proof.
  intros I Q C HM E. pose proof Q as [QR [QW QL]]. unfold mark_one in E.
  assert (POP : forall x c1,
     gray c ++ gray_again c = x :: (gray c1 ++ gray_again c1) ->
     heap c1 = heap c -> ph c1 = ph c -> pre c1 = pre c -> unsw c1 = unsw c -> rnt c1 = rnt c ->
     rootS c1 = rootS c -> rootW c1 = rootW c -> regs c1 = regs c -> wregs c1 = wregs c ->
     lics c1 = lics c -> ub c1 = ub c -> met c1 = met c ->
     (let c2 := set_met c1 (mark_gc_traced (met c1)) in
      let c3 := recolor c2 x Black in
      match get c3 x with
      | None => (c3, MContinue, false)
      | Some o =>
        let c4 := if live o then c3 else set_ub c3 in
        match fault with
        | Some j =>
          if can_panic (okind o) then
            (make_gray_again (trace_edges c4 (firstn j (edges o))) x, MPanic, true)
          else (trace_edges c4 (edges o), MContinue, false)
        | None => (trace_edges c4 (edges o), MContinue, false)
        end
      end) = (c', r, used) -> CInv c').
  { intros x c1 EQ E3 E4 E5 E6 E7 E8 E9 E10 E11 E12 E13 EM EE.
    destruct (pop_blacken c c1 x I QL HM EQ E3 E4 E5 E6 E7 E8 E9 E10 E11 E12 E13 (mark_gc_traced (met c1)))
      as [o0 [G0 [G3 [L0 [I3 [F3 S3]]]]]].
    cbv zeta in EE. rewrite G3 in EE. cbn [live with_col] in EE. rewrite L0 in EE.
    set (c3 := recolor (set_met c1 (mark_gc_traced (met c1))) x Black) in *.
    assert (HM3 : ph c3 = Mark) by (rewrite (f_ph _ _ F3); auto).
    assert (ED : edges (with_col o0 Black) = edges o0) by reflexivity.
    assert (KD : okind (with_col o0 Black) = okind o0) by reflexivity.
    rewrite ED, KD in EE.
    assert (C0 : col o0 = Gray).
    { assert (Hin : In x (gray c ++ gray_again c)) by (rewrite EQ; left; auto).
      apply (i_gray _ _ I) in Hin. destruct Hin as [o' [G' C']]. congruence. }
    assert (G1 : get (set_met c1 (mark_gc_traced (met c1))) x = Some o0) by (unfold get in *; cbn; rewrite E3; auto).
    assert (R : recol c c3 x o0 Black).
    { unfold c3, recolor. rewrite G1. constructor; cbn; auto. rewrite E3. reflexivity. }
    assert (C3 : CInv c3).
    { eapply (cinv_recol_mark None c c3 x o0 Black I C HM R);
        unfold c3, recolor; rewrite G1; cbn; rewrite ?EM, ?C0; cbn; lia. }
    assert (OK0 : Forall (edge_ok c) (edges o0)).
    { eapply slots_ok_edges; eauto. eapply (i_obj _ _ I); eauto. eapply not_condemned_nosweep; eauto. rewrite HM; discriminate. }
    assert (OK3 : Forall (edge_ok c3) (edges o0)).
    { eapply Forall_impl; [|exact OK0]. intros a. apply sgraph_edge_ok; auto. }
    assert (FULL : CInv (trace_edges c3 (edges o0))) by (eapply trace_edges_cinv; eauto).
    assert (PANIC : forall j, CInv (make_gray_again (trace_edges c3 (firstn j (edges o0))) x)).
    { intros j. pose proof (Forall_firstn _ j _ OK3) as OKj.
      destruct (trace_edges_inv _ (Some x) c3 I3 HM3 OKj) as [I5 [_ [Mo5 F5]]].
      pose proof (trace_edges_cinv _ (Some x) c3 I3 C3 HM3 OKj) as C5.
      set (c4 := trace_edges c3 (firstn j (edges o0))) in *.
      destruct (mono_get _ _ _ _ Mo5 G3) as [o5 [G5 [_ [_ [_ [N5 [_ CC5]]]]]]].
      assert (B5 : col o5 = Black) by (apply CC5; right; reflexivity).
      eapply (make_gray_again_cinv (Some x) c4 x o5); eauto. rewrite (f_ph _ _ F5). auto. }
    destruct fault as [j|].
    - destruct (can_panic (okind o0)); inversion EE; subst; auto.
    - inversion EE; subst; auto. }
  destruct (gray c) as [|x g] eqn:EG.
  - destruct (gray_again c) as [|x g] eqn:EGA.
    + destruct (rnt c) eqn:ER.
      * assert (OK : Forall (edge_ok c) (edges_of (rootS c) (rootW c))).
        { eapply slots_ok_edges; eauto. apply (i_root _ _ I). }
        destruct fault as [j|]; inversion E; subst.
        -- eapply trace_edges_cinv; eauto. apply Forall_firstn; auto.
        -- eapply cinv_cs; [|eapply (trace_edges_cinv _ None c); eauto]. apply cs_same; reflexivity.
      * inversion E; subst. auto.
    + eapply (POP x (set_gray_again c g)); eauto; cbn; auto; try rewrite EG; try rewrite EGA; reflexivity.
  - eapply (POP x (set_gray c g)); eauto; cbn; auto; try rewrite EG; reflexivity.
Qed.

Lemma cntP_zero_if_white P c l : P White = false -> (forall x o, get c x = Some o -> col o = White) -> cntP P c l = 0.
Proof.
  intros PW H. unfold cntP. induction l as [|a l IH]; [reflexivity|]. cbn. unfold colp at 1.
  destruct (get c a) as [o|] eqn:G; [rewrite (H a o G), PW|]; exact IH.
Qed.

Lemma sweep_one_cinv c c' evs r :
  Inv None c -> CInv c -> ph c = Sweep -> sweep_one c = (c', evs, r) -> CInv c'.
Proof.
  intros I C HS E. destruct (ci_sweep _ C HS) as [kb [kw [RM [MK [TR [DR LE]]]]]].
  unfold sweep_one in E.
  destruct (unsw c) as [|x rest] eqn:HU; [inversion E; subst; auto|].
  assert (ND := i_nodup _ _ I). unfold all in ND. rewrite HU in ND. apply nodup_mid in ND. destruct ND as [NP [NR _]].
  destruct (get c x) as [o|] eqn:G.
  2:{ exfalso. assert (allocated c x) by (apply (i_all _ _ I); unfold all; rewrite HU, in_app_iff; right; left; auto).
      destruct H; congruence. }
  assert (CX : forall P, cntP P c (x :: rest) = b2n (P (col o)) + cntP P c rest).
  { intros P. rewrite cntP_cons. unfold colp. rewrite G. reflexivity. }
  rewrite !CX in *.
  assert (REST : forall P c2 v, heap c2 = hset (heap c) x v -> cntP P c2 rest = cntP P c rest).
  { intros P c2 v H. apply cntP_same. intros y Hy. unfold get. rewrite H. apply hget_hset_neq. intros ->. contradiction. }
  assert (INTRO : forall c2 kb' kw', ph c2 = Sweep -> unsw c2 = rest ->
            remembered (met c2) = N.of_nat (kb' + kw') ->
            marked (met c2) = (remembered (met c2) + N.of_nat (cntP is_nonwhite c2 rest))%N ->
            (traced (met c2) <= N.of_nat (cntP is_black c2 rest + kb'))%N ->
            (dropped (met c2) <= freed (met c2) + N.of_nat kw')%N -> kb' + kw' <= length (pre c2) -> CInv c2).
  { intros c2 kb' kw' P U A1 A2 A3 A4 A5. constructor; intros PP; rewrite P in PP; try discriminate.
    exists kb', kw'. rewrite U. auto. }
  destruct (col o) eqn:CO; inversion E; subst; clear E.
  - (* White: released *)
    unfold free_total.
    match goal with |- CInv ?C2 => apply (INTRO C2 kb kw) end;
      try (destruct (N.eqb _ 0); destruct (live o); reflexivity);
      try (rewrite !(REST _ _ None) by (destruct (N.eqb _ 0); destruct (live o); reflexivity));
      destruct (N.eqb _ 0); destruct (live o); cbn; cbn in MK, TR; first [exact HS|lia].
  - (* WhiteWeak: shell kept *)
    match goal with |- CInv ?C2 => apply (INTRO C2 kb (S kw)) end;
      try (destruct (live o); reflexivity);
      try (rewrite !(REST _ _ (Some (with_live (with_col o White) false))) by (destruct (live o); reflexivity));
      destruct (live o); cbn; rewrite ?app_length; cbn; cbn in MK, TR; first [exact HS|lia].
  - exfalso. eapply (i_gray_mark _ _ I); eauto; rewrite HS; discriminate.
  - (* Black: kept *)
    match goal with |- CInv ?C2 => apply (INTRO C2 (S kb) kw) end;
      try reflexivity;
      try (rewrite !(REST _ _ (Some (with_col o White))) by reflexivity);
      cbn; rewrite ?app_length; cbn; cbn in MK, TR; first [exact HS|lia].
Qed.

Lemma loop_body_cinv st hs c f c1 evs k f' :
  Inv None c -> quiescent c -> CInv c -> loop_body st hs c f = (c1, evs, k, f') -> CInv c1.
Proof.
  intros I Q C E. unfold loop_body in E. destruct (ph c) eqn:P.
  - (* wake up: everything is white, all counters are zero *)
    inversion E; subst. destruct (ci_sleep _ C P) as [A1 [A2 [A3 [A4 A5]]]]. destruct (i_sleep _ _ I P) as [AW _].
    apply cinv_mark_intro; cbn [ph met set_ph]; auto.
    + change (all (set_ph c Mark)) with (all c). rewrite (cntP_zero_if_white is_nonwhite (set_ph c Mark) (all c) eq_refl AW). auto.
    + rewrite A2. lia.
  - destruct (mark_one c _) as [[c2 r] u] eqn:EM.
    pose proof (mark_one_cinv _ _ _ _ _ I Q C P EM) as C2. pose proof (mark_one_ph _ _ _ _ _ EM) as P2.
    destruct r.
    + inversion E; subst; auto.
    + destruct (stop_le st FullyMarked); inversion E; subst; auto.
      (* sweeping starts: nothing swept yet *)
      destruct (ci_mark _ C2 (eq_trans P2 P)) as [M [T [D [F R]]]].
      constructor; cbn [ph set_ph set_lists]; try discriminate. intros _.
      exists 0, 0. cbn [met set_ph set_lists unsw pre length].
      change (cntP is_nonwhite (set_lists (set_ph c2 Sweep) [] (all c2)) (all c2)) with (cntP is_nonwhite c2 (all c2)).
      change (cntP is_black (set_lists (set_ph c2 Sweep) [] (all c2)) (all c2)) with (cntP is_black c2 (all c2)).
      rewrite R, M, D, F. cbn. repeat split; lia.
    + inversion E; subst; auto.
  - destruct (stop_le st AtSweep); [inversion E; subst; auto|].
    destruct (sweep_one c) as [[c2 evs2] r] eqn:ES.
    pose proof (sweep_one_cinv _ _ _ _ I C P ES) as C2.
    destruct r; [inversion E; subst; auto|].
    assert (FIN : forall b, CInv (set_ph (set_rnt (set_met c2 (finish_cycle (met c2) b)) true) Sleep)).
    { intros b. constructor; cbn [ph set_ph]; try discriminate. intros _. cbn. auto. }
    destruct st; [| |inversion E; subst; apply FIN|]; destruct hs; inversion E; subst; apply FIN.
Qed.

Section Loop.
  Variable dec : ctx -> bool.

  Lemma loop_cinv fuel : forall ru st hs c f c' evs oc,
    Inv None c -> quiescent c -> CInv c -> loop dec fuel ru st hs c f = (c', evs, oc) -> CInv c'.
  Proof.
    induction fuel as [|n IH]; intros ru st hs c f c' evs oc I Q M E; cbn [loop] in E.
    - inversion E; subst; auto.
    - destruct (loop_body st hs c f) as [[[c1 ev1] k] f1] eqn:EB.
      destruct (loop_body_inv _ _ _ _ _ _ _ _ I Q EB) as [I1 [S1 _]].
      pose proof (loop_body_cinv _ _ _ _ _ _ _ _ I Q M EB) as M1.
      assert (Q1 : quiescent c1) by (eapply same_cb_quiescent; eauto).
      destruct k; try (inversion E; subst; auto; fail).
      destruct ru.
      + destruct (dec c1); [|inversion E; subst; auto].
        destruct (loop dec n PayDebt st has_slept c1 f1) as [[c2 ev2] r] eqn:EL. inversion E; subst. eapply IH; eauto.
      + destruct (loop dec n RunStop st has_slept c1 f1) as [[c2 ev2] r] eqn:EL. inversion E; subst. eapply IH; eauto.
  Qed.

  Theorem do_collection_cinv c ru st f c' evs oc :
    Inv None c -> quiescent c -> CInv c -> do_collection dec c ru st f = (c', evs, oc) -> CInv c'.
  Proof.
    intros I Q M E. unfold do_collection in E. destruct ru.
    - destruct (dec c); [eapply loop_cinv; eauto|inversion E; subst; auto].
    - eapply loop_cinv; eauto.
  Qed.
End Loop.
