(** * Work credits are bounded by the objects of the cycle (C09): counting invariant. *)
From GA Require Import Model.Spec Proofs.HeapLemmas Proofs.Inv Proofs.Recolor Proofs.InvMicro Proofs.InvStore
     Proofs.InvMark Proofs.InvSweep Proofs.MInv.
Local Open Scope nat_scope.

(** number of objects of [l] whose colour satisfies [P] *)
Definition colp (P : color -> bool) (c : ctx) (x : id) : bool :=
  match get c x with Some o => P (col o) | None => false end.
Definition cntP (P : color -> bool) (c : ctx) (l : list id) : nat := length (filter (colp P c) l).

Definition is_nonwhite (k : color) : bool := negb (color_eqb k White).
Definition is_black (k : color) : bool := color_eqb k Black.

Lemma cntP_recol_in P c c' x o k l :
  NoDup l -> In x l -> recol c c' x o k ->
  cntP P c' l + b2n (P (col o)) = cntP P c l + b2n (P k).
Proof.
  intros ND Hin R. unfold cntP.
  pose proof (filter_point_change (colp P c) (colp P c') l x ND Hin) as H.
  assert (EX : colp P c x = P (col o)) by (unfold colp; rewrite (rc_get _ _ _ _ _ R); reflexivity).
  assert (EX' : colp P c' x = P k) by (unfold colp; rewrite (recol_get _ _ _ _ _ x R), Nat.eqb_refl; reflexivity).
  rewrite EX, EX' in H. apply H. intros y NY. unfold colp. rewrite (recol_get _ _ _ _ _ y R).
  destruct (Nat.eqb_spec x y); [congruence|reflexivity].
Qed.

Lemma cntP_recol_notin P c c' x o k l : ~ In x l -> recol c c' x o k -> cntP P c' l = cntP P c l.
Proof.
  intros NI R. unfold cntP. apply filter_same. intros y Hy. unfold colp. rewrite (recol_get _ _ _ _ _ y R).
  destruct (Nat.eqb_spec x y); [subst; contradiction|reflexivity].
Qed.

Lemma cntP_same P c c' l : (forall y, In y l -> get c' y = get c y) -> cntP P c' l = cntP P c l.
Proof. intros H. unfold cntP. apply filter_same. intros y Hy. unfold colp. rewrite H; auto. Qed.

Lemma cntP_le P c l : cntP P c l <= length l.
Proof. unfold cntP. induction l as [|a l IH]; cbn; [lia|]. destruct (colp P c a); cbn; lia. Qed.

Lemma cntP_app P c l1 l2 : cntP P c (l1 ++ l2) = cntP P c l1 + cntP P c l2.
Proof. unfold cntP. rewrite filter_app, app_length. reflexivity. Qed.

Lemma cntP_cons P c x l : cntP P c (x :: l) = b2n (colp P c x) + cntP P c l.
Proof. unfold cntP. cbn. destruct (colp P c x); reflexivity. Qed.

Lemma black_le_nonwhite c l : cntP is_black c l <= cntP is_nonwhite c l.
Proof.
  induction l as [|a l IH]; [reflexivity|]. rewrite !cntP_cons. unfold colp.
  destruct (get c a) as [o|]; [|cbn; lia]. destruct (col o); cbn; lia.
Qed.

(** ** the counting invariant *)
Record CInv (c : ctx) : Prop := mkCInv {
  ci_sleep : ph c = Sleep ->
    marked (met c) = 0%N /\ traced (met c) = 0%N /\ dropped (met c) = 0%N /\ freed (met c) = 0%N /\ remembered (met c) = 0%N;
  ci_mark : ph c = Mark ->
    marked (met c) = N.of_nat (cntP is_nonwhite c (all c))
    /\ (traced (met c) <= N.of_nat (cntP is_black c (all c)))%N
    /\ dropped (met c) = 0%N /\ freed (met c) = 0%N /\ remembered (met c) = 0%N;
  ci_sweep : ph c = Sweep -> exists kb kw,
    remembered (met c) = N.of_nat (kb + kw)
    /\ marked (met c) = (remembered (met c) + N.of_nat (cntP is_nonwhite c (unsw c)))%N
    /\ (traced (met c) <= N.of_nat (cntP is_black c (unsw c) + kb))%N
    /\ (dropped (met c) <= freed (met c) + N.of_nat kw)%N
    /\ kb + kw <= length (pre c)
}.

(** operations that change neither colours, lists, phase nor the five work counters *)
Record CS (c c' : ctx) : Prop := mkCS {
  cs_ph : ph c' = ph c;
  cs_pre : pre c' = pre c;
  cs_unsw : unsw c' = unsw c;
  cs_col : forall y, In y (all c) -> colp is_nonwhite c' y = colp is_nonwhite c y /\ colp is_black c' y = colp is_black c y;
  cs_marked : marked (met c') = marked (met c);
  cs_traced : traced (met c') = traced (met c);
  cs_dropped : dropped (met c') = dropped (met c);
  cs_freed : freed (met c') = freed (met c);
  cs_rem : remembered (met c') = remembered (met c)
}.

Lemma cs_refl c : CS c c.
Proof. constructor; auto. Qed.

Lemma cs_trans a b c : CS a b -> CS b c -> CS a c.
Proof.
  intros [A1 A2 A3 A4 A5 A6 A7 A8 A9] [B1 B2 B3 B4 B5 B6 B7 B8 B9]. constructor; try congruence.
  intros y Hy. assert (Hb : In y (all b)) by (unfold all in *; rewrite A2, A3; auto).
  destruct (A4 y Hy), (B4 y Hb). split; congruence.
Qed.

Lemma cntP_cs P c c' l :
  (P = is_nonwhite \/ P = is_black) -> CS c c' -> (forall y, In y l -> In y (all c)) -> cntP P c' l = cntP P c l.
Proof.
  intros HP S HL. unfold cntP. apply filter_same. intros y Hy. destruct (cs_col _ _ S y (HL y Hy)) as [A B].
  destruct HP as [-> | ->]; auto.
Qed.

Lemma cinv_cs c c' : CS c c' -> CInv c -> CInv c'.
Proof.
  intros S [C1 C2 C3].
  assert (EA : all c' = all c) by (unfold all; rewrite (cs_pre _ _ S), (cs_unsw _ _ S); reflexivity).
  constructor; rewrite (cs_ph _ _ S), (cs_marked _ _ S), (cs_traced _ _ S), (cs_dropped _ _ S), (cs_freed _ _ S), (cs_rem _ _ S).
  - exact C1.
  - intros HM. rewrite EA, !(cntP_cs _ c c') by auto. exact (C2 HM).
  - intros HS. destruct (C3 HS) as [kb [kw H]]. exists kb, kw. rewrite (cs_pre _ _ S), (cs_unsw _ _ S).
    rewrite !(cntP_cs _ c c') by (auto; intros y Hy; unfold all; rewrite in_app_iff; auto). exact H.
Qed.

(** same heap, same lists, same counters *)
Lemma cs_same c c' :
  heap c' = heap c -> ph c' = ph c -> pre c' = pre c -> unsw c' = unsw c ->
  marked (met c') = marked (met c) -> traced (met c') = traced (met c) -> dropped (met c') = dropped (met c) ->
  freed (met c') = freed (met c) -> remembered (met c') = remembered (met c) -> CS c c'.
Proof.
  intros H P PR U M T D F R. constructor; auto. intros y _. unfold colp, get. rewrite H. auto.
Qed.
