(** * The DynamicRootSet / handle invariant (C14), part 2: collection never touches a live set's slots. *)
From GA Require Import Model.Spec Proofs.HeapLemmas.
From GA Require Import Proofs.Slots Proofs.HandlesKW.
Local Open Scope nat_scope.

Lemma kw_trace_edge c e : KW c (trace_edge c e).
Proof. destruct e; cbn; [apply kw_trace|apply kw_trace_weak]. Qed.

Lemma kw_trace_edges es : forall c, KW c (trace_edges c es).
Proof.
  induction es as [|e es IH]; intros c; [apply kw_refl|]. cbn [trace_edges fold_left].
  eapply kw_trans; [apply (kw_trace_edge c e)|apply IH].
Qed.

Lemma kw_mark_one c f c' r u : mark_one c f = (c', r, u) -> KW c c'.
Proof.
  unfold mark_one.
  assert (POP : forall x c1, heap c1 = heap c ->
    (let c2 := set_met c1 (mark_gc_traced (met c1)) in
     let c3 := recolor c2 x Black in
     match get c3 x with
     | None => (c3, MContinue, false)
     | Some o =>
       let c4 := if live o then c3 else set_ub c3 in
       match f with
       | Some j => if can_panic (okind o) then (make_gray_again (trace_edges c4 (firstn j (edges o))) x, MPanic, true)
                   else (trace_edges c4 (edges o), MContinue, false)
       | None => (trace_edges c4 (edges o), MContinue, false)
       end
     end) = (c', r, u) -> KW c c').
  { intros x c1 H1. cbv zeta.
    assert (K3 : KW c (recolor (set_met c1 (mark_gc_traced (met c1))) x Black)).
    { eapply kw_trans; [apply (kw_same_heap c (set_met c1 (mark_gc_traced (met c1)))); exact H1|apply kw_recolor]. }
    destruct (get _ x) as [o|]; [|intros E; inversion E; subst; exact K3].
    set (c4 := if live o then _ else _).
    assert (K4 : KW c c4).
    { unfold c4. destruct (live o); [exact K3|eapply kw_trans; [exact K3|apply kw_same_heap; reflexivity]]. }
    destruct f as [j|].
    - destruct (can_panic (okind o)); intros E; inversion E; subst.
      + eapply kw_trans; [exact K4|]. eapply kw_trans; [apply kw_trace_edges|apply kw_make_gray_again].
      + eapply kw_trans; [exact K4|apply kw_trace_edges].
    - intros E; inversion E; subst. eapply kw_trans; [exact K4|apply kw_trace_edges]. }
  destruct (gray c) as [|x g].
  - destruct (gray_again c) as [|x g].
    + destruct (rnt c); [|intros E; inversion E; subst; apply kw_refl].
      destruct f; intros E; inversion E; subst.
      * apply kw_trace_edges.
      * apply (kw_heap_of c (trace_edges c (edges_of (rootS c) (rootW c)))); [apply kw_trace_edges|reflexivity].
    + apply POP. reflexivity.
  - apply POP. reflexivity.
Qed.

Lemma kw_sweep_one c c' evs r : sweep_one c = (c', evs, r) -> KW c c'.
Proof.
  unfold sweep_one. destruct (unsw c) as [|x rest]; [intros E; inversion E; apply kw_refl|].
  destruct (get c x) as [o|] eqn:G; [|intros E; inversion E; subst; apply kw_same_heap; reflexivity].
  assert (K : forall c2 o', heap c2 = hset (heap c) x o' ->
              (forall o2, o' = Some o2 -> okind o2 = okind o /\ (live o2 = true -> live o = true) /\ strong o2 = strong o) -> KW c c2).
  { intros c2 o' H HO. split; [rewrite H, hset_length; auto|]. intros y oy Gy. unfold get in Gy. rewrite H in Gy.
    destruct (Nat.eq_dec x y) as [->|N].
    - rewrite hget_hset_eq in Gy by (eapply hget_some_lt; apply G). destruct (HO oy Gy) as [A [B C]]. exists o. auto.
    - rewrite hget_hset_neq in Gy by auto. exists oy. auto. }
  destruct (col o); intros E; inversion E; subst; clear E.
  - eapply (K _ None); [unfold free_total; destruct (N.eqb _ 0); destruct (live o); reflexivity|discriminate].
  - eapply (K _ (Some (with_live (with_col o White) false))); [destruct (live o); reflexivity|].
    intros o2 Eo. inversion Eo; subst. cbn. split; [auto|split; [discriminate|auto]].
  - apply kw_same_heap; reflexivity.
  - eapply (K _ (Some (with_col o White))); [reflexivity|]. intros o2 Eo. inversion Eo; subst. auto.
Qed.

Lemma kw_loop_body st hs c f c1 evs k f' : loop_body st hs c f = (c1, evs, k, f') -> KW c c1.
Proof.
  intros E. unfold loop_body in E. destruct (ph c).
  - inversion E; subst. apply kw_same_heap; reflexivity.
  - destruct (mark_one c _) as [[c2 r] u] eqn:EM. pose proof (kw_mark_one _ _ _ _ _ EM) as K2.
    destruct r.
    + inversion E; subst; auto.
    + destruct (stop_le st FullyMarked); inversion E; subst; auto; apply (kw_heap_of c c2); auto.
    + inversion E; subst; auto.
  - destruct (stop_le st AtSweep); [inversion E; subst; apply kw_refl|].
    destruct (sweep_one c) as [[c2 evs2] r] eqn:ES. pose proof (kw_sweep_one _ _ _ _ ES) as K2.
    destruct r; [inversion E; subst; auto|].
    assert (FIN : forall b, KW c (set_ph (set_rnt (set_met c2 (finish_cycle (met c2) b)) true) Sleep))
      by (intros b; apply (kw_heap_of c c2); auto).
    destruct st; [| |inversion E; subst; apply FIN|]; destruct hs; inversion E; subst; apply FIN.
Qed.

Lemma kw_loop dec fuel : forall ru st hs c f c' evs oc, loop dec fuel ru st hs c f = (c', evs, oc) -> KW c c'.
Proof.
  induction fuel as [|n IH]; intros ru st hs c f c' evs oc E; cbn [loop] in E.
  - inversion E; subst. apply kw_refl.
  - destruct (loop_body st hs c f) as [[[c1 ev1] k] f1] eqn:EB.
    pose proof (kw_loop_body _ _ _ _ _ _ _ _ EB) as K1.
    destruct k; try (inversion E; subst; auto; fail).
    destruct ru.
    + destruct (dec c1); [|inversion E; subst; auto].
      destruct (loop dec n PayDebt st has_slept c1 f1) as [[c2 ev2] r] eqn:EL. inversion E; subst.
      eapply kw_trans; eauto.
    + destruct (loop dec n RunStop st has_slept c1 f1) as [[c2 ev2] r] eqn:EL. inversion E; subst.
      eapply kw_trans; eauto.
Qed.

Lemma kw_do_collection dec c ru st f c' evs oc : do_collection dec c ru st f = (c', evs, oc) -> KW c c'.
Proof.
  intros E. unfold do_collection in E. destruct ru.
  - destruct (dec c); [eapply kw_loop; eauto|inversion E; subst; apply kw_refl].
  - eapply kw_loop; eauto.
Qed.
