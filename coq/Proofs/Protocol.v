(** * Unconditional per-call contracts of the Arena API (C08 / C09), combining the phase lemmas
    with termination. *)
From GA Require Import Model.Spec Proofs.HeapLemmas Proofs.Inv Proofs.InvMark Proofs.InvLoop Proofs.Phases
     Proofs.Pacing Proofs.Termination.
Local Open Scope nat_scope.

Theorem finish_cycle_ends_sleeping dec c c' evs oc :
  Inv None c -> quiescent c -> do_collection dec c RunStop FinishCycle None = (c', evs, oc) ->
  oc = Done /\ ph c' = Sleep.
Proof.
  intros I Q E. pose proof (do_collection_terminates dec c _ _ _ _ _ I Q E) as ->. split; auto.
  unfold do_collection in E. eapply loop_finish_cycle; eauto.
Qed.

Theorem finish_marking_contract dec c c' evs oc :
  Inv None c -> quiescent c -> do_collection dec c RunStop FullyMarked None = (c', evs, oc) ->
  oc = Done /\ (ph c <> Sweep -> is_marked c' = true) /\ (ph c = Sweep -> c' = c).
Proof.
  intros I Q E. pose proof (do_collection_terminates dec c _ _ _ _ _ I Q E) as ->. split; auto.
  unfold do_collection in E. split.
  - intros NS. eapply loop_finish_marking; eauto.
  - intros P. eapply (proj1 (loop_mark_ph dec _ _ _ _ _ _ _ _ E)); auto.
Qed.

Theorem mark_debt_contract dec c c' evs oc :
  Inv None c -> quiescent c -> do_collection dec c PayDebt FullyMarked None = (c', evs, oc) ->
  oc = Done /\ (ph c = Sweep -> c' = c) /\ (ph c' = Sweep -> ph c = Sweep).
Proof.
  intros I Q E. pose proof (do_collection_terminates dec c _ _ _ _ _ I Q E) as ->. split; auto.
  unfold do_collection in E. destruct (dec c).
  - apply (loop_mark_ph dec _ _ _ _ _ _ _ _ E).
  - inversion E; subst. auto.
Qed.

Theorem collect_debt_pays c c' evs oc :
  Inv None c -> quiescent c -> do_collection dec_debt c PayDebt Full None = (c', evs, oc) ->
  oc = Done /\ debt_pos (met c') = false.
Proof.
  intros I Q E. pose proof (do_collection_terminates dec_debt c _ _ _ _ _ I Q E) as ->. split; auto.
  eapply collect_debt_zero; eauto.
Qed.

Theorem cycle_debt_contract c c' evs oc :
  Inv None c -> quiescent c -> do_collection dec_debt c PayDebt FinishCycle None = (c', evs, oc) ->
  oc = Done /\ (debt_pos (met c') = false \/ ph c' = Sleep).
Proof.
  intros I Q E. pose proof (do_collection_terminates dec_debt c _ _ _ _ _ I Q E) as ->. split; auto.
  eapply cycle_debt_exit; eauto.
Qed.
