(** * Exactness of a collection cycle (C02): during a cycle that starts from Sleeping and is not
    interleaved with mutation, only objects reachable from the root are marked, so the sweep
    reclaims every unreachable value; what remains are the reachable values and weakly referenced
    shells. *)
From GA Require Import Model.Spec Proofs.HeapLemmas Proofs.Inv Proofs.Recolor Proofs.InvMicro Proofs.InvStore
     Proofs.InvMark Proofs.InvSweep Proofs.InvLoop Proofs.Phases Proofs.Termination.
Local Open Scope nat_scope.

Section Exact.
  (** the graph at the start of the cycle *)
  Variable c0 : ctx.
  Let R := reach c0.
  Let W := wreach c0.

  (** the current heap is the initial graph minus released objects *)
  Definition subgraph (c : ctx) : Prop :=
    (forall x o, get c x = Some o -> exists o0, get c0 x = Some o0 /\ strong o = strong o0 /\ weak o = weak o0)
    /\ rootS c = rootS c0 /\ rootW c = rootW c0.

  Definition EMark (c : ctx) : Prop :=
    (forall x o, get c x = Some o -> dark (col o) -> R x)
    /\ (forall x o, get c x = Some o -> col o = WhiteWeak -> W x).

  Definition ESweep (c : ctx) : Prop :=
    (forall x o, In x (unsw c) -> get c x = Some o -> (col o = Black -> R x) /\ (col o = WhiteWeak -> W x))
    /\ (forall x o, In x (pre c) -> get c x = Some o -> (live o = true -> R x) /\ (live o = false -> W x)).

  Definition EInv (c : ctx) : Prop :=
    subgraph c /\ (ph c = Mark -> EMark c) /\ (ph c = Sweep -> ESweep c).

  Lemma subgraph_recol c c' x o k : recol c c' x o k -> subgraph c -> subgraph c'.
  Proof.
    intros Rc [A [B C]]. split; [|rewrite (rc_rootS _ _ _ _ _ Rc), (rc_rootW _ _ _ _ _ Rc); auto].
    intros y oy G. destruct (recol_get_inv _ _ _ _ _ _ _ Rc G) as [o1 [G1 [_ [_ [S1 [W1 _]]]]]].
    destruct (A y o1 G1) as [o0 [G0 [S0 W0]]]. exists o0. split; auto. split; congruence.
  Qed.

  Lemma emark_recol c c' x o k :
    recol c c' x o k -> EMark c -> (dark k -> R x) -> (k = WhiteWeak -> W x) -> EMark c'.
  Proof.
    intros Rc [A B] HD HW. split.
    - intros y oy G D. destruct (recol_get_inv _ _ _ _ _ _ _ Rc G) as [o1 [G1 [_ [_ [_ [_ [_ Hc]]]]]]].
      destruct Hc as [[-> [-> C]]|[N ->]]; [apply HD; rewrite <- C; auto|eapply A; eauto].
    - intros y oy G D. destruct (recol_get_inv _ _ _ _ _ _ _ Rc G) as [o1 [G1 [_ [_ [_ [_ [_ Hc]]]]]]].
      destruct Hc as [[-> [-> C]]|[N ->]]; [apply HW; rewrite <- C; auto|eapply B; eauto].
  Qed.

  Definition EM (c : ctx) : Prop := subgraph c /\ EMark c.

  Lemma em_same_heap c c' : heap c' = heap c -> rootS c' = rootS c -> rootW c' = rootW c -> EM c -> EM c'.
  Proof.
    intros H RS RW [[A [B C]] [D E]]. unfold EM, subgraph, EMark, get. rewrite H, RS, RW. auto.
  Qed.

  Lemma trace_em c t o : get c t = Some o -> R t -> EM c -> EM (trace c t).
  Proof.
    intros G HR [SG E]. unfold trace. rewrite G.
    assert (STEP : forall c' k, recol c c' t o k -> k <> WhiteWeak -> EM c').
    { intros c' k Rc NK. split; [eapply subgraph_recol; eauto|eapply emark_recol; eauto; intros; congruence]. }
    destruct (col o) eqn:C; try (split; auto; fail).
    - destruct (ntr o).
      + eapply (STEP _ Gray); [exact (recol_set_met _ _ _ _ _ (mark_gc_marked (met (set_gray (recolor c t Gray) (t :: gray c)))) (recol_set_gray _ _ _ _ _ (t :: gray c) (recol_recolor c t o Gray G)))|discriminate].
      + eapply (STEP _ Black); [exact (recol_set_met _ _ _ _ _ (mark_gc_marked (met (recolor c t Black))) (recol_recolor c t o Black G))|discriminate].
    - destruct (ntr o).
      + eapply (STEP _ Gray); [exact (recol_set_gray _ _ _ _ _ (t :: gray c) (recol_recolor c t o Gray G))|discriminate].
      + eapply (STEP _ Black); [exact (recol_recolor c t o Black G)|discriminate].
  Qed.

  Lemma trace_weak_em c t o : get c t = Some o -> W t -> EM c -> EM (trace_weak c t).
  Proof.
    intros G HW [SG E]. unfold trace_weak. rewrite G. destruct (col o) eqn:C; try (split; auto; fail).
    assert (Rc : recol c (set_met (recolor c t WhiteWeak) (mark_gc_marked (met (recolor c t WhiteWeak)))) t o WhiteWeak)
      by (apply recol_set_met, recol_recolor; auto).
    split; [eapply subgraph_recol; eauto|eapply emark_recol; eauto]. intros [D|D]; discriminate.
  Qed.

  Definition edge_good (e : edge) : Prop := match e with Strong t => R t | Weak t => W t end.

  Lemma trace_edges_em es : forall c,
    Forall (fun e => edge_good e /\ allocated c (match e with Strong t | Weak t => t end)) es ->
    EM c -> EM (trace_edges c es).
  Proof.
    induction es as [|e es IH]; intros c F E; [exact E|].
    inversion F as [|? ? [Hg [o G]] Tl]; subst. cbn [trace_edges fold_left].
    change (fold_left trace_edge es (trace_edge c e)) with (trace_edges (trace_edge c e) es).
    apply IH; auto.
    - eapply Forall_impl; [|exact Tl]. intros a [Ha [oa Ga]]. split; auto.
      (* allocation is preserved by tracing *)
      destruct e as [t|t]; cbn.
      + unfold trace. destruct (get c t) as [ot|] eqn:Gt; [|eexists; eauto].
        destruct (col ot); try (eexists; eauto; fail); destruct (ntr ot); cbn;
          unfold allocated, get; cbn; unfold recolor; rewrite Gt; cbn;
          (destruct (Nat.eq_dec t (match a with Strong t0 | Weak t0 => t0 end)) as [->|N];
           [rewrite hget_hset_eq by (eapply hget_some_lt; apply Gt); eauto|rewrite hget_hset_neq by auto; eauto]).
      + unfold trace_weak. destruct (get c t) as [ot|] eqn:Gt; [|eexists; eauto].
        destruct (col ot); try (eexists; eauto; fail); cbn;
          unfold allocated, get; cbn; unfold recolor; rewrite Gt; cbn;
          (destruct (Nat.eq_dec t (match a with Strong t0 | Weak t0 => t0 end)) as [->|N];
           [rewrite hget_hset_eq by (eapply hget_some_lt; apply Gt); eauto|rewrite hget_hset_neq by auto; eauto]).
    - destruct e as [t|t]; cbn in *; [eapply trace_em|eapply trace_weak_em]; eauto.
  Qed.

  (** edges of a reachable (resp. the root) source are good targets *)
  Lemma edges_good c p o :
    subgraph c -> Inv None c -> ph c = Mark -> get c p = Some o -> live o = true -> R p ->
    Forall (fun e => edge_good e /\ allocated c (match e with Strong t | Weak t => t end)) (edges o).
  Proof.
    intros [SG _] I HM G L HR. destruct (SG p o G) as [o0 [G0 [S0 W0]]].
    assert (NC : ~ condemned c p) by (eapply not_condemned_nosweep; eauto; rewrite HM; discriminate).
    destruct (i_obj _ _ I p o G L NC) as [OS OW].
    apply Forall_forall. intros e He. unfold edges, edges_of in He. rewrite in_app_iff, !in_map_iff in He.
    destruct He as [[t [<- Ht]]|[t [<- Ht]]]; apply in_somes in Ht; cbn.
    - split; [eapply reach_step; eauto; rewrite <- S0; auto|]. destruct (OS t Ht) as [ot [Gt _]]. eexists; eauto.
    - split; [eapply wreach_obj; eauto; rewrite <- W0; auto|]. apply (OW t Ht).
  Qed.

  Lemma root_edges_good c :
    subgraph c -> Inv None c ->
    Forall (fun e => edge_good e /\ allocated c (match e with Strong t | Weak t => t end)) (edges_of (rootS c) (rootW c)).
  Proof.
    intros [_ [RS RW]] I. destruct (i_root _ _ I) as [OS OW].
    apply Forall_forall. intros e He. unfold edges_of in He. rewrite in_app_iff, !in_map_iff in He.
    destruct He as [[t [<- Ht]]|[t [<- Ht]]]; apply in_somes in Ht; cbn.
    - split; [apply reach_root; rewrite <- RS; auto|]. destruct (OS t Ht) as [ot [Gt _]]. eexists; eauto.
    - split; [apply wreach_root; rewrite <- RW; auto|]. apply (OW t Ht).
  Qed.

  (** ** one marking step (no fault) *)
  Lemma mark_one_em c c' r u :
    Inv None c -> quiescent c -> ph c = Mark -> EM c -> mark_one c None = (c', r, u) -> EM c'.
  Proof.
    intros I Q HM E EQ. pose proof Q as [QR [QW QL]]. unfold mark_one in EQ.
    assert (POP : forall x c1,
       gray c ++ gray_again c = x :: (gray c1 ++ gray_again c1) ->
       heap c1 = heap c -> ph c1 = ph c -> pre c1 = pre c -> unsw c1 = unsw c -> rnt c1 = rnt c ->
       rootS c1 = rootS c -> rootW c1 = rootW c -> regs c1 = regs c -> wregs c1 = wregs c ->
       lics c1 = lics c -> ub c1 = ub c ->
       (let c2 := set_met c1 (mark_gc_traced (met c1)) in
        let c3 := recolor c2 x Black in
        match get c3 x with
        | None => (c3, MContinue, false)
        | Some o => let c4 := if live o then c3 else set_ub c3 in (trace_edges c4 (edges o), MContinue, false)
        end) = (c', r, u) -> EM c').
    { intros x c1 EQ1 E3 E4 E5 E6 E7 E8 E9 E10 E11 E12 E13 EE.
      destruct (pop_blacken c c1 x I QL HM EQ1 E3 E4 E5 E6 E7 E8 E9 E10 E11 E12 E13 (mark_gc_traced (met c1)))
        as [o0 [G0 [G3 [L0 [I3 [F3 S3]]]]]].
      cbv zeta in EE. rewrite G3 in EE. cbn [live with_col] in EE. rewrite L0 in EE.
      set (c3 := recolor (set_met c1 (mark_gc_traced (met c1))) x Black) in *.
      assert (C0 : col o0 = Gray).
      { assert (Hin : In x (gray c ++ gray_again c)) by (rewrite EQ1; left; auto).
        apply (i_gray _ _ I) in Hin. destruct Hin as [o' [G' C']]. congruence. }
      destruct E as [SG EMk].
      assert (RX : R x) by (apply (proj1 EMk x o0 G0); rewrite C0; left; auto).
      assert (G1 : get (set_met c1 (mark_gc_traced (met c1))) x = Some o0) by (unfold get in *; cbn; rewrite E3; auto).
      assert (Rc : recol c c3 x o0 Black).
      { unfold c3, recolor. rewrite G1. constructor; cbn; auto. rewrite E3. reflexivity. }
      assert (E3' : EM c3).
      { split; [eapply subgraph_recol; eauto|eapply emark_recol; eauto]. discriminate. }
      assert (GOOD : Forall (fun e => edge_good e /\ allocated c (match e with Strong t | Weak t => t end)) (edges o0)).
      { eapply edges_good; eauto. }
      assert (GOOD3 : Forall (fun e => edge_good e /\ allocated c3 (match e with Strong t | Weak t => t end)) (edges (with_col o0 Black))).
      { eapply Forall_impl; [|exact GOOD]. intros a [Ha Al]. split; auto. apply (recol_allocated _ _ _ _ _ _ Rc); auto. }
      inversion EE; subst. apply trace_edges_em; auto. }
    destruct (gray c) as [|x g] eqn:EG.
    - destruct (gray_again c) as [|x g] eqn:EGA.
      + destruct (rnt c) eqn:ER; inversion EQ; subst; auto.
        apply (em_same_heap (trace_edges c (edges_of (rootS c) (rootW c)))); try reflexivity.
        apply trace_edges_em; auto. apply root_edges_good; auto. apply (proj1 E).
      + eapply (POP x (set_gray_again c g)); eauto; cbn; auto; try rewrite EG; try rewrite EGA; try reflexivity.
    - eapply (POP x (set_gray c g)); eauto; cbn; auto; try rewrite EG; try reflexivity.
  Qed.

  (** ** one sweeping step *)
  Lemma sweep_one_es c c' evs r :
    Inv None c -> ph c = Sweep -> subgraph c -> ESweep c -> sweep_one c = (c', evs, r) ->
    subgraph c' /\ ESweep c' /\ (r = SBreak -> c' = c /\ unsw c = []).
  Proof.
    intros I HS SG [Y1 Y2] E. unfold sweep_one in E.
    destruct (unsw c) as [|x rest] eqn:HU.
    { inversion E; subst. split; [auto|split; [split; auto; rewrite HU; auto|auto]]. }
    assert (ND := i_nodup _ _ I). unfold all in ND. rewrite HU in ND. apply nodup_mid in ND. destruct ND as [NP [NR _]].
    assert (AX : allocated c x) by (apply (i_all _ _ I); unfold all; rewrite HU, in_app_iff; right; left; auto).
    destruct AX as [o G]. rewrite G in E.
    destruct SG as [SGo [RS RW]].
    assert (INX : In x (x :: rest)) by (left; auto).
    destruct (Y1 x o INX G) as [YB YW].
    (* generic conclusion from a characterisation of the new heap *)
    assert (KEEP : forall c2 o', strong o' = strong o -> weak o' = weak o ->
       (forall y, get c2 y = if Nat.eqb x y then Some o' else get c y) ->
       pre c2 = pre c ++ [x] -> unsw c2 = rest -> rootS c2 = rootS c -> rootW c2 = rootW c ->
       ((live o' = true -> R x) /\ (live o' = false -> W x)) ->
       subgraph c2 /\ ESweep c2).
    { intros c2 o' S' W' HG HP HU2 R2 W2 HX. split; [split; [|rewrite R2, W2; auto]|split].
      - intros y oy Gy. rewrite HG in Gy. destruct (Nat.eqb_spec x y); subst.
        + inversion Gy; subst. destruct (SGo _ _ G) as [o0 [G0 [S0 W0]]]. exists o0. split; auto. split; congruence.
        + apply SGo; auto.
      - intros y oy Hin Gy. rewrite HU2 in Hin. rewrite HG in Gy.
        destruct (Nat.eqb_spec x y); [subst; contradiction|]. apply Y1; auto. right; auto.
      - intros y oy Hin Gy. rewrite HP, in_app_iff in Hin. rewrite HG in Gy.
        destruct (Nat.eqb_spec x y); subst.
        + inversion Gy; subst. exact HX.
        + destruct Hin as [Hin|[Ex|[]]]; [apply Y2; auto|congruence]. }
    assert (HGK : forall c2 o', heap c2 = hset (heap c) x (Some o') -> forall y, get c2 y = if Nat.eqb x y then Some o' else get c y).
    { intros c2 o' H y. unfold get. rewrite H. destruct (Nat.eqb_spec x y); subst;
        [apply hget_hset_eq; eapply hget_some_lt; apply G|apply hget_hset_neq; auto]. }
    destruct (col o) eqn:C; inversion E; subst; clear E.
    - (* White: released *)
      set (c2 := free_total _).
      assert (HG : forall y, get c2 y = if Nat.eqb x y then None else get c y).
      { intros y. unfold c2, free_total, get. destruct (N.eqb _ 0); destruct (live o); cbn;
          (destruct (Nat.eqb_spec x y); [subst; apply hget_hset_eq; eapply hget_some_lt; apply G|apply hget_hset_neq; auto]). }
      assert (F : pre c2 = pre c /\ unsw c2 = rest /\ rootS c2 = rootS c /\ rootW c2 = rootW c).
      { unfold c2, free_total. destruct (N.eqb _ 0); destruct (live o); cbn; auto. }
      destruct F as [F1 [F2 [F3 F4]]].
      split; [split; [|rewrite F3, F4; auto]|split; [split|discriminate]].
      + intros y oy Gy. rewrite HG in Gy. destruct (Nat.eqb_spec x y); [discriminate|]. apply SGo; auto.
      + intros y oy Hin Gy. rewrite F2 in Hin. rewrite HG in Gy.
        destruct (Nat.eqb_spec x y); [discriminate|]. apply Y1; auto. right; auto.
      + intros y oy Hin Gy. rewrite F1 in Hin. rewrite HG in Gy.
        destruct (Nat.eqb_spec x y); [discriminate|]. apply Y2; auto.
    - (* WhiteWeak: shell *)
      assert (HX : (live (with_live (with_col o White) false) = true -> R x) /\ (live (with_live (with_col o White) false) = false -> W x)).
      { cbn. split; [discriminate|intros _; apply YW; reflexivity]. }
      destruct (live o) eqn:L.
      + match goal with |- subgraph ?C2 /\ _ => destruct (KEEP C2 (with_live (with_col o White) false) eq_refl eq_refl (HGK C2 _ eq_refl) eq_refl eq_refl eq_refl eq_refl HX) as [A B] end.
        split; [exact A|split; [exact B|discriminate]].
      + match goal with |- subgraph ?C2 /\ _ => destruct (KEEP C2 (with_live (with_col o White) false) eq_refl eq_refl (HGK C2 _ eq_refl) eq_refl eq_refl eq_refl eq_refl HX) as [A B] end.
        split; [exact A|split; [exact B|discriminate]].
    - exfalso. eapply (i_gray_mark _ _ I); eauto; rewrite HS; discriminate.
    - (* Black: kept *)
      assert (HX : (live (with_col o White) = true -> R x) /\ (live (with_col o White) = false -> W x)).
      { cbn. split; [intros _; apply YB; reflexivity|]. intros L. rewrite (i_dark_live _ _ I x o G) in L by (rewrite C; right; auto). discriminate. }
      match goal with |- subgraph ?C2 /\ _ => destruct (KEEP C2 (with_col o White) eq_refl eq_refl (HGK C2 _ eq_refl) eq_refl eq_refl eq_refl eq_refl HX) as [A B] end.
      split; [exact A|split; [exact B|discriminate]].
  Qed.

  (** the invariant of a pure cycle *)
  Definition EI (c : ctx) : Prop :=
    subgraph c /\ (ph c = Mark -> EMark c) /\ (ph c = Sweep -> ESweep c).

  Definition Final (c : ctx) : Prop :=
    subgraph c /\ forall x o, get c x = Some o -> (live o = true -> R x) /\ (live o = false -> W x).

  Lemma subgraph_same_heap c c' : heap c' = heap c -> rootS c' = rootS c -> rootW c' = rootW c -> subgraph c -> subgraph c'.
  Proof. intros H RS RW [A [B C]]. unfold subgraph, get. rewrite H, RS, RW. auto. Qed.

  Lemma loop_exact dec fuel : forall hs c c' evs,
    Inv None c -> quiescent c -> ph c <> Sleep -> EI c ->
    loop dec fuel RunStop FinishCycle hs c None = (c', evs, Done) -> Final c'.
  Proof.
    induction fuel as [|n IH]; intros hs c c' evs I Q NS [SG [EMk ESw]] E; cbn [loop] in E; [discriminate|].
    destruct (loop_body FinishCycle hs c None) as [[[c1 ev1] k] f1] eqn:EB.
    destruct (loop_body_inv _ _ _ _ _ _ _ _ I Q EB) as [I1 [S1 _]].
    assert (Q1 : quiescent c1) by (eapply same_cb_quiescent; eauto).
    unfold loop_body in EB. destruct (ph c) eqn:P; [contradiction| |].
    - (* Mark *)
      destruct (mark_one c _) as [[c2 r] u] eqn:EM. change (mark_one c None = (c2, r, u)) in EM.
      pose proof (mark_one_em c c2 r u I Q P (conj SG (EMk eq_refl)) EM) as [SG2 EM2].
      pose proof (mark_one_ph _ _ _ _ _ EM) as P2.
      destruct r.
      + inversion EB; subst. destruct (loop dec n RunStop FinishCycle hs c1 None) as [[c3 ev3] r3] eqn:EL.
        inversion E; subst. eapply IH; eauto; [rewrite P2, P; discriminate|].
        split; [auto|split; [auto|intros PS; rewrite P2, P in PS; discriminate]].
      + destruct (mark_one_break _ _ _ _ _ EM eq_refl) as [-> GR]. cbn in EB. inversion EB; subst. clear EB.
        destruct (loop dec n RunStop FinishCycle hs (set_lists (set_ph c Sweep) [] (all c)) None) as [[c3 ev3] r3] eqn:EL.
        inversion E; subst. eapply IH; eauto; [cbn; discriminate|].
        split; [eapply subgraph_same_heap; eauto|split; [cbn; discriminate|]]. intros _.
        destruct EM2 as [D1 D2]. apply gray_remaining_false in GR. destruct GR as [G1 [G2 _]]. split.
        * intros x o Hin G. change (get (set_lists (set_ph c Sweep) [] (all c)) x) with (get c x) in G. split.
          -- intros B. eapply D1; eauto. rewrite B; right; auto.
          -- intros B. eapply D2; eauto.
        * cbn. intros x o [].
      + exfalso. eapply mark_one_no_panic; eauto.
    - (* Sweep *)
      cbn in EB. destruct (sweep_one c) as [[c2 evs2] r] eqn:ES.
      destruct (sweep_one_es _ _ _ _ I P SG (ESw eq_refl) ES) as [SG2 [ES2 BR]].
      pose proof (sweep_one_ph _ _ _ _ ES) as P2.
      destruct r.
      + inversion EB; subst. destruct (loop dec n RunStop FinishCycle hs c1 None) as [[c3 ev3] r3] eqn:EL.
        inversion E; subst. eapply IH; eauto; [rewrite P2, P; discriminate|].
        split; [auto|split; [intros PM; rewrite P2, P in PM; discriminate|auto]].
      + destruct (BR eq_refl) as [-> HU]. inversion EB; subst. inversion E; subst.
        split; [eapply subgraph_same_heap; eauto|].
        intros x o G. change (get (set_ph (set_rnt (set_met c (finish_cycle (met c) hs)) true) Sleep) x) with (get c x) in G.
        destruct ES2 as [_ Y2]. apply (Y2 x o); auto.
        assert (In x (all c)) by (apply (i_all _ _ I); eexists; eauto). unfold all in H. rewrite HU, app_nil_r in H. auto.
  Qed.
End Exact.

(** ** the exactness theorems *)
Lemma subgraph_refl c : subgraph c c.
Proof. split; auto. intros x o G. exists o. auto. Qed.

Lemma subgraph_reach_back c0 c x : subgraph c0 c -> reach c x -> reach c0 x.
Proof.
  intros [SG [RS RW]] H. induction H as [x Hx|p o x Hp IH G Hin].
  - apply reach_root. rewrite <- RS. auto.
  - destruct (SG p o G) as [o0 [G0 [S0 _]]]. eapply reach_step; eauto. rewrite <- S0. auto.
Qed.

(** A whole cycle started from Sleeping, with no mutation in between (one finish_cycle call):
    afterwards exactly the strongly reachable values are undestructed; every other allocation still
    present is the shell of a destructed object that a weak pointer of the root or of a reachable
    object refers to. *)
Theorem exact_cycle dec c c' evs oc :
  Inv None c -> quiescent c -> ph c = Sleep ->
  do_collection dec c RunStop FinishCycle None = (c', evs, oc) ->
  (forall x, (exists o, get c' x = Some o /\ live o = true) <-> reach c x)
  /\ (forall x o, get c' x = Some o -> live o = false -> wreach c x).
Proof.
  intros I Q P E.
  pose proof (do_collection_terminates dec c _ _ _ _ _ I Q E) as ->.
  destruct (do_collection_inv dec _ _ _ _ _ _ _ I Q E) as [I' [Q' [_ [_ RT]]]].
  assert (FIN : Final c c').
  { unfold do_collection in E. unfold collection_fuel in E.
    remember (4 * length (heap c) + 2 * (length (gray c) + length (gray_again c)) + 16) as fuel eqn:EF.
    destruct fuel as [|n]; [lia|]. cbn [loop] in E. unfold loop_body in E. rewrite P in E.
    destruct (loop dec n RunStop FinishCycle true (set_ph c Mark) None) as [[c3 ev3] r3] eqn:EL.
    inversion E; subst.
    eapply (loop_exact c dec n true (set_ph c Mark)); eauto.
    - apply inv_sleep_to_mark; auto.
    - cbn. discriminate.
    - split; [eapply subgraph_same_heap; [..|apply subgraph_refl]; reflexivity|]. split; [|cbn; discriminate].
      intros _. destruct (i_sleep _ _ I P) as [AW _]. split; intros x o G D.
      + change (get (set_ph c Mark) x) with (get c x) in G. rewrite (AW x o G) in D. destruct D; discriminate.
      + change (get (set_ph c Mark) x) with (get c x) in G. rewrite (AW x o G) in D. discriminate. }
  destruct FIN as [SG F]. split.
  - intros x. split.
    + intros [o [G L]]. apply (proj1 (F x o G) L).
    + intros HR. destruct (reach_ok _ _ I' (RT x HR)) as [o [G [L _]]]. eauto.
  - intros x o G L. apply (proj2 (F x o G) L).
Qed.


(** ** the graph only shrinks during collection, so reachability can be read back *)
Lemma subgraph_trans a b c : subgraph a b -> subgraph b c -> subgraph a c.
Proof.
  intros [A [RA WA]] [B [RB WB]]. split; [|split; congruence].
  intros x o G. destruct (B x o G) as [o1 [G1 [S1 W1]]]. destruct (A x o1 G1) as [o0 [G0 [S0 W0]]].
  exists o0. split; auto. split; congruence.
Qed.

Lemma sgraph_subgraph c c' : sgraph c c' -> rootS c' = rootS c -> rootW c' = rootW c -> subgraph c c'.
Proof.
  intros SG RS RW. split; auto. intros x o' G. specialize (SG x). rewrite G in SG.
  destruct (get c x) as [o|]; [|contradiction]. exists o. destruct SG as [A [B _]]. auto.
Qed.

Lemma sweep_one_subgraph c c' evs r : sweep_one c = (c', evs, r) -> subgraph c c'.
Proof.
  unfold sweep_one. destruct (unsw c) as [|x rest]; [intros E; inversion E; apply subgraph_refl|].
  destruct (get c x) as [o|] eqn:G; [|intros E; inversion E; subst; split; auto; intros y oy Gy; exists oy; auto].
  assert (K : forall c2 o', heap c2 = hset (heap c) x o' -> rootS c2 = rootS c -> rootW c2 = rootW c ->
              (forall o2, o' = Some o2 -> strong o2 = strong o /\ weak o2 = weak o) -> subgraph c c2).
  { intros c2 o' H RS RW HO. split; auto. intros y oy Gy. unfold get in Gy. rewrite H in Gy.
    destruct (Nat.eq_dec x y) as [->|N].
    - rewrite hget_hset_eq in Gy by (eapply hget_some_lt; apply G). destruct (HO oy Gy) as [A B]. exists o. auto.
    - rewrite hget_hset_neq in Gy by auto. exists oy. auto. }
  destruct (col o); intros E; inversion E; subst; clear E.
  - eapply (K _ None); [unfold free_total; destruct (N.eqb _ 0); destruct (live o); reflexivity|..];
      try (unfold free_total; destruct (N.eqb _ 0); destruct (live o); reflexivity). discriminate.
  - eapply (K _ (Some (with_live (with_col o White) false))); try (destruct (live o); reflexivity).
    intros o2 Eo. inversion Eo; subst. auto.
  - split; auto. intros y oy Gy. exists oy. auto.
  - eapply (K _ (Some (with_col o White))); try reflexivity. intros o2 Eo. inversion Eo; subst. auto.
Qed.

Lemma loop_body_subgraph st hs c f c1 evs k f' :
  Inv None c -> quiescent c -> loop_body st hs c f = (c1, evs, k, f') -> subgraph c c1.
Proof.
  intros I Q E. unfold loop_body in E. destruct (ph c) eqn:P.
  - inversion E; subst. eapply subgraph_same_heap; [..|apply subgraph_refl]; reflexivity.
  - destruct (mark_one c _) as [[c2 r] u] eqn:EM.
    destruct (mark_one_inv _ _ _ _ _ I Q P EM) as [_ [K2 [S2 B2]]].
    destruct K2 as [_ [_ [_ [RS [RW _]]]]].
    pose proof (sgraph_subgraph _ _ S2 RS RW) as SG.
    destruct r.
    + inversion E; subst; auto.
    + destruct (stop_le st FullyMarked); inversion E; subst; auto.
    + inversion E; subst; auto.
  - destruct (stop_le st AtSweep); [inversion E; subst; apply subgraph_refl|].
    destruct (sweep_one c) as [[c2 evs2] r] eqn:ES. pose proof (sweep_one_subgraph _ _ _ _ ES) as SG.
    destruct r; [inversion E; subst; auto|].
    assert (FIN : forall b, subgraph c (set_ph (set_rnt (set_met c2 (finish_cycle (met c2) b)) true) Sleep)).
    { intros b. eapply subgraph_trans; [exact SG|]. eapply subgraph_same_heap; [..|apply subgraph_refl]; reflexivity. }
    destruct st; [| |inversion E; subst; apply FIN|]; destruct hs; inversion E; subst; apply FIN.
Qed.

Lemma loop_subgraph dec fuel : forall ru st hs c f c' evs oc,
  Inv None c -> quiescent c -> loop dec fuel ru st hs c f = (c', evs, oc) -> subgraph c c'.
Proof.
  induction fuel as [|n IH]; intros ru st hs c f c' evs oc I Q E; cbn [loop] in E.
  - inversion E; subst. apply subgraph_refl.
  - destruct (loop_body st hs c f) as [[[c1 ev1] k] f1] eqn:EB.
    pose proof (loop_body_subgraph _ _ _ _ _ _ _ _ I Q EB) as SG.
    destruct (loop_body_inv _ _ _ _ _ _ _ _ I Q EB) as [I1 [S1 _]].
    assert (Q1 : quiescent c1) by (eapply same_cb_quiescent; eauto).
    destruct k; try (inversion E; subst; auto; fail).
    destruct ru.
    + destruct (dec c1); [|inversion E; subst; auto].
      destruct (loop dec n PayDebt st has_slept c1 f1) as [[c2 ev2] r] eqn:EL. inversion E; subst.
      eapply subgraph_trans; eauto.
    + destruct (loop dec n RunStop st has_slept c1 f1) as [[c2 ev2] r] eqn:EL. inversion E; subst.
      eapply subgraph_trans; eauto.
Qed.

Lemma do_collection_subgraph dec c ru st f c' evs oc :
  Inv None c -> quiescent c -> do_collection dec c ru st f = (c', evs, oc) -> subgraph c c'.
Proof.
  intros I Q E. unfold do_collection in E. destruct ru.
  - destruct (dec c); [eapply loop_subgraph; eauto|inversion E; subst; apply subgraph_refl].
  - eapply loop_subgraph; eauto.
Qed.

Lemma subgraph_wreach_back c0 c x : subgraph c0 c -> wreach c x -> wreach c0 x.
Proof.
  intros SG H. pose proof SG as [A [RS RW]]. destruct H as [x Hx|p o x Hp G Hin].
  - apply wreach_root. rewrite <- RW. auto.
  - destruct (A p o G) as [o0 [G0 [_ W0]]]. eapply wreach_obj; [eapply subgraph_reach_back; eauto|eauto|]. rewrite <- W0. auto.
Qed.

(** From ANY reachable arena state: two consecutive finish_cycle calls with no mutation in between
    leave exactly the strongly reachable values undestructed; whatever else is still allocated is a
    shell that a weak pointer of the root or of a reachable object refers to. *)
Theorem exact_two_cycles dec1 dec2 c c1 c2 e1 e2 o1 o2 :
  Inv None c -> quiescent c ->
  do_collection dec1 c RunStop FinishCycle None = (c1, e1, o1) ->
  do_collection dec2 c1 RunStop FinishCycle None = (c2, e2, o2) ->
  (forall x, (exists o, get c2 x = Some o /\ live o = true) <-> reach c x)
  /\ (forall x o, get c2 x = Some o -> live o = false -> wreach c x).
Proof.
  intros I Q E1 E2.
  destruct (do_collection_inv dec1 _ _ _ _ _ _ _ I Q E1) as [I1 [Q1 [_ [_ RT1]]]].
  pose proof (do_collection_subgraph dec1 _ _ _ _ _ _ _ I Q E1) as SG1.
  assert (P1 : ph c1 = Sleep).
  { pose proof (do_collection_terminates dec1 c _ _ _ _ _ I Q E1) as ->.
    unfold do_collection in E1. eapply loop_finish_cycle; eauto. }
  destruct (exact_cycle dec2 c1 c2 e2 o2 I1 Q1 P1 E2) as [A B]. split.
  - intros x. rewrite A. split; [apply subgraph_reach_back; auto|apply RT1].
  - intros x o G L. eapply subgraph_wreach_back; eauto.
Qed.
