(** * Work credits (C09), part 2: the marking-phase primitives keep the counting invariant. *)
From GA Require Import Model.Spec Proofs.HeapLemmas Proofs.Inv Proofs.Recolor Proofs.InvMicro Proofs.InvStore
     Proofs.InvMark Proofs.InvSweep Proofs.MInv.
From GA Require Import Proofs.Credit.
Local Open Scope nat_scope.

Lemma cinv_mark_intro c' :
  ph c' = Mark ->
  marked (met c') = N.of_nat (cntP is_nonwhite c' (all c')) ->
  (traced (met c') <= N.of_nat (cntP is_black c' (all c')))%N ->
  dropped (met c') = 0%N -> freed (met c') = 0%N -> remembered (met c') = 0%N -> CInv c'.
Proof.
  intros P M T D F R. constructor; intros PP; rewrite P in PP; try discriminate. auto.
Qed.

(** a recolouring during marking, with its effect on [marked] / [traced] *)
Lemma cinv_recol_mark e c c' x o k :
  Inv e c -> CInv c -> ph c = Mark -> recol c c' x o k ->
  dropped (met c') = dropped (met c) -> freed (met c') = freed (met c) -> remembered (met c') = remembered (met c) ->
  (marked (met c') + N.of_nat (b2n (is_nonwhite (col o))) = marked (met c) + N.of_nat (b2n (is_nonwhite k)))%N ->
  (traced (met c') + N.of_nat (b2n (is_black (col o))) <= traced (met c) + N.of_nat (b2n (is_black k)))%N ->
  CInv c'.
Proof.
  intros I C HM R ED EF ER EMk ET. destruct (ci_mark _ C HM) as [M [T [D [F Rm]]]].
  assert (Hin : In x (all c)) by (apply (i_all _ _ I); exists o; apply (rc_get _ _ _ _ _ R)).
  pose proof (cntP_recol_in is_nonwhite c c' x o k (all c) (i_nodup _ _ I) Hin R) as NW.
  pose proof (cntP_recol_in is_black c c' x o k (all c) (i_nodup _ _ I) Hin R) as NB.
  apply cinv_mark_intro; rewrite ?(recol_all _ _ _ _ _ R); try congruence.
  - rewrite (rc_ph _ _ _ _ _ R). auto.
  - lia.
  - lia.
Qed.

Lemma trace_cinv e c t o : Inv e c -> CInv c -> ph c = Mark -> get c t = Some o -> CInv (trace c t).
Proof.
  intros I C HM G. unfold trace. rewrite G.
  destruct (col o) eqn:CO; auto.
  - (* White *)
    destruct (ntr o).
    + eapply (cinv_recol_mark e c _ t o Gray I C HM);
        [exact (recol_set_met _ _ _ _ _ (mark_gc_marked (met (set_gray (recolor c t Gray) (t :: gray c)))) (recol_set_gray _ _ _ _ _ (t :: gray c) (recol_recolor c t o Gray G)))|..];
        cbn; unfold recolor; rewrite G; cbn; rewrite ?CO; cbn; lia.
    + eapply (cinv_recol_mark e c _ t o Black I C HM);
        [exact (recol_set_met _ _ _ _ _ (mark_gc_marked (met (recolor c t Black))) (recol_recolor c t o Black G))|..];
        cbn; unfold recolor; rewrite G; cbn; rewrite ?CO; cbn; lia.
  - (* WhiteWeak *)
    destruct (ntr o).
    + eapply (cinv_recol_mark e c _ t o Gray I C HM);
        [exact (recol_set_gray _ _ _ _ _ (t :: gray c) (recol_recolor c t o Gray G))|..];
        cbn; unfold recolor; rewrite G; cbn; rewrite ?CO; cbn; lia.
    + eapply (cinv_recol_mark e c _ t o Black I C HM);
        [exact (recol_recolor c t o Black G)|..];
        cbn; unfold recolor; rewrite G; cbn; rewrite ?CO; cbn; lia.
Qed.

Lemma trace_weak_cinv e c t o : Inv e c -> CInv c -> ph c = Mark -> get c t = Some o -> CInv (trace_weak c t).
Proof.
  intros I C HM G. unfold trace_weak. rewrite G. destruct (col o) eqn:CO; auto.
  eapply (cinv_recol_mark e c _ t o WhiteWeak I C HM);
    [exact (recol_set_met _ _ _ _ _ (mark_gc_marked (met (recolor c t WhiteWeak))) (recol_recolor c t o WhiteWeak G))|..];
    cbn; unfold recolor; rewrite G; cbn; rewrite ?CO; cbn; lia.
Qed.

Lemma make_gray_again_cinv e c p o :
  Inv e c -> CInv c -> ph c = Mark -> get c p = Some o -> col o = Black -> CInv (make_gray_again c p).
Proof.
  intros I C HM G B. destruct (ci_mark _ C HM) as [M [T [D [F Rm]]]].
  assert (Hin : In p (all c)) by (apply (i_all _ _ I); exists o; exact G).
  set (c1 := set_gray_again (recolor c p Gray) (p :: gray_again (recolor c p Gray))).
  assert (ET : met c1 = met c) by (unfold c1; cbn; unfold recolor; rewrite G; reflexivity).
  assert (R0 : recol c c1 p o Gray) by (apply recol_set_gray_again, recol_recolor; auto).
  assert (FIN : forall c', recol c c' p o Gray -> met c' = mark_gc_untraced (met c) -> CInv c').
  { intros c' R EM.
    pose proof (cntP_recol_in is_nonwhite c c' p o Gray (all c) (i_nodup _ _ I) Hin R) as NW.
    pose proof (cntP_recol_in is_black c c' p o Gray (all c) (i_nodup _ _ I) Hin R) as NB.
    rewrite B in NW, NB. cbn in NW, NB.
    apply cinv_mark_intro; rewrite ?(recol_all _ _ _ _ _ R), ?EM; cbn [marked traced dropped freed remembered mark_gc_untraced]; auto.
    - rewrite (rc_ph _ _ _ _ _ R). auto.
    - rewrite M. f_equal. lia.
    - lia. }
  unfold make_gray_again. fold c1. destruct (N.eqb (traced (met c1)) 0).
  - apply FIN; [exact (recol_set_met _ _ _ _ _ _ (recol_set_uflow _ _ _ _ _ true R0))|cbn [met set_met set_uflow]; rewrite ET; reflexivity].
  - apply FIN; [exact (recol_set_met _ _ _ _ _ _ R0)|cbn [met set_met]; rewrite ET; reflexivity].
Qed.

Lemma resurrect_cinv c x o : Inv None c -> CInv c -> ph c = Mark -> get c x = Some o -> CInv (resurrect c x).
Proof.
  intros I C HM G. unfold resurrect. rewrite G. destruct (is_whiteish (col o)) eqn:W; auto.
  destruct (col o) eqn:CO; try discriminate.
  - eapply (cinv_recol_mark None c _ x o Gray I C HM);
      [exact (recol_set_met _ _ _ _ _ (mark_gc_marked (met (set_gray (recolor c x Gray) (x :: gray c)))) (recol_set_gray _ _ _ _ _ (x :: gray c) (recol_recolor c x o Gray G)))|..];
      cbn; unfold recolor; rewrite G; cbn; rewrite ?CO; cbn; lia.
  - eapply (cinv_recol_mark None c _ x o Gray I C HM);
      [exact (recol_set_gray _ _ _ _ _ (x :: gray c) (recol_recolor c x o Gray G))|..];
      cbn; unfold recolor; rewrite G; cbn; rewrite ?CO; cbn; lia.
Qed.
