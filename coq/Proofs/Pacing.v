(** * Debt-driven calls pay their debt or stop at their documented phase (C09, exit conditions). *)
From Coq Require Import Lqa.
From GA Require Import Model.Spec Proofs.HeapLemmas Proofs.Inv Proofs.InvMark Proofs.Phases Proofs.MetricsLemmas.
Local Open Scope nat_scope.

Lemma debt_pos_reset m : debt_pos (finish_cycle m true) = false.
Proof.
  unfold debt_pos, Qpos_b. pose proof (finish_cycle_reset_zero m) as H.
  destruct (Qle_bool (allocation_debt (finish_cycle m true)) 0) eqn:E; auto.
  exfalso. assert (~ (allocation_debt (finish_cycle m true) <= 0)%Q) by (rewrite <- Qle_bool_iff; congruence).
  apply H0. rewrite H. apply Qle_refl.
Qed.

(** the only way the loop breaks with stop = Full is the end of an atomic full cycle, right after
    the debt-resetting roll-over *)
Lemma loop_body_full_break hs c f c1 evs f' :
  loop_body Full hs c f = (c1, evs, CBreak, f') ->
  exists c2, c1 = set_ph (set_rnt (set_met c2 (finish_cycle (met c2) true)) true) Sleep.
Proof.
  unfold loop_body. destruct (ph c).
  - intros E; inversion E.
  - destruct (mark_one c _) as [[c2 r] u]. destruct r; cbn; intros E; inversion E.
  - cbn. destruct (sweep_one c) as [[c2 evs2] r]. destruct r; [intros E; inversion E|].
    destruct hs; intros E; inversion E; subst. eauto.
Qed.

Lemma loop_body_no_return st hs c f c1 evs f' :
  st <> FinishCycle -> loop_body st hs c f = (c1, evs, CReturn, f') -> False.
Proof.
  intros NS E. destruct (loop_body_ph _ _ _ _ _ _ _ _ E) as [_ [_ [_ [_ H]]]]. destruct (H eq_refl). auto.
Qed.

(** collect_debt: a call that completes returns with zero allocation debt *)
Lemma loop_collect_debt fuel : forall hs c f c' evs,
  loop dec_debt fuel PayDebt Full hs c f = (c', evs, Done) -> dec_debt c' = false.
Proof.
  induction fuel as [|n IH]; intros hs c f c' evs E; cbn [loop] in E; [discriminate|].
  destruct (loop_body Full hs c f) as [[[c1 ev1] k] f1] eqn:EB.
  destruct k.
  - destruct (dec_debt c1) eqn:D.
    + destruct (loop dec_debt n PayDebt Full has_slept c1 f1) as [[c2 ev2] r] eqn:EL. inversion E; subst. eapply IH; eauto.
    + inversion E; subst. auto.
  - inversion E; subst. destruct (loop_body_full_break _ _ _ _ _ _ EB) as [c2 ->].
    unfold dec_debt. cbn. apply debt_pos_reset.
  - exfalso. eapply loop_body_no_return; eauto. discriminate.
  - discriminate.
Qed.

Theorem collect_debt_zero c f c' evs :
  do_collection dec_debt c PayDebt Full f = (c', evs, Done) -> debt_pos (met c') = false.
Proof.
  unfold do_collection. destruct (dec_debt c) eqn:D.
  - apply loop_collect_debt.
  - intros E; inversion E; subst. exact D.
Qed.

(** cycle_debt: zero debt, or the cycle just finished (Sleeping) *)
Lemma loop_cycle_debt fuel : forall hs c f c' evs,
  loop dec_debt fuel PayDebt FinishCycle hs c f = (c', evs, Done) -> dec_debt c' = false \/ ph c' = Sleep.
Proof.
  induction fuel as [|n IH]; intros hs c f c' evs E; cbn [loop] in E; [discriminate|].
  destruct (loop_body FinishCycle hs c f) as [[[c1 ev1] k] f1] eqn:EB.
  destruct (loop_body_ph _ _ _ _ _ _ _ _ EB) as [H1 [H2 [H3 [H4 H5]]]].
  destruct k.
  - destruct (dec_debt c1) eqn:D.
    + destruct (loop dec_debt n PayDebt FinishCycle has_slept c1 f1) as [[c2 ev2] r] eqn:EL. inversion E; subst. eapply IH; eauto.
    + inversion E; subst. auto.
  - inversion E; subst. destruct (ph c) eqn:P.
    + destruct (H1 eq_refl) as [_ A]. discriminate.
    + destruct (H3 eq_refl eq_refl) as [_ [_ A]]. discriminate.
    + destruct (H4 eq_refl) as [[_ A]|[_ [_ A]]].
      * destruct (A eq_refl) as [_ B]. discriminate.
      * specialize (A eq_refl). discriminate.
  - inversion E; subst. right. destruct (H5 eq_refl); auto.
  - discriminate.
Qed.

Theorem cycle_debt_exit c f c' evs :
  do_collection dec_debt c PayDebt FinishCycle f = (c', evs, Done) -> debt_pos (met c') = false \/ ph c' = Sleep.
Proof.
  unfold do_collection. destruct (dec_debt c) eqn:D.
  - apply loop_cycle_debt.
  - intros E; inversion E; subst. left. exact D.
Qed.

(** mark_debt: zero debt, or Marked, or it was Sweeping all along (and did nothing) *)
Lemma loop_mark_debt fuel : forall hs c f c' evs,
  loop dec_debt fuel PayDebt FullyMarked hs c f = (c', evs, Done) ->
  dec_debt c' = false \/ is_marked c' = true \/ ph c' = Sweep.
Proof.
  induction fuel as [|n IH]; intros hs c f c' evs E; cbn [loop] in E; [discriminate|].
  destruct (loop_body FullyMarked hs c f) as [[[c1 ev1] k] f1] eqn:EB.
  destruct (loop_body_ph _ _ _ _ _ _ _ _ EB) as [H1 [H2 [H3 [H4 H5]]]].
  destruct k.
  - destruct (dec_debt c1) eqn:D.
    + destruct (loop dec_debt n PayDebt FullyMarked has_slept c1 f1) as [[c2 ev2] r] eqn:EL. inversion E; subst. eapply IH; eauto.
    + inversion E; subst. auto.
  - inversion E; subst. destruct (ph c) eqn:P.
    + destruct (H1 eq_refl) as [_ A]. discriminate.
    + destruct (H3 eq_refl eq_refl) as [-> [GR _]]. right. left. unfold is_marked. rewrite P, GR. reflexivity.
    + destruct (H4 eq_refl) as [[A _]|[A [B _]]]; [auto|discriminate].
  - destruct (H5 eq_refl) as [_ A]. discriminate.
  - discriminate.
Qed.

Theorem mark_debt_exit c f c' evs :
  do_collection dec_debt c PayDebt FullyMarked f = (c', evs, Done) ->
  debt_pos (met c') = false \/ is_marked c' = true \/ ph c' = Sweep.
Proof.
  unfold do_collection. destruct (dec_debt c) eqn:D.
  - apply loop_mark_debt.
  - intros E; inversion E; subst. left. exact D.
Qed.

(** stop-the-world: with all work factors zero the credits are zero, so a positive debt stays
    positive until a roll-over *)
Lemma stw_credits_zero m :
  mark_f (pac m) = 0%Q -> trace_f (pac m) = 0%Q -> keep_f (pac m) = 0%Q -> drop_f (pac m) = 0%Q -> free_f (pac m) = 0%Q ->
  (cycle_credits m == 0)%Q.
Proof. intros A B C D E. unfold cycle_credits. rewrite A, B, C, D, E. ring. Qed.
