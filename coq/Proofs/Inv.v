(** * The collector invariant (DESIGN section 2.5), on the list-level model. *)
From GA Require Import Model.Spec Proofs.HeapLemmas.
Local Open Scope nat_scope.

Definition allocated (c : ctx) (x : id) : Prop := exists o, get c x = Some o.
Definition dark (k : color) : Prop := k = Gray \/ k = Black.

(** condemned: in the not-yet-swept part of the list and unmarked (its value will be destructed by
    the running sweep); doomed: additionally not even weakly marked (its block will be released). *)
Definition condemned (c : ctx) (x : id) : Prop :=
  In x (unsw c) /\ exists o, get c x = Some o /\ is_whiteish (col o) = true.
Definition doomed (c : ctx) (x : id) : Prop :=
  In x (unsw c) /\ exists o, get c x = Some o /\ col o = White.

Definition ok_strong (c : ctx) (t : id) : Prop :=
  exists o, get c t = Some o /\ live o = true /\ ~ condemned c t.
Definition ok_weak (c : ctx) (t : id) : Prop :=
  allocated c t /\ ~ doomed c t.

Definition tstrong (c : ctx) (t : id) : Prop := exists o, get c t = Some o /\ dark (col o).
Definition tweak (c : ctx) (t : id) : Prop := exists o, get c t = Some o /\ col o <> White.

Definition slots_ok (c : ctx) (s w : list (option id)) : Prop :=
  (forall t, In (Some t) s -> ok_strong c t) /\ (forall t, In (Some t) w -> ok_weak c t).
Definition slots_marked (c : ctx) (s w : list (option id)) : Prop :=
  (forall t, In (Some t) s -> tstrong c t) /\ (forall t, In (Some t) w -> tweak c t).

Definition unblack (c : ctx) (p : id) : Prop :=
  forall o, get c p = Some o -> ~ (col o = Black /\ ntr o = true).

Definition lic_ok (c : ctx) (l : licence) : Prop :=
  ph c = Mark ->
  match l with
  | LParent p => unblack c p
  | LChild x => tstrong c x
  | LChildW x => tweak c x
  | LPair p x => unblack c p \/ tstrong c x
  | LPairW p x => unblack c p \/ tweak c x
  end.

(** [e]: an object currently being traced by [mark_one] (black, edges not all reported yet) is
    exempt from the tri-colour clause. [Inv None] is the invariant proper. *)
Record Inv (e : option id) (c : ctx) : Prop := mkInv {
  i_nodup : NoDup (all c);
  i_all : forall x, In x (all c) <-> allocated c x;
  i_unsw : ph c <> Sweep -> unsw c = [];
  i_sleep : ph c = Sleep ->
            (forall x o, get c x = Some o -> col o = White)
            /\ gray c = [] /\ gray_again c = [] /\ rnt c = true;
  i_gray : forall x, In x (gray c ++ gray_again c) <-> (exists o, get c x = Some o /\ col o = Gray);
  i_gray_nd : NoDup (gray c ++ gray_again c);
  i_gray_mark : ph c <> Mark -> forall x o, get c x = Some o -> col o <> Gray;
  i_ww_mark : ph c = Sleep -> True;
  i_dark_live : forall x o, get c x = Some o -> dark (col o) -> live o = true;
  i_ntr : forall x o, get c x = Some o -> ntr o = false -> strong o = [] /\ weak o = [];
  i_pre_white : ph c = Sweep -> forall x o, In x (pre c) -> get c x = Some o -> col o = White;
  i_obj : forall p o, get c p = Some o -> live o = true -> ~ condemned c p ->
                      slots_ok c (strong o) (weak o);
  i_root : slots_ok c (rootS c) (rootW c);
  i_regs : slots_ok c (regs c) (wregs c);
  i_tri : ph c = Mark -> forall p o, get c p = Some o -> col o = Black -> Some p <> e ->
                                     slots_marked c (strong o) (weak o);
  i_tri_root : ph c = Mark -> rnt c = false -> slots_marked c (rootS c) (rootW c);
  i_lics : Forall (lic_ok c) (lics c);
  i_ub : ub c = false
}.

(** A collection call may only run between callbacks: no callback-local pointers or licences. *)
Definition quiescent (c : ctx) : Prop :=
  (forall t, ~ In (Some t) (regs c)) /\ (forall t, ~ In (Some t) (wregs c)) /\ lics c = [].

Lemma in_repeat_none {A} n (t : A) : ~ In (Some t) (repeat None n).
Proof. intros H. apply repeat_spec in H. discriminate. Qed.

Lemma get_ctx_new x : get ctx_new x = None.
Proof. unfold get, ctx_new, hget. cbn. destruct x; reflexivity. Qed.

Lemma inv_init : Inv None ctx_new.
Proof.
  constructor; cbn; try (intros; exact I).
  - constructor.
  - intros x. split; [tauto|]. intros [o H]. rewrite get_ctx_new in H. discriminate.
  - reflexivity.
  - intros _. repeat split; auto. intros x o H. rewrite get_ctx_new in H. discriminate.
  - intros x. split; [tauto|]. intros [o [H _]]. rewrite get_ctx_new in H. discriminate.
  - constructor.
  - intros _ x o H. rewrite get_ctx_new in H. discriminate.
  - intros x o H. rewrite get_ctx_new in H. discriminate.
  - intros x o H. rewrite get_ctx_new in H. discriminate.
  - discriminate.
  - intros p o H. rewrite get_ctx_new in H. discriminate.
  - split; intros t H; apply (in_repeat_none NROOT) in H; contradiction.
  - split; intros t H; apply (in_repeat_none NREGS) in H; contradiction.
  - discriminate.
  - discriminate.
  - constructor.
  - reflexivity.
Qed.

Lemma quiescent_new : quiescent ctx_new.
Proof.
  repeat split; cbn; try reflexivity; intros t H; apply (in_repeat_none NREGS) in H; contradiction.
Qed.

(** In [Mark] (and [Sleep]) nothing is condemned or doomed. *)
Lemma not_condemned_nosweep e c x : Inv e c -> ph c <> Sweep -> ~ condemned c x.
Proof. intros I H [Hin _]. rewrite (i_unsw _ _ I H) in Hin. contradiction. Qed.

Lemma not_doomed_nosweep e c x : Inv e c -> ph c <> Sweep -> ~ doomed c x.
Proof. intros I H [Hin _]. rewrite (i_unsw _ _ I H) in Hin. contradiction. Qed.

Lemma doomed_condemned c x : doomed c x -> condemned c x.
Proof. intros [H [o [G C]]]. split; auto. exists o. split; auto. rewrite C. reflexivity. Qed.

Lemma ok_strong_weak c t : ok_strong c t -> ok_weak c t.
Proof.
  intros [o [G [L N]]]. split; [exists o; auto|]. intros D. apply N. apply doomed_condemned; auto.
Qed.

Lemma inv_weaken e c : Inv None c -> Inv e c.
Proof.
  intros I. destruct I. constructor; auto. intros HM p o G B _. eapply i_tri0; eauto. discriminate.
Qed.
