(** * World-level consequences of the invariant: the statements behind C01, C03, C05, C11. *)
From GA Require Import Model.Spec Proofs.HeapLemmas Proofs.Inv Proofs.Recolor Proofs.InvMicro Proofs.InvStore
     Proofs.InvMark Proofs.InvSweep Proofs.InvLoop Proofs.InvBarrier Proofs.InvOps Proofs.InvMicroOps Proofs.InvWorld.
Local Open Scope nat_scope.

Definition mentions (e : event) (x : id) : Prop := e = EvDrop x \/ e = EvFree x.

Lemma mentions_ev_id e x : mentions e x -> ev_id e = x.
Proof. intros [-> | ->]; reflexivity. Qed.

(** every arena of every reachable world satisfies the invariant *)
Lemma reachable_inv ops a ar :
  get_arena (run world_init ops) a = Some ar -> Inv None (actx ar).
Proof. intros H. exact (proj1 (winv_reachable ops a ar H)). Qed.

Lemma reachable_quiescent ops a ar :
  cur (run world_init ops) = None -> get_arena (run world_init ops) a = Some ar -> quiescent (actx ar).
Proof.
  intros C H. pose proof (winv_reachable ops a ar H) as [_ Q]. unfold active in Q. rewrite C in Q. exact Q.
Qed.

(** ** C01: collection never destructs or releases a strongly reachable object; reachable objects
    stay allocated, undestructed and reachable. *)
Theorem collect_safe ops a how fault ar w' r :
  let w := run world_init ops in
  get_arena w a = Some ar -> step w (OCollect a how fault) = (w', r) ->
  (forall ev x, In ev (r_events r) -> mentions ev x -> ~ reach (actx ar) x)
  /\ (forall t, reach (actx ar) t ->
        exists ar', get_arena w' a = Some ar' /\ reach (actx ar') t
                    /\ exists o, get (actx ar') t = Some o /\ live o = true).
Proof.
  intros w GA ST. cbn [step] in ST.
  assert (KEEP : (w', r) = (w, mkResult SKIP []) ->
      (forall ev x, In ev (r_events r) -> mentions ev x -> ~ reach (actx ar) x)
      /\ (forall t, reach (actx ar) t -> exists ar', get_arena w' a = Some ar' /\ reach (actx ar') t
                    /\ exists o, get (actx ar') t = Some o /\ live o = true)).
  { intros E. inversion E; subst. split; [intros ev x []|]. intros t R. exists ar. split; auto. split; auto.
    apply ok_strong_get. apply reach_ok; auto. eapply reachable_inv; eauto. }
  destruct (cur w) as [[[a' k'] e']|] eqn:CU; [apply KEEP; auto|].
  fold w in GA. rewrite GA in ST.
  destruct (how_params how) as [ru st].
  destruct (do_collection dec_debt (actx ar) ru st fault) as [[c1 evs] oc] eqn:DC.
  inversion ST; subst; clear ST. cbn [r_events].
  pose proof (reachable_inv ops a ar GA) as I.
  pose proof (reachable_quiescent ops a ar CU GA) as Q.
  destruct (do_collection_inv _ _ _ _ _ _ _ _ I Q DC) as [I1 [Q1 [_ [EV RT]]]].
  split.
  - intros ev x Hin M. rewrite <- (mentions_ev_id _ _ M). auto.
  - intros t R. exists (mkArena c1 (auid ar) (asets ar)). split.
    + rewrite get_arena_put by (eapply get_arena_lt; eauto). rewrite Nat.eqb_refl. reflexivity.
    + cbn [actx]. split; auto. apply ok_strong_get. apply reach_ok; auto.
Qed.

Theorem no_dangling ops a ar :
  get_arena (run world_init ops) a = Some ar -> ub (actx ar) = false.
Proof. intros H. exact (i_ub _ _ (reachable_inv ops a ar H)). Qed.

Theorem reachable_is_live ops a ar t :
  get_arena (run world_init ops) a = Some ar -> reach (actx ar) t ->
  exists o, get (actx ar) t = Some o /\ live o = true.
Proof. intros H R. apply ok_strong_get. apply reach_ok; auto. eapply reachable_inv; eauto. Qed.

(** ** C03: nothing is destructed or released while a callback runs *)
Definition destroying (w : world) (o : op) : bool :=
  match o, cur w with
  | OPanic, Some (_, (CNew | CTryNew | CMapRoot | CTryMapRoot), _) => true
  | OEndErr, Some (_, (CTryNew | CTryMapRoot), _) => true
  | _, _ => false
  end.

Definition callback_op (o : op) : bool :=
  match o with OBegin _ _ | OMicro _ | OEnd | OEndErr | OPanic => true | _ => false end.

Theorem callback_no_events ops o w' r :
  let w := run world_init ops in
  callback_op o = true -> destroying w o = false -> step w o = (w', r) -> r_events r = [].
Proof.
  intros w CO ND ST. destruct o; try discriminate; cbn [step] in ST.
  - (* OBegin *)
    destruct (cur w) as [[[a' k'] e']|] eqn:CU; [inversion ST; auto|].
    destruct k.
    + destruct (nth_error (arenas w) a) as [[?|]|]; inversion ST; auto.
    + destruct (nth_error (arenas w) a) as [[?|]|]; inversion ST; auto.
    + destruct (get_arena w a); inversion ST; auto.
    + destruct (get_arena w a); inversion ST; auto.
    + destruct (get_arena w a); inversion ST; auto.
    + destruct (get_arena w a); inversion ST; auto.
    + destruct (get_arena w a) as [ar|]; [|inversion ST; auto].
      destruct (do_collection dec_debt (actx ar) _ FullyMarked None) as [[c1 evs] oc] eqn:DC.
      inversion ST; subst. cbn. eapply do_collection_mark_no_events; eauto.
  - destruct (cur w) as [[[a k] [|]]|]; try (inversion ST; auto; fail).
    destruct (get_arena w a) as [ar|]; [|inversion ST; auto].
    destruct (micro w ar k m) as [[ar' hs] out]. inversion ST; auto.
  - destruct (cur w) as [[[a k] e]|]; [|inversion ST; auto].
    destruct (get_arena w a) as [ar|]; [|inversion ST; auto]. inversion ST; auto.
  - unfold destroying in ND. destruct (cur w) as [[[a k] e]|]; [|inversion ST; auto].
    destruct (get_arena w a) as [ar|]; [|inversion ST; auto].
    destruct k; try discriminate; inversion ST; auto.
  - unfold destroying in ND. destruct (cur w) as [[[a k] e]|]; [|inversion ST; auto].
    destruct (get_arena w a) as [ar|]; [|inversion ST; auto].
    destruct k; try discriminate; inversion ST; auto.
Qed.

(** ** C05: weak pointers *)
Lemma in_all_cases c x : In x (all c) -> In x (pre c) \/ In x (unsw c).
Proof. unfold all. rewrite in_app_iff. auto. Qed.

Theorem upgrade_sound c x :
  Inv None c -> ok_weak c x -> snd (upgrade c x) = true ->
  (exists o, get c x = Some o /\ live o = true) /\ ~ condemned c x.
Proof.
  intros I W H. destruct (upgrade_ok c x I W H) as [[o [G [L N]]] _]. split; eauto.
Qed.

Theorem upgrade_complete c x : Inv None c -> reach c x -> snd (upgrade c x) = true.
Proof.
  intros I R. destruct (reach_ok _ _ I R) as [o [G [L N]]]. unfold upgrade. rewrite G, L. cbn.
  destruct (phase_eqb (ph c) Sweep && color_eqb (col o) WhiteWeak) eqn:T; auto.
  exfalso. apply andb_true_iff in T. destruct T as [T1 T2]. apply phase_eqb_eq in T1. apply color_eqb_eq in T2.
  assert (A : In x (all c)) by (apply (i_all _ _ I); eexists; eauto).
  apply in_all_cases in A. destruct A as [A|A].
  - rewrite (i_pre_white _ _ I T1 x o A G) in T2. discriminate.
  - apply N. split; auto. exists o. rewrite T2. auto.
Qed.

Theorem upgrade_fail_reason c x o :
  get c x = Some o -> snd (upgrade c x) = false ->
  live o = false \/ (ph c = Sweep /\ col o = WhiteWeak).
Proof.
  intros G H. unfold upgrade in H. rewrite G in H. destruct (live o); cbn in H; auto.
  destruct (phase_eqb (ph c) Sweep && color_eqb (col o) WhiteWeak) eqn:T; [|discriminate].
  right. apply andb_true_iff in T. destruct T as [T1 T2]. apply phase_eqb_eq in T1. apply color_eqb_eq in T2. auto.
Qed.

(** a weak pointer held by a reachable object (or the root) can always be queried *)
Theorem weak_query_safe c x : Inv None c -> wreach c x -> allocated c x.
Proof.
  intros I H. destruct H as [x Hx|p o x Hp G Hin].
  - apply (i_root _ _ I); auto.
  - destruct (reach_ok _ _ I Hp) as [op [Gp [L N]]]. rewrite G in Gp. inversion Gp; subst.
    apply (i_obj _ _ I p op G L N); auto.
Qed.
