(** * [Inv] through Context::mark_one (including the DropGuard path of a panicking trace). *)
From GA Require Import Model.Spec Proofs.HeapLemmas Proofs.Inv Proofs.Recolor Proofs.InvMicro Proofs.InvStore.
Local Open Scope nat_scope.

Definition edge_ok (c : ctx) (e : edge) : Prop :=
  match e with
  | Strong t => exists o, get c t = Some o /\ live o = true
  | Weak t => allocated c t
  end.

Definition edge_marked (c : ctx) (e : edge) : Prop :=
  match e with Strong t => tstrong c t | Weak t => tweak c t end.

Lemma mono_edge_ok c c' e : mono c c' -> edge_ok c e -> edge_ok c' e.
Proof.
  intros M H. destruct e as [t|t]; cbn in *.
  - destruct H as [o [G L]]. destruct (mono_get _ _ _ _ M G) as [o' [G' [_ [_ [L' _]]]]]. exists o'. split; auto. congruence.
  - destruct H as [o G]. destruct (mono_get _ _ _ _ M G) as [o' [G' _]]. exists o'; auto.
Qed.

Lemma mono_edge_marked c c' e : mono c c' -> edge_marked c e -> edge_marked c' e.
Proof. intros M H. destruct e; cbn in *; [eapply mono_tstrong|eapply mono_tweak]; eauto. Qed.

Lemma trace_edge_inv e c ed :
  Inv e c -> ph c = Mark -> edge_ok c ed ->
  Inv e (trace_edge c ed) /\ edge_marked (trace_edge c ed) ed /\ mono c (trace_edge c ed) /\ frame c (trace_edge c ed).
Proof.
  intros I HM H. destruct ed as [t|t]; cbn in *.
  - destruct H as [o [G L]]. eapply trace_inv; eauto.
  - destruct H as [o G]. eapply trace_weak_inv; eauto.
Qed.

Lemma trace_edges_inv es : forall e c,
  Inv e c -> ph c = Mark -> Forall (edge_ok c) es ->
  Inv e (trace_edges c es) /\ Forall (edge_marked (trace_edges c es)) es
  /\ mono c (trace_edges c es) /\ frame c (trace_edges c es).
Proof.
  induction es as [|ed es IH]; intros e c I HM F.
  - cbn. split; [auto|split; [constructor|split; [apply mono_refl|apply frame_refl]]].
  - inversion F as [|? ? Hd Tl]; subst. cbn [trace_edges fold_left].
    destruct (trace_edge_inv e c ed I HM Hd) as [I1 [M1 [Mo1 Fr1]]].
    assert (HM1 : ph (trace_edge c ed) = Mark) by (rewrite (f_ph _ _ Fr1); auto).
    assert (F1 : Forall (edge_ok (trace_edge c ed)) es).
    { eapply Forall_impl; [|exact Tl]. intros a. apply mono_edge_ok; auto. }
    destruct (IH e _ I1 HM1 F1) as [I2 [M2 [Mo2 Fr2]]].
    change (fold_left trace_edge es (trace_edge c ed)) with (trace_edges (trace_edge c ed) es).
    split; [exact I2|split; [|split]].
    + constructor; auto. eapply mono_edge_marked; eauto.
    + eapply mono_trans; eauto.
    + eapply frame_trans; eauto.
Qed.

(** edges of a safe source are ok to trace (no collection is sweeping during Mark) *)
Lemma slots_ok_edges e c s w :
  Inv e c -> ph c = Mark -> slots_ok c s w -> Forall (edge_ok c) (edges_of s w).
Proof.
  intros I HM [S W]. apply Forall_forall. intros ed H. unfold edges_of in H.
  rewrite in_app_iff, !in_map_iff in H. destruct H as [[t [E Ht]]|[t [E Ht]]]; subst; cbn.
  - apply in_somes in Ht. destruct (S _ Ht) as [o [G [L _]]]. eauto.
  - apply in_somes in Ht. destruct (W _ Ht) as [A _]. auto.
Qed.

Lemma edges_marked_slots c s w :
  Forall (edge_marked c) (edges_of s w) -> slots_marked c s w.
Proof.
  intros F. rewrite Forall_forall in F. split; intros t Ht.
  - apply (F (Strong t)). unfold edges_of. rewrite in_app_iff. left. apply in_map, in_somes; auto.
  - apply (F (Weak t)). unfold edges_of. rewrite in_app_iff. right. apply in_map, in_somes; auto.
Qed.

Lemma inv_unexempt x c :
  Inv (Some x) c ->
  (forall o, get c x = Some o -> col o = Black -> slots_marked c (strong o) (weak o)) ->
  Inv None c.
Proof.
  intros I H. pose proof (i_tri _ _ I) as T. destruct I. constructor; auto.
  intros HM p o G B _. destruct (Nat.eq_dec p x); subst; auto. apply (T HM p o G B). congruence.
Qed.

Lemma inv_set_rnt_false c :
  Inv None c -> ph c = Mark -> slots_marked c (rootS c) (rootW c) -> Inv None (set_rnt c false).
Proof.
  intros I HM H. destruct I. constructor; auto. cbn. rewrite HM. discriminate.
Qed.

Lemma quiescent_frame c c' : frame c c' -> quiescent c -> quiescent c'.
Proof.
  intros F [A [B C]]. unfold quiescent. rewrite (f_regs _ _ F), (f_wregs _ _ F), (f_lics _ _ F). auto.
Qed.

(** The graph seen by [reach] is unchanged by marking. *)
Lemma mono_reach c c' x : mono c c' -> rootS c' = rootS c -> reach c x -> reach c' x.
Proof.
  intros M ER H. induction H as [x Hx|p o x Hp IH G Hin].
  - apply reach_root. rewrite ER; auto.
  - destruct (mono_get _ _ _ _ M G) as [o' [G' [S' _]]]. eapply reach_step; eauto. rewrite S'; auto.
Qed.

(** Same object graph (edges, liveness, allocation); colours may differ. *)
Definition sgraph (c c' : ctx) : Prop :=
  forall y, match get c y, get c' y with
            | Some o, Some o' => strong o' = strong o /\ weak o' = weak o /\ live o' = live o
                                 /\ ntr o' = ntr o /\ okind o' = okind o
            | None, None => True
            | _, _ => False
            end.

Lemma sgraph_refl c : sgraph c c.
Proof. intros y. destruct (get c y); auto. Qed.

Lemma sgraph_trans a b c : sgraph a b -> sgraph b c -> sgraph a c.
Proof.
  intros H1 H2 y. specialize (H1 y). specialize (H2 y).
  destruct (get a y), (get b y), (get c y); auto; try contradiction.
  destruct H1 as [? [? [? [? ?]]]], H2 as [? [? [? [? ?]]]]. repeat split; congruence.
Qed.

Lemma mono_sgraph c c' : mono c c' -> sgraph c c'.
Proof.
  intros M y. specialize (M y). destruct (get c y), (get c' y); auto.
  destruct M as [? [? [? [? [? _]]]]]. auto.
Qed.

Lemma recol_sgraph c c' x o k : recol c c' x o k -> sgraph c c'.
Proof.
  intros R y. rewrite (recol_get _ _ _ _ _ y R). destruct (Nat.eqb_spec x y); subst.
  - rewrite (rc_get _ _ _ _ _ R). cbn. auto.
  - destruct (get c y); auto.
Qed.

Lemma sgraph_reach c c' x : sgraph c c' -> rootS c' = rootS c -> reach c x -> reach c' x.
Proof.
  intros M ER H. induction H as [x Hx|p o x Hp IH G Hin].
  - apply reach_root. rewrite ER; auto.
  - specialize (M p). rewrite G in M. destruct (get c' p) as [o'|] eqn:G'; [|contradiction].
    destruct M as [S' _]. eapply reach_step; eauto. rewrite S'; auto.
Qed.

(** pop an object from the queues and blacken it *)
Lemma pop_blacken c c1 x :
  Inv None c -> lics c = [] -> ph c = Mark ->
  gray c ++ gray_again c = x :: (gray c1 ++ gray_again c1) ->
  heap c1 = heap c -> ph c1 = ph c -> pre c1 = pre c -> unsw c1 = unsw c -> rnt c1 = rnt c ->
  rootS c1 = rootS c -> rootW c1 = rootW c -> regs c1 = regs c -> wregs c1 = wregs c ->
  lics c1 = lics c -> ub c1 = ub c ->
  forall m, let c3 := recolor (set_met c1 m) x Black in
  exists o, get c x = Some o /\ get c3 x = Some (with_col o Black) /\ live o = true
            /\ Inv (Some x) c3 /\ frame c c3 /\ sgraph c c3.
Proof.
  intros I QL HM EQ E3 E4 E5 E6 E7 E8 E9 E10 E11 E12 E13 m c3.
  assert (Hin : In x (gray c ++ gray_again c)) by (rewrite EQ; left; auto).
  apply (i_gray _ _ I) in Hin. destruct Hin as [o [G C]].
  assert (L : live o = true). { eapply (i_dark_live _ _ I); eauto. rewrite C; left; auto. }
  assert (G1 : get (set_met c1 m) x = Some o).
  { unfold get in *. cbn. rewrite E3. auto. }
  assert (R : recol c c3 x o Black).
  { subst c3. unfold recolor. rewrite G1. constructor; cbn; auto. rewrite E3. reflexivity. }
  exists o. split; auto. split; [rewrite (recol_get _ _ _ _ _ x R), Nat.eqb_refl; auto|]. split; auto.
  assert (ND := i_gray_nd _ _ I). rewrite EQ in ND. inversion ND as [|? ? NI ND']; subst.
  assert (EQ3 : gray c3 ++ gray_again c3 = gray c1 ++ gray_again c1).
  { subst c3. unfold recolor. rewrite G1. reflexivity. }
  split; [|split; [eapply recol_frame; eauto|eapply recol_sgraph; eauto]].
  eapply (inv_recol_mark None (Some x) c c3 x o Black I R HM); auto.
  - intros y. rewrite EQ3, EQ. cbn [In]. split.
    + intros H. right. split; auto. intros ->. contradiction.
    + intros [[_ K]|[N [K|K]]]; [discriminate|congruence|auto].
  - rewrite EQ3. auto.
  - rewrite C. split; [right; auto|discriminate].
  - intros q N1 N2. discriminate.
Qed.

Lemma sgraph_edge_ok c c' e : sgraph c c' -> edge_ok c e -> edge_ok c' e.
Proof.
  intros M H. destruct e as [t|t]; cbn in *.
  - destruct H as [o [G L]]. specialize (M t). rewrite G in M. destruct (get c' t) as [o'|] eqn:G'; [|contradiction].
    exists o'. split; auto. destruct M as [_ [_ [L' _]]]. congruence.
  - destruct H as [o G]. specialize (M t). rewrite G in M. destruct (get c' t) as [o'|] eqn:G'; [|contradiction].
    exists o'; auto.
Qed.

Lemma Forall_firstn {A} (P : A -> Prop) n l : Forall P l -> Forall P (firstn n l).
Proof.
  revert n; induction l as [|a l IH]; intros [|n] F; cbn; auto.
  inversion F; subst. constructor; auto.
Qed.

Lemma sgraph_same_heap c c' : heap c' = heap c -> sgraph c c'.
Proof. intros E y. unfold get. rewrite E. destruct (hget (heap c) y); auto. Qed.

Lemma gray_remaining_false c :
  gray_remaining c = false <-> gray c = [] /\ gray_again c = [] /\ rnt c = false.
Proof.
  unfold gray_remaining. destruct (gray c), (gray_again c), (rnt c); cbn; split; try tauto; try discriminate;
    intros [A [B C]]; try discriminate; auto.
Qed.

(** what [mark_one] leaves alone *)
Definition keeps (c c' : ctx) : Prop :=
  ph c' = ph c /\ pre c' = pre c /\ unsw c' = unsw c /\ rootS c' = rootS c /\ rootW c' = rootW c
  /\ regs c' = regs c /\ wregs c' = wregs c /\ lics c' = lics c.

Lemma frame_keeps c c' : frame c c' -> keeps c c'.
Proof. intros []. repeat split; auto. Qed.

Lemma keeps_quiescent c c' : keeps c c' -> quiescent c -> quiescent c'.
Proof.
  intros [_ [_ [_ [_ [_ [R [W L]]]]]]] [A [B C]]. unfold quiescent. rewrite R, W, L. auto.
Qed.

Lemma mark_one_inv c fault c' r used :
  Inv None c -> quiescent c -> ph c = Mark -> mark_one c fault = (c', r, used) ->
  Inv None c' /\ keeps c c' /\ sgraph c c'
  /\ (r = MBreak -> c' = c /\ gray_remaining c = false).
Proof.
  intros I Q HM E. destruct Q as [QR [QW QL]]. unfold mark_one in E.
  (* the common part after an object x was popped into c1 *)
  assert (POP : forall x c1,
     gray c ++ gray_again c = x :: (gray c1 ++ gray_again c1) ->
     heap c1 = heap c -> ph c1 = ph c -> pre c1 = pre c -> unsw c1 = unsw c -> rnt c1 = rnt c ->
     rootS c1 = rootS c -> rootW c1 = rootW c -> regs c1 = regs c -> wregs c1 = wregs c ->
     lics c1 = lics c -> ub c1 = ub c ->
     (let c2 := set_met c1 (mark_gc_traced (met c1)) in
      let c3 := recolor c2 x Black in
      match get c3 x with
      | None => (c3, MContinue, false)
      | Some o =>
        let c4 := if live o then c3 else set_ub c3 in
        match fault with
        | Some j =>
          if can_panic (okind o) then
            (make_gray_again (trace_edges c4 (firstn j (edges o))) x, MPanic, true)
          else (trace_edges c4 (edges o), MContinue, false)
        | None => (trace_edges c4 (edges o), MContinue, false)
        end
      end) = (c', r, used) ->
     Inv None c' /\ keeps c c' /\ sgraph c c' /\ (r = MBreak -> c' = c /\ gray_remaining c = false)).
  { intros x c1 EQ E3 E4 E5 E6 E7 E8 E9 E10 E11 E12 E13 EE.
    destruct (pop_blacken c c1 x I QL HM EQ E3 E4 E5 E6 E7 E8 E9 E10 E11 E12 E13 (mark_gc_traced (met c1)))
      as [o0 [G0 [G3 [L0 [I3 [F3 S3]]]]]].
    cbv zeta in EE. rewrite G3 in EE. cbn [live with_col] in EE. rewrite L0 in EE.
    set (c3 := recolor (set_met c1 (mark_gc_traced (met c1))) x Black) in *.
    assert (HM3 : ph c3 = Mark) by (rewrite (f_ph _ _ F3); auto).
    assert (ED : edges (with_col o0 Black) = edges o0) by reflexivity.
    assert (KD : okind (with_col o0 Black) = okind o0) by reflexivity.
    rewrite ED, KD in EE.
    assert (OK0 : Forall (edge_ok c) (edges o0)).
    { eapply slots_ok_edges; eauto. eapply (i_obj _ _ I); eauto. eapply not_condemned_nosweep; eauto. rewrite HM; discriminate. }
    assert (OK3 : Forall (edge_ok c3) (edges o0)).
    { eapply Forall_impl; [|exact OK0]. intros a. apply sgraph_edge_ok; auto. }
    assert (FULL : forall c5, c5 = trace_edges c3 (edges o0) ->
              Inv None c5 /\ keeps c c5 /\ sgraph c c5).
    { intros c5 ->. destruct (trace_edges_inv (edges o0) (Some x) c3 I3 HM3 OK3) as [I5 [M5 [Mo5 F5]]].
      split; [|split].
      - eapply inv_unexempt; eauto. intros o5 G5 _.
        destruct (mono_get _ _ _ _ Mo5 G3) as [o5' [G5' [S5 [W5 _]]]]. rewrite G5 in G5'. inversion G5'; subst.
        rewrite S5, W5. cbn [strong weak with_col]. apply edges_marked_slots. exact M5.
      - apply frame_keeps. eapply frame_trans; eauto.
      - eapply sgraph_trans; eauto. apply mono_sgraph; auto. }
    assert (PANIC : forall j c5, c5 = make_gray_again (trace_edges c3 (firstn j (edges o0))) x ->
              Inv None c5 /\ keeps c c5 /\ sgraph c c5).
    { intros j c5 ->. destruct (trace_edges_inv (firstn j (edges o0)) (Some x) c3 I3 HM3 (Forall_firstn _ _ _ OK3)) as [I5 [M5 [Mo5 F5]]].
      set (c4 := trace_edges c3 (firstn j (edges o0))) in *.
      destruct (mono_get _ _ _ _ Mo5 G3) as [o5 [G5 [S5 [W5 [L5 [N5 [K5 C5]]]]]]].
      assert (B5 : col o5 = Black) by (apply C5; right; reflexivity).
      assert (HM4 : ph c4 = Mark) by (rewrite (f_ph _ _ F5); auto).
      destruct (make_gray_again_inv (Some x) c4 x o5 I5 HM4 G5 B5 (or_intror eq_refl)) as [I6 [F6 _]].
      split; [auto|split].
      - apply frame_keeps. eapply frame_trans; [eauto|]. eapply frame_trans; eauto.
      - eapply sgraph_trans; [eauto|]. eapply sgraph_trans; [apply mono_sgraph; eauto|].
        unfold make_gray_again. apply sgraph_trans with (b := recolor c4 x Gray).
        + eapply recol_sgraph. apply recol_recolor; eauto.
        + apply sgraph_same_heap. destruct (N.eqb _ 0); reflexivity. }
    destruct fault as [j|].
    - destruct (can_panic (okind o0)); inversion EE; subst.
      + destruct (PANIC j _ eq_refl) as [A [B C]]. split; [auto|split; [auto|split; [auto|discriminate]]].
      + destruct (FULL _ eq_refl) as [A [B C]]. split; [auto|split; [auto|split; [auto|discriminate]]].
    - inversion EE; subst. destruct (FULL _ eq_refl) as [A [B C]]. split; [auto|split; [auto|split; [auto|discriminate]]]. }
  destruct (gray c) as [|x g] eqn:EG.
  - destruct (gray_again c) as [|x g] eqn:EGA.
    + (* root *)
      destruct (rnt c) eqn:ER.
      * assert (OK : Forall (edge_ok c) (edges_of (rootS c) (rootW c))).
        { eapply slots_ok_edges; eauto. apply (i_root _ _ I). }
        destruct fault as [j|]; inversion E; subst.
        -- destruct (trace_edges_inv _ None c I HM (Forall_firstn _ j _ OK)) as [I5 [M5 [Mo5 F5]]].
           split; [auto|split; [apply frame_keeps; auto|split; [apply mono_sgraph; auto|discriminate]]].
        -- destruct (trace_edges_inv _ None c I HM OK) as [I5 [M5 [Mo5 F5]]].
           set (c5 := trace_edges c (edges_of (rootS c) (rootW c))) in *.
           split; [|split; [|split; [|discriminate]]].
           ++ apply inv_set_rnt_false; auto.
              ** rewrite (f_ph _ _ F5); auto.
              ** rewrite (f_rootS _ _ F5), (f_rootW _ _ F5). apply edges_marked_slots; auto.
           ++ destruct (frame_keeps _ _ F5) as [? [? [? [? [? [? [? ?]]]]]]]. repeat split; auto.
           ++ eapply sgraph_trans; [apply mono_sgraph; eauto|]. apply sgraph_same_heap. reflexivity.
      * inversion E; subst. split; [auto|split; [repeat split; auto|split; [apply sgraph_refl|]]].
        intros _. split; auto. apply gray_remaining_false. auto.
    + eapply (POP x (set_gray_again c g)); eauto; cbn; auto; try rewrite EG; try rewrite EGA; reflexivity.
  - eapply (POP x (set_gray c g)); eauto; cbn; auto; try rewrite EG; reflexivity.
Qed.
