(** * [Inv] under graph mutation (slot stores), register/licence updates, root updates, [link]. *)
From GA Require Import Model.Spec Proofs.HeapLemmas Proofs.Inv Proofs.Recolor Proofs.InvMicro.
Local Open Scope nat_scope.

(** ** Changing the slots of one object *)
Record reslot (c c' : ctx) (p : id) (o o' : obj) : Prop := mkReslot {
  rs_get : get c p = Some o;
  rs_heap : heap c' = hset (heap c) p (Some o');
  rs_col : col o' = col o; rs_ntr : ntr o' = ntr o; rs_live : live o' = live o;
  rs_ph : ph c' = ph c; rs_pre : pre c' = pre c; rs_unsw : unsw c' = unsw c; rs_rnt : rnt c' = rnt c;
  rs_gray : gray c' = gray c; rs_gray_again : gray_again c' = gray_again c;
  rs_rootS : rootS c' = rootS c; rs_rootW : rootW c' = rootW c;
  rs_regs : regs c' = regs c; rs_wregs : wregs c' = wregs c; rs_lics : lics c' = lics c; rs_ub : ub c' = ub c
}.

Lemma reslot_get c c' p o o' y :
  reslot c c' p o o' -> get c' y = if Nat.eqb p y then Some o' else get c y.
Proof.
  intros R. unfold get. rewrite (rs_heap _ _ _ _ _ R).
  destruct (Nat.eqb_spec p y); subst.
  - apply hget_hset_eq. eapply hget_some_lt. exact (rs_get _ _ _ _ _ R).
  - apply hget_hset_neq; assumption.
Qed.

(** header fields of every object are unchanged *)
Lemma reslot_hdr c c' p o o' y oy' :
  reslot c c' p o o' -> get c' y = Some oy' ->
  exists oy, get c y = Some oy /\ col oy' = col oy /\ ntr oy' = ntr oy /\ live oy' = live oy
             /\ ((y = p /\ oy = o /\ oy' = o') \/ (y <> p /\ oy' = oy)).
Proof.
  intros R G. rewrite (reslot_get _ _ _ _ _ y R) in G. destruct (Nat.eqb_spec p y); subst.
  - inversion G; subst. exists o. rewrite (rs_get _ _ _ _ _ R).
    repeat split; auto using (rs_col _ _ _ _ _ R), (rs_ntr _ _ _ _ _ R), (rs_live _ _ _ _ _ R).
  - exists oy'. repeat split; auto.
Qed.

Lemma reslot_hdr_fwd c c' p o o' y oy :
  reslot c c' p o o' -> get c y = Some oy ->
  exists oy', get c' y = Some oy' /\ col oy' = col oy /\ ntr oy' = ntr oy /\ live oy' = live oy.
Proof.
  intros R G. rewrite (reslot_get _ _ _ _ _ y R). destruct (Nat.eqb_spec p y); subst.
  - exists o'. rewrite (rs_get _ _ _ _ _ R) in G. inversion G; subst.
    repeat split; auto using (rs_col _ _ _ _ _ R), (rs_ntr _ _ _ _ _ R), (rs_live _ _ _ _ _ R).
  - exists oy. auto.
Qed.

Lemma reslot_allocated c c' p o o' y : reslot c c' p o o' -> (allocated c' y <-> allocated c y).
Proof.
  intros R. split; intros [oy G].
  - destruct (reslot_hdr _ _ _ _ _ _ _ R G) as [o0 [G0 _]]. exists o0; auto.
  - destruct (reslot_hdr_fwd _ _ _ _ _ _ _ R G) as [o0 [G0 _]]. exists o0; auto.
Qed.

Lemma reslot_condemned c c' p o o' y : reslot c c' p o o' -> (condemned c' y <-> condemned c y).
Proof.
  intros R. unfold condemned. rewrite (rs_unsw _ _ _ _ _ R). split; intros [Hin [oy [G W]]]; split; auto.
  - destruct (reslot_hdr _ _ _ _ _ _ _ R G) as [o0 [G0 [C _]]]. exists o0. rewrite <- C. auto.
  - destruct (reslot_hdr_fwd _ _ _ _ _ _ _ R G) as [o0 [G0 [C _]]]. exists o0. rewrite C. auto.
Qed.

Lemma reslot_doomed c c' p o o' y : reslot c c' p o o' -> (doomed c' y <-> doomed c y).
Proof.
  intros R. unfold doomed. rewrite (rs_unsw _ _ _ _ _ R). split; intros [Hin [oy [G W]]]; split; auto.
  - destruct (reslot_hdr _ _ _ _ _ _ _ R G) as [o0 [G0 [C _]]]. exists o0. rewrite <- C. auto.
  - destruct (reslot_hdr_fwd _ _ _ _ _ _ _ R G) as [o0 [G0 [C _]]]. exists o0. rewrite C. auto.
Qed.

Lemma reslot_ok_strong c c' p o o' t : reslot c c' p o o' -> (ok_strong c' t <-> ok_strong c t).
Proof.
  intros R. unfold ok_strong. split; intros [ot [G [L N]]].
  - destruct (reslot_hdr _ _ _ _ _ _ _ R G) as [o0 [G0 [_ [_ [L0 _]]]]]. exists o0. repeat split; auto; try congruence.
    rewrite <- (reslot_condemned _ _ _ _ _ t R). auto.
  - destruct (reslot_hdr_fwd _ _ _ _ _ _ _ R G) as [o0 [G0 [_ [_ L0]]]]. exists o0. repeat split; auto; try congruence.
    rewrite (reslot_condemned _ _ _ _ _ t R). auto.
Qed.

Lemma reslot_ok_weak c c' p o o' t : reslot c c' p o o' -> (ok_weak c' t <-> ok_weak c t).
Proof.
  intros R. unfold ok_weak. rewrite (reslot_allocated _ _ _ _ _ t R), (reslot_doomed _ _ _ _ _ t R). tauto.
Qed.

Lemma reslot_tstrong c c' p o o' t : reslot c c' p o o' -> (tstrong c' t <-> tstrong c t).
Proof.
  intros R. unfold tstrong. split; intros [ot [G D]].
  - destruct (reslot_hdr _ _ _ _ _ _ _ R G) as [o0 [G0 [C _]]]. exists o0. rewrite <- C. auto.
  - destruct (reslot_hdr_fwd _ _ _ _ _ _ _ R G) as [o0 [G0 [C _]]]. exists o0. rewrite C. auto.
Qed.

Lemma reslot_tweak c c' p o o' t : reslot c c' p o o' -> (tweak c' t <-> tweak c t).
Proof.
  intros R. unfold tweak. split; intros [ot [G D]].
  - destruct (reslot_hdr _ _ _ _ _ _ _ R G) as [o0 [G0 [C _]]]. exists o0. rewrite <- C. auto.
  - destruct (reslot_hdr_fwd _ _ _ _ _ _ _ R G) as [o0 [G0 [C _]]]. exists o0. rewrite C. auto.
Qed.

Lemma reslot_unblack c c' p o o' q : reslot c c' p o o' -> (unblack c' q <-> unblack c q).
Proof.
  intros R. unfold unblack. split; intros U oq G.
  - destruct (reslot_hdr_fwd _ _ _ _ _ _ _ R G) as [o0 [G0 [C [N _]]]]. rewrite <- C, <- N. apply U; auto.
  - destruct (reslot_hdr _ _ _ _ _ _ _ R G) as [o0 [G0 [C [N _]]]]. rewrite C, N. apply U; auto.
Qed.

Lemma reslot_slots_ok c c' p o o' s w : reslot c c' p o o' -> (slots_ok c' s w <-> slots_ok c s w).
Proof.
  intros R. unfold slots_ok. split; intros [S W]; split; intros t Ht.
  - apply (reslot_ok_strong _ _ _ _ _ t R); auto.
  - apply (reslot_ok_weak _ _ _ _ _ t R); auto.
  - apply (reslot_ok_strong _ _ _ _ _ t R); auto.
  - apply (reslot_ok_weak _ _ _ _ _ t R); auto.
Qed.

Lemma reslot_slots_marked c c' p o o' s w : reslot c c' p o o' -> (slots_marked c' s w <-> slots_marked c s w).
Proof.
  intros R. unfold slots_marked. split; intros [S W]; split; intros t Ht.
  - apply (reslot_tstrong _ _ _ _ _ t R); auto.
  - apply (reslot_tweak _ _ _ _ _ t R); auto.
  - apply (reslot_tstrong _ _ _ _ _ t R); auto.
  - apply (reslot_tweak _ _ _ _ _ t R); auto.
Qed.

Lemma reslot_lic_ok c c' p o o' l : reslot c c' p o o' -> lic_ok c l -> lic_ok c' l.
Proof.
  intros R L HM. rewrite (rs_ph _ _ _ _ _ R) in HM. specialize (L HM). destruct l; cbn in *.
  - apply (reslot_unblack _ _ _ _ _ _ R); auto.
  - apply (reslot_tstrong _ _ _ _ _ _ R); auto.
  - apply (reslot_tweak _ _ _ _ _ _ R); auto.
  - destruct L; [left; apply (reslot_unblack _ _ _ _ _ _ R)|right; apply (reslot_tstrong _ _ _ _ _ _ R)]; auto.
  - destruct L; [left; apply (reslot_unblack _ _ _ _ _ _ R)|right; apply (reslot_tweak _ _ _ _ _ _ R)]; auto.
Qed.

(** The slot-update lemma. [e'] lets the caller postpone the tri-colour obligation for [p]
    (store-then-barrier paths). *)
Lemma inv_reslot e e' c c' p o o' :
  Inv e c -> reslot c c' p o o' ->
  (ntr o = false -> strong o' = [] /\ weak o' = []) ->
  (live o = true -> ~ condemned c p -> slots_ok c (strong o') (weak o')) ->
  (ph c = Mark -> col o = Black -> e' = Some p \/ slots_marked c (strong o') (weak o')) ->
  (forall q, Some q <> e' -> q <> p -> Some q <> e) ->
  Inv e' c'.
Proof.
  intros I R HN HO HT HE.
  assert (EA : all c' = all c).
  { unfold all. rewrite (rs_pre _ _ _ _ _ R), (rs_unsw _ _ _ _ _ R). reflexivity. }
  constructor.
  - rewrite EA. apply (i_nodup _ _ I).
  - intros y. rewrite EA, (reslot_allocated _ _ _ _ _ y R). apply (i_all _ _ I).
  - rewrite (rs_ph _ _ _ _ _ R), (rs_unsw _ _ _ _ _ R). apply (i_unsw _ _ I).
  - rewrite (rs_ph _ _ _ _ _ R), (rs_gray _ _ _ _ _ R), (rs_gray_again _ _ _ _ _ R), (rs_rnt _ _ _ _ _ R).
    intros HS. destruct (i_sleep _ _ I HS) as [A B]. split; auto.
    intros y oy G. destruct (reslot_hdr _ _ _ _ _ _ _ R G) as [o0 [G0 [C _]]]. rewrite C. eauto.
  - intros y. rewrite (rs_gray _ _ _ _ _ R), (rs_gray_again _ _ _ _ _ R), (i_gray _ _ I y). split; intros [oy [G C]].
    + destruct (reslot_hdr_fwd _ _ _ _ _ _ _ R G) as [o1 [G1 [C1 _]]]. exists o1. split; auto. congruence.
    + destruct (reslot_hdr _ _ _ _ _ _ _ R G) as [o1 [G1 [C1 _]]]. exists o1. split; auto. congruence.
  - rewrite (rs_gray _ _ _ _ _ R), (rs_gray_again _ _ _ _ _ R). apply (i_gray_nd _ _ I).
  - rewrite (rs_ph _ _ _ _ _ R). intros HP y oy G. destruct (reslot_hdr _ _ _ _ _ _ _ R G) as [o0 [G0 [C _]]].
    rewrite C. eapply (i_gray_mark _ _ I); eauto.
  - auto.
  - intros y oy G D. destruct (reslot_hdr _ _ _ _ _ _ _ R G) as [o0 [G0 [C [_ [L _]]]]]. rewrite L.
    eapply (i_dark_live _ _ I); eauto. rewrite <- C; auto.
  - intros y oy G N. destruct (reslot_hdr _ _ _ _ _ _ _ R G) as [o0 [G0 [_ [N0 [_ Hc]]]]].
    destruct Hc as [[-> [-> ->]]|[_ ->]].
    + apply HN. congruence.
    + eapply (i_ntr _ _ I); eauto.
  - rewrite (rs_ph _ _ _ _ _ R), (rs_pre _ _ _ _ _ R). intros HS y oy Hin G.
    destruct (reslot_hdr _ _ _ _ _ _ _ R G) as [o0 [G0 [C _]]]. rewrite C. eapply (i_pre_white _ _ I); eauto.
  - intros q oq G L NC. apply (reslot_slots_ok _ _ _ _ _ _ _ R).
    destruct (reslot_hdr _ _ _ _ _ _ _ R G) as [o0 [G0 [_ [_ [L0 Hc]]]]].
    rewrite (reslot_condemned _ _ _ _ _ q R) in NC.
    destruct Hc as [[-> [-> ->]]|[_ ->]].
    + apply HO; auto. congruence.
    + eapply (i_obj _ _ I); eauto.
  - rewrite (rs_rootS _ _ _ _ _ R), (rs_rootW _ _ _ _ _ R). apply (reslot_slots_ok _ _ _ _ _ _ _ R). apply (i_root _ _ I).
  - rewrite (rs_regs _ _ _ _ _ R), (rs_wregs _ _ _ _ _ R). apply (reslot_slots_ok _ _ _ _ _ _ _ R). apply (i_regs _ _ I).
  - rewrite (rs_ph _ _ _ _ _ R). intros HM q oq G B NE. apply (reslot_slots_marked _ _ _ _ _ _ _ R).
    destruct (reslot_hdr _ _ _ _ _ _ _ R G) as [o0 [G0 [C [_ [_ Hc]]]]].
    destruct Hc as [[-> [-> ->]]|[NP ->]].
    + destruct (HT HM) as [E|M]; [congruence|congruence|exact M].
    + eapply (i_tri _ _ I); eauto.
  - rewrite (rs_ph _ _ _ _ _ R), (rs_rnt _ _ _ _ _ R), (rs_rootS _ _ _ _ _ R), (rs_rootW _ _ _ _ _ R).
    intros HM HR. apply (reslot_slots_marked _ _ _ _ _ _ _ R). apply (i_tri_root _ _ I); auto.
  - rewrite (rs_lics _ _ _ _ _ R). eapply Forall_impl; [|apply (i_lics _ _ I)]. intros l. apply (reslot_lic_ok _ _ _ _ _ l R).
  - rewrite (rs_ub _ _ _ _ _ R). apply (i_ub _ _ I).
Qed.

(** ** Fields that no heap predicate depends on: registers, licences, root, ghost flags *)
Lemma inv_set_regs e c r :
  Inv e c -> (forall t, In (Some t) r -> ok_strong c t) -> Inv e (set_regs c r).
Proof.
  intros I H. pose proof (i_regs _ _ I) as [RA RB]. destruct I. constructor; auto. cbn. split; auto.
Qed.

Lemma inv_set_wregs e c r :
  Inv e c -> (forall t, In (Some t) r -> ok_weak c t) -> Inv e (set_wregs c r).
Proof.
  intros I H. pose proof (i_regs _ _ I) as [RA RB]. destruct I. constructor; auto. cbn. split; auto.
Qed.

Lemma inv_set_rg e c r v :
  Inv e c -> (forall t, v = Some t -> ok_strong c t) -> Inv e (set_rg c r v).
Proof.
  intros I H. apply inv_set_regs; auto. intros t Ht. apply in_set_nth in Ht. destruct Ht as [E|Ht]; auto.
  apply (i_regs _ _ I); auto.
Qed.

Lemma inv_set_wrg e c r v :
  Inv e c -> (forall t, v = Some t -> ok_weak c t) -> Inv e (set_wrg c r v).
Proof.
  intros I H. apply inv_set_wregs; auto. intros t Ht. apply in_set_nth in Ht. destruct Ht as [E|Ht]; auto.
  apply (i_regs _ _ I); auto.
Qed.

Lemma inv_add_lic e c l : Inv e c -> lic_ok c l -> Inv e (add_lic c l).
Proof. intros I H. destruct I. constructor; auto. cbn. constructor; auto. Qed.

Lemma inv_set_lics_nil e c : Inv e c -> Inv e (set_lics c []).
Proof. intros I. destruct I. constructor; auto. cbn. constructor. Qed.

Lemma inv_set_met e c m : Inv e c -> Inv e (set_met c m).
Proof. intros I. destruct I. constructor; auto. Qed.

Lemma inv_set_uflow e c b : Inv e c -> Inv e (set_uflow c b).
Proof. intros I. destruct I. constructor; auto. Qed.

Lemma inv_set_root e c s w :
  Inv e c -> slots_ok c s w -> (ph c = Mark -> rnt c = true) -> Inv e (set_root c s w).
Proof.
  intros I H HR. destruct I. constructor; auto. cbn. intros HM HF. rewrite (HR HM) in HF. discriminate.
Qed.

Lemma inv_root_barrier e c :
  Inv e c -> Inv e (root_barrier c) /\ (ph (root_barrier c) = Mark -> rnt (root_barrier c) = true).
Proof.
  intros I. unfold root_barrier. destruct (ph c) eqn:P; try (split; [auto|rewrite P; discriminate]).
  split; [|reflexivity]. destruct I. constructor; auto; cbn.
  - rewrite P. discriminate.
  - discriminate.
Qed.

(** ** Context::link *)
Lemma get_link_old c o y : y < length (heap c) -> get (fst (link c o)) y = get c y.
Proof. intros H. unfold link, halloc, get. cbn. apply hget_app_old; auto. Qed.

Lemma get_link_new c o : get (fst (link c o)) (length (heap c)) = Some o.
Proof. unfold link, halloc, get. cbn. apply hget_app_new. Qed.

Lemma link_id c o : snd (link c o) = length (heap c).
Proof. reflexivity. Qed.

Lemma get_link c o y :
  get (fst (link c o)) y = if Nat.eqb y (length (heap c)) then Some o else get c y.
Proof.
  destruct (Nat.eqb_spec y (length (heap c))); subst.
  - apply get_link_new.
  - destruct (Nat.lt_ge_cases y (length (heap c))).
    + apply get_link_old; auto.
    + unfold link, halloc, get. cbn. rewrite !hget_oob; auto. rewrite app_length. cbn. lia.
Qed.

Lemma get_link_n c o y n : n = length (heap c) ->
  get (fst (link c o)) y = if Nat.eqb y n then Some o else get c y.
Proof. intros ->. apply get_link. Qed.

Lemma not_allocated_new c e : Inv e c -> ~ In (length (heap c)) (all c).
Proof.
  intros I H. apply (i_all _ _ I) in H. destruct H as [o G]. apply get_some_lt in G. lia.
Qed.

Lemma inv_link c o :
  Inv None c -> col o = White -> live o = true ->
  (forall t, In (Some t) (strong o) -> ok_strong c t) -> (forall t, In (Some t) (weak o) -> ok_weak c t) ->
  (ntr o = false -> strong o = [] /\ weak o = []) ->
  Inv None (fst (link c o)) /\ ok_strong (fst (link c o)) (snd (link c o)).
Proof.
  intros I HC HL HSo HWo HN.
  set (n := length (heap c)).
  assert (NN := not_allocated_new _ _ I). fold n in NN.
  assert (GO : forall y oy, get c y = Some oy -> y <> n).
  { intros y oy G E. subst. apply get_some_lt in G. lia. }
  assert (PRE : pre (fst (link c o)) = n :: pre c) by reflexivity.
  assert (UNS : unsw (fst (link c o)) = unsw c) by reflexivity.
  assert (CONd : forall y, condemned (fst (link c o)) y <-> condemned c y).
  { intros y. unfold condemned. rewrite UNS, (get_link_n c o _ n eq_refl). split; intros [Hin [oy [G W]]]; split; auto.
    - destruct (Nat.eqb_spec y n); subst.
      + exfalso. apply NN. unfold all. rewrite in_app_iff; auto.
      + eauto.
    - exists oy. split; auto. destruct (Nat.eqb_spec y n); subst; auto. exfalso. eapply GO; eauto. }
  assert (DOOM : forall y, doomed (fst (link c o)) y <-> doomed c y).
  { intros y. unfold doomed. rewrite UNS, (get_link_n c o _ n eq_refl). split; intros [Hin [oy [G W]]]; split; auto.
    - destruct (Nat.eqb_spec y n); subst.
      + exfalso. apply NN. unfold all. rewrite in_app_iff; auto.
      + eauto.
    - exists oy. split; auto. destruct (Nat.eqb_spec y n); subst; auto. exfalso. eapply GO; eauto. }
  assert (OKS : forall t, ok_strong c t -> ok_strong (fst (link c o)) t).
  { intros t [ot [G [L N]]]. exists ot. rewrite (get_link_n c o _ n eq_refl).
    destruct (Nat.eqb_spec t n); [exfalso; eapply GO; eauto|]. repeat split; auto. rewrite CONd. auto. }
  assert (OKW : forall t, ok_weak c t -> ok_weak (fst (link c o)) t).
  { intros t [[ot G] N]. split; [|rewrite DOOM; auto]. exists ot. rewrite (get_link_n c o _ n eq_refl).
    destruct (Nat.eqb_spec t n); [exfalso; eapply GO; eauto|]. auto. }
  assert (TST : forall t, tstrong c t -> tstrong (fst (link c o)) t).
  { intros t [ot [G D]]. exists ot. rewrite (get_link_n c o _ n eq_refl).
    destruct (Nat.eqb_spec t n); [exfalso; eapply GO; eauto|]. auto. }
  assert (TWK : forall t, tweak c t -> tweak (fst (link c o)) t).
  { intros t [ot [G D]]. exists ot. rewrite (get_link_n c o _ n eq_refl).
    destruct (Nat.eqb_spec t n); [exfalso; eapply GO; eauto|]. auto. }
  assert (UNB : forall q, unblack c q -> unblack (fst (link c o)) q).
  { intros q U oq G. rewrite (get_link_n c o _ n eq_refl) in G. destruct (Nat.eqb_spec q n); subst.
    - inversion G; subst. rewrite HC. intros [E _]; discriminate.
    - apply U; auto. }
  split.
  - constructor.
    + unfold all. rewrite PRE, UNS. cbn. constructor; [exact NN|apply (i_nodup _ _ I)].
    + intros y. unfold all, allocated. rewrite PRE, UNS, (get_link_n c o _ n eq_refl). cbn.
      destruct (Nat.eqb_spec y n); subst.
      * split; eauto.
      * split.
        -- intros [E|H]; [congruence|]. apply (i_all _ _ I); auto.
        -- intros H. right. apply (i_all _ _ I); auto.
    + cbn. apply (i_unsw _ _ I).
    + cbn. intros HS. destruct (i_sleep _ _ I HS) as [A B]. split; auto.
      intros y oy G. rewrite (get_link_n c o _ n eq_refl) in G. destruct (Nat.eqb_spec y n); subst; eauto.
      inversion G; subst; auto.
    + intros y. cbn [gray gray_again link fst]. change (gray (fst (link c o))) with (gray c).
      change (gray_again (fst (link c o))) with (gray_again c). rewrite (i_gray _ _ I y), (get_link_n c o _ n eq_refl).
      destruct (Nat.eqb_spec y n); subst.
      * split.
        -- intros [oy [G _]]. exfalso; eapply GO; eauto.
        -- intros [oy [G C]]. inversion G; subst. congruence.
      * tauto.
    + apply (i_gray_nd _ _ I).
    + cbn. intros HP y oy G. rewrite (get_link_n c o _ n eq_refl) in G. destruct (Nat.eqb_spec y n); subst.
      * inversion G; subst. congruence.
      * eapply (i_gray_mark _ _ I); eauto.
    + auto.
    + intros y oy G D. rewrite (get_link_n c o _ n eq_refl) in G. destruct (Nat.eqb_spec y n); subst.
      * inversion G; subst; auto.
      * eapply (i_dark_live _ _ I); eauto.
    + intros y oy G N. rewrite (get_link_n c o _ n eq_refl) in G. destruct (Nat.eqb_spec y n); subst.
      * inversion G; subst; auto.
      * eapply (i_ntr _ _ I); eauto.
    + cbn. intros HS y oy Hin G. rewrite (get_link_n c o _ n eq_refl) in G. destruct (Nat.eqb_spec y n); subst.
      * inversion G; subst; auto.
      * destruct Hin as [E|Hin]; [exfalso; unfold n in *; congruence|]. eapply (i_pre_white _ _ I); eauto.
    + intros q oq G L NC. rewrite (get_link_n c o _ n eq_refl) in G. destruct (Nat.eqb_spec q n); subst.
      * inversion G; subst. split; intros t Ht; [apply OKS; apply (HSo _ Ht)|apply OKW; apply (HWo _ Ht)].
      * rewrite CONd in NC. destruct (i_obj _ _ I q oq G L NC) as [A B]. split; auto.
    + destruct (i_root _ _ I) as [A B]. split; cbn; auto.
    + destruct (i_regs _ _ I) as [A B]. split; cbn; auto.
    + cbn. intros HM q oq G B _. rewrite (get_link_n c o _ n eq_refl) in G. destruct (Nat.eqb_spec q n); subst.
      * inversion G; subst. congruence.
      * destruct (i_tri _ _ I HM q oq G B ltac:(discriminate)) as [A B']. split; auto.
    + cbn. intros HM HR. destruct (i_tri_root _ _ I HM HR) as [A B]. split; auto.
    + cbn. eapply Forall_impl; [|apply (i_lics _ _ I)]. intros l L HM. specialize (L HM).
      destruct l; cbn in *; auto.
      * destruct L; auto.
      * destruct L; auto.
    + cbn. apply (i_ub _ _ I).
  - exists o. rewrite link_id, get_link_new. repeat split; auto. rewrite CONd.
    intros [Hin _]. apply NN. unfold all. rewrite in_app_iff; auto.
Qed.
