(** * [MInv] through marking, sweeping and the driver loop. *)
From GA Require Import Model.Spec Proofs.HeapLemmas Proofs.Inv Proofs.Recolor Proofs.InvMicro Proofs.InvStore
     Proofs.InvMark Proofs.InvSweep Proofs.InvLoop Proofs.Phases Proofs.MInv.
Local Open Scope nat_scope.

Lemma black_ntr_same_heap c c' : heap c' = heap c -> forall y, black_ntr c' y = black_ntr c y.
Proof. intros E y. unfold black_ntr, get. rewrite E. reflexivity. Qed.

Lemma mstable_same c c' :
  heap c' = heap c -> pre c' = pre c -> unsw c' = unsw c -> met c' = met c -> uflow c' = uflow c -> mstable c c'.
Proof.
  intros H P U M F. assert (EA : all c' = all c) by (unfold all; rewrite P, U; reflexivity).
  repeat split; auto; try (rewrite M; reflexivity). apply nblack_same_colors; auto. apply black_ntr_same_heap; auto.
Qed.

(** ** mark_one *)
Lemma mark_one_minv c fault c' r used :
  Inv None c -> quiescent c -> MInv c -> ph c = Mark -> mark_one c fault = (c', r, used) -> MInv c'.
Proof.
  intros I Q M HM E. pose proof Q as [QR [QW QL]]. unfold mark_one in E.
  destruct M as [M1 M2 M3]. specialize (M3 HM).
  assert (POP : forall x c1,
     gray c ++ gray_again c = x :: (gray c1 ++ gray_again c1) ->
     heap c1 = heap c -> ph c1 = ph c -> pre c1 = pre c -> unsw c1 = unsw c -> rnt c1 = rnt c ->
     rootS c1 = rootS c -> rootW c1 = rootW c -> regs c1 = regs c -> wregs c1 = wregs c ->
     lics c1 = lics c -> ub c1 = ub c -> met c1 = met c -> uflow c1 = uflow c ->
     (let c2 := set_met c1 (mark_gc_traced (met c1)) in
      let c3 := recolor c2 x Black in
      match get c3 x with
      | None => (c3, MContinue, false)
      | Some o =>
        let c4 := if live o then c3 else set_ub c3 in
        match fault with
        | Some j =>
          if can_panic (okind o) then
            (make_gray_again (trace_edges c4 (firstn j (edges o))) x, MPanic, true)
          else (trace_edges c4 (edges o), MContinue, false)
        | None => (trace_edges c4 (edges o), MContinue, false)
        end
      end) = (c', r, used) -> MInv c').
  { intros x c1 EQ E3 E4 E5 E6 E7 E8 E9 E10 E11 E12 E13 EM EU EE.
    destruct (pop_blacken c c1 x I QL HM EQ E3 E4 E5 E6 E7 E8 E9 E10 E11 E12 E13 (mark_gc_traced (met c1)))
      as [o0 [G0 [G3 [L0 [I3 [F3 S3]]]]]].
    cbv zeta in EE. rewrite G3 in EE. cbn [live with_col] in EE. rewrite L0 in EE.
    set (c3 := recolor (set_met c1 (mark_gc_traced (met c1))) x Black) in *.
    assert (HM3 : ph c3 = Mark) by (rewrite (f_ph _ _ F3); auto).
    assert (ED : edges (with_col o0 Black) = edges o0) by reflexivity.
    assert (KD : okind (with_col o0 Black) = okind o0) by reflexivity.
    rewrite ED, KD in EE.
    assert (C0 : col o0 = Gray).
    { assert (Hin : In x (gray c ++ gray_again c)) by (rewrite EQ; left; auto).
      apply (i_gray _ _ I) in Hin. destruct Hin as [o' [G' C']]. congruence. }
    assert (G1 : get (set_met c1 (mark_gc_traced (met c1))) x = Some o0) by (unfold get in *; cbn; rewrite E3; auto).
    assert (R : recol c c3 x o0 Black).
    { unfold c3, recolor. rewrite G1. constructor; cbn; auto. rewrite E3. reflexivity. }
    pose proof (nblack_recol _ _ _ _ _ _ I R) as NB. rewrite C0 in NB. cbn [color_eqb andb b2n] in NB.
    assert (T3 : traced (met c3) = (traced (met c) + 1)%N).
    { unfold c3, recolor. rewrite G1. cbn. rewrite EM. reflexivity. }
    assert (TT3 : total (met c3) = total (met c)) by (unfold c3, recolor; rewrite G1; cbn; rewrite EM; reflexivity).
    assert (U3 : uflow c3 = false) by (unfold c3, recolor; rewrite G1; cbn; congruence).
    assert (A3 : all c3 = all c) by (apply (recol_all _ _ _ _ _ R)).
    assert (OK0 : Forall (edge_ok c) (edges o0)).
    { eapply slots_ok_edges; eauto. eapply (i_obj _ _ I); eauto. eapply not_condemned_nosweep; eauto. rewrite HM; discriminate. }
    assert (OK3 : Forall (edge_ok c3) (edges o0)).
    { eapply Forall_impl; [|exact OK0]. intros a. apply sgraph_edge_ok; auto. }
    assert (FULL : MInv (trace_edges c3 (edges o0))).
    { destruct (trace_edges_inv (edges o0) (Some x) c3 I3 HM3 OK3) as [_ [_ [_ F5]]].
      destruct (trace_edges_mstable (edges o0) (Some x) c3 I3 HM3 OK3) as [A [B [C [D E']]]].
      constructor; [congruence|rewrite C, E', TT3, A3; auto|].
      intros _. rewrite A, B, T3. destruct (ntr o0); cbn [b2n] in NB; lia. }
    assert (PANIC : forall j, MInv (make_gray_again (trace_edges c3 (firstn j (edges o0))) x)).
    { intros j. pose proof (Forall_firstn _ j _ OK3) as OKj.
      destruct (trace_edges_inv _ (Some x) c3 I3 HM3 OKj) as [I5 [_ [Mo5 F5]]].
      destruct (trace_edges_mstable _ (Some x) c3 I3 HM3 OKj) as [A [B [C [D E']]]].
      set (c4 := trace_edges c3 (firstn j (edges o0))) in *.
      destruct (mono_get _ _ _ _ Mo5 G3) as [o5 [G5 [_ [_ [_ [N5 [_ C5]]]]]]].
      assert (B5 : col o5 = Black) by (apply C5; right; reflexivity).
      destruct (make_gray_again_metrics (Some x) c4 x o5 I5 G5 B5) as [U6 [T6 [TT6 [A6 NB6]]]].
      { congruence. } { rewrite B, T3. lia. }
      constructor; auto.
      - rewrite TT6, A6, C, E', TT3, A3. auto.
      - intros _. rewrite T6, B, T3. cbn [ntr with_col] in N5. rewrite N5 in NB6. rewrite A in NB6.
        destruct (ntr o0); cbn [b2n] in *; lia. }
    destruct fault as [j|].
    - destruct (can_panic (okind o0)); inversion EE; subst; auto.
    - inversion EE; subst; auto. }
  destruct (gray c) as [|x g] eqn:EG.
  - destruct (gray_again c) as [|x g] eqn:EGA.
    + destruct (rnt c) eqn:ER.
      * assert (OK : Forall (edge_ok c) (edges_of (rootS c) (rootW c))).
        { eapply slots_ok_edges; eauto. apply (i_root _ _ I). }
        destruct fault as [j|]; inversion E; subst.
        -- pose proof (Forall_firstn _ j _ OK) as OKj.
           destruct (trace_edges_inv _ None c I HM OKj) as [_ [_ [_ F5]]].
           eapply minv_mstable; [apply (f_ph _ _ F5)|apply (trace_edges_mstable _ None c I HM OKj)|constructor; auto].
        -- destruct (trace_edges_inv _ None c I HM OK) as [_ [_ [_ F5]]].
           eapply minv_mstable; [|eapply mstable_trans; [apply (trace_edges_mstable _ None c I HM OK)|apply mstable_same; reflexivity]|constructor; auto].
           cbn. apply (f_ph _ _ F5).
      * inversion E; subst. constructor; auto.
    + eapply (POP x (set_gray_again c g)); eauto; cbn; auto; try rewrite EG; try rewrite EGA; reflexivity.
  - eapply (POP x (set_gray c g)); eauto; cbn; auto; try rewrite EG; reflexivity.
Qed.

(** ** sweep_one *)
Lemma sweep_one_minv c c' evs r :
  Inv None c -> MInv c -> ph c = Sweep -> sweep_one c = (c', evs, r) -> MInv c'.
Proof.
  intros I [M1 M2 M3] HS E. pose proof (sweep_one_ph _ _ _ _ E) as P'.
  assert (PS : ph c' <> Mark) by (rewrite P', HS; discriminate). clear P'. revert PS.
  unfold sweep_one in E.
  destruct (unsw c) as [|x rest] eqn:HU; [inversion E; subst; intros _; constructor; auto|].
  assert (LEN : length (all c) = S (length (pre c ++ rest))).
  { unfold all. rewrite HU, !app_length. cbn. lia. }
  destruct (get c x) as [o|] eqn:G.
  2:{ exfalso. assert (allocated c x) by (apply (i_all _ _ I); unfold all; rewrite HU, in_app_iff; right; left; auto).
      destruct H; congruence. }
  destruct (col o) eqn:C; inversion E; subst; clear E; intros PS.
  - (* White *)
    unfold free_total.
    assert (TT : forall c2, total (met c2) = total (met c) -> N.eqb (total (met c2)) 0 = false).
    { intros c2 ET. apply N.eqb_neq. rewrite ET, M2, LEN. lia. }
    constructor.
    + destruct (live o); cbn; rewrite TT by reflexivity; cbn; auto.
    + destruct (live o); cbn; rewrite TT by reflexivity; cbn; unfold all; cbn; rewrite M2, LEN; lia.
    + intros HMk. contradiction.
  - constructor.
    + destruct (live o); cbn; auto.
    + destruct (live o); cbn; unfold all; cbn; rewrite M2; unfold all; rewrite HU, <- app_assoc; reflexivity.
    + intros HMk. contradiction.
  - exfalso. eapply (i_gray_mark _ _ I); eauto; rewrite HS; discriminate.
  - constructor.
    + cbn; auto.
    + cbn; unfold all; cbn; rewrite M2; unfold all; rewrite HU, <- app_assoc; reflexivity.
    + intros HMk. contradiction.
Qed.

Lemma filter_nil_if_false {A} (f : A -> bool) l : (forall x, In x l -> f x = false) -> filter f l = [].
Proof.
  induction l as [|a t IH]; intros H; cbn; auto. rewrite (H a) by (left; auto). apply IH. intros; apply H; right; auto.
Qed.

Lemma nblack_zero_if_white c :
  (forall x o, get c x = Some o -> col o = White) -> nblack c = 0.
Proof.
  intros H. unfold nblack. rewrite filter_nil_if_false; auto.
  intros x _. unfold black_ntr. destruct (get c x) as [o|] eqn:G; auto. rewrite (H x o G). reflexivity.
Qed.

Lemma loop_body_minv st hs c f c1 evs k f' :
  Inv None c -> quiescent c -> MInv c -> loop_body st hs c f = (c1, evs, k, f') -> MInv c1.
Proof.
  intros I Q M E. unfold loop_body in E. destruct (ph c) eqn:P.
  - inversion E; subst. destruct M as [M1 M2 M3]. constructor; auto.
    intros _. change (nblack (set_ph c Mark)) with (nblack c).
    rewrite nblack_zero_if_white; [cbn; lia|]. apply (i_sleep _ _ I P).
  - destruct (mark_one c _) as [[c2 r] u] eqn:EM.
    pose proof (mark_one_minv _ _ _ _ _ I Q M P EM) as M2.
    destruct r.
    + inversion E; subst; auto.
    + destruct (stop_le st FullyMarked); inversion E; subst; auto.
      destruct M2 as [A B C]. constructor; auto. cbn. discriminate.
    + inversion E; subst; auto.
  - destruct (stop_le st AtSweep); [inversion E; subst; auto|].
    destruct (sweep_one c) as [[c2 evs2] r] eqn:ES.
    pose proof (sweep_one_minv _ _ _ _ I M P ES) as M2.
    destruct r; [inversion E; subst; auto|].
    assert (FIN : forall b, MInv (set_ph (set_rnt (set_met c2 (finish_cycle (met c2) b)) true) Sleep)).
    { intros b. destruct M2 as [A B C]. constructor; auto. cbn. discriminate. }
    destruct st; [| |inversion E; subst; apply FIN|]; destruct hs; inversion E; subst; apply FIN.
Qed.

Section Loop.
  Variable dec : ctx -> bool.

  Lemma loop_minv fuel : forall ru st hs c f c' evs oc,
    Inv None c -> quiescent c -> MInv c -> loop dec fuel ru st hs c f = (c', evs, oc) -> MInv c'.
  Proof.
    induction fuel as [|n IH]; intros ru st hs c f c' evs oc I Q M E; cbn [loop] in E.
    - inversion E; subst; auto.
    - destruct (loop_body st hs c f) as [[[c1 ev1] k] f1] eqn:EB.
      destruct (loop_body_inv _ _ _ _ _ _ _ _ I Q EB) as [I1 [S1 _]].
      pose proof (loop_body_minv _ _ _ _ _ _ _ _ I Q M EB) as M1.
      assert (Q1 : quiescent c1) by (eapply same_cb_quiescent; eauto).
      destruct k; try (inversion E; subst; auto; fail).
      destruct ru.
      + destruct (dec c1); [|inversion E; subst; auto].
        destruct (loop dec n PayDebt st has_slept c1 f1) as [[c2 ev2] r] eqn:EL. inversion E; subst. eapply IH; eauto.
      + destruct (loop dec n RunStop st has_slept c1 f1) as [[c2 ev2] r] eqn:EL. inversion E; subst. eapply IH; eauto.
  Qed.

  Theorem do_collection_minv c ru st f c' evs oc :
    Inv None c -> quiescent c -> MInv c -> do_collection dec c ru st f = (c', evs, oc) -> MInv c'.
  Proof.
    intros I Q M E. unfold do_collection in E. destruct ru.
    - destruct (dec c); [eapply loop_minv; eauto|inversion E; subst; auto].
    - eapply loop_minv; eauto.
  Qed.
End Loop.
