(** * Monotonicity of the allocation debt under mutator operations (C10), part 2: every micro-op. *)
From Coq Require Import Lqa.
From GA Require Import Model.Spec Proofs.HeapLemmas Proofs.MetricsLemmas.
From GA Require Import Proofs.DebtMono.
Local Open Scope nat_scope.

Definition MS (c c' : ctx) : Prop := mstep (met c) (met c').

Lemma ms_refl' c : MS c c.
Proof. constructor. Qed.
Lemma ms_trans a b c : MS a b -> MS b c -> MS a c.
Proof. apply mstep_trans. Qed.
Lemma ms_same c c' : met c' = met c -> MS c c'.
Proof. intros H. unfold MS. rewrite H. constructor. Qed.
Lemma ms_met_of c c1 c' : MS c c1 -> met c' = met c1 -> MS c c'.
Proof. intros K H. unfold MS in *. rewrite H. exact K. Qed.

Lemma met_put c p o : met (put c p o) = met c.
Proof. reflexivity. Qed.
Lemma met_recolor c x k : met (recolor c x k) = met c.
Proof. unfold recolor. destruct (get c x); reflexivity. Qed.

Lemma met_make_gray_again c p : met (make_gray_again c p) = mark_gc_untraced (met c).
Proof.
  unfold make_gray_again.
  assert (E : met (set_gray_again (recolor c p Gray) (p :: gray_again (recolor c p Gray))) = met c) by (cbn; apply met_recolor).
  destruct (N.eqb _ 0); cbn [met set_met set_uflow]; rewrite E; reflexivity.
Qed.

Lemma ms_make_gray_again c p : MS c (make_gray_again c p).
Proof. unfold MS. rewrite met_make_gray_again. constructor. constructor. Qed.

Lemma ms_backward_barrier c p ch : MS c (backward_barrier c p ch).
Proof.
  unfold backward_barrier. destruct (ph c); try apply ms_refl'.
  destruct (get c p) as [po|]; [|apply ms_same; reflexivity].
  destruct (color_eqb (col po) Black && ntr po); try apply ms_refl'.
  destruct ch as [x|]; [|apply ms_make_gray_again].
  destruct (get c x) as [xo|]; [|apply ms_same; reflexivity].
  destruct (is_whiteish (col xo)); [apply ms_make_gray_again|apply ms_refl'].
Qed.

Lemma ms_backward_barrier_weak c p x : MS c (backward_barrier_weak c p x).
Proof.
  unfold backward_barrier_weak. destruct (ph c); try apply ms_refl'.
  destruct (get c p) as [po|]; [|apply ms_same; reflexivity].
  destruct (color_eqb (col po) Black && ntr po); try apply ms_refl'.
  destruct (get c x) as [xo|]; [|apply ms_same; reflexivity].
  destruct (color_eqb (col xo) White); [apply ms_make_gray_again|apply ms_refl'].
Qed.

Lemma ms_gc_write c p : MS c (gc_write c p).
Proof. unfold gc_write. apply (ms_met_of c (backward_barrier c p None)); [apply ms_backward_barrier|reflexivity]. Qed.

Lemma met_store_strong c p o i v : met (store_strong c p o i v) = met c.
Proof. unfold store_strong. destruct (Nat.ltb _ _); reflexivity. Qed.
Lemma met_store_weak c p o i v : met (store_weak c p o i v) = met c.
Proof. unfold store_weak. destruct (Nat.ltb _ _); reflexivity. Qed.
Lemma met_store_after c p i v : met (store_after c p i v) = met c.
Proof. unfold store_after. destruct (get c p); [apply met_store_strong|reflexivity]. Qed.
Lemma met_store_weak_after c p i v : met (store_weak_after c p i v) = met c.
Proof. unfold store_weak_after. destruct (get c p); [apply met_store_weak|reflexivity]. Qed.

Lemma met_link c o : met (fst (link c o)) = mark_gc_allocated (met c).
Proof. reflexivity. Qed.

Lemma met_upgrade c x : met (fst (upgrade c x)) = met c.
Proof. unfold upgrade. destruct (get c x) as [o|]; [|reflexivity]. destruct (negb (live o)); [reflexivity|]. destruct (_ && _); reflexivity. Qed.
Lemma met_is_dropped c x : met (fst (is_dropped c x)) = met c.
Proof. unfold is_dropped. destruct (get c x); reflexivity. Qed.
Lemma met_is_dead c x : met (fst (is_dead c x)) = met c.
Proof. unfold is_dead. destruct (get c x); reflexivity. Qed.

(** the first-marking class: the only mutator operations whose metrics effect is a credit *)
Definition first_marking (m : mop) : bool :=
  match m with MBarrierF _ _ | MBarrierFW _ _ | MResurrect _ | MResurrectW _ _ => true | _ => false end.

Definition MF (c c' : ctx) : Prop := met c' = met c \/ met c' = mark_gc_marked (met c).

Lemma mf_trace c t : MF c (trace c t).
Proof.
  unfold trace, MF. destruct (get c t) as [o|]; [|left; reflexivity].
  destruct (col o); try (left; reflexivity); destruct (ntr o); cbn; rewrite ?met_recolor; auto.
Qed.
Lemma mf_trace_weak c t : MF c (trace_weak c t).
Proof.
  unfold trace_weak, MF. destruct (get c t) as [o|]; [|left; reflexivity].
  destruct (col o); try (left; reflexivity). cbn. rewrite met_recolor. auto.
Qed.
Lemma mf_forward_barrier c p x : MF c (forward_barrier c p x).
Proof.
  unfold forward_barrier. destruct (ph c); try (left; reflexivity).
  destruct (parent_black c p) as [[|]|]; [apply mf_trace|left; reflexivity|left; reflexivity].
Qed.
Lemma mf_forward_barrier_weak c p x : MF c (forward_barrier_weak c p x).
Proof.
  unfold forward_barrier_weak. destruct (ph c); try (left; reflexivity).
  destruct (parent_black c p) as [[|]|]; [apply mf_trace_weak|left; reflexivity|left; reflexivity].
Qed.
Lemma mf_resurrect c x : MF c (resurrect c x).
Proof.
  unfold resurrect, MF. destruct (get c x) as [o|]; [|left; reflexivity].
  destruct (is_whiteish (col o)); [|left; reflexivity].
  destruct (col o); cbn; rewrite ?met_recolor; auto.
Qed.
Lemma mf_met_of c c1 c' : MF c c1 -> met c' = met c1 -> MF c c'.
Proof. intros [H|H] E; [left|right]; congruence. Qed.

Ltac fin E := inversion E; subst; clear E; cbn [actx].

(** ** every micro-op outside the first-marking class only allocates or takes trace credit back *)
Lemma micro_ms w ar k m ar' hs out :
  first_marking m = false -> micro w ar k m = (ar', hs, out) -> MS (actx ar) (actx ar').
Proof.
  intros NF E. destruct ar as [c uid sets]. cbn [actx auid asets] in *.
  assert (KH : forall c', met c' = met c -> MS c c') by (intros; apply ms_same; auto).
  destruct m; cbn [micro actx auid asets] in E; try discriminate NF.
  - (* MAlloc *)
    pose proof (met_link c (norm_obj k0 ns nw)) as K.
    destruct (link c (norm_obj k0 ns nw)) as [c1 i]. cbn [fst] in K. fin E. unfold MS. cbn [met set_rg set_regs]. rewrite K. constructor. constructor.
  - fin E. apply KH; reflexivity.
  - fin E. apply KH; reflexivity.
  - destruct (rg c p) as [pid|]; [|fin E; apply ms_refl'].
    destruct (get c pid) as [o|]; [|fin E; apply KH; reflexivity].
    destruct (okind o); fin E; try apply ms_refl'; destruct (live o); apply KH; reflexivity.
  - destruct (rg c p) as [pid|]; [|fin E; apply ms_refl'].
    destruct (get c pid) as [o|]; [|fin E; apply KH; reflexivity].
    fin E. destruct (live o); apply KH; reflexivity.
  - (* MStore *)
    destruct (rg c p) as [pid|]; [|fin E; apply ms_refl'].
    destruct (get c pid) as [o|] eqn:G; [|fin E; apply KH; reflexivity].
    destruct (okind o) eqn:K.
    + fin E. apply (ms_met_of c (gc_write c pid)); [apply ms_gc_write|apply met_store_after].
    + fin E. apply ms_gc_write.
    + fin E. apply ms_refl'.
    + fin E. apply (ms_met_of c (gc_write c pid)); [apply ms_gc_write|apply met_store_after].
    + destruct (match c0 with Some r => rg c r | None => None end) as [v|]; [|fin E; apply ms_refl'].
      destruct (slot_empty o 0); [|fin E; apply ms_refl'].
      fin E. eapply ms_trans; [apply (ms_same c (store_strong c pid o 0 (Some v))); apply met_store_strong|apply ms_gc_write].
    + destruct (Nat.eqb i 1).
      * destruct (match c0 with Some r => rg c r | None => None end) as [v|]; [|fin E; apply ms_gc_write].
        destruct (slot_empty o 1); [|fin E; apply ms_gc_write].
        fin E. apply (ms_met_of c (gc_write c pid)); [apply ms_gc_write|apply met_store_after].
      * fin E. apply (ms_met_of c (gc_write c pid)); [apply ms_gc_write|apply met_store_after].
  - destruct (rg c p) as [pid|]; [|fin E; apply ms_refl'].
    destruct (get c pid) as [o|] eqn:G; [|fin E; apply KH; reflexivity].
    destruct (okind o) eqn:K; fin E; try apply ms_refl'; (apply (ms_met_of c (gc_write c pid)); [apply ms_gc_write|apply met_store_weak_after]).
  - destruct (rg c p) as [pid|]; [|fin E; apply ms_refl'].
    destruct (rg c c0) as [cid|]; [|fin E; apply ms_refl'].
    destruct (get c pid) as [o|] eqn:G; [|fin E; apply KH; reflexivity].
    destruct (okind o) eqn:K; try (fin E; apply ms_refl').
    destruct (slot_empty o 0); [|fin E; apply ms_refl'].
    fin E. apply (ms_met_of c (gc_write c pid)); [apply ms_gc_write|apply met_store_after].
  - destruct (root_mutable k); [|fin E; apply ms_refl'].
    destruct (Nat.ltb i (length (rootS c))); fin E; [apply KH; reflexivity|apply ms_refl'].
  - destruct (root_mutable k); [|fin E; apply ms_refl'].
    destruct (Nat.ltb i (length (rootW c))); fin E; [apply KH; reflexivity|apply ms_refl'].
  - destruct (rg c r) as [x|]; [|fin E; apply ms_refl'].
    destruct (get c x) as [o|]; [|fin E; apply KH; reflexivity].
    destruct (okind o); fin E; try apply ms_refl'; apply KH; reflexivity.
  - destruct (wrg c w0) as [x|]; [|fin E; apply ms_refl'].
    destruct (upgrade c x) as [c1 b] eqn:U. fin E. apply KH. cbn. pose proof (met_upgrade c x) as H. rewrite U in H. exact H.
  - destruct (wrg c w0) as [x|]; [|fin E; apply ms_refl'].
    destruct (is_dropped c x) as [c1 b] eqn:U. fin E. apply KH. pose proof (met_is_dropped c x) as H. rewrite U in H. exact H.
  - destruct (rgE c p) as [pid|]; [|fin E; apply ms_refl'].
    destruct c0 as [r|]; [|fin E; apply ms_gc_write].
    destruct (rgE c r) as [cid|]; [|fin E; apply ms_refl'].
    fin E. apply (ms_met_of c (backward_barrier c pid (Some cid))); [apply ms_backward_barrier|reflexivity].
  - destruct (rgE c p) as [pid|]; [|fin E; apply ms_refl'].
    destruct (wrg c w0) as [x|]; [|fin E; apply ms_refl'].
    fin E. apply (ms_met_of c (backward_barrier_weak c pid x)); [apply ms_backward_barrier_weak|reflexivity].
  - destruct (rg c p) as [pid|]; [|fin E; apply ms_refl'].
    destruct (rg c c0) as [cid|]; [|fin E; apply ms_refl'].
    destruct (get c pid) as [o|] eqn:G; [|fin E; apply KH; reflexivity].
    destruct (okind o) eqn:K; try (fin E; apply ms_refl').
    destruct (_ || _); fin E; [apply KH; apply met_store_strong|apply ms_refl'].
  - destruct (rg c p) as [pid|]; [|fin E; apply ms_refl'].
    destruct (wrg c w0) as [x|]; [|fin E; apply ms_refl'].
    destruct (get c pid) as [o|] eqn:G; [|fin E; apply KH; reflexivity].
    destruct (okind o) eqn:K; try (fin E; apply ms_refl').
    destruct (_ || _); fin E; [apply KH; apply met_store_weak|apply ms_refl'].
  - (* MStash *)
    destruct (rg c s) as [sid|]; [|fin E; apply ms_refl'].
    destruct (rg c c0) as [cid|]; [|fin E; apply ms_refl'].
    destruct (nth_error (handles w) h) as [[hd0|]|]; try (fin E; apply ms_refl').
    destruct (get c sid) as [so|] eqn:G; [|fin E; apply ms_refl'].
    destruct (sets_get sets sid) as [sl|]; [|fin E; apply ms_refl'].
    destruct (okind so); try (fin E; apply ms_refl').
    destruct (live so && ntr so && negb _); [|fin E; apply ms_refl'].
    set (c1 := add_lic (backward_barrier c sid (Some cid)) (LPair sid cid)) in *.
    assert (K1 : MS c c1) by (apply (ms_met_of c (backward_barrier c sid (Some cid))); [apply ms_backward_barrier|reflexivity]).
    destruct (slots_add sl) as [[sl' idx] grew].
    destruct (get c1 sid) as [so1|] eqn:G1; [|fin E; apply ms_refl'].
    fin E. apply (ms_met_of c c1); [exact K1|reflexivity].
  - (* MFetch *)
    destruct (rg c s) as [sid|]; [|fin E; apply ms_refl'].
    destruct (nth_error (handles w) h) as [[hd|]|]; try (fin E; apply ms_refl').
    destruct (get c sid) as [so|]; [|fin E; apply KH; reflexivity].
    destruct (okind so); try (fin E; apply ms_refl').
    destruct (live so); [|fin E; apply ms_refl'].
    destruct (_ && _); [|fin E; apply ms_refl'].
    destruct (existsb _ _); fin E; [apply KH; reflexivity|apply ms_refl'].
  - destruct (is_finalize k); [|fin E; apply ms_refl'].
    destruct (rgE c r) as [x|]; [|fin E; apply ms_refl'].
    destruct (is_dead c x) as [c1 b] eqn:U. fin E. apply KH. pose proof (met_is_dead c x) as H. rewrite U in H. exact H.
  - destruct (is_finalize k); [|fin E; apply ms_refl'].
    destruct (wrg c w0) as [x|]; [|fin E; apply ms_refl'].
    destruct (is_dead c x) as [c1 b] eqn:U. fin E. apply KH. pose proof (met_is_dead c x) as H. rewrite U in H. exact H.
  - fin E. apply KH; reflexivity.
  - fin E. apply KH; reflexivity.
  - fin E. apply KH; reflexivity.
  - destruct (rg c r1) as [x|]; [|fin E; apply ms_refl'].
    destruct (rg c r2) as [y|]; fin E; apply ms_refl'.
  - (* MAllocWith *)
    match type of E with context [init_obj ?kk ?ss ?ww] => destruct (init_obj kk ss ww) as [o|] end; [|fin E; apply ms_refl'].
    pose proof (met_link c o) as K.
    destruct (link c o) as [c1 i]. cbn [fst] in K. fin E. unfold MS. cbn [met set_rg set_regs]. rewrite K. constructor. constructor.
Qed.

(** ... and the first-marking class earns at most one marking credit *)
Lemma micro_mf w ar k m ar' hs out :
  first_marking m = true -> micro w ar k m = (ar', hs, out) -> MF (actx ar) (actx ar').
Proof.
  intros NF E. destruct ar as [c uid sets]. cbn [actx auid asets] in *.
  assert (KH : forall c', met c' = met c -> MF c c') by (intros c' H; left; exact H).
  destruct m; cbn [micro actx auid asets] in E; try discriminate NF.
  - destruct (rgE c c0) as [cid|]; [|fin E; apply KH; reflexivity].
    destruct p as [pr|].
    + destruct (rgE c pr) as [pid|]; [|fin E; apply KH; reflexivity].
      fin E. apply (mf_met_of c (forward_barrier c (Some pid) cid)); [apply mf_forward_barrier|reflexivity].
    + fin E. apply (mf_met_of c (forward_barrier c None cid)); [apply mf_forward_barrier|reflexivity].
  - destruct (wrg c w0) as [x|]; [|fin E; apply KH; reflexivity].
    destruct p as [pr|].
    + destruct (rgE c pr) as [pid|]; [|fin E; apply KH; reflexivity].
      fin E. apply (mf_met_of c (forward_barrier_weak c (Some pid) x)); [apply mf_forward_barrier_weak|reflexivity].
    + fin E. apply (mf_met_of c (forward_barrier_weak c None x)); [apply mf_forward_barrier_weak|reflexivity].
  - destruct (is_finalize k); [|fin E; apply KH; reflexivity].
    destruct (rgE c r) as [x|]; [|fin E; apply KH; reflexivity].
    fin E. apply mf_resurrect.
  - destruct (is_finalize k); [|fin E; apply KH; reflexivity].
    destruct (wrg c w0) as [x|]; [|fin E; apply KH; reflexivity].
    destruct (get c x) as [o|]; [|fin E; apply KH; reflexivity].
    destruct (live o); fin E; [apply (mf_met_of c (resurrect c x)); [apply mf_resurrect|reflexivity]|apply KH; reflexivity].
Qed.

Local Open Scope Q_scope.

(** ** the theorems: allocation, mutation and write barriers never lower the debt -- except the
    first-marking class (forward barriers, resurrect), which lowers it by at most [mark_factor] *)
Theorem micro_debt_monotone w ar k m ar' hs out :
  0 <= trace_f (pac (met (actx ar))) -> first_marking m = false -> micro w ar k m = (ar', hs, out) ->
  allocation_debt (met (actx ar)) <= allocation_debt (met (actx ar')).
Proof. intros F NF E. apply mstep_debt; auto. eapply micro_ms; eauto. Qed.

Theorem micro_debt_first_marking w ar k m ar' hs out :
  0 <= mark_f (pac (met (actx ar))) -> first_marking m = true -> micro w ar k m = (ar', hs, out) ->
  allocation_debt (met (actx ar)) - mark_f (pac (met (actx ar))) <= allocation_debt (met (actx ar')).
Proof.
  intros F NF E. destruct (micro_mf _ _ _ _ _ _ _ NF E) as [H|H]; rewrite H.
  - lra.
  - apply debt_marked_bound; auto.
Qed.
