(** * The write barriers and the sanctioned stores (every documented adoption path, C06). *)
From GA Require Import Model.Spec Proofs.HeapLemmas Proofs.Inv Proofs.Recolor Proofs.InvMicro Proofs.InvStore Proofs.InvMark.
Local Open Scope nat_scope.

Lemma frame_ph c c' : frame c c' -> ph c' = ph c.
Proof. intros []. auto. Qed.

Lemma unblack_not_mark c p : ph c <> Mark -> lic_ok c (LParent p).
Proof. intros H HM. contradiction. Qed.

Lemma lic_ok_not_mark c l : ph c <> Mark -> lic_ok c l.
Proof. intros H HM. contradiction. Qed.

(** ** backward barrier *)
Lemma backward_barrier_inv e c p po ch :
  Inv e c -> (e = None \/ e = Some p) -> get c p = Some po ->
  (forall x, ch = Some x -> allocated c x) ->
  (e = Some p -> ph c = Mark -> col po = Black -> ntr po = true) ->
  Inv None (backward_barrier c p ch) \/ (e = Some p /\ backward_barrier c p ch = c) ->
  True.
Proof. auto. Qed.

Lemma backward_barrier_inv_none c p po ch :
  Inv None c -> get c p = Some po -> (forall x, ch = Some x -> allocated c x) ->
  Inv None (backward_barrier c p ch) /\ frame c (backward_barrier c p ch)
  /\ lic_ok (backward_barrier c p ch) (match ch with None => LParent p | Some x => LPair p x end)
  /\ (forall y, tstrong c y -> tstrong (backward_barrier c p ch) y)
  /\ (forall y, tweak c y -> tweak (backward_barrier c p ch) y)
  /\ sgraph c (backward_barrier c p ch).
Proof.
  intros I G HA. unfold backward_barrier.
  destruct (ph c) eqn:P;
    try (split; [auto|split; [apply frame_refl|split; [apply lic_ok_not_mark; rewrite P; discriminate|split; [auto|split; [auto|apply sgraph_refl]]]]]).
  rewrite G.
  assert (NOOP : (col po = Black /\ ntr po = true -> match ch with None => False | Some x => tstrong c x end) ->
     Inv None c /\ frame c c /\ lic_ok c (match ch with None => LParent p | Some x => LPair p x end)
     /\ (forall y, tstrong c y -> tstrong c y) /\ (forall y, tweak c y -> tweak c y) /\ sgraph c c).
  { intros H. split; [auto|split; [apply frame_refl|split; [|split; [auto|split; [auto|apply sgraph_refl]]]]].
    intros _. destruct ch as [x|]; cbn.
    - destruct (col po) eqn:C; try (left; intros o' G'; rewrite G in G'; inversion G'; subst; rewrite C; intros [? ?]; discriminate).
      destruct (ntr po) eqn:N; [right; apply H; auto|].
      left. intros o' G'. rewrite G in G'. inversion G'; subst. rewrite N. intros [? ?]; discriminate.
    - intros o' G'. rewrite G in G'. inversion G'; subst. intros [B N]. apply H. auto. }
  assert (FIRE : col po = Black -> ntr po = true ->
     Inv None (make_gray_again c p) /\ frame c (make_gray_again c p)
     /\ lic_ok (make_gray_again c p) (match ch with None => LParent p | Some x => LPair p x end)
     /\ (forall y, tstrong c y -> tstrong (make_gray_again c p) y)
     /\ (forall y, tweak c y -> tweak (make_gray_again c p) y)
     /\ sgraph c (make_gray_again c p)).
  { intros B N. destruct (make_gray_again_inv None c p po I P G B (or_introl eq_refl)) as [I' [F' [TS TW]]].
    split; [auto|split; [auto|split; [|split; [auto|split; [auto|]]]]].
    - assert (U : unblack (make_gray_again c p) p).
      { intros o' G' [B' _]. assert (In p (gray (make_gray_again c p) ++ gray_again (make_gray_again c p))).
        { unfold make_gray_again. cbn. destruct (N.eqb _ 0); cbn; rewrite in_app_iff; right; left; auto. }
        apply (i_gray _ _ I') in H. destruct H as [o2 [G2 C2]]. congruence. }
      intros _. destruct ch; cbn; auto.
    - unfold make_gray_again. apply sgraph_trans with (b := recolor c p Gray).
      + eapply recol_sgraph. apply recol_recolor; eauto.
      + apply sgraph_same_heap. destruct (N.eqb _ 0); reflexivity. }
  destruct (color_eqb (col po) Black) eqn:CB.
  - apply color_eqb_eq in CB. destruct (ntr po) eqn:N; cbn [andb].
    + destruct ch as [x|].
      * destruct (HA x eq_refl) as [xo Gx]. rewrite Gx.
        destruct (is_whiteish (col xo)) eqn:W; [apply FIRE; auto|].
        apply NOOP. intros _. exists xo. split; auto. destruct (col xo); try discriminate; [left|right]; auto.
      * apply FIRE; auto.
    + apply NOOP. intros [_ ?]; discriminate.
  - cbn [andb]. apply NOOP. intros [B _]. rewrite B in CB. discriminate.
Qed.

Lemma backward_barrier_weak_inv c p po x :
  Inv None c -> get c p = Some po -> allocated c x ->
  Inv None (backward_barrier_weak c p x) /\ frame c (backward_barrier_weak c p x)
  /\ lic_ok (backward_barrier_weak c p x) (LPairW p x)
  /\ sgraph c (backward_barrier_weak c p x).
Proof.
  intros I G [xo Gx]. unfold backward_barrier_weak.
  destruct (ph c) eqn:P;
    try (split; [auto|split; [apply frame_refl|split; [apply lic_ok_not_mark; rewrite P; discriminate|apply sgraph_refl]]]).
  rewrite G.
  assert (NOOP : (col po = Black /\ ntr po = true -> tweak c x) ->
     Inv None c /\ frame c c /\ lic_ok c (LPairW p x) /\ sgraph c c).
  { intros H. split; [auto|split; [apply frame_refl|split; [|apply sgraph_refl]]]. intros _. cbn.
    destruct (col po) eqn:C; try (left; intros o' G'; rewrite G in G'; inversion G'; subst; rewrite C; intros [? ?]; discriminate).
    destruct (ntr po) eqn:N; [right; apply H; auto|].
    left. intros o' G'. rewrite G in G'. inversion G'; subst. rewrite N. intros [? ?]; discriminate. }
  destruct (color_eqb (col po) Black) eqn:CB.
  - apply color_eqb_eq in CB. destruct (ntr po) eqn:N; cbn [andb].
    + rewrite Gx. destruct (color_eqb (col xo) White) eqn:W.
      * destruct (make_gray_again_inv None c p po I P G CB (or_introl eq_refl)) as [I' [F' [TS TW]]].
        split; [auto|split; [auto|split]].
        -- intros _. left. intros o' G' [B' _].
           assert (In p (gray (make_gray_again c p) ++ gray_again (make_gray_again c p))).
           { unfold make_gray_again. cbn. destruct (N.eqb _ 0); cbn; rewrite in_app_iff; right; left; auto. }
           apply (i_gray _ _ I') in H. destruct H as [o2 [G2 C2]]. congruence.
        -- unfold make_gray_again. apply sgraph_trans with (b := recolor c p Gray).
           ++ eapply recol_sgraph. apply recol_recolor; eauto.
           ++ apply sgraph_same_heap. destruct (N.eqb _ 0); reflexivity.
      * apply NOOP. intros _. exists xo. split; auto. intros E. rewrite E in W. discriminate.
    + apply NOOP. intros [_ ?]; discriminate.
  - cbn [andb]. apply NOOP. intros [B _]. rewrite B in CB. discriminate.
Qed.

(** ** forward barriers *)
Lemma forward_barrier_inv c p x xo :
  Inv None c -> get c x = Some xo -> live xo = true -> (forall q, p = Some q -> allocated c q) ->
  Inv None (forward_barrier c p x) /\ frame c (forward_barrier c p x)
  /\ lic_ok (forward_barrier c p x) (match p with None => LChild x | Some q => LPair q x end)
  /\ mono c (forward_barrier c p x).
Proof.
  intros I G L HA. unfold forward_barrier.
  destruct (ph c) eqn:P;
    try (split; [auto|split; [apply frame_refl|split; [apply lic_ok_not_mark; rewrite P; discriminate|apply mono_refl]]]).
  destruct (trace_inv None c x xo I P G L) as [I' [TS [Mo F]]].
  destruct p as [q|]; cbn [parent_black].
  - destruct (HA q eq_refl) as [qo Gq]. rewrite Gq.
    destruct (color_eqb (col qo) Black) eqn:CB.
    + split; [auto|split; [auto|split; [intros _; right; auto|auto]]].
    + split; [auto|split; [apply frame_refl|split; [|apply mono_refl]]]. intros _. left.
      intros o' G' [B _]. rewrite Gq in G'. inversion G'; subst. rewrite B in CB. discriminate.
  - split; [auto|split; [auto|split; [intros _; auto|auto]]].
Qed.

Lemma forward_barrier_weak_inv c p x :
  Inv None c -> allocated c x -> (forall q, p = Some q -> allocated c q) ->
  Inv None (forward_barrier_weak c p x) /\ frame c (forward_barrier_weak c p x)
  /\ lic_ok (forward_barrier_weak c p x) (match p with None => LChildW x | Some q => LPairW q x end)
  /\ mono c (forward_barrier_weak c p x).
Proof.
  intros I [xo G] HA. unfold forward_barrier_weak.
  destruct (ph c) eqn:P;
    try (split; [auto|split; [apply frame_refl|split; [apply lic_ok_not_mark; rewrite P; discriminate|apply mono_refl]]]).
  destruct (trace_weak_inv None c x xo I P G) as [I' [TS [Mo F]]].
  destruct p as [q|]; cbn [parent_black].
  - destruct (HA q eq_refl) as [qo Gq]. rewrite Gq.
    destruct (color_eqb (col qo) Black) eqn:CB.
    + split; [auto|split; [auto|split; [intros _; right; auto|auto]]].
    + split; [auto|split; [apply frame_refl|split; [|apply mono_refl]]]. intros _. left.
      intros o' G' [B _]. rewrite Gq in G'. inversion G'; subst. rewrite B in CB. discriminate.
  - split; [auto|split; [auto|split; [intros _; auto|auto]]].
Qed.
