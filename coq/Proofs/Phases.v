(** * The phase protocol of do_collection (C08), for every debt oracle. *)
From GA Require Import Model.Spec Proofs.HeapLemmas Proofs.Inv Proofs.InvMark.
Local Open Scope nat_scope.

Section Phases.
  Variable dec : ctx -> bool.

  Lemma mark_one_ph c f c' r u : mark_one c f = (c', r, u) -> ph c' = ph c.
  Proof.
    unfold mark_one.
    assert (TE : forall es c0, ph (trace_edges c0 es) = ph c0).
    { induction es as [|e es IH]; intros c0; cbn; auto. unfold trace_edges in IH. rewrite IH.
      destruct e; cbn; unfold trace, trace_weak; destruct (get c0 t) as [o|]; auto;
        destruct (col o); auto; try (destruct (ntr o)); cbn; unfold recolor; destruct (get c0 t); auto. }
    assert (MG : forall c0 x, ph (make_gray_again c0 x) = ph c0).
    { intros c0 x. unfold make_gray_again. cbn. destruct (N.eqb _ 0); cbn; unfold recolor; destruct (get c0 x); auto. }
    assert (RC : forall c0 x k, ph (recolor c0 x k) = ph c0).
    { intros. unfold recolor. destruct (get c0 x); auto. }
    destruct (gray c) as [|x g].
    - destruct (gray_again c) as [|x g].
      + destruct (rnt c); [destruct f|]; intros E; inversion E; subst; cbn; rewrite ?TE; auto.
      + destruct (get _ x) as [o|] eqn:G; [|intros E; inversion E; subst; rewrite RC; auto].
        destruct f as [j|]; [destruct (can_panic (okind o))|]; intros E; inversion E; subst;
          rewrite ?MG, ?TE; destruct (live o); cbn; rewrite ?RC; auto.
    - destruct (get _ x) as [o|] eqn:G; [|intros E; inversion E; subst; rewrite RC; auto].
      destruct f as [j|]; [destruct (can_panic (okind o))|]; intros E; inversion E; subst;
        rewrite ?MG, ?TE; destruct (live o); cbn; rewrite ?RC; auto.
  Qed.

  Lemma sweep_one_ph c c' evs r : sweep_one c = (c', evs, r) -> ph c' = ph c.
  Proof.
    unfold sweep_one. destruct (unsw c) as [|x rest]; [intros E; inversion E; auto|].
    destruct (get c x) as [o|]; [|intros E; inversion E; auto].
    destruct (col o); intros E; inversion E; subst; clear E; unfold free_total;
      repeat match goal with |- context [if ?b then _ else _] => destruct b end; reflexivity.
  Qed.

  Lemma mark_one_break c f c' r u : mark_one c f = (c', r, u) -> r = MBreak -> c' = c /\ gray_remaining c = false.
  Proof.
    unfold mark_one. destruct (gray c) as [|x g] eqn:G1.
    - destruct (gray_again c) as [|x g] eqn:G2.
      + destruct (rnt c) eqn:R; [destruct f; intros E; inversion E; subst; discriminate|].
        intros E _. inversion E; subst. split; auto. unfold gray_remaining. rewrite G1, G2, R. reflexivity.
      + destruct (get _ x) as [o|]; [|intros E; inversion E; subst; discriminate].
        destruct f as [j|]; [destruct (can_panic (okind o))|]; intros E; inversion E; subst; discriminate.
    - destruct (get _ x) as [o|]; [|intros E; inversion E; subst; discriminate].
      destruct f as [j|]; [destruct (can_panic (okind o))|]; intros E; inversion E; subst; discriminate.
  Qed.

  (** one iteration: which phase changes are possible *)
  Lemma loop_body_ph st hs c f c1 evs k f' :
    loop_body st hs c f = (c1, evs, k, f') ->
    (ph c = Sleep -> ph c1 = Mark /\ k = CCont true)
    /\ (ph c = Mark -> ph c1 = Mark \/ (ph c1 = Sweep /\ gray_remaining c = false /\ stop_le st FullyMarked = false /\ k = CCont hs))
    /\ (ph c = Mark -> k = CBreak -> c1 = c /\ gray_remaining c = false /\ stop_le st FullyMarked = true)
    /\ (ph c = Sweep -> (ph c1 = Sweep /\ (k = CBreak -> c1 = c /\ stop_le st AtSweep = true))
                        \/ (ph c1 = Sleep /\ stop_le st AtSweep = false /\ (st = FinishCycle -> k = CReturn)))
    /\ (k = CReturn -> ph c1 = Sleep /\ st = FinishCycle).
  Proof.
    unfold loop_body. intros E. destruct (ph c) eqn:P.
    - inversion E; subst. repeat split; try discriminate; auto.
    - destruct (mark_one c _) as [[c2 r] u] eqn:EM. pose proof (mark_one_ph _ _ _ _ _ EM) as P2.
      destruct r.
      + inversion E; subst. repeat split; try discriminate; auto. intros _. left. congruence.
      + destruct (mark_one_break _ _ _ _ _ EM eq_refl) as [-> GR].
        destruct (stop_le st FullyMarked) eqn:SL; inversion E; subst; repeat split; try discriminate; auto.
      + inversion E; subst. repeat split; try discriminate; auto. intros _. left. congruence.
    - destruct (stop_le st AtSweep) eqn:SL.
      + inversion E; subst. repeat split; try discriminate; auto.
      + destruct (sweep_one c) as [[c2 evs2] r] eqn:ES. pose proof (sweep_one_ph _ _ _ _ ES) as P2.
        destruct r.
        * inversion E; subst. repeat split; try discriminate; auto. intros _. left. split; [congruence|discriminate].
        * destruct st; try (cbn in SL; discriminate).
          -- inversion E; subst. repeat split; try discriminate; auto. 
          -- destruct hs; inversion E; subst; repeat split; try discriminate; auto; intros _; right; repeat split; auto; discriminate.
  Qed.

  (** mark_debt / finish_marking: identity while Sweeping, never enter Sweeping *)
  Lemma loop_mark_ph fuel : forall ru hs c f c' evs oc,
    loop dec fuel ru FullyMarked hs c f = (c', evs, oc) ->
    (ph c = Sweep -> c' = c) /\ (ph c' = Sweep -> ph c = Sweep).
  Proof.
    induction fuel as [|n IH]; intros ru hs c f c' evs oc E; cbn [loop] in E.
    - inversion E; subst. auto.
    - destruct (loop_body FullyMarked hs c f) as [[[c1 ev1] k] f1] eqn:EB.
      destruct (loop_body_ph _ _ _ _ _ _ _ _ EB) as [H1 [H2 [H3 [H4 H5]]]].
      assert (NS : ph c1 = Sweep -> ph c = Sweep).
      { intros P1. destruct (ph c) eqn:P; auto.
        - destruct (H1 eq_refl) as [A _]. congruence.
        - destruct (H2 eq_refl) as [A|[_ [_ [A _]]]]; [congruence|discriminate]. }
      assert (ID : ph c = Sweep -> c1 = c /\ k = CBreak).
      { intros P. unfold loop_body in EB. rewrite P in EB. cbn in EB. inversion EB; auto. }
      destruct k.
      + assert (ph c <> Sweep) by (intros P; destruct (ID P); discriminate).
        assert (CONT : forall c2 ev2 r, loop dec n ru FullyMarked has_slept c1 f1 = (c2, ev2, r) ->
                   (ph c = Sweep -> c2 = c) /\ (ph c2 = Sweep -> ph c = Sweep)).
        { intros c2 ev2 r EL. destruct (IH _ _ _ _ _ _ _ EL) as [A B]. split; [contradiction|auto]. }
        destruct ru.
        * destruct (dec c1).
          -- destruct (loop dec n PayDebt FullyMarked has_slept c1 f1) as [[c2 ev2] r] eqn:EL. inversion E; subst. eapply CONT; eauto.
          -- inversion E; subst. split; [contradiction|auto].
        * destruct (loop dec n RunStop FullyMarked has_slept c1 f1) as [[c2 ev2] r] eqn:EL. inversion E; subst. eapply CONT; eauto.
      + inversion E; subst. split; auto. intros P. destruct (ID P); auto.
      + inversion E; subst. destruct (H5 eq_refl) as [_ A]. discriminate.
      + inversion E; subst. split; auto. intros P. destruct (ID P); discriminate.
  Qed.

  (** finish_marking (RunStop, FullyMarked) that completes ends fully marked unless it started Sweeping *)
  Lemma loop_finish_marking fuel : forall hs c f c' evs,
    loop dec fuel RunStop FullyMarked hs c f = (c', evs, Done) -> ph c <> Sweep -> is_marked c' = true.
  Proof.
    induction fuel as [|n IH]; intros hs c f c' evs E NS; cbn [loop] in E; [discriminate|].
    destruct (loop_body FullyMarked hs c f) as [[[c1 ev1] k] f1] eqn:EB.
    destruct (loop_body_ph _ _ _ _ _ _ _ _ EB) as [H1 [H2 [H3 [H4 H5]]]].
    destruct k.
    - destruct (loop dec n RunStop FullyMarked has_slept c1 f1) as [[c2 ev2] r] eqn:EL. inversion E; subst.
      eapply IH; eauto. destruct (ph c) eqn:P; try contradiction.
      + destruct (H1 eq_refl) as [A _]. rewrite A. discriminate.
      + destruct (H2 eq_refl) as [A|[_ [_ [A _]]]]; [rewrite A; discriminate|discriminate].
    - inversion E; subst. destruct (ph c) eqn:P; try contradiction.
      + destruct (H1 eq_refl) as [_ A]. discriminate.
      + destruct (H3 eq_refl eq_refl) as [-> [GR _]]. unfold is_marked. rewrite P, GR. reflexivity.
    - destruct (H5 eq_refl) as [_ A]. discriminate.
    - discriminate.
  Qed.

  (** finish_cycle (RunStop, FinishCycle) that completes ends Sleeping *)
  Lemma loop_finish_cycle fuel : forall hs c f c' evs,
    loop dec fuel RunStop FinishCycle hs c f = (c', evs, Done) -> ph c' = Sleep.
  Proof.
    induction fuel as [|n IH]; intros hs c f c' evs E; cbn [loop] in E; [discriminate|].
    destruct (loop_body FinishCycle hs c f) as [[[c1 ev1] k] f1] eqn:EB.
    destruct (loop_body_ph _ _ _ _ _ _ _ _ EB) as [H1 [H2 [H3 [H4 H5]]]].
    destruct k.
    - destruct (loop dec n RunStop FinishCycle has_slept c1 f1) as [[c2 ev2] r] eqn:EL. inversion E; subst. eapply IH; eauto.
    - inversion E; subst. destruct (ph c) eqn:P.
      + destruct (H1 eq_refl) as [_ A]. discriminate.
      + destruct (H3 eq_refl eq_refl) as [_ [_ A]]. discriminate.
      + destruct (H4 eq_refl) as [[_ A]|[_ [_ A]]].
        * destruct (A eq_refl) as [_ B]. discriminate.
        * specialize (A eq_refl). discriminate.
    - inversion E; subst. destruct (H5 eq_refl); auto.
    - discriminate.
  Qed.

  (** cycle_debt / finish_cycle never pass from Sweeping into a new marking phase in one call *)
  Lemma loop_cycle_no_remark fuel : forall ru hs c f c' evs oc,
    loop dec fuel ru FinishCycle hs c f = (c', evs, oc) -> ph c = Sweep -> ph c' = Sweep \/ ph c' = Sleep.
  Proof.
    induction fuel as [|n IH]; intros ru hs c f c' evs oc E P; cbn [loop] in E.
    - inversion E; subst. auto.
    - destruct (loop_body FinishCycle hs c f) as [[[c1 ev1] k] f1] eqn:EB.
      destruct (loop_body_ph _ _ _ _ _ _ _ _ EB) as [H1 [H2 [H3 [H4 H5]]]].
      destruct (H4 P) as [[P1 _]|[P1 [_ RET]]].
      + destruct k; try (inversion E; subst; auto; fail).
        destruct ru.
        * destruct (dec c1); [|inversion E; subst; auto].
          destruct (loop dec n PayDebt FinishCycle has_slept c1 f1) as [[c2 ev2] r] eqn:EL. inversion E; subst. eapply IH; eauto.
        * destruct (loop dec n RunStop FinishCycle has_slept c1 f1) as [[c2 ev2] r] eqn:EL. inversion E; subst. eapply IH; eauto.
      + rewrite (RET eq_refl) in E. inversion E; subst. auto.
  Qed.

  (** sweeping begins only from a fully marked arena: any iteration that moves Mark -> Sweep *)
  Lemma sweep_only_from_marked st hs c f c1 evs k f' :
    loop_body st hs c f = (c1, evs, k, f') -> ph c = Mark -> ph c1 = Sweep -> gray_remaining c = false.
  Proof.
    intros EB P P1. destruct (loop_body_ph _ _ _ _ _ _ _ _ EB) as [_ [H2 _]].
    destruct (H2 P) as [A|[_ [A _]]]; [congruence|auto].
  Qed.

  (** a Marked arena: mark_debt / finish_marking do nothing *)
  Lemma marked_identity c ru f :
    is_marked c = true -> exists oc, do_collection dec c ru FullyMarked f = (c, [], oc) /\ oc = Done.
  Proof.
    intros IM. unfold is_marked in IM. apply andb_true_iff in IM. destruct IM as [P GR].
    apply phase_eqb_eq in P. apply negb_true_iff in GR.
    assert (MB : forall f0, exists u, mark_one c f0 = (c, MBreak, u)).
    { intros f0. apply gray_remaining_false in GR. destruct GR as [G1 [G2 G3]]. unfold mark_one. rewrite G1, G2, G3. eauto. }
    assert (LP : forall n hs, loop dec (S n) ru FullyMarked hs c f = (c, [], Done)).
    { intros n hs. cbn [loop]. unfold loop_body. rewrite P.
      destruct (MB (match f with Some (0, j) => Some j | _ => None end)) as [u EM]. rewrite EM. cbn. reflexivity. }
    exists Done. split; auto. unfold do_collection, collection_fuel.
    replace (4 * length (heap c) + 2 * (length (gray c) + length (gray_again c)) + 16)
      with (S (4 * length (heap c) + 2 * (length (gray c) + length (gray_again c)) + 15)) by lia.
    destruct ru; [destruct (dec c)|]; auto.
  Qed.

  (** start_sweeping from a Marked arena ends Sweeping, without destructing anything yet *)
  Lemma start_sweeping_sweeps c :
    is_marked c = true ->
    exists c', do_collection dec c RunStop AtSweep None = (c', [], Done) /\ ph c' = Sweep.
  Proof.
    intros IM. unfold is_marked in IM. apply andb_true_iff in IM. destruct IM as [P GR].
    apply phase_eqb_eq in P. apply negb_true_iff in GR.
    pose proof GR as GR'. apply gray_remaining_false in GR'. destruct GR' as [G1 [G2 G3]].
    unfold do_collection, collection_fuel.
    replace (4 * length (heap c) + 2 * (length (gray c) + length (gray_again c)) + 16)
      with (S (S (4 * length (heap c) + 2 * (length (gray c) + length (gray_again c)) + 14))) by lia.
    cbn [loop]. unfold loop_body at 1. rewrite P. unfold mark_one. rewrite G1, G2, G3. cbn.
    eexists. split; [reflexivity|]. reflexivity.
  Qed.
End Phases.
