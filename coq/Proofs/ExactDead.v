(** * Exactness of marking (C07): in a cycle that is not interleaved with mutation, when the arena is
    fully marked, [is_dead] answers true exactly for the objects unreachable from the root. *)
From GA Require Import Model.Spec Proofs.HeapLemmas Proofs.Inv Proofs.Recolor Proofs.InvMicro Proofs.InvStore
     Proofs.InvMark Proofs.InvSweep Proofs.InvLoop Proofs.Phases Proofs.Termination Proofs.Final Proofs.Exact.
Local Open Scope nat_scope.

(** one iteration of the driver loop preserves the pure-cycle invariant, whatever the stop condition *)
Lemma loop_body_ei c0 st hs c c1 evs k f' :
  Inv None c -> quiescent c -> EI c0 c -> loop_body st hs c None = (c1, evs, k, f') -> EI c0 c1 /\ f' = None.
Proof.
  intros I Q [SG [EMk ESw]] EB. unfold loop_body in EB. destruct (ph c) eqn:P.
  - (* Sleep: everything is white *)
    inversion EB; subst. split; [|reflexivity].
    split; [eapply subgraph_same_heap; eauto|]. split; [|cbn; discriminate].
    intros _. destruct (i_sleep _ _ I P) as [AW _]. split; intros x o G D;
      change (get (set_ph c Mark) x) with (get c x) in G; rewrite (AW x o G) in D; [destruct D; discriminate|discriminate].
  - (* Mark *)
    destruct (mark_one c None) as [[c2 r] u] eqn:EM.
    pose proof (mark_one_em c0 c c2 r u I Q P (conj SG (EMk eq_refl)) EM) as [SG2 EM2].
    pose proof (mark_one_ph _ _ _ _ _ EM) as P2.
    destruct r.
    + inversion EB; subst. split; [|reflexivity]. split; [auto|split; [auto|intros PS; rewrite P2, P in PS; discriminate]].
    + destruct (mark_one_break _ _ _ _ _ EM eq_refl) as [-> GR].
      destruct (stop_le st FullyMarked); inversion EB; subst; (split; [|reflexivity]).
      * split; [auto|split; [auto|intros PS; rewrite P in PS; discriminate]].
      * split; [eapply subgraph_same_heap; eauto|split; [cbn; discriminate|]]. intros _.
        destruct EM2 as [D1 D2]. split.
        -- intros x o Hin G. change (get (set_lists (set_ph c Sweep) [] (all c)) x) with (get c x) in G. split.
           ++ intros B. eapply D1; eauto. rewrite B; right; auto.
           ++ intros B. eapply D2; eauto.
        -- cbn. intros x o [].
    + exfalso. eapply mark_one_no_panic; eauto.
  - (* Sweep *)
    destruct (stop_le st AtSweep).
    { inversion EB; subst. split; [|reflexivity]. split; [auto|split; [intros PP; rewrite P in PP; discriminate|intros _; apply ESw; reflexivity]]. }
    destruct (sweep_one c) as [[c2 evs2] r] eqn:ES.
    destruct (sweep_one_es c0 _ _ _ _ I P SG (ESw eq_refl) ES) as [SG2 [ES2 BR]].
    pose proof (sweep_one_ph _ _ _ _ ES) as P2.
    destruct r.
    + inversion EB; subst. split; [|reflexivity]. split; [auto|split; [intros PM; rewrite P2, P in PM; discriminate|auto]].
    + destruct (BR eq_refl) as [-> HU].
      assert (EIS : EI c0 (set_ph (set_rnt (set_met c (finish_cycle (met c) hs)) true) Sleep)).
      { split; [eapply subgraph_same_heap; eauto|split; cbn; discriminate]. }
      destruct st; [| | |]; try (destruct hs); inversion EB; subst; (split; [exact EIS|reflexivity]).
Qed.

Section Loop.
  Variable dec : ctx -> bool.

  Lemma loop_ei c0 fuel : forall ru st hs c c' evs oc,
    Inv None c -> quiescent c -> EI c0 c -> loop dec fuel ru st hs c None = (c', evs, oc) -> EI c0 c'.
  Proof.
    induction fuel as [|n IH]; intros ru st hs c c' evs oc I Q E EL; cbn [loop] in EL.
    - inversion EL; subst. auto.
    - destruct (loop_body st hs c None) as [[[c1 ev1] k] f1] eqn:EB.
      destruct (loop_body_inv _ _ _ _ _ _ _ _ I Q EB) as [I1 [S1 _]].
      assert (Q1 : quiescent c1) by (eapply same_cb_quiescent; eauto).
      destruct (loop_body_ei c0 _ _ _ _ _ _ _ I Q E EB) as [E1 ->].
      assert (CONT : forall hs', (let '(c2, ev2, r) := loop dec n ru st hs' c1 None in (c2, ev1 ++ ev2, r)) = (c', evs, oc) -> EI c0 c').
      { intros hs' EE. destruct (loop dec n ru st hs' c1 None) as [[c2 ev2] r] eqn:EL2. inversion EE; subst. eapply IH; eauto. }
      destruct k.
      + destruct ru.
        * destruct (dec c1); [apply (CONT has_slept); auto|]. inversion EL; subst. auto.
        * apply (CONT has_slept); auto.
      + inversion EL; subst. auto.
      + inversion EL; subst. auto.
      + inversion EL; subst. auto.
  Qed.

  Lemma do_collection_ei c0 c ru st c' evs oc :
    Inv None c -> quiescent c -> EI c0 c -> do_collection dec c ru st None = (c', evs, oc) -> EI c0 c'.
  Proof.
    intros I Q E EC. unfold do_collection in EC. destruct ru.
    - destruct (dec c); [eapply loop_ei; eauto|]. inversion EC; subst. auto.
    - eapply loop_ei; eauto.
  Qed.
End Loop.

(** ** any number of collection calls, of any kind, with any debt oracles, and no mutation in between *)
Definition call := ((ctx -> bool) * run_until * stop)%type.

Fixpoint run_calls (c : ctx) (cs : list call) : ctx :=
  match cs with
  | [] => c
  | (dec, ru, st) :: cs' => let '(c', _, _) := do_collection dec c ru st None in run_calls c' cs'
  end.

Lemma run_calls_ei c0 cs : forall c,
  Inv None c -> quiescent c -> EI c0 c -> (forall t, reach c0 t -> reach c t) ->
  let c' := run_calls c cs in
  Inv None c' /\ quiescent c' /\ EI c0 c' /\ (forall t, reach c0 t -> reach c' t).
Proof.
  induction cs as [|[[dec ru] st] cs IH]; intros c I Q E RT; cbn [run_calls].
  - cbv zeta. split; [auto|split; [auto|split; auto]].
  - destruct (do_collection dec c ru st None) as [[c1 ev1] oc1] eqn:EC.
    destruct (do_collection_inv dec _ _ _ _ _ _ _ I Q EC) as [I1 [Q1 [_ [_ RT1]]]].
    apply IH; [exact I1|exact Q1|exact (do_collection_ei dec c0 c ru st c1 ev1 oc1 I Q E EC)|intros t Ht; apply RT1; apply RT; exact Ht].
Qed.

Theorem dead_iff_unreachable c0 cs :
  Inv None c0 -> quiescent c0 -> ph c0 = Sleep ->
  let c' := run_calls c0 cs in
  is_marked c' = true ->
  forall x o, get c' x = Some o -> (snd (is_dead c' x) = true <-> ~ reach c' x).
Proof.
  intros I Q P c' IM x o G.
  assert (E0 : EI c0 c0).
  { split; [apply subgraph_refl|]. split; intros PP; rewrite P in PP; discriminate. }
  destruct (run_calls_ei c0 cs c0 I Q E0 (fun t H => H)) as [I' [Q' [[SG [EMk _]] RT]]].
  fold c' in I', Q', SG, EMk, RT.
  unfold is_marked in IM. apply andb_true_iff in IM. destruct IM as [PM GR].
  apply phase_eqb_eq in PM. apply negb_true_iff in GR.
  unfold is_dead. rewrite G. cbn [snd]. split.
  - intros WH R. destruct (marked_sound c' x I' PM GR R) as [o' [G' B]]. rewrite G in G'. inversion G'; subst.
    rewrite B in WH. discriminate.
  - intros NR. destruct (col o) eqn:C; try reflexivity; exfalso; apply NR; apply RT;
      apply (proj1 (EMk PM) x o G); rewrite C; [left|right]; reflexivity.
Qed.

(** the same for every arena of every reachable world that is asleep outside callbacks *)
From GA Require Import Proofs.InvWorld Proofs.Safety.

Theorem dead_iff_unreachable_world ops a ar cs :
  cur (run world_init ops) = None -> get_arena (run world_init ops) a = Some ar -> ph (actx ar) = Sleep ->
  let c' := run_calls (actx ar) cs in
  is_marked c' = true ->
  forall x o, get c' x = Some o -> (snd (is_dead c' x) = true <-> ~ reach c' x).
Proof.
  intros CU GA P. apply dead_iff_unreachable; auto.
  - exact (reachable_inv ops a ar GA).
  - exact (reachable_quiescent ops a ar CU GA).
Qed.
