(** * Lifetime accounting (C04), part 2: collection extends the history consistently; dropping the
    arena completes it. *)
From GA Require Import Model.Spec Proofs.HeapLemmas Proofs.Inv Proofs.InvSweep Proofs.Once.
From GA Require Import Proofs.Life.
Local Open Scope nat_scope.

Lemma count_one_drop x y : count (EvDrop y) [EvDrop x] = if Nat.eqb y x then 1 else 0.
Proof. unfold count. cbn. destruct (Nat.eqb y x); reflexivity. Qed.
Lemma count_one_free x y : count (EvFree y) [EvFree x] = if Nat.eqb y x then 1 else 0.
Proof. unfold count. cbn. destruct (Nat.eqb y x); reflexivity. Qed.
Lemma count_drop_free x y : count (EvDrop y) [EvFree x] = 0.
Proof. reflexivity. Qed.
Lemma count_free_drop x y : count (EvFree y) [EvDrop x] = 0.
Proof. reflexivity. Qed.
Lemma count_nil e : count e [] = 0.
Proof. reflexivity. Qed.

Lemma lstate_hset c c2 x o v :
  heap c2 = hset (heap c) x v -> get c x = Some o ->
  forall y, lstate c2 y = if Nat.eqb x y then (match v with Some o' => if live o' then (0, 0) else (1, 0) | None => (1, 1) end)
                          else lstate c y.
Proof.
  intros H G y. pose proof (get_some_lt _ _ _ G) as LT. unfold lstate, get. rewrite H, hset_length.
  destruct (Nat.eqb_spec x y) as [<-|N].
  - rewrite hget_hset_eq by auto. destruct v; auto. destruct (Nat.ltb_spec x (length (heap c))); [reflexivity|lia].
  - rewrite hget_hset_neq by auto. reflexivity.
Qed.

Lemma sweep_one_hist c c' evs r H : HistOK c H -> sweep_one c = (c', evs, r) -> HistOK c' (H ++ evs).
Proof.
  intros HK E. unfold sweep_one in E. destruct (unsw c) as [|x rest].
  { inversion E; subst. rewrite app_nil_r. exact HK. }
  destruct (get c x) as [o|] eqn:G.
  2:{ inversion E; subst. rewrite app_nil_r. eapply histok_ls; [apply ls_same_heap; reflexivity|exact HK]. }
  assert (LX : lstate c x = if live o then (0, 0) else (1, 0)) by (unfold lstate; rewrite G; reflexivity).
  destruct (col o); inversion E; subst; clear E;
    match goal with |- HistOK ?C _ => set (cn := C) end; intros y; destruct (HK y) as [A B]; rewrite !count_app, A, B.
  - (* White: released (and destructed first if still live) *)
    rewrite (lstate_hset c cn x o None) by (first [exact G|unfold cn, free_total; destruct (N.eqb _ 0); destruct (live o); reflexivity]).
    destruct (Nat.eqb_spec x y) as [<-|N].
    + rewrite LX. destruct (live o); cbn [fst snd]; rewrite ?count_app, ?count_one_drop, ?count_one_free, ?count_drop_free, ?count_free_drop, ?count_nil, ?Nat.eqb_refl; split; reflexivity.
    + assert (NE : Nat.eqb y x = false) by (apply Nat.eqb_neq; auto).
      destruct (live o); rewrite ?count_app, ?count_one_drop, ?count_one_free, ?count_drop_free, ?count_free_drop, ?count_nil, ?NE; split; lia.
  - (* WhiteWeak: destructed if still live, kept as a shell *)
    rewrite (lstate_hset c cn x o (Some (with_live (with_col o White) false))) by (first [exact G|unfold cn; destruct (live o); reflexivity]).
    destruct (Nat.eqb_spec x y) as [<-|N].
    + rewrite LX. cbn [live with_live]. destruct (live o); cbn [fst snd]; rewrite ?count_one_drop, ?count_free_drop, ?count_nil, ?Nat.eqb_refl; split; reflexivity.
    + assert (NE : Nat.eqb y x = false) by (apply Nat.eqb_neq; auto).
      destruct (live o); rewrite ?count_one_drop, ?count_free_drop, ?count_nil, ?NE; split; lia.
  - (* Gray: unreachable arm *)
    rewrite count_nil, !Nat.add_0_r. assert (L : LS c cn) by (apply ls_same_heap; reflexivity).
    rewrite (L y). split; reflexivity.
  - (* Black: kept *)
    rewrite count_nil, !Nat.add_0_r.
    rewrite (lstate_hset c cn x o (Some (with_col o White))) by (first [exact G|reflexivity]).
    destruct (Nat.eqb_spec x y) as [<-|N]; [rewrite LX; cbn [live with_col]; split; reflexivity|split; reflexivity].
Qed.

Lemma ls_trace_edge c e : LS c (trace_edge c e).
Proof. destruct e; cbn; [apply ls_trace|apply ls_trace_weak]. Qed.
Lemma ls_trace_edges es : forall c, LS c (trace_edges c es).
Proof.
  induction es as [|e es IH]; intros c; [apply ls_refl|]. cbn [trace_edges fold_left].
  eapply ls_trans; [apply (ls_trace_edge c e)|apply IH].
Qed.

Lemma ls_mark_one c f c' r u : mark_one c f = (c', r, u) -> LS c c'.
Proof.
  unfold mark_one.
  assert (POP : forall x c1, heap c1 = heap c ->
    (let c2 := set_met c1 (mark_gc_traced (met c1)) in
     let c3 := recolor c2 x Black in
     match get c3 x with
     | None => (c3, MContinue, false)
     | Some o =>
       let c4 := if live o then c3 else set_ub c3 in
       match f with
       | Some j => if can_panic (okind o) then (make_gray_again (trace_edges c4 (firstn j (edges o))) x, MPanic, true)
                   else (trace_edges c4 (edges o), MContinue, false)
       | None => (trace_edges c4 (edges o), MContinue, false)
       end
     end) = (c', r, u) -> LS c c').
  { intros x c1 H1. cbv zeta.
    assert (K3 : LS c (recolor (set_met c1 (mark_gc_traced (met c1))) x Black)).
    { eapply ls_trans; [apply (ls_same_heap c (set_met c1 (mark_gc_traced (met c1)))); exact H1|apply ls_recolor]. }
    destruct (get _ x) as [o|]; [|intros E; inversion E; subst; exact K3].
    set (c4 := if live o then _ else _).
    assert (K4 : LS c c4).
    { unfold c4. destruct (live o); [exact K3|eapply ls_trans; [exact K3|apply ls_same_heap; reflexivity]]. }
    destruct f as [j|].
    - destruct (can_panic (okind o)); intros E; inversion E; subst.
      + eapply ls_trans; [exact K4|]. eapply ls_trans; [apply ls_trace_edges|apply ls_make_gray_again].
      + eapply ls_trans; [exact K4|apply ls_trace_edges].
    - intros E; inversion E; subst. eapply ls_trans; [exact K4|apply ls_trace_edges]. }
  destruct (gray c) as [|x g].
  - destruct (gray_again c) as [|x g].
    + destruct (rnt c); [|intros E; inversion E; subst; apply ls_refl].
      destruct f; intros E; inversion E; subst.
      * apply ls_trace_edges.
      * apply (ls_heap_of c (trace_edges c (edges_of (rootS c) (rootW c)))); [apply ls_trace_edges|reflexivity].
    + apply POP. reflexivity.
  - apply POP. reflexivity.
Qed.

Lemma loop_body_hist st hs c f c1 evs k f' H :
  HistOK c H -> loop_body st hs c f = (c1, evs, k, f') -> HistOK c1 (H ++ evs).
Proof.
  intros HK E. unfold loop_body in E. destruct (ph c).
  - inversion E; subst. rewrite app_nil_r. eapply histok_ls; [apply ls_same_heap; reflexivity|auto].
  - destruct (mark_one c _) as [[c2 r] u] eqn:EM. pose proof (ls_mark_one _ _ _ _ _ EM) as K2.
    destruct r.
    + inversion E; subst. rewrite app_nil_r. eapply histok_ls; eauto.
    + destruct (stop_le st FullyMarked); inversion E; subst; rewrite app_nil_r;
        [eapply histok_ls; eauto|eapply histok_ls; [apply (ls_heap_of c c2); [exact K2|reflexivity]|auto]].
    + inversion E; subst. rewrite app_nil_r. eapply histok_ls; eauto.
  - destruct (stop_le st AtSweep); [inversion E; subst; rewrite app_nil_r; auto|].
    destruct (sweep_one c) as [[c2 evs2] r] eqn:ES. pose proof (sweep_one_hist _ _ _ _ _ HK ES) as H2.
    destruct r; [inversion E; subst; auto|].
    assert (FIN : forall b, HistOK (set_ph (set_rnt (set_met c2 (finish_cycle (met c2) b)) true) Sleep) (H ++ evs2))
      by (intros b; eapply histok_ls; [apply ls_same_heap; reflexivity|exact H2]).
    destruct st; [| |inversion E; subst; apply FIN|]; destruct hs; inversion E; subst; apply FIN.
Qed.

Lemma loop_hist dec fuel : forall ru st hs c f c' evs oc H,
  HistOK c H -> loop dec fuel ru st hs c f = (c', evs, oc) -> HistOK c' (H ++ evs).
Proof.
  induction fuel as [|n IH]; intros ru st hs c f c' evs oc H HK E; cbn [loop] in E.
  - inversion E; subst. rewrite app_nil_r. auto.
  - destruct (loop_body st hs c f) as [[[c1 ev1] k] f1] eqn:EB.
    pose proof (loop_body_hist _ _ _ _ _ _ _ _ _ HK EB) as H1.
    destruct k; try (inversion E; subst; auto; fail).
    destruct ru.
    + destruct (dec c1); [|inversion E; subst; auto].
      destruct (loop dec n PayDebt st has_slept c1 f1) as [[c2 ev2] r] eqn:EL. inversion E; subst.
      rewrite app_assoc. eapply IH; eauto.
    + destruct (loop dec n RunStop st has_slept c1 f1) as [[c2 ev2] r] eqn:EL. inversion E; subst.
      rewrite app_assoc. eapply IH; eauto.
Qed.

Theorem do_collection_hist dec c ru st f c' evs oc H :
  HistOK c H -> do_collection dec c ru st f = (c', evs, oc) -> HistOK c' (H ++ evs).
Proof.
  intros HK E. unfold do_collection in E. destruct ru.
  - destruct (dec c); [eapply loop_hist; eauto|inversion E; subst; rewrite app_nil_r; auto].
  - eapply loop_hist; eauto.
Qed.

(** ** dropping the arena completes the history: every id ever allocated has had exactly one destructor
    run and exactly one release; nothing else appears *)
Lemma count_notin e l : (forall e', In e' l -> ev_id e' <> ev_id e) -> count e l = 0.
Proof.
  intros H. unfold count. induction l as [|a l IH]; [reflexivity|]. cbn [filter].
  assert (NA : event_eqb e a = false).
  { destruct e, a; cbn; auto; apply Nat.eqb_neq; intros ->; apply (H _ (or_introl eq_refl)); reflexivity. }
  rewrite NA. apply IH. intros e' Hin. apply H. right; auto.
Qed.

Theorem drop_completes c H x :
  Inv None c -> HistOK c H ->
  count (EvDrop x) (H ++ fst (drop_arena_effect c)) = (if Nat.ltb x (length (heap c)) then 1 else 0)
  /\ count (EvFree x) (H ++ fst (drop_arena_effect c)) = (if Nat.ltb x (length (heap c)) then 1 else 0).
Proof.
  intros I HK. destruct (HK x) as [A B]. rewrite !count_app, A, B. unfold lstate.
  destruct (get c x) as [o|] eqn:G.
  - destruct (drop_arena_once c x I (ex_intro _ o G)) as [F D]. rewrite F, D, G.
    pose proof (get_some_lt _ _ _ G) as LT. destruct (Nat.ltb_spec x (length (heap c))); [|lia].
    destruct (live o); split; reflexivity.
  - assert (Z : forall e, ev_id e = x -> count e (fst (drop_arena_effect c)) = 0).
    { intros e Ee. apply count_notin. intros e' Hin EQ. apply (drop_arena_only_allocated c e' I) in Hin.
      destruct Hin as [o' G']. rewrite EQ, Ee in G'. congruence. }
    rewrite (Z (EvDrop x) eq_refl), (Z (EvFree x) eq_refl).
    destruct (Nat.ltb x (length (heap c))); split; reflexivity.
Qed.
