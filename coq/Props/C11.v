(** C11 — panic safety: a panic at any point leaves the arena consistent and usable. *)
From GA Require Import Model.Spec Proofs.Inv Proofs.InvMark Proofs.InvWorld Proofs.Safety.
Local Open Scope nat_scope.

(** Faults are ordinary transitions of the model: a trace panic after any number of reported edges
    at any trace call of a collection ([OCollect _ _ (Some (k, j))]), a callback that panics after
    any prefix of its micro-ops ([OPanic]), a failing try_new / try_map_root ([OEndErr]). The
    invariant holds after every operation sequence containing any number of them ... *)
Theorem C11_inv_after_faults : forall ops, WInv (run world_init ops).
Proof. exact winv_reachable. Qed.
Print Assumptions C11_inv_after_faults.

(** ... one step of marking whose trace call panics re-queues the object (DropGuard) and keeps
    the invariant, for every number [j] of edges reported before the panic ... *)
Theorem C11_trace_panic :
  forall c j c' r used, Inv None c -> quiescent c -> ph c = Mark -> mark_one c (Some j) = (c', r, used) ->
                        Inv None c'.
Proof. intros c j c' r used I Q P E. exact (proj1 (mark_one_inv c (Some j) c' r used I Q P E)). Qed.
Print Assumptions C11_trace_panic.

(** ... and the guarantees of C01 hold on every continuation (the theorem quantifies over all
    operation sequences, faulted ones included, and over the fault plan of the call itself). *)
Theorem C11_then_C01 :
  forall ops a how fault ar w' r,
    get_arena (run world_init ops) a = Some ar ->
    step (run world_init ops) (OCollect a how fault) = (w', r) ->
    (forall ev x, In ev (r_events r) -> mentions ev x -> ~ reach (actx ar) x)
    /\ (forall t, reach (actx ar) t ->
          exists ar', get_arena w' a = Some ar' /\ reach (actx ar') t
                      /\ exists o, get (actx ar') t = Some o /\ live o = true).
Proof. exact collect_safe. Qed.
Print Assumptions C11_then_C01.

Example C11_nonvacuous :
  exists w' r, step (run world_init [OBegin 0 CNew; OMicro (MAlloc 0 KNode 1 0); OMicro (MAlloc 1 KNode 1 0);
                                     OMicro (MStore 0 0 (Some 1)); OEnd])
                    (OCollect 0 HFinishCycle (Some (1, 0))) = (w', r) /\ r_out r = [1%Z; 0%Z].
Proof. eexists. eexists. split; [vm_compute; reflexivity|reflexivity]. Qed.
