(** C09 — pacing: debt-driven calls pay their debt; sleep is honoured (over exact rationals). *)
From Coq Require Import QArith.
From GA Require Import Model.Spec Proofs.Inv Proofs.MetricsLemmas Proofs.Pacing Proofs.Protocol Proofs.MInv Proofs.Credit Proofs.CreditWorld Proofs.CycleFrame Proofs.CycleBound.

(** collect_debt that completes returns with zero allocation debt *)
Theorem C09_collect_zero :
  forall c f c' evs, do_collection dec_debt c PayDebt Full f = (c', evs, Done) -> debt_pos (met c') = false.
Proof. exact collect_debt_zero. Qed.
Print Assumptions C09_collect_zero.

(** cycle_debt / mark_debt return with zero debt or at their documented stopping phase *)
Theorem C09_cycle_debt :
  forall c f c' evs, do_collection dec_debt c PayDebt FinishCycle f = (c', evs, Done) ->
    debt_pos (met c') = false \/ ph c' = Sleep.
Proof. exact cycle_debt_exit. Qed.
Print Assumptions C09_cycle_debt.

Theorem C09_mark_debt :
  forall c f c' evs, do_collection dec_debt c PayDebt FullyMarked f = (c', evs, Done) ->
    debt_pos (met c') = false \/ is_marked c' = true \/ ph c' = Sweep.
Proof. exact mark_debt_exit. Qed.
Print Assumptions C09_mark_debt.

(** unconditionally (every call terminates): in every reachable quiescent arena state *)
Theorem C09_collect_debt_pays :
  forall c c' evs oc, Inv None c -> quiescent c ->
    do_collection dec_debt c PayDebt Full None = (c', evs, oc) -> oc = Done /\ debt_pos (met c') = false.
Proof. exact collect_debt_pays. Qed.
Print Assumptions C09_collect_debt_pays.

Theorem C09_cycle_debt_contract :
  forall c c' evs oc, Inv None c -> quiescent c ->
    do_collection dec_debt c PayDebt FinishCycle None = (c', evs, oc) ->
    oc = Done /\ (debt_pos (met c') = false \/ ph c' = Sleep).
Proof. exact cycle_debt_contract. Qed.
Print Assumptions C09_cycle_debt_contract.

(** after a cycle that finished with no debt carried over the debt reads zero, and the wake-up
    amount is max(min_sleep, sleep_factor x survivors) *)
Theorem C09_sleep_reset : forall m, (allocation_debt (finish_cycle m true) == 0)%Q.
Proof. exact finish_cycle_reset_zero. Qed.
Print Assumptions C09_sleep_reset.

Theorem C09_wakeup_amount :
  forall m b, (wakeup (finish_cycle m b) == Qmax (QofN (remembered m) * sleep_f (pac m)) (QofN (min_sleep (pac m))))%Q.
Proof. exact wakeup_after_cycle. Qed.
Print Assumptions C09_wakeup_amount.

(** while asleep: zero debt until allocations exceed the wake-up amount, the excess afterwards *)
Theorem C09_sleep :
  forall m, (artificial m == 0)%Q -> marked m = 0%N -> traced m = 0%N -> remembered m = 0%N -> dropped m = 0%N ->
    freed m = 0%N -> total m <> 0%N ->
    ((QofN (Metrics.allocated m) <= wakeup m)%Q -> (allocation_debt m == 0)%Q)
    /\ ((wakeup m < QofN (Metrics.allocated m))%Q -> (allocation_debt m == QofN (Metrics.allocated m) - wakeup m)%Q).
Proof. exact sleeping_debt. Qed.
Print Assumptions C09_sleep.

(** stop-the-world pacing: no work is ever credited *)
Theorem C09_stw_no_credit :
  forall m, mark_f (pac m) = 0%Q -> trace_f (pac m) = 0%Q -> keep_f (pac m) = 0%Q -> drop_f (pac m) = 0%Q ->
    free_f (pac m) = 0%Q -> (cycle_credits m == 0)%Q.
Proof. exact stw_credits_zero. Qed.
Print Assumptions C09_stw_no_credit.

(** ** Progress.  The counting invariant [CInv] (Proofs/Credit*.v) holds in every reachable world: while
    marking, [marked] is exactly the number of non-white objects and [traced] at most the number of
    black ones; while sweeping, every kept object accounts for (mark, trace, keep) or (mark, drop,
    keep) and every released one for (drop, free); asleep, all work counters are zero. *)
Theorem C09_counting_invariant :
  forall ops a ar, get_arena (run world_init ops) a = Some ar -> CInv (actx ar).
Proof. exact wcinv_reachable. Qed.
Print Assumptions C09_counting_invariant.

(** Hence, for pacing factors whose per-object work paths each sum to at most rho ([paths_ok]): the
    credits of the running cycle never exceed rho x (number of objects the cycle has seen = live now +
    released in this cycle), in every arena of every reachable world. *)
Theorem C09_credit_bound :
  forall ops a ar rho, get_arena (run world_init ops) a = Some ar -> paths_ok (pac (met (actx ar))) rho ->
    (cycle_credits (met (actx ar)) <= rho * QofN (total (met (actx ar)) + freed (met (actx ar))))%Q.
Proof. exact credit_bound_reachable. Qed.
Print Assumptions C09_credit_bound.

(** The progress bound in its general form (N1): a cycle that woke with [H] objects and debits [d0], in
    which [A] allocations were made since (so it has seen H + A objects and its debits are d0 + A), whose
    debt is paid although it is unfinished -- which is how a debt-driven call returns without finishing,
    [C09_cycle_debt_contract] -- satisfies A (1 - rho) <= rho H - d0.  For a cycle woken by debt
    (d0 > 0) with rho < 1 this is the documented "fewer than rho H / (1 - rho) allocations", so cycles
    always complete and the heap stays within H / (1 - rho). *)
Theorem C09_progress_bound :
  forall c rho (H A d0 : Q),
    Inv None c -> MInv c -> CInv c -> paths_ok (pac (met c)) rho ->
    debt_pos (met c) = false -> total (met c) <> 0%N ->
    (QofN (total (met c) + freed (met c)) == H + A)%Q -> (cycle_debits (met c) == d0 + A)%Q ->
    (A * (1 - rho) <= rho * H - d0)%Q.
Proof. exact progress_bound. Qed.
Print Assumptions C09_progress_bound.

(** ... and without bookkeeping hypotheses: [in_cycle c0 c] relates the states of one cycle (every mutator
    micro-op, every collector step that does not roll the cycle over, anything that leaves the metrics
    alone); along it [total + freed - allocated] and [debits - allocated] are constant
    ([in_cycle_cyc]).  So for a cycle that started in [c0] with nothing released yet, H = total objects,
    debits d0: in any later state of the cycle in which the debt is paid, with A allocations since,
    A (1 - rho) <= rho H - d0. *)
Theorem C09_progress_bound_cycle :
  forall c0 c rho,
    freed (met c0) = 0%N -> in_cycle c0 c ->
    Inv None c -> MInv c -> CInv c -> paths_ok (pac (met c)) rho ->
    debt_pos (met c) = false -> total (met c) <> 0%N ->
    let H := QofN (total (met c0)) in
    let A := (QofN (Metrics.allocated (met c)) - QofN (Metrics.allocated (met c0)))%Q in
    let d0 := cycle_debits (met c0) in
    (A * (1 - rho) <= rho * H - d0)%Q.
Proof. exact progress_bound_cycle. Qed.
Print Assumptions C09_progress_bound_cycle.

Theorem C09_cycle_bookkeeping :
  forall c0 c, in_cycle c0 c -> cyc_step (met c0) (met c).
Proof. exact in_cycle_cyc. Qed.
Print Assumptions C09_cycle_bookkeeping.

(** non-vacuity: the default pacing satisfies the path condition with rho = 0.55 *)
Example C09_default_pacing_paths : paths_ok pacing_default (55#100).
Proof. unfold paths_ok, pacing_default. cbn. repeat split; unfold Qle; cbn; lia. Qed.

(** What stays outside: f64 rounding (the lock-step run compares decisions, and values on dyadic
    pacing; the credit-bound and counting oracles evaluate the invariant on the implementation's
    counters). *)
