(** C09 — pacing: debt-driven calls pay their debt; sleep is honoured (over exact rationals). *)
From Coq Require Import QArith.
From GA Require Import Model.Spec Proofs.Inv Proofs.MetricsLemmas Proofs.Pacing Proofs.Protocol.

(** collect_debt that completes returns with zero allocation debt *)
Theorem C09_collect_zero :
  forall c f c' evs, do_collection dec_debt c PayDebt Full f = (c', evs, Done) -> debt_pos (met c') = false.
Proof. exact collect_debt_zero. Qed.
Print Assumptions C09_collect_zero.

(** cycle_debt / mark_debt return with zero debt or at their documented stopping phase *)
Theorem C09_cycle_debt :
  forall c f c' evs, do_collection dec_debt c PayDebt FinishCycle f = (c', evs, Done) ->
    debt_pos (met c') = false \/ ph c' = Sleep.
Proof. exact cycle_debt_exit. Qed.
Print Assumptions C09_cycle_debt.

Theorem C09_mark_debt :
  forall c f c' evs, do_collection dec_debt c PayDebt FullyMarked f = (c', evs, Done) ->
    debt_pos (met c') = false \/ is_marked c' = true \/ ph c' = Sweep.
Proof. exact mark_debt_exit. Qed.
Print Assumptions C09_mark_debt.

(** unconditionally (every call terminates): in every reachable quiescent arena state *)
Theorem C09_collect_debt_pays :
  forall c c' evs oc, Inv None c -> quiescent c ->
    do_collection dec_debt c PayDebt Full None = (c', evs, oc) -> oc = Done /\ debt_pos (met c') = false.
Proof. exact collect_debt_pays. Qed.
Print Assumptions C09_collect_debt_pays.

Theorem C09_cycle_debt_contract :
  forall c c' evs oc, Inv None c -> quiescent c ->
    do_collection dec_debt c PayDebt FinishCycle None = (c', evs, oc) ->
    oc = Done /\ (debt_pos (met c') = false \/ ph c' = Sleep).
Proof. exact cycle_debt_contract. Qed.
Print Assumptions C09_cycle_debt_contract.

(** after a cycle that finished with no debt carried over the debt reads zero, and the wake-up
    amount is max(min_sleep, sleep_factor x survivors) *)
Theorem C09_sleep_reset : forall m, (allocation_debt (finish_cycle m true) == 0)%Q.
Proof. exact finish_cycle_reset_zero. Qed.
Print Assumptions C09_sleep_reset.

Theorem C09_wakeup_amount :
  forall m b, (wakeup (finish_cycle m b) == Qmax (QofN (remembered m) * sleep_f (pac m)) (QofN (min_sleep (pac m))))%Q.
Proof. exact wakeup_after_cycle. Qed.
Print Assumptions C09_wakeup_amount.

(** while asleep: zero debt until allocations exceed the wake-up amount, the excess afterwards *)
Theorem C09_sleep :
  forall m, (artificial m == 0)%Q -> marked m = 0%N -> traced m = 0%N -> remembered m = 0%N -> dropped m = 0%N ->
    freed m = 0%N -> total m <> 0%N ->
    ((QofN (Metrics.allocated m) <= wakeup m)%Q -> (allocation_debt m == 0)%Q)
    /\ ((wakeup m < QofN (Metrics.allocated m))%Q -> (allocation_debt m == QofN (Metrics.allocated m) - wakeup m)%Q).
Proof. exact sleeping_debt. Qed.
Print Assumptions C09_sleep.

(** stop-the-world pacing: no work is ever credited *)
Theorem C09_stw_no_credit :
  forall m, mark_f (pac m) = 0%Q -> trace_f (pac m) = 0%Q -> keep_f (pac m) = 0%Q -> drop_f (pac m) = 0%Q ->
    free_f (pac m) = 0%Q -> (cycle_credits m == 0)%Q.
Proof. exact stw_credits_zero. Qed.
Print Assumptions C09_stw_no_credit.

(** PARTIAL: the progress bound A(1-rho) <= rho H - d0 (cycles complete; heap within H/(1-rho))
    needs the per-object ghost work accounting (invariant M of DESIGN 2.5) and is not yet proved;
    it is checked on the implementation's numbers by the C09 oracle. f64 rounding is modelled. *)
