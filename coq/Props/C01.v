(** C01 — no strongly reachable value is ever dropped or freed (GC safety).
    Only theorem statements, closed by [exact], with their assumptions printed. *)
From GA Require Import Model.Spec Proofs.Inv Proofs.InvSweep Proofs.InvWorld Proofs.Safety.
Local Open Scope nat_scope.

(** For every operation sequence [ops] (mutator micro-ops through every barrier path, root
    replacement, stash/unstash, every collection entry point with every injected trace fault,
    several arenas), a collection call made in the resulting world never destructs or releases an
    object that is strongly reachable from the arena root, and every reachable object is still
    allocated, undestructed and reachable afterwards. The debt test inside the call is the full
    model's; Proofs/InvLoop.v proves the same for an arbitrary debt oracle. *)
Theorem C01_safety :
  forall ops a how fault ar w' r,
    get_arena (run world_init ops) a = Some ar ->
    step (run world_init ops) (OCollect a how fault) = (w', r) ->
    (forall ev x, In ev (r_events r) -> mentions ev x -> ~ reach (actx ar) x)
    /\ (forall t, reach (actx ar) t ->
          exists ar', get_arena w' a = Some ar' /\ reach (actx ar') t
                      /\ exists o, get (actx ar') t = Some o /\ live o = true).
Proof. exact collect_safe. Qed.
Print Assumptions C01_safety.

(** Same statement for every debt oracle (any pacing, any debt, any work granularity). *)
Theorem C01_safety_any_oracle :
  forall (dec : ctx -> bool) c ru st fault c' evs oc,
    Inv None c -> quiescent c -> do_collection dec c ru st fault = (c', evs, oc) ->
    Inv None c' /\ quiescent c'
    /\ (forall ev, In ev evs -> ~ reach c (ev_id ev))
    /\ (forall t, reach c t -> reach c' t).
Proof.
  intros dec c ru st fault c' evs oc I Q E.
  destruct (Proofs.InvLoop.do_collection_inv dec c ru st fault c' evs oc I Q E) as [A [B [_ [C D]]]]. auto.
Qed.
Print Assumptions C01_safety_any_oracle.

(** No step of any run dereferences an object whose block was released or whose value was
    destructed: the model's use-after-free flag is never raised. *)
Theorem C01_deref :
  forall ops a ar, get_arena (run world_init ops) a = Some ar -> ub (actx ar) = false.
Proof. exact no_dangling. Qed.
Print Assumptions C01_deref.

Theorem C01_reachable_live :
  forall ops a ar t, get_arena (run world_init ops) a = Some ar -> reach (actx ar) t ->
                     exists o, get (actx ar) t = Some o /\ live o = true.
Proof. exact reachable_is_live. Qed.
Print Assumptions C01_reachable_live.

(** Non-vacuity: a run in which a collection call does destruct and release something while
    another object is reachable. *)
Definition ops_demo : list op :=
  [OBegin 0 CNew; OMicro (MAlloc 0 KNode 1 0); OMicro (MAlloc 4 KNode 1 0); OEnd].

Example C01_nonvacuous :
  exists ar w' r, get_arena (run world_init ops_demo) 0 = Some ar
    /\ step (run world_init ops_demo) (OCollect 0 HFinishCycle None) = (w', r)
    /\ r_events r = [EvDrop 1; EvFree 1] /\ reach (actx ar) 0.
Proof.
  eexists. eexists. eexists. split; [vm_compute; reflexivity|]. split; [vm_compute; reflexivity|].
  split; [reflexivity|]. apply reach_root. vm_compute. auto.
Qed.
