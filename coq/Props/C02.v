(** C02 — exact, complete reclamation.  PARTIAL (see below). *)
From GA Require Import Model.Spec Proofs.Inv Proofs.InvMark Proofs.InvSweep Proofs.Final Proofs.Phases Proofs.InvWorld Proofs.Safety.
Local Open Scope nat_scope.

(** Soundness half (nothing reachable is reclaimed, from any state, any pacing): C01. *)
Theorem C02_nothing_reachable_reclaimed_partial :
  forall ops a how fault ar w' r,
    get_arena (run world_init ops) a = Some ar ->
    step (run world_init ops) (OCollect a how fault) = (w', r) ->
    forall t, reach (actx ar) t ->
      exists ar', get_arena w' a = Some ar' /\ exists o, get (actx ar') t = Some o /\ live o = true.
Proof.
  intros ops a how fault ar w' r H S t R.
  destruct (proj2 (collect_safe ops a how fault ar w' r H S) t R) as [ar' [A [_ B]]]. eauto.
Qed.
Print Assumptions C02_nothing_reachable_reclaimed_partial.

(** Marking is exact in the sound direction (everything reachable is black when marking ends) and
    the sweep starts over the whole list: every object that existed when marking ended is visited. *)
Theorem C02_sweep_covers_all_partial :
  forall st hs c f c1 evs k f', loop_body st hs c f = (c1, evs, k, f') ->
    ph c = Mark -> ph c1 = Sweep -> unsw c1 = all c /\ pre c1 = [].
Proof.
  intros st hs c f c1 evs k f' E P P1. unfold loop_body in E. rewrite P in E.
  destruct (mark_one c _) as [[c2 r] u] eqn:EM. pose proof (mark_one_ph _ _ _ _ _ EM) as P2.
  destruct r.
  - inversion E; subst. congruence.
  - destruct (mark_one_break _ _ _ _ _ EM eq_refl) as [-> _].
    destruct (stop_le st FullyMarked); inversion E; subst; [congruence|]. cbn. auto.
  - inversion E; subst. congruence.
Qed.
Print Assumptions C02_sweep_covers_all_partial.

(** finish_cycle from Sleeping performs a whole cycle and ends Sleeping; from mid-cycle it finishes
    the current one (C08_finish_cycle). *)
Theorem C02_finish_cycle_sleeps_partial :
  forall dec fuel hs c f c' evs, loop dec fuel RunStop FinishCycle hs c f = (c', evs, Done) -> ph c' = Sleep.
Proof. exact loop_finish_cycle. Qed.
Print Assumptions C02_finish_cycle_sleeps_partial.

(** MISSING for the full statement: the completeness direction ("every unreachable value has been
    destructed after two finish_cycle calls; only weakly referenced shells remain and are released by
    the next full cycle"), i.e. the ghost invariant "during a cycle started from Sleeping with no
    mutation, only objects reachable from the root are marked". It is evaluated on every
    implementation trace by the C02 oracle (drop log and Gc count vs. reachability after every pair
    of consecutive finish_cycle calls, from every starting phase). *)
