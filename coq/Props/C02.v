(** C02 — exact, complete reclamation: unreachable values, including cycles, are collected. *)
From GA Require Import Model.Spec Proofs.Inv Proofs.InvSweep Proofs.Exact Proofs.ExactWorld Proofs.InvWorld Proofs.Safety.
Local Open Scope nat_scope.

(** From ANY arena state satisfying the invariant (every state of every run does, see below), for
    every debt oracle: two consecutive finish_cycle calls with no mutation in between leave exactly
    the strongly reachable values undestructed — every unreachable value, members of unreachable
    reference cycles included (nothing in the argument counts references), has been destructed,
    and nothing is retained conservatively. Every other allocation still present is the value-less
    shell of a destructed object to which a weak pointer held by the root or a reachable object
    refers. *)
Theorem C02_exact :
  forall dec1 dec2 c c1 c2 e1 e2 o1 o2,
    Inv None c -> quiescent c ->
    do_collection dec1 c RunStop FinishCycle None = (c1, e1, o1) ->
    do_collection dec2 c1 RunStop FinishCycle None = (c2, e2, o2) ->
    (forall x, (exists o, get c2 x = Some o /\ live o = true) <-> reach c x)
    /\ (forall x o, get c2 x = Some o -> live o = false -> wreach c x).
Proof. exact exact_two_cycles. Qed.
Print Assumptions C02_exact.

(** The same at the API level, for every reachable world (any object graph, any phase in which the
    two calls begin, any history of earlier incremental work, any pacing). *)
Theorem C02_exact_world :
  forall ops a ar w1 r1 w2 r2 ar2,
    cur (run world_init ops) = None ->
    get_arena (run world_init ops) a = Some ar ->
    step (run world_init ops) (OCollect a HFinishCycle None) = (w1, r1) ->
    step w1 (OCollect a HFinishCycle None) = (w2, r2) ->
    get_arena w2 a = Some ar2 ->
    (forall x, (exists o, get (actx ar2) x = Some o /\ live o = true) <-> reach (actx ar) x)
    /\ (forall x o, get (actx ar2) x = Some o -> live o = false -> wreach (actx ar) x).
Proof. exact exact_two_cycles_world. Qed.
Print Assumptions C02_exact_world.

(** A whole cycle started from Sleeping: the shell of a destructed object that no weak pointer of
    the root or of a reachable object refers to when the cycle starts is released by that cycle. *)
Theorem C02_shell_release :
  forall dec c c' evs oc x o,
    Inv None c -> quiescent c -> ph c = Sleep ->
    do_collection dec c RunStop FinishCycle None = (c', evs, oc) ->
    get c x = Some o -> live o = false -> ~ wreach c x -> get c' x = None.
Proof. exact shell_release. Qed.
Print Assumptions C02_shell_release.

Example C02_nonvacuous :
  (* a two-object reference cycle plus a reachable object: the cycle is reclaimed *)
  let ops := [OBegin 0 CNew; OMicro (MAlloc 0 KNode 1 0); OMicro (MAlloc 4 KNode 1 0); OMicro (MAlloc 5 KNode 1 0);
              OMicro (MStore 4 0 (Some 5)); OMicro (MStore 5 0 (Some 4)); OEnd] in
  exists w1 r1 w2 r2, step (run world_init ops) (OCollect 0 HFinishCycle None) = (w1, r1)
    /\ step w1 (OCollect 0 HFinishCycle None) = (w2, r2)
    /\ r_events r1 = [EvDrop 2; EvFree 2; EvDrop 1; EvFree 1] /\ r_events r2 = [].
Proof. cbv zeta. eexists. eexists. eexists. eexists. split; [vm_compute; reflexivity|]. split; [vm_compute; reflexivity|]. split; reflexivity. Qed.
