(** C08 — collection-phase protocol of the Arena API, for every debt oracle (any pacing / debt). *)
From GA Require Import Model.Spec Proofs.Inv Proofs.InvMark Proofs.Phases Proofs.InvOps Proofs.InvMicroOps Proofs.Termination Proofs.Protocol.
Local Open Scope nat_scope.

(** one driver iteration: the only phase moves are Sleep->Mark, Mark->Sweep (only when no gray
    work is left and the stop condition allows it), Sweep->Sleep *)
Theorem C08_transitions :
  forall st hs c f c1 evs k f', loop_body st hs c f = (c1, evs, k, f') ->
    (ph c = Sleep -> ph c1 = Mark)
    /\ (ph c = Mark -> ph c1 = Mark \/ (ph c1 = Sweep /\ gray_remaining c = false))
    /\ (ph c = Sweep -> ph c1 = Sweep \/ ph c1 = Sleep).
Proof.
  intros st hs c f c1 evs k f' E. destruct (loop_body_ph _ _ _ _ _ _ _ _ E) as [H1 [H2 [_ [H4 _]]]].
  split; [intros P; destruct (H1 P); auto|]. split.
  - intros P. destruct (H2 P) as [A|[A [B _]]]; auto.
  - intros P. destruct (H4 P) as [[A _]|[A _]]; auto.
Qed.
Print Assumptions C08_transitions.

(** mark_debt / finish_marking do nothing while Sweeping and never enter Sweeping *)
Theorem C08_mark_ops :
  forall dec fuel ru hs c f c' evs oc, loop dec fuel ru FullyMarked hs c f = (c', evs, oc) ->
    (ph c = Sweep -> c' = c) /\ (ph c' = Sweep -> ph c = Sweep).
Proof. exact loop_mark_ph. Qed.
Print Assumptions C08_mark_ops.

(** ... and never leave Marked *)
Theorem C08_marked_identity :
  forall dec c ru f, is_marked c = true -> exists oc, do_collection dec c ru FullyMarked f = (c, [], oc) /\ oc = Done.
Proof. exact marked_identity. Qed.
Print Assumptions C08_marked_identity.

(** finish_marking that completes returns a MarkedArena exactly when the arena was not Sweeping *)
Theorem C08_finish_marking :
  forall dec fuel hs c f c' evs, loop dec fuel RunStop FullyMarked hs c f = (c', evs, Done) ->
    ph c <> Sweep -> is_marked c' = true.
Proof. exact loop_finish_marking. Qed.
Print Assumptions C08_finish_marking.

(** finish_cycle that completes ends Sleeping; cycle_debt / finish_cycle never pass from Sweeping
    into a new Marking within one call *)
Theorem C08_finish_cycle :
  forall dec fuel hs c f c' evs, loop dec fuel RunStop FinishCycle hs c f = (c', evs, Done) -> ph c' = Sleep.
Proof. exact loop_finish_cycle. Qed.
Print Assumptions C08_finish_cycle.

Theorem C08_cycle_no_remark :
  forall dec fuel ru hs c f c' evs oc, loop dec fuel ru FinishCycle hs c f = (c', evs, oc) ->
    ph c = Sweep -> ph c' = Sweep \/ ph c' = Sleep.
Proof. exact loop_cycle_no_remark. Qed.
Print Assumptions C08_cycle_no_remark.

(** start_sweeping on a MarkedArena ends Sweeping (its assert_eq! cannot fire) *)
Theorem C08_start_sweeping :
  forall dec c, is_marked c = true ->
    exists c', do_collection dec c RunStop AtSweep None = (c', [], Done) /\ ph c' = Sweep.
Proof. exact start_sweeping_sweeps. Qed.
Print Assumptions C08_start_sweeping.

(** callbacks never change the collector phase (only Marked -> Marking is observable, through
    new gray work or the root flag) *)
Theorem C08_callbacks_keep_phase :
  forall w ar k m ar' hs out, Inv None (actx ar) -> cb_ok k (actx ar) -> micro w ar k m = (ar', hs, out) ->
    ph (actx ar') = ph (actx ar).
Proof. intros w ar k m ar' hs out I CB E. exact (proj1 (proj2 (micro_inv w ar k m ar' hs out I CB E))). Qed.
Print Assumptions C08_callbacks_keep_phase.

(** Termination: every collection call (without an injected trace fault) completes within the
    model's fuel bound, for every debt oracle: at most the rest of the running cycle plus one whole
    cycle; each mark_one step lowers #unmarked + |queues| + root flag, each sweep_one step shortens
    the unswept list. *)
Theorem C08_terminates :
  forall dec c ru st c' evs oc, Inv None c -> quiescent c ->
    do_collection dec c ru st None = (c', evs, oc) -> oc = Done.
Proof. exact do_collection_terminates. Qed.
Print Assumptions C08_terminates.

(** so the per-call contracts hold unconditionally in every reachable (quiescent) arena state *)
Theorem C08_finish_cycle_contract :
  forall dec c c' evs oc, Inv None c -> quiescent c ->
    do_collection dec c RunStop FinishCycle None = (c', evs, oc) -> oc = Done /\ ph c' = Sleep.
Proof. exact finish_cycle_ends_sleeping. Qed.
Print Assumptions C08_finish_cycle_contract.

Theorem C08_finish_marking_contract :
  forall dec c c' evs oc, Inv None c -> quiescent c ->
    do_collection dec c RunStop FullyMarked None = (c', evs, oc) ->
    oc = Done /\ (ph c <> Sweep -> is_marked c' = true) /\ (ph c = Sweep -> c' = c).
Proof. exact finish_marking_contract. Qed.
Print Assumptions C08_finish_marking_contract.

Theorem C08_mark_debt_contract :
  forall dec c c' evs oc, Inv None c -> quiescent c ->
    do_collection dec c PayDebt FullyMarked None = (c', evs, oc) ->
    oc = Done /\ (ph c = Sweep -> c' = c) /\ (ph c' = Sweep -> ph c = Sweep).
Proof. exact mark_debt_contract. Qed.
Print Assumptions C08_mark_debt_contract.
