(** C05 — weak pointers: upgrade is safe, never spuriously fails, queries never touch released memory. *)
From GA Require Import Model.Spec Proofs.Inv Proofs.InvSweep Proofs.InvWorld Proofs.Safety.
Local Open Scope nat_scope.

(** upgrade succeeds only for a value that is not destructed and that the running sweep will not
    destruct (not condemned); such a pointer is an ordinary safe pointer ([ok_strong]). *)
Theorem C05_upgrade_sound :
  forall ops a ar x, get_arena (run world_init ops) a = Some ar ->
    ok_weak (actx ar) x -> snd (upgrade (actx ar) x) = true ->
    (exists o, get (actx ar) x = Some o /\ live o = true) /\ ~ condemned (actx ar) x.
Proof. intros ops a ar x H. apply upgrade_sound. eapply reachable_inv; eauto. Qed.
Print Assumptions C05_upgrade_sound.

(** upgrade always succeeds for a strongly reachable target, in every phase. *)
Theorem C05_upgrade_complete :
  forall ops a ar x, get_arena (run world_init ops) a = Some ar ->
    reach (actx ar) x -> snd (upgrade (actx ar) x) = true.
Proof. intros ops a ar x H. apply upgrade_complete. eapply reachable_inv; eauto. Qed.
Print Assumptions C05_upgrade_complete.

(** it fails only when the target has been destructed, or the arena is Sweeping and the target is
    only weakly marked *)
Theorem C05_upgrade_fail_reason :
  forall c x o, get c x = Some o -> snd (upgrade c x) = false ->
                live o = false \/ (ph c = Sweep /\ col o = WhiteWeak).
Proof. exact upgrade_fail_reason. Qed.
Print Assumptions C05_upgrade_fail_reason.

(** a weak pointer held by the root or by a reachable object always refers to an allocated block,
    so upgrade / is_dropped / is_dead read a valid header in every phase *)
Theorem C05_weak_queries_safe :
  forall ops a ar x, get_arena (run world_init ops) a = Some ar -> wreach (actx ar) x -> allocated (actx ar) x.
Proof. intros ops a ar x H. apply weak_query_safe. eapply reachable_inv; eauto. Qed.
Print Assumptions C05_weak_queries_safe.

(** is_dropped reports exactly the live flag of the header *)
Theorem C05_is_dropped_flag :
  forall c x o, get c x = Some o -> snd (is_dropped c x) = negb (live o).
Proof. intros c x o G. unfold is_dropped. rewrite G. reflexivity. Qed.
Print Assumptions C05_is_dropped_flag.
