(** C04 — every value is destructed exactly once and all memory is returned. *)
From GA Require Import Model.Spec Model.Pointer Proofs.Inv Proofs.InvSweep Proofs.Once Proofs.InvWorld Proofs.Safety
     Proofs.Life Proofs.LifeCollect Proofs.Lifetime Proofs.Pointer.
Local Open Scope nat_scope.

(** Dropping the arena of any reachable world, in whatever phase it is and with shells present:
    every allocated block is released exactly once, a value is destructed exactly once if it
    had not been destructed before (and not at all if it is already a shell), and nothing else is
    touched. *)
Theorem C04_drop_arena_once :
  forall ops a ar x, get_arena (run world_init ops) a = Some ar -> allocated (actx ar) x ->
    count (EvFree x) (fst (drop_arena_effect (actx ar))) = 1
    /\ count (EvDrop x) (fst (drop_arena_effect (actx ar))) =
       (match get (actx ar) x with Some o => if live o then 1 else 0 | None => 0 end).
Proof. intros ops a ar x H. apply drop_arena_once. eapply reachable_inv; eauto. Qed.
Print Assumptions C04_drop_arena_once.

Theorem C04_drop_arena_only_allocated :
  forall ops a ar e, get_arena (run world_init ops) a = Some ar ->
    In e (fst (drop_arena_effect (actx ar))) -> allocated (actx ar) (ev_id e).
Proof. intros ops a ar e H. apply drop_arena_only_allocated. eapply reachable_inv; eauto. Qed.
Print Assumptions C04_drop_arena_only_allocated.

(** During collection: a value is destructed only if it had not been destructed yet, and is
    afterwards gone or marked destructed (a shell), so it cannot be destructed again; a block is
    released at most once and is gone afterwards; the shell of a weakly referenced object is
    released without a second destruction. *)
Theorem C04_sweep_discipline :
  forall c c' evs r x, Inv None c -> ph c = Sweep -> sweep_one c = (c', evs, r) ->
    (In (EvDrop x) evs ->
       (exists o, get c x = Some o /\ live o = true)
       /\ (get c' x = None \/ exists o', get c' x = Some o' /\ live o' = false))
    /\ (In (EvFree x) evs -> allocated c x /\ get c' x = None)
    /\ count (EvDrop x) evs <= 1 /\ count (EvFree x) evs <= 1.
Proof. exact sweep_one_discipline. Qed.
Print Assumptions C04_sweep_discipline.

(** ids are never re-used, so "gone" is permanent *)
Theorem C04_ids_fresh : forall c o, snd (link c o) = length (heap c) /\ get c (length (heap c)) = None.
Proof. exact link_fresh. Qed.
Print Assumptions C04_ids_fresh.

(** The whole life of an arena.  [hist_run] runs an operation sequence and keeps, as a ghost, the list
    of destructor / release events each arena has emitted since it was created ([hist_step] appends the
    events of an operation to the history of the arena it targets).  Whenever an arena of a reachable
    world disappears -- [ODropArena], or a constructor / root map that fails or panics -- in whatever
    phase it is (asleep, mid-mark, fully marked, mid-sweep), with whatever mix of live values, shells
    and garbage: for EVERY id it ever allocated its history contains exactly one destructor run and
    exactly one release, and nothing for any other id. *)
Theorem C04_lifetime_exactly_once :
  forall ops o a ar x,
    let w := fst (hist_run world_init hist0 ops) in
    let H := snd (hist_run world_init hist0 ops) in
    get_arena w a = Some ar -> get_arena (fst (step w o)) a = None ->
    count (EvDrop x) (hist_step w o H a) = (if Nat.ltb x (length (heap (actx ar))) then 1 else 0)
    /\ count (EvFree x) (hist_step w o H a) = (if Nat.ltb x (length (heap (actx ar))) then 1 else 0).
Proof. exact lifetime_exactly_once. Qed.
Print Assumptions C04_lifetime_exactly_once.

(** and at every earlier moment the history agrees with the heap: no event for a live value, exactly
    one destructor run and no release for a shell, exactly one of each for a released block *)
Theorem C04_lifetime_consistent :
  forall ops a ar,
    let w := fst (hist_run world_init hist0 ops) in
    let H := snd (hist_run world_init hist0 ops) in
    get_arena w a = Some ar -> HistOK (actx ar) (H a).
Proof. exact lifetime_consistent. Qed.
Print Assumptions C04_lifetime_consistent.

Theorem C04_hist_run_is_run : forall ops w H, fst (hist_run w H ops) = run w ops.
Proof. exact hist_run_fst. Qed.
Print Assumptions C04_hist_run_is_run.

(** non-vacuity: a weakly held object is destructed by a sweep, its shell survives a cycle, and the arena is
    dropped mid-mark: ids 0..3 each show one destructor run and one release *)
Example C04_nonvacuous :
  let ops := [OBegin 0 CNew; OMicro (MAlloc 0 KNode 1 1); OMicro (MAlloc 4 KNode 1 0); OMicro (MAlloc 5 KLeaf 0 0);
              OMicro (MDowngrade 0 4); OMicro (MStoreW 0 0 (Some 0)); OMicro (MAlloc 4 KNode 1 0); OEnd;
              OCollect 0 HFinishCycle None; OCollect 0 HMarkDebt None] in
  let w := fst (hist_run world_init hist0 ops) in
  let H := hist_step w (ODropArena 0) (snd (hist_run world_init hist0 ops)) in
  map (fun x => (count (EvDrop x) (H 0), count (EvFree x) (H 0))) [0; 1; 2; 3; 4] = [(1, 1); (1, 1); (1, 1); (1, 1); (0, 0)].
Proof. vm_compute. reflexivity. Qed.

(** The "exact layout" clause is C17's; payload destructors that panic are outside the model. *)


(** ** Pointer level. The theorems above see the list of all objects as a Coq list; the implementation
    threads it through the [next] field of every header and the three pointers [all] / [sweep] /
    [sweep_prev]. Model/Pointer.v models that pointer surgery; here: each pointer operation implements
    the list operation of the model above, for every list ([Rep]: following [next] from [all] visits
    exactly [pre ++ unsw], once each, and ends at null; [sweep] = head of the unswept part,
    [sweep_prev] = last of the swept part while sweeping, both null otherwise). So an object is never
    lost from, or visited twice on, the list that the sweep and [Drop for Context] walk. *)
Theorem C04_pointer_link :
  forall c o p, Inv None c -> Rep (sweeping c) p (pre c) (unsw c) ->
    Rep (sweeping (fst (link c o))) (plink (sweeping c) p (snd (link c o)))
        (pre (fst (link c o))) (unsw (fst (link c o))).
Proof. exact link_refines. Qed.
Print Assumptions C04_pointer_link.

Theorem C04_pointer_enter_sweep :
  forall c p, Rep false p (pre c) (unsw c) ->
    Rep true (penter_sweep p) (pre (set_lists (set_ph c Sweep) [] (all c))) (unsw (set_lists (set_ph c Sweep) [] (all c))).
Proof. exact enter_sweep_refines. Qed.
Print Assumptions C04_pointer_enter_sweep.

Theorem C04_pointer_sweep_one :
  forall c p c' evs r, Inv None c -> ph c = Sweep -> Rep true p (pre c) (unsw c) -> sweep_one c = (c', evs, r) ->
    let p' := fst (psweep_one (arm_in c) p) in
    match r with
    | SContinue => Rep true p' (pre c') (unsw c')
    | SBreak => Rep false p' (pre c') (unsw c') /\ unsw c' = []
    end.
Proof. exact sweep_one_refines. Qed.
Print Assumptions C04_pointer_sweep_one.

(** [Drop for Context] follows [next] from [all]: it meets exactly the objects of the list, each once *)
Theorem C04_pointer_drop_all_walk :
  forall sw c p, Rep sw p (pre c) (unsw c) -> pwalk (length (all c)) (nxt p) (p_all p) = all c.
Proof. exact drop_all_walk. Qed.
Print Assumptions C04_pointer_drop_all_walk.

(** any history of links, Mark -> Sweep transitions and sweep steps (with any arms): the pointer level
    tracks the list level *)
Theorem C04_pointer_any_history :
  forall evs sw p pre unsw, Rep sw p pre unsw -> lrun_ok (sw, pre, unsw) evs ->
    let '(sw1, pre1, unsw1) := fold_left lstep evs (sw, pre, unsw) in
    let '(sw2, p2) := fold_left pstep evs (sw, p) in
    sw2 = sw1 /\ Rep sw1 p2 pre1 unsw1.
Proof. exact psteps_rep. Qed.
Print Assumptions C04_pointer_any_history.

(** non-vacuity: three objects, sweep begins, the head is kept, an object is born mid-sweep, the next
    object is unlinked through [sweep_prev], the last is kept, the sweep ends *)
Example C04_pointer_history_example :
  let evs := [LLink 0; LLink 1; LLink 2; LEnter; LSweep PKeep; LLink 3; LSweep PFree; LSweep PKeep; LSweep PKeep] in
  Rep false pl_new [] [] /\ lrun_ok (false, [], []) evs
  /\ fold_left lstep evs (false, [], []) = (false, [3; 2; 0], [])
  /\ let p2 := snd (fold_left pstep evs (false, pl_new)) in
     pwalk 5 (nxt p2) (p_all p2) = [3; 2; 0] /\ p_sweep p2 = None /\ p_prev p2 = None.
Proof.
  cbn zeta. split; [exact rep_new|]. split; [|split; [reflexivity|vm_compute; auto]].
  cbn. repeat split; try discriminate; try tauto; intros H; repeat (destruct H as [H|H]; try discriminate H); try contradiction.
Qed.
