(** C04 — every value is destructed exactly once and all memory is returned. *)
From GA Require Import Model.Spec Proofs.Inv Proofs.InvSweep Proofs.Once Proofs.InvWorld Proofs.Safety.
Local Open Scope nat_scope.

(** Dropping the arena of any reachable world, in whatever phase it is and with shells present:
    every allocated block is released exactly once, a value is destructed exactly once if it
    had not been destructed before (and not at all if it is already a shell), and nothing else is
    touched. *)
Theorem C04_drop_arena_once :
  forall ops a ar x, get_arena (run world_init ops) a = Some ar -> allocated (actx ar) x ->
    count (EvFree x) (fst (drop_arena_effect (actx ar))) = 1
    /\ count (EvDrop x) (fst (drop_arena_effect (actx ar))) =
       (match get (actx ar) x with Some o => if live o then 1 else 0 | None => 0 end).
Proof. intros ops a ar x H. apply drop_arena_once. eapply reachable_inv; eauto. Qed.
Print Assumptions C04_drop_arena_once.

Theorem C04_drop_arena_only_allocated :
  forall ops a ar e, get_arena (run world_init ops) a = Some ar ->
    In e (fst (drop_arena_effect (actx ar))) -> allocated (actx ar) (ev_id e).
Proof. intros ops a ar e H. apply drop_arena_only_allocated. eapply reachable_inv; eauto. Qed.
Print Assumptions C04_drop_arena_only_allocated.

(** During collection: a value is destructed only if it had not been destructed yet, and is
    afterwards gone or marked destructed (a shell), so it cannot be destructed again; a block is
    released at most once and is gone afterwards; the shell of a weakly referenced object is
    released without a second destruction. *)
Theorem C04_sweep_discipline :
  forall c c' evs r x, Inv None c -> ph c = Sweep -> sweep_one c = (c', evs, r) ->
    (In (EvDrop x) evs ->
       (exists o, get c x = Some o /\ live o = true)
       /\ (get c' x = None \/ exists o', get c' x = Some o' /\ live o' = false))
    /\ (In (EvFree x) evs -> allocated c x /\ get c' x = None)
    /\ count (EvDrop x) evs <= 1 /\ count (EvFree x) evs <= 1.
Proof. exact sweep_one_discipline. Qed.
Print Assumptions C04_sweep_discipline.

(** ids are never re-used, so "gone" is permanent *)
Theorem C04_ids_fresh : forall c o, snd (link c o) = length (heap c) /\ get c (length (heap c)) = None.
Proof. exact link_fresh. Qed.
Print Assumptions C04_ids_fresh.

(** PARTIAL: the composition into a single statement over the whole event history of an arena
    ("for every history ending in dropping the arena, count EvDrop x = count EvFree x = 1") is
    evaluated on every implementation trace by the C04 oracle; the Coq development proves the
    per-step discipline above from which it follows (a live flag never returns to true, ids are
    never re-used). The "exact layout" clause is C17's. Payload destructors that panic are outside
    the model. *)
