(** C04 — every value is destructed exactly once and all memory is returned. *)
From GA Require Import Model.Spec Proofs.Inv Proofs.InvSweep Proofs.Once Proofs.InvWorld Proofs.Safety
     Proofs.Life Proofs.LifeCollect Proofs.Lifetime.
Local Open Scope nat_scope.

(** Dropping the arena of any reachable world, in whatever phase it is and with shells present:
    every allocated block is released exactly once, a value is destructed exactly once if it
    had not been destructed before (and not at all if it is already a shell), and nothing else is
    touched. *)
Theorem C04_drop_arena_once :
  forall ops a ar x, get_arena (run world_init ops) a = Some ar -> allocated (actx ar) x ->
    count (EvFree x) (fst (drop_arena_effect (actx ar))) = 1
    /\ count (EvDrop x) (fst (drop_arena_effect (actx ar))) =
       (match get (actx ar) x with Some o => if live o then 1 else 0 | None => 0 end).
Proof. intros ops a ar x H. apply drop_arena_once. eapply reachable_inv; eauto. Qed.
Print Assumptions C04_drop_arena_once.

Theorem C04_drop_arena_only_allocated :
  forall ops a ar e, get_arena (run world_init ops) a = Some ar ->
    In e (fst (drop_arena_effect (actx ar))) -> allocated (actx ar) (ev_id e).
Proof. intros ops a ar e H. apply drop_arena_only_allocated. eapply reachable_inv; eauto. Qed.
Print Assumptions C04_drop_arena_only_allocated.

(** During collection: a value is destructed only if it had not been destructed yet, and is
    afterwards gone or marked destructed (a shell), so it cannot be destructed again; a block is
    released at most once and is gone afterwards; the shell of a weakly referenced object is
    released without a second destruction. *)
Theorem C04_sweep_discipline :
  forall c c' evs r x, Inv None c -> ph c = Sweep -> sweep_one c = (c', evs, r) ->
    (In (EvDrop x) evs ->
       (exists o, get c x = Some o /\ live o = true)
       /\ (get c' x = None \/ exists o', get c' x = Some o' /\ live o' = false))
    /\ (In (EvFree x) evs -> allocated c x /\ get c' x = None)
    /\ count (EvDrop x) evs <= 1 /\ count (EvFree x) evs <= 1.
Proof. exact sweep_one_discipline. Qed.
Print Assumptions C04_sweep_discipline.

(** ids are never re-used, so "gone" is permanent *)
Theorem C04_ids_fresh : forall c o, snd (link c o) = length (heap c) /\ get c (length (heap c)) = None.
Proof. exact link_fresh. Qed.
Print Assumptions C04_ids_fresh.

(** The whole life of an arena.  [hist_run] runs an operation sequence and keeps, as a ghost, the list
    of destructor / release events each arena has emitted since it was created ([hist_step] appends the
    events of an operation to the history of the arena it targets).  Whenever an arena of a reachable
    world disappears -- [ODropArena], or a constructor / root map that fails or panics -- in whatever
    phase it is (asleep, mid-mark, fully marked, mid-sweep), with whatever mix of live values, shells
    and garbage: for EVERY id it ever allocated its history contains exactly one destructor run and
    exactly one release, and nothing for any other id. *)
Theorem C04_lifetime_exactly_once :
  forall ops o a ar x,
    let w := fst (hist_run world_init hist0 ops) in
    let H := snd (hist_run world_init hist0 ops) in
    get_arena w a = Some ar -> get_arena (fst (step w o)) a = None ->
    count (EvDrop x) (hist_step w o H a) = (if Nat.ltb x (length (heap (actx ar))) then 1 else 0)
    /\ count (EvFree x) (hist_step w o H a) = (if Nat.ltb x (length (heap (actx ar))) then 1 else 0).
Proof. exact lifetime_exactly_once. Qed.
Print Assumptions C04_lifetime_exactly_once.

(** and at every earlier moment the history agrees with the heap: no event for a live value, exactly
    one destructor run and no release for a shell, exactly one of each for a released block *)
Theorem C04_lifetime_consistent :
  forall ops a ar,
    let w := fst (hist_run world_init hist0 ops) in
    let H := snd (hist_run world_init hist0 ops) in
    get_arena w a = Some ar -> HistOK (actx ar) (H a).
Proof. exact lifetime_consistent. Qed.
Print Assumptions C04_lifetime_consistent.

Theorem C04_hist_run_is_run : forall ops w H, fst (hist_run w H ops) = run w ops.
Proof. exact hist_run_fst. Qed.
Print Assumptions C04_hist_run_is_run.

(** non-vacuity: a weakly held object is destructed by a sweep, its shell survives a cycle, and the arena is
    dropped mid-mark: ids 0..3 each show one destructor run and one release *)
Example C04_nonvacuous :
  let ops := [OBegin 0 CNew; OMicro (MAlloc 0 KNode 1 1); OMicro (MAlloc 4 KNode 1 0); OMicro (MAlloc 5 KLeaf 0 0);
              OMicro (MDowngrade 0 4); OMicro (MStoreW 0 0 (Some 0)); OMicro (MAlloc 4 KNode 1 0); OEnd;
              OCollect 0 HFinishCycle None; OCollect 0 HMarkDebt None] in
  let w := fst (hist_run world_init hist0 ops) in
  let H := hist_step w (ODropArena 0) (snd (hist_run world_init hist0 ops)) in
  map (fun x => (count (EvDrop x) (H 0), count (EvFree x) (H 0))) [0; 1; 2; 3; 4] = [(1, 1); (1, 1); (1, 1); (1, 1); (0, 0)].
Proof. vm_compute. reflexivity. Qed.

(** The "exact layout" clause is C17's; payload destructors that panic are outside the model. *)
