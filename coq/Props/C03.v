(** C03 — mutation xor collection: nothing is reclaimed while a callback runs. *)
From GA Require Import Model.Spec Proofs.InvWorld Proofs.Safety.
Local Open Scope nat_scope.

(** In every reachable world, every callback-related operation (entering a callback of any kind,
    every micro-op inside it, leaving it normally / with Err / by panic) emits no destructor and no
    release event — except the documented cases where the arena itself is destroyed (a failed
    or panicking constructor / map_root). Entering a finalize callback runs marking, which is shown
    to emit nothing. Whatever the debt, phase or pending work. *)
Theorem C03_no_events :
  forall ops o w' r,
    callback_op o = true -> destroying (run world_init ops) o = false ->
    step (run world_init ops) o = (w', r) -> r_events r = [].
Proof. exact callback_no_events. Qed.
Print Assumptions C03_no_events.

(** Marking-only collection calls (mark_debt / finish_marking, as used by finalize) emit nothing. *)
Theorem C03_marking_no_events :
  forall dec c ru f c' evs oc, do_collection dec c ru FullyMarked f = (c', evs, oc) -> evs = [].
Proof. exact do_collection_mark_no_events. Qed.
Print Assumptions C03_marking_no_events.

Example C03_nonvacuous :
  exists w' r, step (run world_init [OBegin 0 CNew; OMicro (MAlloc 0 KNode 1 0); OEnd; OAdjustDebt 0 1000; OBegin 0 CMutate])
                    (OMicro (MAlloc 1 KNode 1 0)) = (w', r) /\ r_events r = [] /\ r_out r = [1%Z].
Proof. eexists. eexists. split; [vm_compute; reflexivity|]. split; reflexivity. Qed.
