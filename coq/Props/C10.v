(** C10 — metrics are truthful (over exact rationals; counters unbounded). *)
From Coq Require Import QArith.
From GA Require Import Model.Spec Proofs.MetricsLemmas.

Theorem C10_nonneg : forall m, (0 <= allocation_debt m)%Q.
Proof. exact debt_nonneg. Qed.
Print Assumptions C10_nonneg.

Theorem C10_zero_when_empty : forall m, total m = 0%N -> allocation_debt m = 0%Q.
Proof. exact debt_zero_empty. Qed.
Print Assumptions C10_zero_when_empty.

Theorem C10_adjust :
  forall m x, (0 < allocation_debt m)%Q -> (0 <= x)%Q ->
              (allocation_debt (adjust_debt m x) == allocation_debt m + x)%Q.
Proof. exact adjust_debt_adds. Qed.
Print Assumptions C10_adjust.
