(** C10 — metrics are truthful (over exact rationals; counters unbounded). *)
From Coq Require Import QArith.
From GA Require Import Model.Spec Proofs.Inv Proofs.MetricsLemmas Proofs.MInv Proofs.MInvWorld.

Theorem C10_nonneg : forall m, (0 <= allocation_debt m)%Q.
Proof. exact debt_nonneg. Qed.
Print Assumptions C10_nonneg.

Theorem C10_zero_when_empty : forall m, total m = 0%N -> allocation_debt m = 0%Q.
Proof. exact debt_zero_empty. Qed.
Print Assumptions C10_zero_when_empty.

Theorem C10_adjust :
  forall m x, (0 < allocation_debt m)%Q -> (0 <= x)%Q ->
              (allocation_debt (adjust_debt m x) == allocation_debt m + x)%Q.
Proof. exact adjust_debt_adds. Qed.
Print Assumptions C10_adjust.

(** Outside and inside callbacks, in every arena of every reachable world: total_gc_count equals the
    number of Gc allocations made and not yet released (the all-list holds exactly the allocated
    blocks, once each). *)
Theorem C10_count :
  forall ops a ar, get_arena (run world_init ops) a = Some ar ->
    total (met (actx ar)) = N.of_nat (length (all (actx ar)))
    /\ NoDup (all (actx ar)) /\ (forall x, In x (all (actx ar)) <-> allocated (actx ar) x).
Proof. exact count_exact. Qed.
Print Assumptions C10_count.

Theorem C10_zero_after_drop :
  forall ops a ar, get_arena (run world_init ops) a = Some ar -> snd (drop_arena_effect (actx ar)) = 0%N.
Proof. exact count_zero_after_drop. Qed.
Print Assumptions C10_zero_after_drop.

(** No metric update ever underflows (the model's unsigned subtractions record an underflow in a
    ghost flag): for every history of allocations, barriers on objects of tracing and non-tracing
    types, collection increments with trace panics, debt adjustments, any pacing. This is the
    theorem that was FALSE of the pinned tree (F1: a write barrier on a marked object of a type with
    NEEDS_TRACE = false) and holds after the fix. *)
Theorem C10_no_underflow :
  forall ops a ar, get_arena (run world_init ops) a = Some ar -> uflow (actx ar) = false.
Proof. exact no_underflow. Qed.
Print Assumptions C10_no_underflow.

(** The invariant behind it: every traced-type object that is black has been counted as traced. *)
Theorem C10_traced_covers_black :
  forall ops a ar, get_arena (run world_init ops) a = Some ar -> ph (actx ar) = Mark ->
    (N.of_nat (nblack (actx ar)) <= traced (met (actx ar)))%N.
Proof. intros ops a ar H. exact (m_traced _ (wminv_reachable ops a ar H)). Qed.
Print Assumptions C10_traced_covers_black.

(** PARTIAL: monotonicity of the debt under mutator operations (known finding F4 for first-marking
    forward barriers / resurrect) is decided by the implementation-side oracle; finiteness is a float
    matter (malformed-input stream). *)
