(** C10 — metrics are truthful (over exact rationals; counters unbounded). *)
From Coq Require Import QArith.
From GA Require Import Model.Spec Proofs.Inv Proofs.MetricsLemmas Proofs.MInv Proofs.MInvWorld Proofs.DebtMono Proofs.DebtMonoOps.

Theorem C10_nonneg : forall m, (0 <= allocation_debt m)%Q.
Proof. exact debt_nonneg. Qed.
Print Assumptions C10_nonneg.

Theorem C10_zero_when_empty : forall m, total m = 0%N -> allocation_debt m = 0%Q.
Proof. exact debt_zero_empty. Qed.
Print Assumptions C10_zero_when_empty.

Theorem C10_adjust :
  forall m x, (0 < allocation_debt m)%Q -> (0 <= x)%Q ->
              (allocation_debt (adjust_debt m x) == allocation_debt m + x)%Q.
Proof. exact adjust_debt_adds. Qed.
Print Assumptions C10_adjust.

(** Outside and inside callbacks, in every arena of every reachable world: total_gc_count equals the
    number of Gc allocations made and not yet released (the all-list holds exactly the allocated
    blocks, once each). *)
Theorem C10_count :
  forall ops a ar, get_arena (run world_init ops) a = Some ar ->
    total (met (actx ar)) = N.of_nat (length (all (actx ar)))
    /\ NoDup (all (actx ar)) /\ (forall x, In x (all (actx ar)) <-> allocated (actx ar) x).
Proof. exact count_exact. Qed.
Print Assumptions C10_count.

Theorem C10_zero_after_drop :
  forall ops a ar, get_arena (run world_init ops) a = Some ar -> snd (drop_arena_effect (actx ar)) = 0%N.
Proof. exact count_zero_after_drop. Qed.
Print Assumptions C10_zero_after_drop.

(** No metric update ever underflows (the model's unsigned subtractions record an underflow in a
    ghost flag): for every history of allocations, barriers on objects of tracing and non-tracing
    types, collection increments with trace panics, debt adjustments, any pacing. This is the
    theorem that was FALSE of the pinned tree (F1: a write barrier on a marked object of a type with
    NEEDS_TRACE = false) and holds after the fix. *)
Theorem C10_no_underflow :
  forall ops a ar, get_arena (run world_init ops) a = Some ar -> uflow (actx ar) = false.
Proof. exact no_underflow. Qed.
Print Assumptions C10_no_underflow.

(** The invariant behind it: every traced-type object that is black has been counted as traced. *)
Theorem C10_traced_covers_black :
  forall ops a ar, get_arena (run world_init ops) a = Some ar -> ph (actx ar) = Mark ->
    (N.of_nat (nblack (actx ar)) <= traced (met (actx ar)))%N.
Proof. intros ops a ar H. exact (m_traced _ (wminv_reachable ops a ar H)). Qed.
Print Assumptions C10_traced_covers_black.

(** "Never decreased by allocation, mutation or write barriers": every operation a callback can perform
    -- allocation, loads, stores through Gc::write / unlock / lock setters, OnceLock, raw stores under a
    licence, root updates, downgrade / upgrade / is_dropped / is_dead, BACKWARD barriers (strong and weak),
    stash and fetch -- leaves the allocation debt where it was or raises it (given a non-negative
    trace_factor) ... *)
Theorem C10_debt_monotone :
  forall w ar k m ar' hs out,
    (0 <= trace_f (pac (met (actx ar))))%Q -> first_marking m = false -> micro w ar k m = (ar', hs, out) ->
    (allocation_debt (met (actx ar)) <= allocation_debt (met (actx ar')))%Q.
Proof. exact micro_debt_monotone. Qed.
Print Assumptions C10_debt_monotone.

(** ... with exactly one class of exceptions, the recorded known finding F4: the FORWARD barriers and
    resurrect, when they mark an object for the first time, earn the marking credit; the decrease is at
    most [mark_factor], once. Any other decrease is a violation. *)
Theorem C10_debt_first_marking_bound :
  forall w ar k m ar' hs out,
    (0 <= mark_f (pac (met (actx ar))))%Q -> first_marking m = true -> micro w ar k m = (ar', hs, out) ->
    (allocation_debt (met (actx ar)) - mark_f (pac (met (actx ar))) <= allocation_debt (met (actx ar')))%Q.
Proof. exact micro_debt_first_marking. Qed.
Print Assumptions C10_debt_first_marking_bound.

(** the exception is real (F4 witness): a forward barrier on a freshly allocated object of a fully marked
    arena lowers the debt, and the literal clause is refuted for that class *)
Example C10_first_marking_refutes_literal_clause :
  let ops := [OBegin 0 CNew; OMicro (MAlloc 0 KNode 1 0); OEnd; OAdjustDebt 0 (1000#1);
              OCollect 0 HFinishMarking None; OBegin 0 CMutate; OMicro (MAlloc 4 KNode 1 0)] in
  exists ar ar', get_arena (run world_init ops) 0 = Some ar
    /\ get_arena (fst (step (run world_init ops) (OMicro (MBarrierF None 4)))) 0 = Some ar'
    /\ (allocation_debt (met (actx ar')) < allocation_debt (met (actx ar)))%Q.
Proof. cbv zeta. eexists. eexists. split; [vm_compute; reflexivity|]. split; [vm_compute; reflexivity|]. vm_compute. reflexivity. Qed.

(** Finiteness is a float matter (the model's debt is an exact rational; the lock-step run compares the
    implementation's f64 decisions and, on dyadic pacing, its values). *)
