(** C07 — finalization: dead means unreachable, resurrection holds for the cycle. *)
From GA Require Import Model.Spec Proofs.Inv Proofs.InvMark Proofs.InvSweep Proofs.Final Proofs.InvWorld Proofs.Safety Proofs.ExactDead Proofs.Revive.
Local Open Scope nat_scope.

(** When a MarkedArena is handed out (phase Mark, no gray work, root traced), every strongly
    reachable object is marked, so neither it nor any weak pointer to it reports is_dead. *)
Theorem C07_marked_sound :
  forall ops a ar x, get_arena (run world_init ops) a = Some ar ->
    is_marked (actx ar) = true -> reach (actx ar) x ->
    (exists o, get (actx ar) x = Some o /\ col o = Black) /\ snd (is_dead (actx ar) x) = false.
Proof.
  intros ops a ar x H IM R. pose proof (reachable_inv ops a ar H) as I.
  unfold is_marked in IM. apply andb_true_iff in IM. destruct IM as [P GR].
  apply Proofs.HeapLemmas.phase_eqb_eq in P. apply negb_true_iff in GR.
  split; [apply marked_sound; auto|apply marked_not_dead; auto].
Qed.
Print Assumptions C07_marked_sound.

(** Resurrecting a live object queues it; by the invariant it and (once marking completes)
    everything strongly reachable from it is marked before sweeping may start, and marked objects
    are not destructed by the sweep (C01: sweep only destructs condemned = unmarked objects). *)
Theorem C07_resurrect_marks :
  forall c x o, Inv None c -> ph c = Mark -> get c x = Some o -> live o = true ->
    Inv None (resurrect c x) /\ tstrong (resurrect c x) x.
Proof. exact resurrected_is_marked. Qed.
Print Assumptions C07_resurrect_marks.

Theorem C07_marked_closure :
  forall c p op x, Inv None c -> ph c = Mark -> gray_remaining c = false ->
    get c p = Some op -> col op = Black -> In (Some x) (strong op) ->
    exists ox, get c x = Some ox /\ col ox = Black.
Proof. exact marked_closure. Qed.
Print Assumptions C07_marked_closure.

(** "Resurrecting a dead but undestructed object guarantees that it and everything strongly reachable from
    it are not destructed in this collection cycle even if the pointer is stored nowhere": a marked (gray
    or black) object -- which is what resurrect makes of its target, [C07_resurrect_marks] -- is neither
    destructed nor released by any collection call that stays within the cycle (every entry point except
    collect_debt, which may legitimately run on into the NEXT cycle), for every debt oracle, increment size
    and stopping point; and once marking is complete the same holds for everything strongly reachable
    from it, reachable from the root or not. *)
Theorem C07_marked_survives_cycle :
  forall dec c ru st c' evs oc x o,
    Inv None c -> quiescent c -> ph c = Mark -> get c x = Some o -> dark (col o) -> stops_in_cycle st = true ->
    do_collection dec c ru st None = (c', evs, oc) -> forall ev, In ev evs -> ev_id ev <> x.
Proof. exact marked_survives_cycle. Qed.
Print Assumptions C07_marked_survives_cycle.

Theorem C07_marked_closure_survives_cycle :
  forall dec c ru st c' evs oc x o y,
    Inv None c -> quiescent c -> is_marked c = true -> get c x = Some o -> col o = Black -> reach_from c x y ->
    stops_in_cycle st = true ->
    do_collection dec c ru st None = (c', evs, oc) -> forall ev, In ev evs -> ev_id ev <> y.
Proof. exact marked_closure_survives_cycle. Qed.
Print Assumptions C07_marked_closure_survives_cycle.

(** Reviving a dead object makes the arena report Marking until marking is finished again. *)
Theorem C07_revive_marking :
  forall c x o, get c x = Some o -> is_whiteish (col o) = true -> ph c = Mark ->
    gray_remaining (resurrect c x) = true /\ collection_phase (resurrect c x) = 1.
Proof. exact revive_marking. Qed.
Print Assumptions C07_revive_marking.

(** "If no mutation happened since marking of this cycle began, is_dead is true exactly for the
    objects unreachable from the root": from a sleeping arena, after ANY sequence of collection
    calls of any kind (any debt oracle, any stop condition, any number of increments; no callback in
    between), whenever the arena is fully marked, [is_dead x] holds iff [x] is not strongly reachable. *)
Theorem C07_dead_iff_unreachable :
  forall c0 cs, Inv None c0 -> quiescent c0 -> ph c0 = Sleep ->
    let c' := run_calls c0 cs in
    is_marked c' = true ->
    forall x o, get c' x = Some o -> (snd (is_dead c' x) = true <-> ~ reach c' x).
Proof. exact dead_iff_unreachable. Qed.
Print Assumptions C07_dead_iff_unreachable.

(** ... in particular for every arena of every reachable world that is asleep outside callbacks *)
Theorem C07_dead_iff_unreachable_world :
  forall ops a ar cs,
    cur (run world_init ops) = None -> get_arena (run world_init ops) a = Some ar -> ph (actx ar) = Sleep ->
    let c' := run_calls (actx ar) cs in
    is_marked c' = true ->
    forall x o, get c' x = Some o -> (snd (is_dead c' x) = true <-> ~ reach c' x).
Proof. exact dead_iff_unreachable_world. Qed.
Print Assumptions C07_dead_iff_unreachable_world.

Example C07_dead_nonvacuous :
  let ops := [OBegin 0 CNew; OMicro (MAlloc 0 KNode 1 0); OMicro (MAlloc 4 KNode 1 0); OMicro (MAlloc 5 KNode 1 0);
              OMicro (MStore 0 0 (Some 4)); OEnd] in
  exists ar, get_arena (run world_init ops) 0 = Some ar /\ cur (run world_init ops) = None /\ ph (actx ar) = Sleep
    /\ let c' := run_calls (actx ar) [(dec_debt, PayDebt, FullyMarked); (dec_debt, RunStop, FullyMarked)] in
       is_marked c' = true /\ snd (is_dead c' 0) = false /\ snd (is_dead c' 1) = false /\ snd (is_dead c' 2) = true.
Proof. cbv zeta. eexists. split; [vm_compute; reflexivity|]. vm_compute. repeat split. Qed.
