(** C07 — finalization: dead means unreachable, resurrection holds for the cycle. *)
From GA Require Import Model.Spec Proofs.Inv Proofs.InvMark Proofs.InvSweep Proofs.Final Proofs.InvWorld Proofs.Safety.
Local Open Scope nat_scope.

(** When a MarkedArena is handed out (phase Mark, no gray work, root traced), every strongly
    reachable object is marked, so neither it nor any weak pointer to it reports is_dead. *)
Theorem C07_marked_sound :
  forall ops a ar x, get_arena (run world_init ops) a = Some ar ->
    is_marked (actx ar) = true -> reach (actx ar) x ->
    (exists o, get (actx ar) x = Some o /\ col o = Black) /\ snd (is_dead (actx ar) x) = false.
Proof.
  intros ops a ar x H IM R. pose proof (reachable_inv ops a ar H) as I.
  unfold is_marked in IM. apply andb_true_iff in IM. destruct IM as [P GR].
  apply Proofs.HeapLemmas.phase_eqb_eq in P. apply negb_true_iff in GR.
  split; [apply marked_sound; auto|apply marked_not_dead; auto].
Qed.
Print Assumptions C07_marked_sound.

(** Resurrecting a live object queues it; by the invariant it and (once marking completes)
    everything strongly reachable from it is marked before sweeping may start, and marked objects
    are not destructed by the sweep (C01: sweep only destructs condemned = unmarked objects). *)
Theorem C07_resurrect_marks :
  forall c x o, Inv None c -> ph c = Mark -> get c x = Some o -> live o = true ->
    Inv None (resurrect c x) /\ tstrong (resurrect c x) x.
Proof. exact resurrected_is_marked. Qed.
Print Assumptions C07_resurrect_marks.

Theorem C07_marked_closure :
  forall c p op x, Inv None c -> ph c = Mark -> gray_remaining c = false ->
    get c p = Some op -> col op = Black -> In (Some x) (strong op) ->
    exists ox, get c x = Some ox /\ col ox = Black.
Proof. exact marked_closure. Qed.
Print Assumptions C07_marked_closure.

(** Reviving a dead object makes the arena report Marking until marking is finished again. *)
Theorem C07_revive_marking :
  forall c x o, get c x = Some o -> is_whiteish (col o) = true -> ph c = Mark ->
    gray_remaining (resurrect c x) = true /\ collection_phase (resurrect c x) = 1.
Proof. exact revive_marking. Qed.
Print Assumptions C07_revive_marking.

(** PARTIAL: "if no mutation happened since marking of this cycle began, is_dead is true exactly
    for the unreachable objects" (the direction unreachable => dead needs the ghost
    marked-only-from-the-root accounting; it is checked by the implementation-side oracle). *)
