(** C14 — DynamicRootSet keeps stashed objects alive exactly while a handle exists. *)
From GA Require Import Model.Spec Proofs.Inv Proofs.InvSweep Proofs.InvOps Proofs.InvMicroOps Proofs.InvWorld Proofs.Safety
     Proofs.Slots Proofs.HandlesInv Proofs.HandlesClient.
Local Open Scope nat_scope.

(** An object held in a slot of a set that is reachable from the root is itself reachable (the set
    object's edges are its occupied slots), so by C01 it and its closure survive every collection. *)
Theorem C14_slot_reachable :
  forall c s so x, reach c s -> get c s = Some so -> In (Some x) (strong so) -> reach c x.
Proof. intros c s so x R G H. eapply reach_step; eauto. Qed.
Print Assumptions C14_slot_reachable.

(** stash issues its barrier and records the pointer while preserving the collector invariant
    (one case of the micro-op theorem); fetch hands out only a pointer that is still held by the
    set, hence a safe one; a handle presented to another set or another arena is refused. *)
Theorem C14_stash_fetch_inv :
  forall w ar k m ar' hs out,
    Inv None (actx ar) -> cb_ok k (actx ar) -> micro w ar k m = (ar', hs, out) -> Inv None (actx ar').
Proof. intros w ar k m ar' hs out I CB E. exact (proj1 (micro_inv w ar k m ar' hs out I CB E)). Qed.
Print Assumptions C14_stash_fetch_inv.

Theorem C14_foreign_refused :
  forall w ar k r s h sid hd so,
    rg (actx ar) s = Some sid -> nth_error (handles w) h = Some (Some hd) ->
    get (actx ar) sid = Some so -> okind so = KSet -> live so = true ->
    (h_uid hd <> auid ar \/ h_set hd <> sid) ->
    micro w ar k (MFetch r s h) = (ar, handles w, [0%Z; (-1)%Z; Z.of_nat sid]).
Proof.
  intros w ar k r s h sid hd so RS NH G K L NE. destruct ar as [c uid sets]. cbn in *.
  rewrite RS, NH, G, K, L.
  assert (E : Nat.eqb (h_uid hd) uid && Nat.eqb (h_set hd) sid = false).
  { destruct NE as [N|N]; apply Nat.eqb_neq in N; rewrite N; [reflexivity|apply andb_false_r]. }
  rewrite E. reflexivity.
Qed.
Print Assumptions C14_foreign_refused.

(** The slot-table / handle invariant [HInv] (Proofs/HandlesInv.v) holds in every reachable world:
    for every arena, every live set object with its table: table and slot vector have the same
    length, the free list threads exactly the vacant slots without repetition, a vacant slot holds
    nothing and no live handle names it, the reference count of an occupied slot is the number of
    live handles naming it minus one, every live handle of the set names an occupied slot holding
    the handle's object; arena uids are unique and never reused. *)
Theorem C14_invariant : forall ops, HInv (run world_init ops).
Proof. exact hinv_reachable. Qed.
Print Assumptions C14_invariant.

(** Every live handle resolves to the very object it was created for, whatever happened in between
    (collection increments in every phase, other stashes, slot reuse after frees, clones and drops of
    other handles, other arenas): "slot reuse never changes what a live handle resolves to". *)
Theorem C14_handle_resolves :
  forall ops a ar h hd so,
    get_arena (run world_init ops) a = Some ar -> nth_error (handles (run world_init ops)) h = Some (Some hd) ->
    h_uid hd = auid ar -> get (actx ar) (h_set hd) = Some so -> live so = true -> okind so = KSet ->
    nth_error (strong so) (h_idx hd) = Some (Some (h_ptr hd)).
Proof. exact handle_resolves. Qed.
Print Assumptions C14_handle_resolves.

(** fetch returns a pointer to the very object that was stashed *)
Theorem C14_fetch_returns_stashed :
  forall ops a ar k r s h hd sid so,
    get_arena (run world_init ops) a = Some ar -> nth_error (handles (run world_init ops)) h = Some (Some hd) ->
    rg (actx ar) s = Some sid -> get (actx ar) sid = Some so -> okind so = KSet -> live so = true ->
    h_uid hd = auid ar -> h_set hd = sid ->
    micro (run world_init ops) ar k (MFetch r s h)
    = (mkArena (set_rg (actx ar) r (Some (h_ptr hd))) (auid ar) (asets ar), handles (run world_init ops),
       [1%Z; Z.of_nat (h_ptr hd); Z.of_nat sid]).
Proof. exact fetch_returns_stashed. Qed.
Print Assumptions C14_fetch_returns_stashed.

(** "... and becomes collectable once the last such handle is dropped": a live set holds nothing but
    the targets of live handles (with C02: an object no handle names and nothing else reaches is
    reclaimed by the next full cycles; with [C14_slot_reachable] and C01: while a handle exists and
    the set is reachable, the object and its closure survive). *)
Theorem C14_set_holds_only_handle_targets :
  forall ops a ar sid so i x,
    get_arena (run world_init ops) a = Some ar -> get (actx ar) sid = Some so -> live so = true -> okind so = KSet ->
    nth_error (strong so) i = Some (Some x) ->
    exists h hd, nth_error (handles (run world_init ops)) h = Some (Some hd) /\ h_uid hd = auid ar /\ h_set hd = sid
                 /\ h_idx hd = i /\ h_ptr hd = x.
Proof. exact set_holds_only_handle_targets. Qed.
Print Assumptions C14_set_holds_only_handle_targets.

Theorem C14_refcount_exact :
  forall ops a ar sid sl so i rc,
    get_arena (run world_init ops) a = Some ar -> sets_get (asets ar) sid = Some sl -> get (actx ar) sid = Some so ->
    live so = true -> okind so = KSet -> nth_error (smeta sl) i = Some (SOcc rc) ->
    hcount (handles (run world_init ops)) (auid ar) sid i = N.to_nat rc + 1.
Proof. exact refcount_exact. Qed.
Print Assumptions C14_refcount_exact.

(** non-vacuity: stash, drop the handle, stash again (the slot is reused), clone, drop the original:
    the clone still fetches the second object; the set holds only that object *)
Example C14_nonvacuous :
  let ops := [OBegin 0 CNew; OMicro (MAlloc 0 KSet 0 0); OMicro (MAlloc 4 KNode 1 0); OMicro (MStash 0 0 4); OEnd;
              ODropH 0;
              OBegin 0 CMutate; OMicro (MLoadRoot 0 0); OMicro (MAlloc 4 KNode 1 0); OMicro (MStash 1 0 4); OEnd;
              OCloneH 2 1; ODropH 1; OCollect 0 HFinishCycle None; OCollect 0 HFinishCycle None;
              OBegin 0 CMutate; OMicro (MLoadRoot 0 0)] in
  exists w r, step (run world_init ops) (OMicro (MFetch 1 0 2)) = (w, r) /\ r_out r = [1%Z; 2%Z; 0%Z].
Proof. cbv zeta. eexists. eexists. split; [vm_compute; reflexivity|reflexivity]. Qed.
