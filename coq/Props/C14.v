(** C14 — DynamicRootSet keeps stashed objects alive exactly while a handle exists.  PARTIAL. *)
From GA Require Import Model.Spec Proofs.Inv Proofs.InvSweep Proofs.InvOps Proofs.InvMicroOps Proofs.InvWorld Proofs.Safety.
Local Open Scope nat_scope.

(** An object held in a slot of a set that is reachable from the root is itself reachable (the set
    object's edges are its occupied slots), so by C01 it and its closure survive every collection. *)
Theorem C14_slot_reachable :
  forall c s so x, reach c s -> get c s = Some so -> In (Some x) (strong so) -> reach c x.
Proof. intros c s so x R G H. eapply reach_step; eauto. Qed.
Print Assumptions C14_slot_reachable.

(** stash issues its barrier and records the pointer while preserving the collector invariant
    (one case of the micro-op theorem); fetch hands out only a pointer that is still held by the
    set, hence a safe one; a handle presented to another set or another arena is refused. *)
Theorem C14_stash_fetch_inv :
  forall w ar k m ar' hs out,
    Inv None (actx ar) -> cb_ok k (actx ar) -> micro w ar k m = (ar', hs, out) -> Inv None (actx ar').
Proof. intros w ar k m ar' hs out I CB E. exact (proj1 (micro_inv w ar k m ar' hs out I CB E)). Qed.
Print Assumptions C14_stash_fetch_inv.

Theorem C14_foreign_refused :
  forall w ar k r s h sid hd so,
    rg (actx ar) s = Some sid -> nth_error (handles w) h = Some (Some hd) ->
    get (actx ar) sid = Some so -> okind so = KSet -> live so = true ->
    (h_uid hd <> auid ar \/ h_set hd <> sid) ->
    micro w ar k (MFetch r s h) = (ar, handles w, [0%Z; (-1)%Z; Z.of_nat sid]).
Proof.
  intros w ar k r s h sid hd so RS NH G K L NE. destruct ar as [c uid sets]. cbn in *.
  rewrite RS, NH, G, K, L.
  assert (E : Nat.eqb (h_uid hd) uid && Nat.eqb (h_set hd) sid = false).
  { destruct NE as [N|N]; apply Nat.eqb_neq in N; rewrite N; [reflexivity|apply andb_false_r]. }
  rewrite E. reflexivity.
Qed.
Print Assumptions C14_foreign_refused.

(** MISSING for the full statement: the slot-table invariant (every live handle indexes an occupied
    slot that holds its pointer; ref_count + 1 = number of live handles of that slot; the free list
    threads exactly the vacant slots), from which "alive exactly while a handle exists", "slot reuse
    never changes what a live handle resolves to" and "fetch returns the very object stashed"
    follow. The model's fetch reports a dangling handle as output 9, and the lock-step run would show
    it; the implementation-side oracle checks fetch identity and foreign-handle refusal. *)
