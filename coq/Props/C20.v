(** C20 — arenas are independent of one another. *)
From GA Require Import Model.Spec Proofs.InvWorld Proofs.Frame Proofs.Safety.
Local Open Scope nat_scope.

(** An operation changes at most the arena it acts on (the arena named by the op, the arena of the
    running callback, or — for handle clone / drop — the arena that issued the handle): every
    other arena's complete state (objects, colours, queues, metrics, pacing, phase, root) is
    unchanged, for every operation in every world. *)
Theorem C20_frame :
  forall w o b, op_target w o <> Some b -> get_arena (fst (step w o)) b = get_arena w b.
Proof. exact step_frame. Qed.
Print Assumptions C20_frame.

(** Each arena of a world run satisfies the collector invariant, hence C01-C05 hold per arena
    regardless of what is done to the others (the statements of C01/C03/C05 quantify over world
    runs with any number of arenas). *)
Theorem C20_each_arena : forall ops, WInv (run world_init ops).
Proof. exact winv_reachable. Qed.
Print Assumptions C20_each_arena.

Example C20_nonvacuous :
  exists ar0 ar0', 
    let w := run world_init [OBegin 0 CNew; OMicro (MAlloc 0 KNode 1 0); OEnd; OBegin 1 CNew; OMicro (MAlloc 0 KNode 1 0); OEnd] in
    get_arena w 0 = Some ar0 /\ get_arena (fst (step w (ODropArena 1))) 0 = Some ar0' /\ ar0 = ar0'.
Proof. eexists. eexists. cbv zeta. split; [vm_compute; reflexivity|]. split; [vm_compute; reflexivity|reflexivity]. Qed.
