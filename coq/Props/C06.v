(** C06 — every documented write-barrier path makes adoption safe in every phase. *)
From GA Require Import Model.Spec Proofs.HeapLemmas Proofs.Inv Proofs.InvOps Proofs.InvMicroOps Proofs.InvBarrier Proofs.InvWorld Proofs.Safety.
Local Open Scope nat_scope.

(** Every micro-op of the mutator VM — in particular every adoption path: Gc::write / unlock and the
    Lock / RefLock / OnceLock setters (barrier-then-store, and OnceLock::set's store-then-barrier),
    root mutation, stash, the four explicit barriers with either optional argument, and the
    raw stores they license — preserves the whole collector invariant in every phase and every
    colour combination, and changes neither the phase nor the root flag. *)
Theorem C06_path_inv :
  forall w ar k m ar' hs out,
    Inv None (actx ar) -> cb_ok k (actx ar) -> micro w ar k m = (ar', hs, out) ->
    Inv None (actx ar') /\ stable (actx ar) (actx ar').
Proof. exact micro_inv. Qed.
Print Assumptions C06_path_inv.

(** Hence the invariant holds after every prefix of every operation sequence ... *)
Theorem C06_inv_always : forall ops, WInv (run world_init ops).
Proof. exact winv_reachable. Qed.
Print Assumptions C06_inv_always.

(** ... and the collection in progress (and every later one) treats the adopted target exactly
    as if the pointer had been there all along: once reachable, it is never destructed (C01). *)
Theorem C06_adopted_survives :
  forall ops a how fault ar w' r,
    get_arena (run world_init ops) a = Some ar ->
    step (run world_init ops) (OCollect a how fault) = (w', r) ->
    forall ev x, In ev (r_events r) -> mentions ev x -> ~ reach (actx ar) x.
Proof. intros ops a how fault ar w' r H S. exact (proj1 (collect_safe ops a how fault ar w' r H S)). Qed.
Print Assumptions C06_adopted_survives.

(** The general forms keep their strength until the callback ends: after a parent-only backward
    barrier (Gc::write) the parent is not a black traced object, whatever is stored into it. *)
Theorem C06_parent_barrier :
  forall c p po, Inv None c -> get c p = Some po ->
    Inv None (gc_write c p) /\ (ph c = Mark -> unblack (gc_write c p) p).
Proof. intros c p po I G. destruct (gc_write_inv c p po I G) as [A [_ [_ [_ [B _]]]]]. auto. Qed.
Print Assumptions C06_parent_barrier.

Theorem C06_child_barrier :
  forall c x xo, Inv None c -> get c x = Some xo -> live xo = true ->
    Inv None (forward_barrier c None x) /\ lic_ok (forward_barrier c None x) (LChild x).
Proof.
  intros c x xo I G L. destruct (forward_barrier_inv c None x xo I G L ltac:(discriminate)) as [A [_ [B _]]]. auto.
Qed.
Print Assumptions C06_child_barrier.

(** Objects born with contents ([Gc::new] of a value whose fields already hold pointers, [MAllocWith]):
    no barrier is involved -- the newborn is white, so no black object points at an unmarked one through
    it -- and the invariant, hence [C06_adopted_survives], covers whatever it was born holding: every
    pointer it holds was in the callback's hands (a register), i.e. strongly (weakly) usable. *)
Theorem C06_born_with_contents :
  forall w ar k r kd cs ws ar' hs out,
    Inv None (actx ar) -> cb_ok k (actx ar) -> micro w ar k (MAllocWith r kd cs ws) = (ar', hs, out) ->
    Inv None (actx ar')
    /\ forall i o, out = [Z.of_nat i] -> get (actx ar') i = Some o ->
         col o = White /\ live o = true
         /\ (forall t, In (Some t) (strong o) -> exists r', rg (actx ar) r' = Some t)
         /\ (forall t, In (Some t) (weak o) -> exists r', wrg (actx ar) r' = Some t).
Proof.
  intros w ar k r kd cs ws ar' hs out I CB E. split; [exact (proj1 (micro_inv _ _ _ _ _ _ _ I CB E))|].
  destruct ar as [c uid sets]. cbn [micro actx auid asets] in *.
  match type of E with context [init_obj ?kk ?ss ?ww] => destruct (init_obj kk ss ww) as [o0|] eqn:IO end.
  2:{ inversion E; subst. intros i o H. unfold SKIP in H. inversion H as [HI]. lia. }
  destruct (init_obj_props _ _ _ _ IO) as [P1 [P2 [_ [_ [_ [P4 P5]]]]]].
  inversion E; subst; clear E. cbn [actx]. intros i o H G. inversion H as [HI]. apply Nat2Z.inj in HI. subst i.
  unfold get in G. cbn [heap set_rg set_regs set_met set_lists set_heap] in G. rewrite hget_app_new in G. inversion G; subst o.
  repeat split; auto.
  - intros t Ht. apply P4 in Ht. apply in_map_rg in Ht. exact Ht.
  - intros t Ht. apply P5 in Ht. apply in_map_wrg in Ht. exact Ht.
Qed.
Print Assumptions C06_born_with_contents.

(** non-vacuity: while the arena is fully marked, a wrapper is born around a fresh (white) child and adopted by
    the (black) root object through [Gc::write]; the two full cycles that follow destruct neither. *)
Example C06_born_with_contents_example :
  let ops := [OBegin 0 CNew; OMicro (MAlloc 0 KNode 2 0); OEnd; OCollect 0 HFinishMarking None;
              OBegin 0 CMutate; OMicro (MLoadRoot 0 0); OMicro (MAlloc 4 KNode 1 0);
              OMicro (MAllocWith 3 KNode [Some 4; None; None] [None; None]); OMicro (MClear 4);
              OMicro (MStore 0 0 (Some 3)); OMicro (MClear 3); OEnd;
              OCollect 0 HFinishCycle None; OCollect 0 HFinishCycle None] in
  flat_map (fun wr => r_events (snd wr)) (run_trace world_init ops) = []
  /\ exists ar, get_arena (run world_init ops) 0 = Some ar /\ match get (actx ar) 2 with Some o => Some (strong o) | None => None end = Some [Some 1; None; None].
Proof. vm_compute. split; [reflexivity|]. eexists. split; reflexivity. Qed.
