(** C06 — every documented write-barrier path makes adoption safe in every phase. *)
From GA Require Import Model.Spec Proofs.Inv Proofs.InvOps Proofs.InvMicroOps Proofs.InvBarrier Proofs.InvWorld Proofs.Safety.
Local Open Scope nat_scope.

(** Every micro-op of the mutator VM — in particular every adoption path: Gc::write / unlock and the
    Lock / RefLock / OnceLock setters (barrier-then-store, and OnceLock::set's store-then-barrier),
    root mutation, stash, the four explicit barriers with either optional argument, and the
    raw stores they license — preserves the whole collector invariant in every phase and every
    colour combination, and changes neither the phase nor the root flag. *)
Theorem C06_path_inv :
  forall w ar k m ar' hs out,
    Inv None (actx ar) -> cb_ok k (actx ar) -> micro w ar k m = (ar', hs, out) ->
    Inv None (actx ar') /\ stable (actx ar) (actx ar').
Proof. exact micro_inv. Qed.
Print Assumptions C06_path_inv.

(** Hence the invariant holds after every prefix of every operation sequence ... *)
Theorem C06_inv_always : forall ops, WInv (run world_init ops).
Proof. exact winv_reachable. Qed.
Print Assumptions C06_inv_always.

(** ... and the collection in progress (and every later one) treats the adopted target exactly
    as if the pointer had been there all along: once reachable, it is never destructed (C01). *)
Theorem C06_adopted_survives :
  forall ops a how fault ar w' r,
    get_arena (run world_init ops) a = Some ar ->
    step (run world_init ops) (OCollect a how fault) = (w', r) ->
    forall ev x, In ev (r_events r) -> mentions ev x -> ~ reach (actx ar) x.
Proof. intros ops a how fault ar w' r H S. exact (proj1 (collect_safe ops a how fault ar w' r H S)). Qed.
Print Assumptions C06_adopted_survives.

(** The general forms keep their strength until the callback ends: after a parent-only backward
    barrier (Gc::write) the parent is not a black traced object, whatever is stored into it. *)
Theorem C06_parent_barrier :
  forall c p po, Inv None c -> get c p = Some po ->
    Inv None (gc_write c p) /\ (ph c = Mark -> unblack (gc_write c p) p).
Proof. intros c p po I G. destruct (gc_write_inv c p po I G) as [A [_ [_ [_ [B _]]]]]. auto. Qed.
Print Assumptions C06_parent_barrier.

Theorem C06_child_barrier :
  forall c x xo, Inv None c -> get c x = Some xo -> live xo = true ->
    Inv None (forward_barrier c None x) /\ lic_ok (forward_barrier c None x) (LChild x).
Proof.
  intros c x xo I G L. destruct (forward_barrier_inv c None x xo I G L ltac:(discriminate)) as [A [_ [B _]]]. auto.
Qed.
Print Assumptions C06_child_barrier.
