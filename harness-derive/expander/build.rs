//! Extracts everything except the proc-macro entry points from `$VERIF_REPO/derive/src/lib.rs`
//! (default /repo) into OUT_DIR/derive_src.rs, plus a wrapper `__verif_entry` that calls the
//! function registered by `decl_derive!([Collect, ...] => f)`.  Fails the build (= fails closed)
//! when the registration cannot be found.
use std::{env, fs, path::PathBuf};

fn is_proc_macro_attr(a: &syn::Attribute) -> bool {
    let p = a.path();
    p.is_ident("proc_macro") || p.is_ident("proc_macro_derive") || p.is_ident("proc_macro_attribute")
}

fn main() {
    println!("cargo:rerun-if-env-changed=VERIF_REPO");
    let repo = env::var("VERIF_REPO").unwrap_or_else(|_| "/repo".to_string());
    let src_path = PathBuf::from(&repo).join("derive/src/lib.rs");
    println!("cargo:rerun-if-changed={}", src_path.display());
    let text = fs::read_to_string(&src_path).expect("cannot read derive/src/lib.rs");
    let file = syn::parse_file(&text).expect("derive/src/lib.rs does not parse");
    let mut kept = Vec::new();
    let mut entry: Option<syn::Path> = None;
    for it in file.items {
        match &it {
            syn::Item::Macro(m) => {
                if m.mac.path.segments.last().map(|s| s.ident == "decl_derive").unwrap_or(false) {
                    // [Collect, attributes(collect)] => (attrs)* path
                    let toks: Vec<proc_macro2::TokenTree> = m.mac.tokens.clone().into_iter().collect();
                    let derives_collect = match toks.first() {
                        Some(proc_macro2::TokenTree::Group(g)) => {
                            matches!(g.stream().into_iter().next(), Some(proc_macro2::TokenTree::Ident(i)) if i == "Collect")
                        }
                        _ => false,
                    };
                    if derives_collect {
                        // the registered function is the trailing path: take the tokens after the
                        // last attribute group / `=>`
                        let mut start = 0;
                        for (i, t) in toks.iter().enumerate() {
                            match t {
                                proc_macro2::TokenTree::Group(_) => start = i + 1,
                                proc_macro2::TokenTree::Punct(p) if p.as_char() == '>' => start = i + 1,
                                _ => {}
                            }
                        }
                        let tail: proc_macro2::TokenStream = toks[start..].iter().cloned().collect();
                        entry = syn::parse2::<syn::Path>(tail).ok();
                    }
                }
                // other item-position macros are dropped
            }
            syn::Item::Fn(f) if f.attrs.iter().any(is_proc_macro_attr) => {}
            _ => kept.push(it),
        }
    }
    let out = PathBuf::from(env::var("OUT_DIR").unwrap()).join("derive_src.rs");
    let code = match entry {
        Some(entry) => quote::quote! {
            #(#kept)*
            pub fn __verif_entry(s: synstructure::Structure) -> proc_macro2::TokenStream {
                match synstructure::MacroResult::into_result(#entry(s)) {
                    Ok(t) => t,
                    Err(e) => e.to_compile_error(),
                }
            }
        },
        None => quote::quote! {
            compile_error!("c15-expander: no `decl_derive!([Collect, ..] => f)` registration found in derive/src/lib.rs");
        },
    };
    fs::write(&out, code.to_string()).unwrap();
}
