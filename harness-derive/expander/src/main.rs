//! c15-expander: runs the REAL `collect_derive` (source text taken from derive/src/lib.rs at build
//! time, see build.rs) on type definitions given as text, outside of rustc, and prints a normalised
//! description of what it emitted, in the same line format as ModelShow.v:
//!
//!   CASE <id> / class ok|errors|panic|toolerror / errs <kinds> / impl / igen .. / gclt .. /
//!   where .. / nt <expr> / arm <Variant> <N|U|X> binds=.. rest=.. traced=.. | notrace / noimpl /
//!   drop / dgen .. / dwhere .. | nodrop / END
//!
//! Everything the analysis does not recognise is printed as `unknown(..)` / `?`, so that the
//! comparison with the model fails (fail closed).
//!
//! Input file: cases separated by lines `//@@ CASE <id>`; each case is one struct/enum/union item.

#[allow(unused, dead_code, clippy::all)]
mod derive_src {
    include!(concat!(env!("OUT_DIR"), "/derive_src.rs"));
}

use std::collections::HashMap;
use std::panic::{catch_unwind, AssertUnwindSafe};
use syn::visit::Visit;

fn strip(s: &str) -> String {
    s.chars().filter(|c| !c.is_whitespace()).collect()
}
fn toks<T: quote::ToTokens>(t: &T) -> String {
    strip(&t.to_token_stream().to_string())
}
fn line(key: &str, items: &[String]) -> String {
    if items.is_empty() { key.to_string() } else { format!("{} {}", key, items.join(" ")) }
}

fn error_kind(msg: &str) -> &'static str {
    let m = msg;
    if m.contains("unsupported untagged union") { "union" }
    else if m.contains("multiple `#[collect]` attributes") { "dup_attr" }
    else if m.contains("multiple bounds specified") { "multi_bound" }
    else if m.contains("multiple `'gc` lifetimes specified") { "multi_gc" }
    else if m.contains("multiple modes specified") { "multi_mode" }
    else if m.contains("unknown option") { "unknown_option" }
    else if m.contains("is supported on a field") { "field_attr" }
    else if m.contains("not supported on enum variants") { "variant_attr" }
    else if m.contains("merge conflicting generic parameters") { "merge_conflict" }
    else if m.contains("requires a `#[collect(...)]` attribute") { "panic_missing_mode" }
    else if m.contains("multiple lifetime parameters") { "panic_lifetimes" }
    else if m.contains("explicit trait bound") || m.contains("Failed to parse gen_impl") { "panic_bound" }
    else { "syntax" }
}

fn norm_expr(e: &syn::Expr) -> String {
    match e {
        syn::Expr::Binary(b) => {
            let op = match b.op {
                syn::BinOp::Or(_) => "or",
                syn::BinOp::And(_) => "and",
                _ => return format!("unknown({})", toks(e)),
            };
            format!("{}({},{})", op, norm_expr(&b.left), norm_expr(&b.right))
        }
        syn::Expr::Lit(l) => match &l.lit {
            syn::Lit::Bool(b) => if b.value { "true".into() } else { "false".into() },
            _ => format!("unknown({})", toks(e)),
        },
        syn::Expr::Paren(p) => norm_expr(&p.expr),
        syn::Expr::Group(g) => norm_expr(&g.expr),
        syn::Expr::Path(p) => {
            if let Some(q) = &p.qself {
                let segs: Vec<String> = p.path.segments.iter().map(|s| s.ident.to_string()).collect();
                let n = segs.len();
                if n >= 2 && segs[n - 1] == "NEEDS_TRACE" && segs[n - 2] == "Collect" && q.position == n - 1 {
                    return format!("nt({})", toks(&*q.ty));
                }
            }
            format!("unknown({})", toks(e))
        }
        _ => format!("unknown({})", toks(e)),
    }
}

/// Collects, in source order, the arguments of `cc.trace(x)` / `Trace::trace(cc, x)` calls, resolving
/// `let a = b;` aliases.
struct TraceCalls {
    alias: HashMap<String, String>,
    calls: Vec<String>,
}
fn peel(e: &syn::Expr) -> Option<String> {
    match e {
        syn::Expr::Path(p) if p.qself.is_none() => p.path.get_ident().map(|i| i.to_string()),
        syn::Expr::Paren(p) => peel(&p.expr),
        syn::Expr::Group(g) => peel(&g.expr),
        syn::Expr::Reference(r) => peel(&r.expr),
        syn::Expr::Unary(u) if matches!(u.op, syn::UnOp::Deref(_)) => peel(&u.expr),
        _ => None,
    }
}
impl TraceCalls {
    fn resolve(&self, e: &syn::Expr) -> String {
        match peel(e) {
            Some(mut id) => {
                let mut n = 0;
                while let Some(t) = self.alias.get(&id) {
                    id = t.clone();
                    n += 1;
                    if n > 8 { break; }
                }
                id
            }
            None => "?".into(),
        }
    }
}
impl<'ast> Visit<'ast> for TraceCalls {
    fn visit_local(&mut self, l: &'ast syn::Local) {
        if let Some(init) = &l.init { self.visit_expr(&init.expr); }
        if let (syn::Pat::Ident(pi), Some(init)) = (&l.pat, &l.init) {
            let name = pi.ident.to_string();
            match peel(&init.expr) {
                Some(src) => {
                    let src = self.alias.get(&src).cloned().unwrap_or(src);
                    self.alias.insert(name, src);
                }
                None => { self.alias.insert(name, "?".into()); }
            }
        }
    }
    fn visit_expr_method_call(&mut self, m: &'ast syn::ExprMethodCall) {
        syn::visit::visit_expr_method_call(self, m);
        if m.method == "trace" && m.args.len() == 1 {
            let r = self.resolve(&m.args[0]);
            self.calls.push(r);
        }
    }
    fn visit_expr_call(&mut self, c: &'ast syn::ExprCall) {
        syn::visit::visit_expr_call(self, c);
        if let syn::Expr::Path(p) = &*c.func {
            if p.path.segments.last().map(|s| s.ident == "trace").unwrap_or(false) && c.args.len() == 2 {
                let r = self.resolve(&c.args[1]);
                self.calls.push(r);
            }
        }
    }
}

struct VariantFields {
    names: Vec<Option<String>>,
}

fn analyse_arm(arm: &syn::Arm, variants: &HashMap<String, VariantFields>) -> String {
    // pattern
    let mut binds: Vec<(String, String)> = vec![]; // (binding ident, field index or "?")
    let mut rest = false;
    let (vname, kind) = match &arm.pat {
        syn::Pat::Wild(_) => return "armwild".to_string(),
        syn::Pat::Struct(ps) => {
            let vname = ps.path.segments.last().map(|s| s.ident.to_string()).unwrap_or_default();
            rest = ps.rest.is_some();
            for fp in &ps.fields {
                let idx = match (&fp.member, variants.get(&vname)) {
                    (syn::Member::Named(id), Some(vf)) => vf.names.iter().position(|n| n.as_deref() == Some(&id.to_string())).map(|i| i.to_string()).unwrap_or("?".into()),
                    (syn::Member::Unnamed(i), _) => i.index.to_string(),
                    _ => "?".into(),
                };
                match &*fp.pat {
                    syn::Pat::Ident(pi) if pi.subpat.is_none() => binds.push((pi.ident.to_string(), idx)),
                    syn::Pat::Wild(_) => {}
                    _ => binds.push(("?".into(), idx)),
                }
            }
            (vname, "N")
        }
        syn::Pat::TupleStruct(pt) => {
            let vname = pt.path.segments.last().map(|s| s.ident.to_string()).unwrap_or_default();
            let mut pos = 0usize;
            let mut after_rest = false;
            for el in &pt.elems {
                match el {
                    syn::Pat::Rest(_) => { rest = true; after_rest = true; }
                    syn::Pat::Wild(_) => { pos += 1; }
                    syn::Pat::Ident(pi) if pi.subpat.is_none() => {
                        binds.push((pi.ident.to_string(), if after_rest { "?".into() } else { pos.to_string() }));
                        pos += 1;
                    }
                    _ => { binds.push(("?".into(), pos.to_string())); pos += 1; }
                }
            }
            (vname, "U")
        }
        syn::Pat::Path(pp) => (pp.path.segments.last().map(|s| s.ident.to_string()).unwrap_or_default(), "X"),
        syn::Pat::Ident(pi) => (pi.ident.to_string(), "X"),
        other => return format!("arm unknown({})", toks(other)),
    };
    let mut tc = TraceCalls { alias: HashMap::new(), calls: vec![] };
    if let Some((_, g)) = &arm.guard { return format!("arm {} unknown(guard {})", vname, toks(&**g)); }
    tc.visit_expr(&arm.body);
    let bmap: HashMap<String, String> = binds.iter().cloned().collect();
    let traced: Vec<String> = tc.calls.iter().map(|c| bmap.get(c).cloned().unwrap_or("?".into())).collect();
    let b: Vec<String> = binds.iter().map(|x| x.1.clone()).collect();
    format!("arm {} {} binds={} rest={} traced={}", vname, kind, b.join(","), rest as u8, traced.join(","))
}

fn analyse_collect_impl(im: &syn::ItemImpl, variants: &HashMap<String, VariantFields>, out: &mut Vec<String>) {
    out.push("impl".into());
    out.push(line("igen", &im.generics.params.iter().map(|p| toks(p)).collect::<Vec<_>>()));
    let mut gclt = "?".to_string();
    if let Some((_, path, _)) = &im.trait_ {
        if let Some(seg) = path.segments.last() {
            if let syn::PathArguments::AngleBracketed(ab) = &seg.arguments {
                if let Some(syn::GenericArgument::Lifetime(l)) = ab.args.first() { gclt = toks(l); }
            }
        }
    }
    out.push(line("gclt", &[gclt]));
    let preds: Vec<String> = im.generics.where_clause.as_ref().map(|w| w.predicates.iter().map(|p| toks(p)).collect()).unwrap_or_default();
    out.push(line("where", &preds));
    let mut nt = None;
    let mut arms: Option<Vec<String>> = None;
    let mut extra = vec![];
    for it in &im.items {
        match it {
            syn::ImplItem::Const(c) if c.ident == "NEEDS_TRACE" => nt = Some(norm_expr(&c.expr)),
            syn::ImplItem::Fn(f) if f.sig.ident == "trace" => {
                let mut v = vec![];
                let stmts = &f.block.stmts;
                let m = if stmts.len() == 1 {
                    match &stmts[0] {
                        syn::Stmt::Expr(syn::Expr::Match(m), _) => Some(m),
                        _ => None,
                    }
                } else { None };
                match m {
                    Some(m) if toks(&*m.expr) == "*self" => {
                        for a in &m.arms { v.push(analyse_arm(a, variants)); }
                    }
                    _ => v.push(format!("arm unknown({})", toks(&f.block))),
                }
                arms = Some(v);
            }
            other => extra.push(format!("unknown-impl-item({})", toks(other))),
        }
    }
    out.push(line("nt", &[nt.unwrap_or("default(true)".into())]));
    match arms {
        Some(v) => out.extend(v),
        None => out.push("notrace".into()),
    }
    out.extend(extra);
}

fn analyse_output(ts: proc_macro2::TokenStream, variants: &HashMap<String, VariantFields>) -> Vec<String> {
    let file: syn::File = match syn::parse2(ts.clone()) {
        Ok(f) => f,
        Err(e) => return vec![format!("class toolerror output-does-not-parse:{}", strip(&e.to_string()))],
    };
    let mut errors: Vec<String> = vec![];
    let mut collect: Option<Vec<String>> = None;
    let mut drop: Option<Vec<String>> = None;
    let mut unknown: Vec<String> = vec![];
    fn walk(items: &[syn::Item], variants: &HashMap<String, VariantFields>, errors: &mut Vec<String>,
            collect: &mut Option<Vec<String>>, drop: &mut Option<Vec<String>>, unknown: &mut Vec<String>) {
        for it in items {
            match it {
                syn::Item::Macro(m) if m.mac.path.segments.last().map(|s| s.ident == "compile_error").unwrap_or(false) => {
                    let msg = syn::parse2::<syn::LitStr>(m.mac.tokens.clone()).map(|l| l.value()).unwrap_or_default();
                    errors.push(error_kind(&msg).to_string());
                }
                syn::Item::Const(c) => {
                    if let syn::Expr::Block(b) = &*c.expr {
                        let inner: Vec<syn::Item> = b.block.stmts.iter().filter_map(|s| match s {
                            syn::Stmt::Item(i) => Some(i.clone()),
                            syn::Stmt::Macro(m) => Some(syn::Item::Macro(syn::ItemMacro { attrs: vec![], ident: None, mac: m.mac.clone(), semi_token: None })),
                            _ => None,
                        }).collect();
                        if inner.len() != b.block.stmts.len() { unknown.push(format!("unknown-stmt-in-const({})", toks(c))); }
                        walk(&inner, variants, errors, collect, drop, unknown);
                    } else { unknown.push(format!("unknown-item({})", toks(it))); }
                }
                syn::Item::Impl(im) => {
                    let tr = im.trait_.as_ref().and_then(|(_, p, _)| p.segments.last().map(|s| s.ident.to_string())).unwrap_or_default();
                    if tr == "Collect" && collect.is_none() {
                        let mut v = vec![]; analyse_collect_impl(im, variants, &mut v); *collect = Some(v);
                    } else if tr == "__MustNotImplDrop" && drop.is_none() {
                        let mut v = vec!["drop".to_string()];
                        v.push(line("dgen", &im.generics.params.iter().map(|p| toks(p)).collect::<Vec<_>>()));
                        let preds: Vec<String> = im.generics.where_clause.as_ref().map(|w| w.predicates.iter().map(|p| toks(p)).collect()).unwrap_or_default();
                        v.push(line("dwhere", &preds));
                        if !im.items.is_empty() { v.push("unknown-drop-items".into()); }
                        *drop = Some(v);
                    } else { unknown.push(format!("unknown-impl({})", tr)); }
                }
                syn::Item::ExternCrate(_) => {}
                other => unknown.push(format!("unknown-item({})", toks(other))),
            }
        }
    }
    walk(&file.items, variants, &mut errors, &mut collect, &mut drop, &mut unknown);
    let mut out = vec![];
    out.push(if collect.is_some() && errors.is_empty() { "class ok".to_string() } else { "class errors".to_string() });
    out.push(line("errs", &errors));
    match collect { Some(v) => out.extend(v), None => out.push("noimpl".into()) }
    match drop { Some(v) => out.extend(v), None => out.push("nodrop".into()) }
    out.extend(unknown);
    out
}

fn run_case(text: &str) -> Vec<String> {
    let di: syn::DeriveInput = match syn::parse_str(text) {
        Ok(d) => d,
        Err(e) => return vec![format!("class toolerror input-does-not-parse:{}", strip(&e.to_string()))],
    };
    let mut variants = HashMap::new();
    let names = |fs: &syn::Fields| VariantFields { names: fs.iter().map(|f| f.ident.as_ref().map(|i| i.to_string())).collect() };
    match &di.data {
        syn::Data::Struct(d) => { variants.insert(di.ident.to_string(), names(&d.fields)); }
        syn::Data::Enum(d) => { for v in &d.variants { variants.insert(v.ident.to_string(), names(&v.fields)); } }
        syn::Data::Union(_) => {}
    }
    // synstructure's decl_derive! wrapper
    let s = match synstructure::Structure::try_new(&di) {
        Ok(s) => s,
        Err(e) => return analyse_output(e.to_compile_error(), &variants),
    };
    let r = catch_unwind(AssertUnwindSafe(|| derive_src::__verif_entry(s)));
    match r {
        Ok(ts) => analyse_output(ts, &variants),
        Err(p) => {
            let msg = p.downcast_ref::<String>().cloned().or_else(|| p.downcast_ref::<&str>().map(|s| s.to_string())).unwrap_or_default();
            vec!["class panic".to_string(), line("errs", &[error_kind(&msg).to_string()])]
        }
    }
}

fn main() {
    let path = std::env::args().nth(1).expect("usage: c15-expander <cases file> [--dump]");
    let dump = std::env::args().any(|a| a == "--dump");
    let text = std::fs::read_to_string(&path).expect("cannot read cases file");
    std::panic::set_hook(Box::new(|_| {}));
    let mut cur: Option<(String, String)> = None;
    let mut cases: Vec<(String, String)> = vec![];
    for l in text.lines() {
        if let Some(id) = l.strip_prefix("//@@ CASE ") {
            if let Some(c) = cur.take() { cases.push(c); }
            cur = Some((id.trim().to_string(), String::new()));
        } else if let Some((_, body)) = cur.as_mut() {
            body.push_str(l); body.push('\n');
        }
    }
    if let Some(c) = cur.take() { cases.push(c); }
    let mut out = String::new();
    for (id, body) in &cases {
        out.push_str(&format!("CASE {}\n", id));
        if dump {
            if let Ok(di) = syn::parse_str::<syn::DeriveInput>(body) {
                if let Ok(s) = synstructure::Structure::try_new(&di) {
                    if let Ok(ts) = catch_unwind(AssertUnwindSafe(|| derive_src::__verif_entry(s))) {
                        out.push_str(&format!("// {}\n", ts));
                    }
                }
            }
        }
        for l in run_case(body) { out.push_str(&l); out.push('\n'); }
        out.push_str("END\n");
    }
    print!("{}", out);
    println!("DONE {}", cases.len());
}
