"""Seeded generator of type shapes for property C15 (derive(Collect)).

A *shape* is a JSON-like dict mirroring `shape` of /verif/coq-derive/ModelDerive.v:

  shape   = {name, attrs:[attr], generics:[gparam], where:[str], data}
  attr    = {path, args}            args = None (#[p]) | 'eq' (#[p = ..]) | {items:[item], trailing:bool}
  item    = {path, tail}            tail = None | {'str': bound} | {'lt': name} | 'other' | 'group'
  bound   = '' | {'where':[str]} | 'malformed'
  gparam  = {kind:'lt'|'ty'|'const', name, bounds|ty}
  data    = {kind:'struct', fk:'named'|'unnamed'|'unit', fields:[field]}
          | {kind:'enum', variants:[{name, attrs, fk, fields}]} | {kind:'union', fields:[field]}
  field   = {name|None, attrs, ty}
  ty      = {path:[seg], lts:[name], args:[ty]} | {tuple:[ty]} | {ref:name|None, inner:ty}
          | {array:ty, len:str} | {macro:str} | {other:str, idents:[str]}

Renderers: to_rust (source text fed to the real derive / to the expander), to_coq (Gallina term),
ty_str (whitespace-free text, identical to ModelShow.show_ty).

Two generators:
  gen_corpus(seed, n)     positive shapes + instantiations + value constructors with pointer tokens
                          (compiled and run against the real derive)
  gen_token_shapes(seed,n) positive and negative shapes for the token-level comparison (expander)
"""
import random, copy

# ----------------------------------------------------------------------------------------------
# constructors
# ----------------------------------------------------------------------------------------------
def P(name, lts=(), args=()):
    segs = name.split("::") if isinstance(name, str) else list(name)
    return {"path": segs, "lts": list(lts), "args": list(args)}

def TUP(*elems): return {"tuple": list(elems)}
def REF(lt, inner): return {"ref": lt, "inner": inner}
def ARR(elem, n): return {"array": elem, "len": str(n)}

def item(path, tail=None): return {"path": path, "tail": tail}
def attr(path, items=None, trailing=False, args="list"):
    if args == "none": return {"path": path, "args": None}
    if args == "eq": return {"path": path, "args": "eq"}
    return {"path": path, "args": {"items": list(items or []), "trailing": trailing}}
def collect(*items, trailing=False): return attr("collect", items, trailing)
RS_ATTR = lambda: collect(item("require_static"))

def field(name, ty, attrs=()): return {"name": name, "attrs": list(attrs), "ty": ty}
def LT(name, bounds=""): return {"kind": "lt", "name": name, "bounds": bounds}
def TP(name, bounds=""): return {"kind": "ty", "name": name, "bounds": bounds}
def CP(name, ty="usize"): return {"kind": "const", "name": name, "ty": ty}

# ----------------------------------------------------------------------------------------------
# printing
# ----------------------------------------------------------------------------------------------
def strip(s): return "".join(s.split())

def ty_str(t):
    """Whitespace-free text; must agree with ModelShow.show_ty."""
    if "path" in t:
        inner = ["'" + l for l in t["lts"]] + [ty_str(a) for a in t["args"]]
        return "::".join(t["path"]) + ("<" + ",".join(inner) + ">" if inner else "")
    if "tuple" in t:
        inner = [ty_str(a) for a in t["tuple"]]
        if not inner: return "()"
        if len(inner) == 1: return "(" + inner[0] + ",)"
        return "(" + ",".join(inner) + ")"
    if "ref" in t:
        return "&" + ("'" + t["ref"] if t["ref"] else "") + ty_str(t["inner"])
    if "array" in t:
        return "[" + ty_str(t["array"]) + ";" + strip(t["len"]) + "]"
    if "macro" in t: return strip(t["macro"])
    return strip(t["other"])

def ty_rust(t):
    if "path" in t:
        inner = ["'" + l for l in t["lts"]] + [ty_rust(a) for a in t["args"]]
        return "::".join(t["path"]) + ("<" + ", ".join(inner) + ">" if inner else "")
    if "tuple" in t:
        inner = [ty_rust(a) for a in t["tuple"]]
        if len(inner) == 1: return "(" + inner[0] + ",)"
        return "(" + ", ".join(inner) + ")"
    if "ref" in t:
        return "&" + ("'" + t["ref"] + " " if t["ref"] else "") + ty_rust(t["inner"])
    if "array" in t:
        return "[" + ty_rust(t["array"]) + "; " + t["len"] + "]"
    if "macro" in t: return t["macro"]
    return t["other"]

def bound_text(b):
    if b == "": return ""
    if b == "malformed": return "T: Oops"       # does not start with `where`: gen_impl cannot parse it
    return "where " + ", ".join(b["where"])

def item_rust(it):
    t = it["tail"]
    if t is None: return it["path"]
    if t == "other": return it["path"] + " = 17"
    if t == "group": return it["path"] + "(x)"
    if "str" in t: return '%s = "%s"' % (it["path"], bound_text(t["str"]))
    if "lt" in t: return "%s = '%s" % (it["path"], t["lt"])
    raise ValueError(t)

def attr_rust(a):
    if a["args"] is None: return "#[%s]" % a["path"]
    if a["args"] == "eq": return '#[%s = "x"]' % a["path"]
    items = [item_rust(i) for i in a["args"]["items"]]
    return "#[%s(%s%s)]" % (a["path"], ", ".join(items), "," if a["args"]["trailing"] else "")

def gparam_rust(g):
    if g["kind"] == "lt": return "'" + g["name"] + (": " + g["bounds"] if g["bounds"] else "")
    if g["kind"] == "ty": return g["name"] + (": " + g["bounds"] if g["bounds"] else "")
    return "const %s: %s" % (g["name"], g["ty"])

def fields_rust(fk, fields, indent, vis="pub "):
    pad = " " * indent
    if fk == "unit": return ""
    parts = []
    for f in fields:
        a = "".join(attr_rust(x) + " " for x in f["attrs"])
        if fk == "named": parts.append("%s%s%s%s: %s" % (pad, a, vis, f["name"], ty_rust(f["ty"])))
        else: parts.append("%s%s%s%s" % (pad, a, vis, ty_rust(f["ty"])))
    body = ",\n".join(parts)
    if fk == "named": return " {\n" + body + ("\n" if parts else "") + " " * (indent - 4) + "}"
    return "(\n" + body + ("\n" if parts else "") + " " * (indent - 4) + ")"

def generics_rust(gs):
    return "<" + ", ".join(gparam_rust(g) for g in gs) + ">" if gs else ""

def where_rust(ws):
    return " where " + ", ".join(ws) if ws else ""

def to_rust(s, derive=True, vis="pub "):
    """The item as source text.  With derive=True it carries #[derive(Collect)]."""
    out = []
    if derive: out.append("#[derive(Collect)]")
    for a in s["attrs"]: out.append(attr_rust(a))
    d = s["data"]
    head = "%s%s %s%s" % (vis, d["kind"], s["name"], generics_rust(s["generics"]))
    w = where_rust(s["where"])
    if d["kind"] == "struct":
        fk = d["fk"]
        if fk == "unit": out.append(head + w + ";")
        elif fk == "named": out.append(head + w + fields_rust(fk, d["fields"], 4, vis))
        else: out.append(head + fields_rust(fk, d["fields"], 4, vis) + w + ";")
    elif d["kind"] == "union":
        out.append(head + w + fields_rust("named", d["fields"], 4, vis))
    else:
        vs = []
        for v in d["variants"]:
            a = "".join("    " + attr_rust(x) + "\n" for x in v["attrs"])
            vs.append(a + "    " + v["name"] + fields_rust(v["fk"], v["fields"], 8, ""))
        out.append(head + w + " {\n" + ",\n".join(vs) + ("\n" if vs else "") + "}")
    return "\n".join(out)

# ---- Coq ----
def cstr(s): return '"' + s.replace('"', '""') + '"'
def clist(xs): return "[" + "; ".join(xs) + "]"

def ty_coq(t):
    if "path" in t:
        return "(TyPath %s %s %s)" % (clist(map(cstr, t["path"])), clist(map(cstr, t["lts"])), clist(map(ty_coq, t["args"])))
    if "tuple" in t: return "(TyTuple %s)" % clist(map(ty_coq, t["tuple"]))
    if "ref" in t: return "(TyRef %s %s)" % ("(Some %s)" % cstr(t["ref"]) if t["ref"] else "None", ty_coq(t["inner"]))
    if "array" in t: return "(TyArray %s %s)" % (ty_coq(t["array"]), cstr(t["len"]))
    if "macro" in t: return "(TyMacro %s)" % cstr(t["macro"])
    return "(TyOther %s %s)" % (cstr(t["other"]), clist(map(cstr, t["idents"])))

def bound_coq(b):
    if b == "": return "BoundEmpty"
    if b == "malformed": return "BoundMalformed"
    return "(BoundWhere %s)" % clist(map(cstr, b["where"]))

def tail_coq(t):
    if t is None: return "TailNone"
    if t == "other": return "TailEqOther"
    if t == "group": return "TailGroup"
    if "str" in t: return "(TailEqStr %s)" % bound_coq(t["str"])
    return "(TailEqLifetime %s)" % cstr(t["lt"])

def attr_coq(a):
    if a["args"] is None: args = "ArgsNone"
    elif a["args"] == "eq": args = "ArgsEq"
    else:
        items = clist("{| mi_path := %s; mi_tail := %s |}" % (cstr(i["path"]), tail_coq(i["tail"])) for i in a["args"]["items"])
        args = "(ArgsList %s %s)" % (items, "true" if a["args"]["trailing"] else "false")
    return "{| a_path := %s; a_args := %s |}" % (cstr(a["path"]), args)

def field_coq(f):
    return "{| f_name := %s; f_attrs := %s; f_ty := %s |}" % (
        "(Some %s)" % cstr(f["name"]) if f["name"] else "None", clist(map(attr_coq, f["attrs"])), ty_coq(f["ty"]))

FK = {"named": "FNamed", "unnamed": "FUnnamed", "unit": "FUnit"}

def gparam_coq(g):
    if g["kind"] == "lt": return "(GLifetime %s %s)" % (cstr(g["name"]), cstr(g["bounds"]))
    if g["kind"] == "ty": return "(GType %s %s)" % (cstr(g["name"]), cstr(g["bounds"]))
    return "(GConst %s %s)" % (cstr(g["name"]), cstr(g["ty"]))

def to_coq(s):
    d = s["data"]
    if d["kind"] == "struct":
        data = "(DStruct %s %s)" % (FK[d["fk"]], clist(map(field_coq, d["fields"])))
    elif d["kind"] == "union":
        data = "DUnion"
    else:
        data = "(DEnum %s)" % clist(
            "{| v_name := %s; v_attrs := %s; v_kind := %s; v_fields := %s |}" % (
                cstr(v["name"]), clist(map(attr_coq, v["attrs"])), FK[v["fk"]], clist(map(field_coq, v["fields"])))
            for v in d["variants"])
    return "{| s_name := %s; s_attrs := %s; s_generics := %s; s_where := %s; s_data := %s |}" % (
        cstr(s["name"]), clist(map(attr_coq, s["attrs"])), clist(map(gparam_coq, s["generics"])),
        clist(map(cstr, s["where"])), data)

# ----------------------------------------------------------------------------------------------
# helpers on shapes
# ----------------------------------------------------------------------------------------------
def variants_of(s):
    d = s["data"]
    if d["kind"] == "struct":
        return [{"name": s["name"], "attrs": s["attrs"], "fk": d["fk"], "fields": d["fields"]}]
    if d["kind"] == "enum": return d["variants"]
    return []

def is_rs_attr(a):
    if a["path"] != "collect" or not isinstance(a["args"], dict): return False
    it = a["args"]["items"]
    return len(it) == 1 and not a["args"]["trailing"] and it[0]["path"] == "require_static" and it[0]["tail"] is None

def field_is_static(f): return any(is_rs_attr(a) for a in f["attrs"])

def mode_of(s):
    for a in s["attrs"]:
        if a["path"] == "collect" and isinstance(a["args"], dict):
            for it in a["args"]["items"]:
                if it["path"] in ("require_static", "no_drop", "unsafe_drop"): return it["path"]
    return None

def subst(t, lmap, tmap):
    """Substitute lifetime names and type parameters (a bare single-segment path)."""
    if "path" in t:
        if len(t["path"]) == 1 and not t["lts"] and not t["args"] and t["path"][0] in tmap:
            return copy.deepcopy(tmap[t["path"][0]])
        return {"path": list(t["path"]), "lts": [lmap.get(l, l) for l in t["lts"]], "args": [subst(a, lmap, tmap) for a in t["args"]]}
    if "tuple" in t: return {"tuple": [subst(a, lmap, tmap) for a in t["tuple"]]}
    if "ref" in t: return {"ref": lmap.get(t["ref"], t["ref"]) if t["ref"] else None, "inner": subst(t["inner"], lmap, tmap)}
    if "array" in t:
        return {"array": subst(t["array"], lmap, tmap), "len": tmap.get("const:" + t["len"], t["len"])}
    return copy.deepcopy(t)

# ----------------------------------------------------------------------------------------------
# the positive corpus (compiled + run)
# ----------------------------------------------------------------------------------------------
TOK = lambda: P("Tok")
def GC(lt): return P("Gc", [lt], [TOK()])
def WEAK(lt): return P("GcWeak", [lt], [TOK()])

class Tokens:
    """Allocates pointer-token ids; remembers where each was put."""
    def __init__(self): self.next = 1; self.where = {}
    def new(self, kind, tag):
        i = self.next; self.next += 1; self.where[i] = (kind, tag); return i

class Corpus:
    def __init__(self, seed, n, prefix="T", bias=None):
        """bias (directed search): {'mode': .., 'kind': ..} fixes those choices for every type."""
        self.bias = bias or {}
        self.rng = random.Random("c15-corpus-%s-%s" % (seed, sorted(self.bias.items())) if bias else "c15-corpus-%s" % seed)
        self.types = []          # entries: dict(shape, gc, insts, nestable)
        self.by_name = {}
        self.prefix = prefix
        for i in range(n):
            e = self.gen_type(i)
            self.types.append(e); self.by_name[e["shape"]["name"]] = e

    # ---- field types --------------------------------------------------------------------
    def leaf_static(self):
        return self.rng.choice([P("u32"), P("bool"), P("String"), TUP(), P("StC"), P("u8"), P("PhantomData", [], [P("u32")])])

    def gen_field_ty(self, gc, params, depth=0, want_ptr=None):
        """A field type that is Collect; gc = name of the gc lifetime or None; params = type params."""
        r = self.rng
        choices = []
        if gc: choices += ["gc"] * 4 + ["weak"] * 2
        if params: choices += ["param"] * 3
        choices += ["static"] * 3
        if depth < 2: choices += ["vec", "opt", "box", "tuple", "array", "result"] * 1 + ["vec", "opt"]
        if depth < 1 and self.nestable(gc): choices += ["nested"] * 2
        if want_ptr is True and gc: choices = [c for c in choices if c != "static"] or choices
        c = r.choice(choices)
        sub = lambda: self.gen_field_ty(gc, params, depth + 1)
        if c == "gc": return GC(gc)
        if c == "weak": return WEAK(gc)
        if c == "param": return P(r.choice(params))
        if c == "static": return self.leaf_static()
        if c == "vec": return P("Vec", [], [sub()])
        if c == "opt": return P("Option", [], [sub()])
        if c == "box": return P("Box", [], [sub()])
        if c == "result": return P("Result", [], [sub(), sub()])
        if c == "tuple": return TUP(*[sub() for _ in range(r.choice([1, 2, 2, 3]))])
        if c == "array": return ARR(sub(), r.choice([1, 2, 3]))
        if c == "nested":
            e = r.choice(self.nestable(gc))
            sh = e["shape"]
            lts, args = [], []
            for g in sh["generics"]:
                if g["kind"] == "lt": lts.append(gc if g["name"] == e["gc"] else "static")
                elif g["kind"] == "ty": args.append(self.gen_field_ty(gc, params, depth + 1))
            t = P(sh["name"], lts, args)
            if any(g["kind"] == "const" for g in sh["generics"]): return self.leaf_static()
            return t
        raise AssertionError(c)

    def nestable(self, gc):
        return [e for e in self.types if e["nestable"] and (gc or not e["gc"])]

    def static_field_ty(self, lifetimes):
        """Type for a #[collect(require_static)] field: 'static, need not be Collect."""
        r = self.rng
        opts = [P("St"), P("St"), P("u32"), P("String"), P("Vec", [], [P("St")]), TUP(P("St"), P("u8")),
                P("Option", [], [P("St")]), REF("static", P("str"))]
        return r.choice(opts)

    # ---- one type -------------------------------------------------------------------------
    def gen_type(self, idx):
        r = self.rng
        name = "%s%d" % (self.prefix, idx)
        mode = r.choices(["no_drop", "unsafe_drop", "require_static"], [6, 2, 1])[0]
        kind = r.choices(["named", "unnamed", "unit", "enum"], [4, 3, 1, 5])[0]
        mode = self.bias.get("mode", mode)
        kind = self.bias.get("kind", kind)
        # generics
        gcname = None; generics = []; lifetimes = []
        explicit_gc = False
        if mode != "require_static":
            nl = r.choices([0, 1, 2], [2, 6, 2])[0]
            if nl >= 1:
                gcname = r.choice(["gc", "gc", "g", "arena"])
                lifetimes = [gcname]
                if nl == 2:
                    other = r.choice(["a", "b"])
                    lifetimes = [gcname, other] if r.random() < 0.6 else [other, gcname]
                    explicit_gc = True
                elif r.random() < 0.15:
                    explicit_gc = True
        params = []
        np_ = r.choices([0, 1, 2], [5, 3, 2])[0]
        if mode == "require_static": np_ = 0
        params = ["A", "B"][:np_]
        own_where = []
        pbounds = {}
        gclt_for_bounds = gcname or "gc"
        bound_mode = "none"
        if params:
            bound_mode = r.choices(["none", "bound_where", "bound_empty_own_where", "bound_empty_param_bound"], [5, 2, 1, 1])[0]
            if gcname is None and bound_mode != "none":
                bound_mode = "none"      # without a lifetime on the type, 'gc is only in scope inside the impl
        for l in lifetimes: generics.append(LT(l))
        for p in params:
            b = ""
            if bound_mode == "bound_empty_param_bound": b = "Collect<'%s>" % gclt_for_bounds
            elif r.random() < 0.2: b = "Clone"
            generics.append(TP(p, b))
        use_const = (mode != "require_static" and gcname and not params and r.random() < 0.06)
        if use_const: generics.append(CP("N"))
        if bound_mode == "bound_empty_own_where":
            own_where = ["%s: Collect<'%s>" % (p, gclt_for_bounds) for p in params]
        elif params and r.random() < 0.15 and gcname:
            own_where = ["%s: '%s" % (params[0], gcname)]
        # attribute
        items = [item(mode)]
        if bound_mode == "bound_where":
            ws = ["%s: Collect<'%s>" % (p, gclt_for_bounds) for p in params]
            if r.random() < 0.3: ws[0] += " + Clone" if "Clone" in generics[len(lifetimes)]["bounds"] else ""
            items.append(item("bound", {"str": {"where": ws}}))
        elif bound_mode in ("bound_empty_own_where", "bound_empty_param_bound"):
            items.append(item("bound", {"str": ""}))
        elif mode == "require_static" and r.random() < 0.2:
            items.append(item("bound", {"str": ""}))          # ignored in this mode
        if explicit_gc: items.append(item("gc_lifetime", {"lt": gcname}))
        r.shuffle(items)
        attrs = []
        if r.random() < 0.3: attrs.append(attr("allow", [item("dead_code")]))
        attrs.append(collect(*items, trailing=(r.random() < 0.1)))
        if r.random() < 0.15: attrs.append(attr("allow", [item("unused")]))

        # fields
        second_lt = [l for l in lifetimes if l != gcname]
        def gen_fields(fk, nmin=0):
            if fk == "unit": return []
            n = r.choices([0, 1, 2, 3, 4, 5], [1, 4, 5, 4, 2, 1])[0]
            n = max(n, nmin)
            fs = []
            for i in range(n):
                nm = "f%d" % i if fk == "named" else None
                fattrs = []
                if r.random() < 0.08: fattrs.append(attr("allow", [item("dead_code")]))
                if mode == "require_static":
                    ty = self.static_field_ty(lifetimes)
                    if r.random() < 0.15: fattrs.append(RS_ATTR())
                    elif r.random() < 0.05: fattrs.append(collect(item("whatever")))    # never looked at in this mode
                elif r.random() < 0.28:
                    ty = self.static_field_ty(lifetimes); fattrs.append(RS_ATTR())
                else:
                    ty = self.gen_field_ty(gcname, params)
                    if use_const and r.random() < 0.5: ty = ARR(ty, "N")
                    if r.random() < 0.05: fattrs.append(collect())                       # #[collect()]: traced
                if r.random() < 0.05: fattrs.append(attr("doc", args="eq"))
                fs.append(field(nm, ty, fattrs))
            return fs
        def use_all(fieldlists):
            """Make sure every lifetime / type parameter is mentioned (rustc E0392)."""
            flat = [f for fl in fieldlists for f in fl]
            used_ids = set(i for f in flat for i in idents(f["ty"]))
            extra = []
            for l in lifetimes:
                if l not in used_ids:
                    if l == gcname: extra.append(GC(l) if r.random() < 0.5 else P("PhantomData", [], [REF(l, P("u8"))]))
                    elif gcname and r.random() < 0.5: extra.append(P("Gc", [gcname], [REF(l, P("u8"))]))
                    else: extra.append(P("PhantomData", [], [REF(l, P("u8"))]))
            for p in params:
                used = any(p in idents(f["ty"]) for f in flat)
                if not used: extra.append(r.choice([P(p), P("Vec", [], [P(p)]), P("PhantomData", [], [P(p)])]))
            if use_const and not any(("%s;N]" % "") in ty_str(f["ty"]) for f in flat): extra.append(ARR(P("u8"), "N"))
            return extra
        if kind == "enum":
            nv = r.choices([0, 1, 2, 3, 4], [1, 3, 5, 4, 2])[0]
            if (lifetimes or params or use_const) and nv == 0: nv = 1
            variants = []
            for vi in range(nv):
                fk = r.choice(["named", "unnamed", "unit"])
                variants.append({"name": "V%d" % vi, "attrs": ([attr("allow", [item("dead_code")])] if r.random() < 0.1 else []),
                                 "fk": fk, "fields": gen_fields(fk)})
            extra = use_all([v["fields"] for v in variants])
            if extra:
                tgt = [v for v in variants if v["fk"] != "unit"]
                if not tgt:
                    variants[0]["fk"] = "unnamed"; tgt = [variants[0]]
                for t in extra:
                    v = r.choice(tgt)
                    v["fields"].insert(r.randint(0, len(v["fields"])), field(None, t))
                for v in variants:
                    for i, f in enumerate(v["fields"]):
                        f["name"] = ("f%d" % i) if v["fk"] == "named" else None
            data = {"kind": "enum", "variants": variants}
        else:
            fs = gen_fields(kind)
            extra = use_all([fs])
            if extra and kind == "unit": kind = "unnamed"
            for t in extra: fs.insert(r.randint(0, len(fs)), field(None, t))
            for i, f in enumerate(fs): f["name"] = ("f%d" % i) if kind == "named" else None
            data = {"kind": "struct", "fk": kind, "fields": fs}
        shape = {"name": name, "attrs": attrs, "generics": generics, "where": own_where, "data": data}
        has_drop = (mode == "unsafe_drop" and r.random() < 0.6)
        e = {"shape": shape, "gc": gcname, "mode": mode, "has_drop": has_drop, "params": params,
             "lifetimes": lifetimes, "const": use_const,
             "nestable": (not use_const) and bool(variants_of(shape)) and not own_where
                         and all(not g.get("bounds") for g in generics)}
        e["insts"] = self.gen_insts(e)
        return e

    # ---- instantiations ---------------------------------------------------------------------
    def gen_insts(self, e):
        params = e["params"]
        tracing = [GC("gc"), TUP(GC("gc"), WEAK("gc")), P("Vec", [], [WEAK("gc")]), P("Option", [], [GC("gc")])]
        plain = [P("u32"), P("String"), P("StC"), TUP(P("u8"), P("bool"))]
        r = self.rng
        insts = []
        if not params: combos = [{}]
        elif len(params) == 1: combos = [{"A": r.choice(tracing)}, {"A": r.choice(plain)}]
        else:
            combos = [{"A": r.choice(tracing), "B": r.choice(tracing)}, {"A": r.choice(plain), "B": r.choice(plain)},
                      {"A": r.choice(tracing), "B": r.choice(plain)}, {"A": r.choice(plain), "B": r.choice(tracing)}]
        for tm in combos:
            lm = {l: ("gc" if l == e["gc"] else "static") for l in e["lifetimes"]}
            tm = dict(tm)
            if e["const"]: tm["const:N"] = "2"
            insts.append({"lmap": lm, "tmap": tm})
        return insts

    def inst_self_ty(self, e, inst):
        sh = e["shape"]
        lts = [inst["lmap"][g["name"]] for g in sh["generics"] if g["kind"] == "lt"]
        args = [inst["tmap"][g["name"]] for g in sh["generics"] if g["kind"] == "ty"]
        s = sh["name"]
        inner = ["'" + l for l in lts] + [ty_rust(a) for a in args] + [inst["tmap"]["const:" + g["name"]] for g in sh["generics"] if g["kind"] == "const"]
        return s + ("<" + ", ".join(inner) + ">" if inner else "")

    # ---- values -------------------------------------------------------------------------------
    def build(self, t, tk, tag, sparse, r):
        """(expr, [token ids in the order a correct trace reports them]) for a concrete type."""
        if "tuple" in t:
            parts = [self.build(x, tk, tag, sparse, r) for x in t["tuple"]]
            ex = "(" + ", ".join(p[0] for p in parts) + ("," if len(parts) == 1 else "") + ")"
            return ex, [i for p in parts for i in p[1]]
        if "array" in t:
            n = int(t["len"])
            parts = [self.build(t["array"], tk, tag, sparse, r) for _ in range(n)]
            return "[" + ", ".join(p[0] for p in parts) + "]", [i for p in parts for i in p[1]]
        if "ref" in t:
            inner = ty_str(t["inner"])
            return ('"s"' if inner == "str" else "&7u8"), []
        head = t["path"][-1]
        a = t["args"]
        if head == "Gc":
            i = tk.new("s", tag)
            if ty_str(a[0]) == "Tok": return "t.gc(%d)" % i, [i]
            return "t.gc_with(%d, %s)" % (i, self.build(a[0], tk, tag, sparse, r)[0]), [i]
        if head == "GcWeak":
            i = tk.new("w", tag); return "t.weak(%d)" % i, [i]
        if head in ("u32", "u8"): return "7", []
        if head == "bool": return "true", []
        if head == "String": return "String::new()", []
        if head in ("St", "StC", "Tok"): return head + ("(0)" if head == "Tok" else ""), []
        if head == "PhantomData": return "PhantomData", []
        if head == "Vec":
            n = r.choice([0, 1]) if sparse else r.choice([1, 2, 2, 3])
            parts = [self.build(a[0], tk, tag, sparse, r) for _ in range(n)]
            return "vec![" + ", ".join(p[0] for p in parts) + "]", [i for p in parts for i in p[1]]
        if head == "Option":
            if sparse and r.random() < 0.5: return "None", []
            p = self.build(a[0], tk, tag, sparse, r); return "Some(%s)" % p[0], p[1]
        if head == "Box":
            p = self.build(a[0], tk, tag, sparse, r); return "Box::new(%s)" % p[0], p[1]
        if head == "Result":
            if r.random() < 0.5:
                p = self.build(a[0], tk, tag, sparse, r); return "Ok(%s)" % p[0], p[1]
            p = self.build(a[1], tk, tag, sparse, r); return "Err(%s)" % p[0], p[1]
        if head in self.by_name:
            e = self.by_name[head]; sh = e["shape"]
            lnames = [g["name"] for g in sh["generics"] if g["kind"] == "lt"]
            pnames = [g["name"] for g in sh["generics"] if g["kind"] == "ty"]
            lm = dict(zip(lnames, t["lts"])); tm = dict(zip(pnames, a))
            vs = variants_of(sh)
            vi = r.randrange(len(vs))
            return self.build_variant(e, vs[vi], lm, tm, tk, tag, sparse, r, nested=True)
        raise AssertionError("cannot build " + ty_str(t))

    def build_variant(self, e, v, lm, tm, tk, tag, sparse, r, nested=False, tag_fields=False):
        """Value of variant v of corpus type e. Returns (expr, tokens in trace order)."""
        sh = e["shape"]
        path = sh["name"] if sh["data"]["kind"] == "struct" else "%s::%s" % (sh["name"], v["name"])
        toks, parts = [], []
        for fi, f in enumerate(v["fields"]):
            ft = subst(f["ty"], lm, tm)
            ftag = (tag[0], fi) if tag_fields else tag
            ex, tl = self.build(ft, tk, ftag, sparse, r)
            static = field_is_static(f) or e["mode"] == "require_static"
            assert not (static and tl), "static field holds pointers"
            toks += tl
            parts.append(("%s: %s" % (f["name"], ex)) if v["fk"] == "named" else ex)
        if v["fk"] == "unit": return path, toks
        if v["fk"] == "named": return path + " { " + ", ".join(parts) + " }", toks
        return path + "(" + ", ".join(parts) + ")", toks


def idents(t):
    if "path" in t: return list(t["path"]) + list(t["lts"]) + [i for a in t["args"] for i in idents(a)]
    if "tuple" in t: return [i for a in t["tuple"] for i in idents(a)]
    if "ref" in t: return ([t["ref"]] if t["ref"] else []) + idents(t["inner"])
    if "array" in t: return idents(t["array"])
    if "macro" in t: return []
    return list(t["idents"])


PRELUDE = r'''
#![allow(unused, dead_code, non_snake_case, non_camel_case_types, clippy::all)]
use gc_arena::{Collect, Gc, GcWeak, Mutation};
use gc_arena::collect::Trace;
use std::cell::RefCell;
use std::collections::HashMap;
use std::marker::PhantomData;
use std::fmt::Write as _;

/// 'static and NOT Collect: only usable under require_static.
pub struct St;
/// 'static and Collect (hand-written impl, independent of the derive under test).
#[derive(Clone)]
pub struct StC;
unsafe impl<'gc> Collect<'gc> for StC { const NEEDS_TRACE: bool = false; }
/// Pointee of every token pointer.
pub struct Tok(pub u32);
unsafe impl<'gc> Collect<'gc> for Tok { const NEEDS_TRACE: bool = false; }

pub struct Toks<'gc> { mc: &'gc Mutation<'gc>, map: RefCell<HashMap<usize, u32>> }
impl<'gc> Toks<'gc> {
    pub fn new(mc: &'gc Mutation<'gc>) -> Self { Toks { mc, map: RefCell::new(HashMap::new()) } }
    pub fn gc(&self, id: u32) -> Gc<'gc, Tok> {
        let g = Gc::new(self.mc, Tok(id));
        self.map.borrow_mut().insert(Gc::as_ptr(g) as *const () as usize, id);
        g
    }
    pub fn gc_with<T: Collect<'gc> + 'gc>(&self, id: u32, v: T) -> Gc<'gc, T> {
        let g = Gc::new(self.mc, v);
        self.map.borrow_mut().insert(Gc::as_ptr(g) as *const () as usize, id);
        g
    }
    pub fn weak(&self, id: u32) -> GcWeak<'gc, Tok> { Gc::downgrade(self.gc(id)) }
    fn lookup(&self, addr: usize) -> u32 { *self.map.borrow().get(&addr).unwrap_or(&999_999) }
}

/// The recording implementation of the public `Trace` trait.
pub struct Rec<'a, 'gc> { toks: &'a Toks<'gc>, seq: Vec<(char, u32)> }
impl<'a, 'gc> Trace<'gc> for Rec<'a, 'gc> {
    fn trace_gc(&mut self, gc: Gc<'gc, ()>) {
        let id = self.toks.lookup(Gc::as_ptr(gc) as usize); self.seq.push(('s', id));
    }
    fn trace_gc_weak(&mut self, gc: GcWeak<'gc, ()>) {
        let id = self.toks.lookup(GcWeak::as_ptr(gc) as usize); self.seq.push(('w', id));
    }
}

pub struct Out(pub String);
impl Out {
    pub fn nt(&mut self, ty: u32, inst: u32, v: bool) { writeln!(self.0, "N {} {} {}", ty, inst, v as u8).unwrap(); }
    pub fn atom(&mut self, ty: u32, inst: u32, var: u32, fld: u32, v: bool) {
        writeln!(self.0, "A {} {} {} {} {}", ty, inst, var, fld, v as u8).unwrap();
    }
    /// Trace `v` twice: directly through `Collect::trace` (the derived body), and through
    /// `Trace::trace`, which is what the collector does (gated by NEEDS_TRACE).
    pub fn trace<'gc, C: Collect<'gc>>(&mut self, t: &Toks<'gc>, ty: u32, inst: u32, var: u32, run: u32, v: &C) {
        let mut r = Rec { toks: t, seq: vec![] };
        Collect::trace(v, &mut r);
        let mut g = Rec { toks: t, seq: vec![] };
        Trace::trace(&mut g, v);
        let f = |s: &Vec<(char, u32)>| s.iter().map(|(k, i)| format!("{}{}", k, i)).collect::<Vec<_>>().join(",");
        writeln!(self.0, "R {} {} {} {} direct={} gated={}", ty, inst, var, run, f(&r.seq), f(&g.seq)).unwrap();
    }
}
'''


def corpus_dependents(c, skip):
    """Close a set of type indices under 'is mentioned by a field of'."""
    skip = set(skip)
    names = {c.types[i]["shape"]["name"] for i in skip}
    changed = True
    while changed:
        changed = False
        for ti, e in enumerate(c.types):
            if ti in skip: continue
            ids = set(i for v in variants_of(e["shape"]) for f in v["fields"] for i in idents(f["ty"]))
            if ids & names:
                skip.add(ti); names.add(e["shape"]["name"]); changed = True
    return skip


def render_corpus(c, skip=()):
    """Returns (rust source of the corpus program, expectations, line_map).

    expectations[ty_index] = None for skipped types, else
      {insts: [{self_ty, atoms: {"v.f": field type text}, runs: [{var, run, tokens, where, expr}]}]}
    line_map = [(first_line, last_line, ty_index)] of each type's block in the source (1-based).
    Deterministic: the random choices made here come from a generator seeded per type."""
    skip = set(skip)
    blocks = [(None, PRELUDE)]
    exp = []
    for ti, e in enumerate(c.types):
        if ti in skip:
            exp.append(None); continue
        rng = random.Random("c15-render-%s-%d" % (e["shape"]["name"], len(c.types)))
        sh = e["shape"]
        out = []
        out.append("// ---- %s" % sh["name"])
        out.append(to_rust(sh))
        if e["has_drop"]:
            out.append("impl%s Drop for %s%s%s { fn drop(&mut self) {} }" % (
                generics_rust(sh["generics"]), sh["name"],
                ("<" + ", ".join(("'" + g["name"]) if g["kind"] == "lt" else g["name"] for g in sh["generics"]) + ">") if sh["generics"] else "",
                where_rust(sh["where"])))
        body = []
        te = {"insts": []}
        vs = variants_of(sh)
        for ii, inst in enumerate(e["insts"]):
            self_ty = c.inst_self_ty(e, inst)
            ie = {"self_ty": self_ty, "atoms": {}, "runs": []}
            body.append("    out.nt(%d, %d, <%s as Collect<'gc>>::NEEDS_TRACE);" % (ti, ii, self_ty))
            for vi, v in enumerate(vs):
                for fi, f in enumerate(v["fields"]):
                    if e["mode"] == "require_static" or field_is_static(f): continue
                    ft = subst(f["ty"], inst["lmap"], inst["tmap"])
                    body.append("    out.atom(%d, %d, %d, %d, <%s as Collect<'gc>>::NEEDS_TRACE);" % (ti, ii, vi, fi, ty_rust(ft)))
                    ie["atoms"]["%d.%d" % (vi, fi)] = ty_str(f["ty"])
                seen_exprs = set()
                for run, sparse in enumerate([False, True]):
                    if sparse and rng.random() < 0.5: continue
                    tk = Tokens()
                    rr = random.Random(rng.random())
                    ex, toks = c.build_variant(e, v, inst["lmap"], inst["tmap"], tk, (vi, None), sparse, rr, tag_fields=True)
                    if ex in seen_exprs: continue
                    seen_exprs.add(ex)
                    body.append("    { let v: %s = %s; out.trace(t, %d, %d, %d, %d, &v); }" % (self_ty, ex, ti, ii, vi, run))
                    ie["runs"].append({"var": vi, "run": run, "tokens": toks, "where": {k: list(w) for k, w in tk.where.items()},
                                       "expr": ex})
            te["insts"].append(ie)
        out.append("pub fn run_%d<'gc>(t: &Toks<'gc>, out: &mut Out) {\n%s\n}" % (ti, "\n".join(body)))
        exp.append(te)
        blocks.append((ti, "\n\n".join(out)))
    calls = "\n".join("        run_%d(&t, &mut out);" % i for i in range(len(c.types)) if i not in skip)
    blocks.append((None, """
fn main() {
    let mut out = Out(String::new());
    gc_arena::arena::rootless_mutate(|mc| {
        let t = Toks::new(mc);
%s
    });
    print!("{}", out.0);
    println!("DONE %d");
}
""" % (calls, len(c.types) - len(skip))))
    src, line_map, line = "", [], 1
    for ti, text in blocks:
        text = text + "\n\n"
        n = text.count("\n")
        if ti is not None: line_map.append((line, line + n - 1, ti))
        src += text; line += n
    return src, exp, line_map


# ----------------------------------------------------------------------------------------------
# statistics for the evidence
# ----------------------------------------------------------------------------------------------
def distribution(shapes):
    from collections import Counter
    kinds, modes, nfields, rspos, gens, misc = Counter(), Counter(), Counter(), Counter(), Counter(), Counter()
    for s in shapes:
        d = s["data"]
        if d["kind"] == "struct": kinds["struct/" + d["fk"]] += 1
        elif d["kind"] == "enum":
            fks = sorted(set(v["fk"] for v in d["variants"]))
            kinds["enum/" + ("empty" if not fks else "+".join(fks))] += 1
            misc["enum_variants=%d" % len(d["variants"])] += 1
        else: kinds["union"] += 1
        modes[str(mode_of(s))] += 1
        nl = sum(1 for g in s["generics"] if g["kind"] == "lt"); nt = sum(1 for g in s["generics"] if g["kind"] == "ty")
        gens["lifetimes=%d,types=%d" % (nl, nt)] += 1
        for a in s["attrs"]:
            if a["path"] == "collect" and isinstance(a["args"], dict):
                for it in a["args"]["items"]:
                    if it["path"] == "bound": misc["bound_override"] += 1
                    if it["path"] == "gc_lifetime": misc["explicit_gc_lifetime"] += 1
        for v in variants_of(s):
            n = len(v["fields"]); nfields[n] += 1
            for i, f in enumerate(v["fields"]):
                if field_is_static(f):
                    pos = "only" if n == 1 else "first" if i == 0 else "last" if i == n - 1 else "middle"
                    rspos[pos] += 1
    return {"kinds": dict(kinds), "modes": dict(modes), "fields_per_variant": {str(k): v for k, v in sorted(nfields.items())},
            "require_static_position": dict(rspos), "generics": dict(gens), "misc": dict(misc)}


# ----------------------------------------------------------------------------------------------
# shapes for the token-level comparison (positive AND negative; never compiled by rustc)
# ----------------------------------------------------------------------------------------------
def gen_token_shapes(seed, n):
    r = random.Random("c15-token-%s" % seed)
    out = []
    cur = {"name": "S"}
    def rnd_ty(params, lts, depth=0):
        c = r.choice(["prim", "prim", "gc", "param", "vec", "tuple", "ref", "array", "path2", "macro", "other", "assoc", "selfref"] if depth < 2 else ["prim", "gc", "param", "selfref"])
        if c == "selfref":
            # a field type that mentions the derived type itself (recursive data: list cells, trees): by its own
            # name or as `Self`, bare or behind a pointer
            me = P(r.choice([cur["name"], cur["name"], "Self"]), list(lts) if r.random() < 0.7 else [], [])
            w = r.choice(["bare", "gc", "gc", "box", "opt"])
            if w == "bare": return me
            if w == "gc": return P(r.choice(["Gc", "GcWeak"]), [r.choice(lts)] if lts else ["gc"], [me])
            if w == "box": return P("Box", [], [me])
            return P("Option", [], [P("Gc", [r.choice(lts)] if lts else ["gc"], [me])])
        if c == "prim": return P(r.choice(["u8", "i32", "String", "NotCollect", "bool"]))
        if c == "gc": return P(r.choice(["Gc", "GcWeak"]), [r.choice(lts)] if lts else ["gc"], [rnd_ty(params, lts, depth + 1)])
        if c == "param": return P(r.choice(params)) if params else P("u16")
        if c == "vec": return P(r.choice(["Vec", "Option", "std::vec::Vec", "Box"]), [], [rnd_ty(params, lts, depth + 1)])
        if c == "tuple": return TUP(*[rnd_ty(params, lts, depth + 1) for _ in range(r.choice([0, 1, 2, 3]))])
        if c == "ref": return REF(r.choice(lts) if lts and r.random() < 0.7 else "static", rnd_ty(params, lts, depth + 1))
        if c == "array": return ARR(rnd_ty(params, lts, depth + 1), r.choice(["2", "N", "4"]))
        if c == "path2": return P("Result", [], [rnd_ty(params, lts, depth + 1), rnd_ty(params, lts, depth + 1)])
        if c == "macro": return {"macro": "my_ty!(%s)" % r.choice(["u8", "A", "x y"])}
        if c == "assoc":
            p = r.choice(params) if params else "X"
            return P([p, "Item"])
        p = r.choice(params) if params else "u8"
        return {"other": "fn(%s) -> u8" % p, "idents": [p, "u8"]}
    bad_items = [item("invalid_arg"), item("no_drop"), item("require_static", "other"), item("require_static", "group"),
                 item("bound", {"str": ""}), item("a::b")]
    for i in range(n):
        name = "S%d" % i
        cur["name"] = name
        nl = r.choices([0, 1, 2, 3], [3, 5, 2, 1])[0]
        lts = r.sample(["gc", "a", "b", "arena"], nl)
        params = r.sample(["A", "B", "T"], r.choices([0, 1, 2], [4, 4, 2])[0])
        generics = [LT(l) for l in lts] + [TP(p, r.choice(["", "", "Clone", "Copy + 'static"])) for p in params]
        if r.random() < 0.1: generics.append(CP("N"))
        own_where = r.choice([[], [], [], ["A: Clone"] if "A" in params else [], ["u8: Copy"]])
        # type-level attributes
        flavour = r.choices(["good", "nomode", "noattr", "twomodes", "dupattr", "unknown", "multibound", "multigc",
                             "badvalue", "noparen", "eq", "emptylist", "commaonly", "malformed_bound", "modevalue"],
                            [40, 3, 3, 4, 3, 3, 2, 2, 3, 2, 1, 2, 1, 2, 2])[0]
        mode = r.choice(["no_drop", "no_drop", "unsafe_drop", "require_static"])
        items = [item(mode)]
        if r.random() < 0.3:
            items.append(item("bound", {"str": r.choice(["", {"where": ["A: Collect<'gc>"]}, {"where": ["u8: Copy", "String: Clone"]}])}))
        if r.random() < 0.3 and lts: items.append(item("gc_lifetime", {"lt": r.choice(lts + ["zz"])}))
        r.shuffle(items)
        trailing = r.random() < 0.15
        attrs = [attr("derive", [item("Clone")])] if r.random() < 0.2 else []
        if flavour == "good": attrs.append(collect(*items, trailing=trailing))
        elif flavour == "nomode": attrs.append(collect(*[x for x in items if x["path"] != mode], trailing=False))
        elif flavour == "noattr": pass
        elif flavour == "twomodes":
            items.insert(r.randint(0, len(items)), item(r.choice(["no_drop", "unsafe_drop", "require_static"]))); attrs.append(collect(*items))
        elif flavour == "dupattr": attrs += [collect(*items), attr("repr", [item("C")]), collect(item("no_drop"))]
        elif flavour == "unknown":
            items.insert(r.randint(0, len(items)), item(r.choice(["nodrop", "static", "a::no_drop"]))); attrs.append(collect(*items))
        elif flavour == "multibound": attrs.append(collect(item(mode), item("bound", {"str": ""}), item("bound", {"str": ""})))
        elif flavour == "multigc": attrs.append(collect(item("gc_lifetime", {"lt": "gc"}), item(mode), item("gc_lifetime", {"lt": "gc"})))
        elif flavour == "badvalue":
            attrs.append(collect(item(mode), r.choice([item("bound", "other"), item("bound"), item("gc_lifetime", {"str": ""}), item("gc_lifetime"), item("bound", {"lt": "a"})])))
        elif flavour == "noparen": attrs.append(attr("collect", args="none"))
        elif flavour == "eq": attrs.append(attr("collect", args="eq"))
        elif flavour == "emptylist": attrs.append(collect())
        elif flavour == "commaonly": attrs.append(collect(trailing=True))
        elif flavour == "malformed_bound": attrs.append(collect(item(mode), item("bound", {"str": "malformed"})))
        elif flavour == "modevalue": attrs.append(collect(item(mode, r.choice(["other", "group"])), item("bound", {"str": ""})))
        def rnd_fields(fk):
            if fk == "unit": return []
            fs = []
            for j in range(r.choices([0, 1, 2, 3, 4], [1, 3, 4, 3, 2])[0]):
                fa = []
                x = r.random()
                if x < 0.25: fa.append(RS_ATTR())
                elif x < 0.29: fa.append(collect(r.choice(bad_items)))
                elif x < 0.31: fa += [RS_ATTR(), RS_ATTR()]
                elif x < 0.33: fa.append(collect(item("require_static"), trailing=True))
                elif x < 0.35: fa.append(collect(item("require_static"), item("require_static")))
                elif x < 0.37: fa.append(collect())
                elif x < 0.38: fa.append(attr("collect", args="none"))
                elif x < 0.39: fa.append(collect(item("foo"), item("require_static")))
                if r.random() < 0.1: fa.insert(0, attr("doc", args="eq"))
                fs.append(field("x%d" % j if fk == "named" else None, rnd_ty(params, lts), fa))
            return fs
        kind = r.choices(["struct", "enum", "union"], [5, 5, 0.3])[0]
        if kind == "struct":
            fk = r.choice(["named", "unnamed", "unit"]); data = {"kind": "struct", "fk": fk, "fields": rnd_fields(fk)}
        elif kind == "union":
            data = {"kind": "union", "fields": [field("u0", P("u8")), field("u1", P("u16"))]}
        else:
            vs = []
            for vi in range(r.choices([0, 1, 2, 3], [1, 3, 4, 3])[0]):
                fk = r.choice(["named", "unnamed", "unit"])
                va = []
                x = r.random()
                if x < 0.08: va.append(RS_ATTR())
                elif x < 0.11: va.append(collect(item("no_drop")))
                elif x < 0.13: va.append(attr("collect", args="none"))
                elif x < 0.2: va.append(attr("default", args="none"))
                vs.append({"name": "W%d" % vi, "attrs": va, "fk": fk, "fields": rnd_fields(fk)})
            data = {"kind": "enum", "variants": vs}
        out.append({"name": name, "attrs": attrs, "generics": generics, "where": own_where, "data": data})
    return out


def sanitize(s):
    """A rustc-compilable program with the same attribute structure, generics and field counts as
    shape `s`: every field type becomes `u8`; lifetimes / type parameters are kept alive by one
    extra PhantomData field. Used to confirm with rustc a verdict that depends only on attributes
    and generics (the macro-decided rejection clauses). Returns None for unions."""
    if s["data"]["kind"] == "union": return None
    t = copy.deepcopy(s)
    t["where"] = []
    for g in t["generics"]:
        if g["kind"] != "const": g["bounds"] = ""
    for a in t["attrs"]:
        if a["path"] == "collect" and isinstance(a["args"], dict):
            for it in a["args"]["items"]:
                if it["path"] == "bound" and isinstance(it["tail"], dict) and "str" in it["tail"] and it["tail"]["str"] != "malformed":
                    it["tail"] = {"str": ""}
    t["attrs"] = [a for a in t["attrs"] if a["path"] in ("collect",)]
    vs = variants_of(t) if t["data"]["kind"] == "enum" else [t["data"]]
    for v in vs:
        v["attrs"] = [a for a in v.get("attrs", []) if a["path"] == "collect"] if t["data"]["kind"] == "enum" else v.get("attrs", [])
        for f in v["fields"]:
            f["ty"] = P("u8"); f["attrs"] = [a for a in f["attrs"] if a["path"] == "collect"]
    keep = []
    for g in t["generics"]:
        if g["kind"] == "lt": keep.append(REF(g["name"], TUP()))
        elif g["kind"] == "ty": keep.append(P(g["name"]))
    if any(g["kind"] == "const" for g in t["generics"]):
        t["generics"] = [g for g in t["generics"] if g["kind"] != "const"]
    if keep:
        ph = P("::core::marker::PhantomData", [], [TUP(*keep)])
        tgt = [v for v in vs if v["fk"] != "unit"]
        if tgt:
            v = tgt[-1]
            v["fields"].append(field("zz_keep" if v["fk"] == "named" else None, ph))
        elif t["data"]["kind"] == "struct":
            t["data"]["fk"] = "unnamed"; t["data"]["fields"] = [field(None, ph)]
        else:
            t["data"]["variants"].append({"name": "ZzKeep", "attrs": [], "fk": "unnamed", "fields": [field(None, ph)]})
    return t
