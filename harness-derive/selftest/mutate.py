#!/usr/bin/env python3
"""Seeded mutations of derive/src/lib.rs for self-testing the C15 check (never applied to /repo).

usage:  mutate.py <scratch-repo> <name>|orig|list
  <scratch-repo> is a copy of /repo (cp -r /repo /verif/.build/scratch-derive, minus target/);
  the pristine text is always read from /repo/derive/src/lib.rs, the mutant is written to
  <scratch-repo>/derive/src/lib.rs.  Then:
     VERIF_REPO=<scratch-repo> python3 /verif/scripts/check.py C15 --tier quick
  Expected outcome per mutation: see /verif/notes/reports/derive-agent.md."""
import sys
SRC='/repo/derive/src/lib.rs'
DST=sys.argv[1].rstrip('/')+'/derive/src/lib.rs'
sys.argv=[sys.argv[0]]+sys.argv[2:]
NAMES=['filter_inverted','filter_none_false','seed_true','fold_and','skip_last','no_drop_guard','variant_attr_silent',
       'no_static_bound','first_variant_only','needs_trace_skips_first','two_lifetimes_pick_first','missing_mode_defaults',
       'second_mode_wins','field_attr_any','refactor_harmless','generics_bounds_both']
if sys.argv[1]=='list':
    print("\n".join(NAMES)); raise SystemExit(0)
s=open(SRC).read()
def rep(a,b,count=1):
    global s
    assert s.count(a)>=1, a
    s=s.replace(a,b,count)
m=sys.argv[1]
if m=='orig': pass
elif m=='filter_inverted': rep("                !static_binding\n","                static_binding\n")
elif m=='filter_none_false': rep("            Ok(None) => true,","            Ok(None) => false,")
elif m=='seed_true': rep("quote!(false).to_tokens(&mut needs_trace_expr);","quote!(true).to_tokens(&mut needs_trace_expr);")
elif m=='fold_and': rep("|| <#ty as ::gc_arena::Collect>::NEEDS_TRACE","&& <#ty as ::gc_arena::Collect>::NEEDS_TRACE")
elif m=='skip_last': rep("        // Likewise, this will skip any fields that have `#[collect(require_static)]`\n",
   "        for v in impl_struct.variants_mut() { let n = v.bindings().len(); if n > 0 { v.remove_binding(n - 1); } }\n")
elif m=='no_drop_guard': rep("let drop_impl = if mode == Mode::NoDrop {","let drop_impl = if false && mode == Mode::NoDrop {")
elif m=='variant_attr_silent': rep('''                        errors.push(syn::parse::Error::new_spanned(
                            attr.path(),
                            "`#[collect]` is not supported on enum variants",
                        ));''',"                        let _ = attr;")
elif m=='no_static_bound': rep("            impl_struct.add_where_predicate(syn::parse_quote! { #static_binding: 'static });","            let _ = static_binding;")
elif m=='first_variant_only': rep("        // Likewise, this will skip any fields that have `#[collect(require_static)]`\n",
   "        let mut first = true; impl_struct.filter_variants(|_| { let f = first; first = false; f });\n")
elif m=='needs_trace_skips_first': rep("            for b in v.bindings() {","            for b in v.bindings().iter().skip(1) {")
elif m=='two_lifetimes_pick_first': rep('''                    panic!(
                        "deriving `Collect` on a type with multiple lifetime parameters requires a `#[collect(gc_lifetime = ...)]` attribute"
                    );''',"                    gc_lifetime = Some(lt.lifetime.clone());")
elif m=='missing_mode_defaults': rep('''        panic!(
            "{}",
            "deriving `Collect` requires a `#[collect(...)]` attribute"
        );''',"        unreachable!()"); rep("let Some(mode) = mode else {","let Some(mode) = mode.or(Some(Mode::UnsafeDrop)) else {")
elif m=='second_mode_wins': rep('''            if mode.is_some() {
                return Err(usage_error(&meta, "multiple modes specified"));
            } else if''',"            if")
elif m=='field_attr_any': rep('''                    if meta.input.is_empty() && meta.path.is_ident("require_static") {''','''                    if true {''')
elif m=='refactor_harmless': 
    rep("let mut static_bindings = vec![];","let mut static_tys = vec![];"); s=s.replace("static_bindings.push","static_tys.push").replace("for static_binding in static_bindings {","for static_binding in static_tys {")
    rep("Only `#[collect(require_static)]` is supported on a field","only `#[collect(require_static)]` may be used on a field")
elif m=='generics_bounds_both': rep("impl_struct.add_bounds(AddBounds::Generics);","impl_struct.add_bounds(AddBounds::Both);")
else: raise SystemExit("unknown mutation "+m)
open(DST,'w').write(s)
print("applied",m)
